// mosnav: line-protocol probe for C15/C16 around mos-core's public API (symbol table + analysis).
// One JSON request per stdin line, one JSON reply per stdout line.
//
// {"cmd":"nav","files":{..},"entry":"main.asm","greedy":true,"queries":[[scope_nx,"a.b.c"],..]}
//   -> graph (nodes with parent, labelled children, has_data), the Analysis as far as it is observable through
//      `find` (every position of every file is asked), the real query_traversal_steps / query_steps_to_path of
//      the requested (scope, path) pairs, the source map (scope per emitting statement) and the segments' bytes.
use mos_core::codegen::{codegen, CodegenOptions, Definition, DefinitionLocation, DefinitionType, QueryTraversalStep};
use mos_core::parser::code_map::LineCol;
use mos_core::parser::source::{InMemoryParsingSource, ParsingSource};
use mos_core::parser::{parse, IdentifierPath};
use serde_json::{json, Map, Value};
use std::collections::BTreeMap;
use std::io::{BufRead, Write};
use std::panic::{catch_unwind, AssertUnwindSafe};
use std::path::Path;
use std::sync::{Arc, Mutex};

fn hex(b: &[u8]) -> String {
    let mut s = String::with_capacity(b.len() * 2);
    for x in b {
        s.push_str(&format!("{:02x}", x));
    }
    s
}

fn steps_json(steps: &[QueryTraversalStep]) -> Value {
    Value::Array(
        steps
            .iter()
            .map(|s| match s {
                QueryTraversalStep::Symbol(nx) => json!(["symbol", nx.index()]),
                QueryTraversalStep::Super(nx) => json!(["super", nx.index()]),
            })
            .collect(),
    )
}

fn cmd_nav(req: &Value) -> Value {
    let mut out = Map::new();
    let mut src = InMemoryParsingSource::new();
    let mut texts: BTreeMap<String, String> = BTreeMap::new();
    if let Some(files) = req.get("files").and_then(|f| f.as_object()) {
        for (k, v) in files {
            src = src.add(k.as_str(), v.as_str().unwrap_or(""));
            texts.insert(k.clone(), v.as_str().unwrap_or("").to_string());
        }
    }
    let entry = req.get("entry").and_then(|e| e.as_str()).unwrap_or("main.asm").to_string();
    let src: Arc<Mutex<dyn ParsingSource>> = src.into();
    let (tree, perr) = parse(Path::new(&entry), src);
    if !perr.is_empty() {
        out.insert("parse_errors".into(), json!(perr.iter().map(|d| d.message.clone()).collect::<Vec<_>>()));
        return Value::Object(out);
    }
    let tree = match tree {
        Some(t) => t,
        None => return Value::Object(out),
    };
    let mut opts = CodegenOptions::default();
    opts.enable_greedy_analysis = req.get("greedy").and_then(|b| b.as_bool()).unwrap_or(true);
    let (ctx, errs) = codegen(tree.clone(), opts);
    out.insert("errors".into(), json!(errs.iter().map(|d| d.message.clone()).collect::<Vec<_>>()));
    out.insert("ok".into(), json!(errs.is_empty()));
    let ctx = match ctx {
        Some(c) => c,
        None => return Value::Object(out),
    };
    let symbols = ctx.symbols();
    // ---- graph
    let mut nodes = vec![];
    for nx in symbols.indices() {
        let mut ch: Vec<(String, usize)> = symbols
            .children(nx)
            .into_iter()
            .map(|(id, t)| (id.to_string(), t.index()))
            .collect();
        ch.sort();
        nodes.push(json!({
            "nx": nx.index(),
            "parent": symbols.parent(nx).map(|p| p.index()),
            "children": ch,
            "has_data": symbols.try_get(nx).is_some(),
        }));
    }
    out.insert("root".into(), json!(symbols.root.index()));
    out.insert("nodes".into(), Value::Array(nodes));
    // ---- analysis, observed through `find`
    let analysis = ctx.analysis();
    let loc_json = |dl: &DefinitionLocation| {
        let sl = analysis.look_up(dl.span);
        json!({"scope": dl.parent_scope.index(), "file": sl.file.name(), "l0": sl.begin.line, "c0": sl.begin.column,
               "l1": sl.end.line, "c1": sl.end.column})
    };
    let mut defs: BTreeMap<String, Value> = BTreeMap::new();
    let mut found_at: Vec<Value> = vec![];
    for (name, text) in &texts {
        for (ln, line) in text.split('\n').enumerate() {
            for col in 0..=line.len() {
                let found: Vec<(&DefinitionType, &Definition)> = analysis.find(name.as_str(), LineCol { line: ln, column: col });
                if found.is_empty() {
                    continue;
                }
                let mut keys = vec![];
                for (ty, def) in found {
                    let key = match ty {
                        DefinitionType::Symbol(nx) => format!("sym:{}", nx.index()),
                        DefinitionType::Filename(p) => format!("file:{}", p.to_string_lossy()),
                        // symbols of unassembled code (not in the symbol table)
                        #[allow(unreachable_patterns)]
                        other => format!("una:{:?}", other),
                    };
                    keys.push(key.clone());
                    defs.entry(key).or_insert_with(|| {
                        let mut us: Vec<Value> = def.usages.iter().map(|u| loc_json(u)).collect();
                        us.sort_by_key(|v| v.to_string());
                        json!({"location": def.location.as_ref().map(|l| loc_json(l)), "usages": us})
                    });
                }
                keys.sort();
                found_at.push(json!([name, ln, col, keys]));
            }
        }
    }
    out.insert("definitions".into(), json!(defs));
    out.insert("found_at".into(), Value::Array(found_at));
    // ---- the real traversal functions on the final table
    let mut answers = vec![];
    if let Some(qs) = req.get("queries").and_then(|q| q.as_array()) {
        for q in qs {
            let scope = q.get(0).and_then(|s| s.as_u64()).unwrap_or(0) as usize;
            let path = q.get(1).and_then(|s| s.as_str()).unwrap_or("");
            let nx = symbols.indices().find(|n| n.index() == scope);
            match nx {
                Some(nx) => {
                    let p = IdentifierPath::from(path);
                    let steps = symbols.query_traversal_steps(nx, &p);
                    let back_t = symbols.query_steps_to_path(nx, &steps, true).map(|p| p.to_string());
                    let back_f = symbols.query_steps_to_path(nx, &steps, false).map(|p| p.to_string());
                    answers.push(json!({"steps": steps_json(&steps), "query": symbols.query(nx, &p).map(|n| n.index()),
                                        "path_super": back_t, "path_nosuper": back_f}));
                }
                None => answers.push(json!(null)),
            }
        }
    }
    out.insert("answers".into(), Value::Array(answers));
    // every node x every given path
    let mut cross = vec![];
    if let Some(ps) = req.get("paths").and_then(|q| q.as_array()) {
        for nx in symbols.indices() {
            for path in ps {
                let path = path.as_str().unwrap_or("");
                let p = IdentifierPath::from(path);
                let steps = symbols.query_traversal_steps(nx, &p);
                let back_t = symbols.query_steps_to_path(nx, &steps, true).map(|p| p.to_string());
                let back_f = symbols.query_steps_to_path(nx, &steps, false).map(|p| p.to_string());
                cross.push(json!({"scope": nx.index(), "path": path, "steps": steps_json(&steps),
                                  "query": symbols.query(nx, &p).map(|n| n.index()),
                                  "path_super": back_t, "path_nosuper": back_f}));
            }
        }
    }
    out.insert("cross".into(), Value::Array(cross));
    // ---- where statements were emitted, and the bytes
    let cm = &ctx.tree().code_map;
    let mut sm = vec![];
    for o in ctx.source_map().offsets() {
        let sl = cm.look_up_span(o.span);
        sm.push(json!({"scope": o.scope.index(), "file": sl.file.name(), "line": sl.begin.line, "c0": sl.begin.column,
                       "pc0": o.pc.start, "pc1": o.pc.end}));
    }
    out.insert("source_map".into(), Value::Array(sm));
    let mut segs = vec![];
    for (name, seg) in ctx.segments() {
        segs.push(json!({"name": name.to_string(), "start": seg.range().start, "end": seg.range().end, "data": hex(seg.range_data())}));
    }
    out.insert("segments".into(), Value::Array(segs));
    Value::Object(out)
}

fn panic_msg(p: &Box<dyn std::any::Any + Send>) -> String {
    if let Some(s) = p.downcast_ref::<&str>() {
        s.to_string()
    } else if let Some(s) = p.downcast_ref::<String>() {
        s.clone()
    } else {
        "<non-string panic>".to_string()
    }
}

fn main() {
    std::panic::set_hook(Box::new(|_| {}));
    let stdin = std::io::stdin();
    let stdout = std::io::stdout();
    for line in stdin.lock().lines() {
        let line = match line {
            Ok(l) => l,
            Err(_) => break,
        };
        if line.trim().is_empty() {
            continue;
        }
        let reply = match serde_json::from_str::<Value>(&line) {
            Ok(req) => match catch_unwind(AssertUnwindSafe(|| cmd_nav(&req))) {
                Ok(v) => v,
                Err(p) => json!({"panic": panic_msg(&p)}),
            },
            Err(e) => json!({"bad_request": e.to_string()}),
        };
        let mut o = stdout.lock();
        writeln!(o, "{}", reply).unwrap();
        o.flush().unwrap();
    }
}

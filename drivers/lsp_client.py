"""LSP-over-stdio client for the real `mos lsp` (reusable: C14, C15/C16, C20).  API: see design.d/lsp_client.md.

One `LspServer` = one `mos lsp -p <free port>` process in a private scratch project directory (mos.toml + optional
files on disk).  Single-threaded on our side: messages are read with select()/os.read() into one buffer, so a dead
or silent server is *observed* (EOF / deadline), never waited for blindly.

Verdict hygiene (AGENT_GUIDE): `request()` returns a `Reply` whose `.kind` is one of
  "result"  - a JSON-RPC result (`.value`)
  "error"   - a JSON-RPC error object (`.value`)
  "died"    - stdout reached EOF before the response came (`.exit_status`, `.stderr` tail: the panic message)
  "timeout" - no response within `timeout` seconds although the process is alive.  The default (120 s) is > 100x the
              normal latency (a request on a 40-line buffer answers in < 50 ms, a didOpen + barrier in < 0.3 s), so
              callers may treat it as "no response"; they should still report it as its own class.
Exit status after shutdown / pipe close (0 since /repo 051876a, 101 on older trees: C20's business) is returned to the
caller by shutdown()/close_pipe()/wait_exit() and never interpreted here; kill() ignores it.
"""
import json
import os
import select
import shutil
import socket
import subprocess
import tempfile
import time

DEFAULT_TIMEOUT = 120.0
_ENV = dict(os.environ)
_ENV.update({"RUST_BACKTRACE": "0", "RUST_LOG": "off"})


def free_port():
    s = socket.socket()
    s.bind(("127.0.0.1", 0))
    p = s.getsockname()[1]
    s.close()
    return p


def path_to_uri(path):
    from urllib.parse import quote
    return "file://" + quote(path)


class Reply:
    __slots__ = ("kind", "value", "exit_status", "stderr", "elapsed")

    def __init__(self, kind, value=None, exit_status=None, stderr="", elapsed=0.0):
        self.kind, self.value, self.exit_status, self.stderr, self.elapsed = kind, value, exit_status, stderr, elapsed

    @property
    def ok(self):
        """the server answered (result or error object)"""
        return self.kind in ("result", "error")

    def canon(self):
        if self.kind == "result":
            return {"result": self.value}
        if self.kind == "error":
            return {"error": self.value.get("code") if isinstance(self.value, dict) else self.value}
        return {self.kind: True}

    def __repr__(self):
        if self.kind in ("result", "error"):
            return "Reply(%s, %s)" % (self.kind, json.dumps(self.value)[:300])
        return "Reply(%s, exit=%s, stderr=%r)" % (self.kind, self.exit_status, self.stderr[-300:])


class LspServer:
    """with LspServer(mos_binary, disk={"b.asm": "..."}) as s:
           s.did_open("main.asm", text); r = s.request("textDocument/hover", s.pos_params("main.asm", 0, 3))"""

    def __init__(self, mos, disk=None, entry="main.asm", workdir=None, toml=None, initialize=True, env=None,
                 timeout=DEFAULT_TIMEOUT, trace=False):
        self.mos = mos = os.path.abspath(mos)
        self.timeout = timeout
        self.dir = tempfile.mkdtemp(prefix="lsp_", dir=workdir)
        self.dir = os.path.realpath(self.dir)
        with open(os.path.join(self.dir, "mos.toml"), "w") as f:
            f.write(toml if toml is not None else '[build]\nentry = "%s"\n' % entry)
        for name, text in (disk or {}).items():
            p = os.path.join(self.dir, name)
            os.makedirs(os.path.dirname(p), exist_ok=True)
            with open(p, "w", newline="", encoding="utf-8") as f:
                f.write(text)
        self._stderr_path = os.path.join(self.dir, ".stderr")
        self._env = dict(_ENV)
        if env:
            self._env.update(env)
        self.next_id = 1
        self.versions = {}
        self.trace = [] if trace else None
        self.capabilities = None
        # the debug-adapter port is picked by binding port 0 and releasing it: another process may grab it before mos binds
        # it (mos then exits at once), so starting is retried with a new port
        last = None
        for _attempt in range(6):
            self._spawn()
            if not initialize:
                return
            r = self.request("initialize", {"processId": None, "rootUri": path_to_uri(self.dir), "capabilities": {}})
            if r.kind == "result":
                self.capabilities = r.value.get("capabilities")
                self.notify("initialized", {})
                return
            last = r
            self._reap()
        shutil.rmtree(self.dir, ignore_errors=True)
        raise RuntimeError("mos lsp did not initialize: %r" % last)

    def _spawn(self):
        self.port = free_port()
        self._stderr_f = open(self._stderr_path, "wb")
        self.p = subprocess.Popen([self.mos, "lsp", "-p", str(self.port)], cwd=self.dir, stdin=subprocess.PIPE,
                                  stdout=subprocess.PIPE, stderr=self._stderr_f, env=self._env, bufsize=0)
        self.buf = b""
        self.eof = False
        self.diagnostics = {}       # uri -> last published list
        self.diag_log = []          # [(uri, diagnostics)] in publication order
        self.notifications = []     # every other server->client notification / request
        self.pending = {}           # id -> response message that arrived while waiting for another id

    def _reap(self):
        if self.p is not None:
            try:
                self.p.kill()
            except Exception:
                pass
            try:
                self.p.wait(timeout=10)
            except Exception:
                pass
            for f in (self.p.stdin, self.p.stdout):
                try:
                    f.close()
                except Exception:
                    pass
            self.p = None
        try:
            self._stderr_f.close()
        except Exception:
            pass

    # ------------------------------------------------------------------ context manager / teardown
    def __enter__(self):
        return self

    def __exit__(self, *a):
        self.kill()

    def kill(self):
        """hard stop + scratch directory removal; exit status is not interpreted"""
        self._reap()
        shutil.rmtree(self.dir, ignore_errors=True)

    def shutdown(self, wait=10.0, send_exit=True):
        """polite LSP shutdown (+exit); returns (reply to `shutdown`, exit status or None if still running after `wait`).
        For C20; C14 uses kill()."""
        r = self.request("shutdown", None)
        if send_exit:
            self.notify("exit", None)
        st = self.wait_exit(wait)
        return r, st

    def close_pipe(self, wait=10.0):
        try:
            self.p.stdin.close()
        except Exception:
            pass
        return self.wait_exit(wait)

    def wait_exit(self, wait):
        try:
            return self.p.wait(timeout=wait)
        except subprocess.TimeoutExpired:
            return None

    # ------------------------------------------------------------------ names
    def path(self, name):
        return name if os.path.isabs(name) else os.path.join(self.dir, name)

    def uri(self, name):
        if "://" in name or name.startswith("untitled:"):
            return name
        return path_to_uri(self.path(name))

    def name_of(self, uri):
        """inverse of uri() for files of the project directory (else the uri itself)"""
        from urllib.parse import unquote
        pre = path_to_uri(self.dir) + "/"
        if uri.startswith(pre):
            return unquote(uri[len(pre):])
        pre2 = "file://" + self.dir + "/"
        if uri.startswith(pre2):
            return unquote(uri[len(pre2):])
        return uri

    # ------------------------------------------------------------------ transport
    def alive(self):
        return self.p is not None and self.p.poll() is None and not self.eof

    def stderr_tail(self, n=600):
        try:
            self._stderr_f.flush()
            with open(self._stderr_path, "rb") as f:
                return f.read()[-n:].decode("utf-8", "replace")
        except Exception:
            return ""

    def _send(self, obj):
        body = json.dumps(obj).encode("utf-8")
        if self.trace is not None:
            self.trace.append((">", obj))
        try:
            self.p.stdin.write(b"Content-Length: %d\r\n\r\n" % len(body) + body)
            self.p.stdin.flush()
            return True
        except (BrokenPipeError, OSError, ValueError):
            return False

    def _parse_one(self):
        """one complete framed message out of self.buf, or None"""
        idx = self.buf.find(b"\r\n\r\n")
        if idx < 0:
            return None
        length = None
        for line in self.buf[:idx].split(b"\r\n"):
            if line.lower().startswith(b"content-length:"):
                length = int(line.split(b":", 1)[1])
        if length is None:
            raise RuntimeError("frame without Content-Length: %r" % self.buf[:200])
        if len(self.buf) < idx + 4 + length:
            return None
        body = self.buf[idx + 4: idx + 4 + length]
        self.buf = self.buf[idx + 4 + length:]
        return json.loads(body.decode("utf-8"))

    def _read_msg(self, deadline):
        """next message, or None on EOF (self.eof set) / deadline (self.eof unchanged)"""
        while True:
            m = self._parse_one()
            if m is not None:
                if self.trace is not None:
                    self.trace.append(("<", m))
                return m
            if self.eof:
                return None
            left = deadline - time.time()
            if left <= 0:
                return None
            r, _, _ = select.select([self.p.stdout], [], [], min(left, 1.0))
            if not r:
                continue
            chunk = os.read(self.p.stdout.fileno(), 1 << 20)
            if not chunk:
                self.eof = True
                continue
            self.buf += chunk

    def _dispatch(self, m):
        if "method" in m:
            if m["method"] == "textDocument/publishDiagnostics":
                uri = m["params"]["uri"]
                self.diagnostics[uri] = m["params"]["diagnostics"]
                self.diag_log.append((uri, m["params"]["diagnostics"]))
            else:
                self.notifications.append(m)
        elif "id" in m:
            self.pending[m["id"]] = m

    def notify(self, method, params):
        return self._send({"jsonrpc": "2.0", "method": method, "params": params})

    def request(self, method, params, timeout=None):
        rid = self.next_id
        self.next_id += 1
        t0 = time.time()
        sent = self._send({"jsonrpc": "2.0", "id": rid, "method": method, "params": params})
        deadline = t0 + (timeout or self.timeout)
        while True:
            if rid in self.pending:
                m = self.pending.pop(rid)
                el = time.time() - t0
                if "error" in m:
                    return Reply("error", m["error"], elapsed=el)
                return Reply("result", m.get("result"), elapsed=el)
            m = self._read_msg(deadline)
            if m is None:
                if self.eof or not sent:
                    st = None
                    try:
                        st = self.p.wait(timeout=20)
                    except Exception:
                        pass
                    return Reply("died", exit_status=st, stderr=self.stderr_tail(), elapsed=time.time() - t0)
                return Reply("timeout", stderr=self.stderr_tail(), elapsed=time.time() - t0)
            self._dispatch(m)

    def barrier(self, timeout=None):
        """all notifications sent so far have been handled (the server handles messages strictly in order) and what they
        published has been collected.  Uses workspace/symbol, which touches no client-supplied position."""
        return self.request("workspace/symbol", {"query": "\x00barrier"}, timeout)

    # ------------------------------------------------------------------ documents
    def did_open(self, name, text, language="asm"):
        self.versions[name] = 1
        return self.notify("textDocument/didOpen", {"textDocument": {
            "uri": self.uri(name), "languageId": language, "version": 1, "text": text}})

    def did_change(self, name, text):
        v = self.versions.get(name, 0) + 1
        self.versions[name] = v
        return self.notify("textDocument/didChange", {"textDocument": {"uri": self.uri(name), "version": v},
                                                      "contentChanges": [{"text": text}]})

    def did_close(self, name):
        return self.notify("textDocument/didClose", {"textDocument": {"uri": self.uri(name)}})

    # ------------------------------------------------------------------ request parameter builders
    def doc_params(self, name):
        return {"textDocument": {"uri": self.uri(name)}}

    def pos_params(self, name, line, character):
        return {"textDocument": {"uri": self.uri(name)}, "position": {"line": line, "character": character}}

    def diagnostics_by_name(self):
        return {self.name_of(u): d for u, d in self.diagnostics.items()}


# every request type the server registers (mos/src/lsp/mod.rs: LspServer::new), with its parameter shape
POSITIONAL = ["textDocument/hover", "textDocument/completion", "textDocument/definition", "textDocument/references",
              "textDocument/documentHighlight", "textDocument/prepareRename", "textDocument/rename",
              "textDocument/onTypeFormatting"]
DOCUMENT = ["textDocument/documentSymbol", "textDocument/semanticTokens/full", "textDocument/codeLens",
            "textDocument/formatting"]
WORKSPACE = ["workspace/symbol"]


def make_params(server, method, name, line=0, character=0, new_name="renamed", query=""):
    if method == "workspace/symbol":
        return {"query": query}
    if method in DOCUMENT:
        p = server.doc_params(name)
        if method == "textDocument/formatting":
            p["options"] = {"tabSize": 4, "insertSpaces": True}
        return p
    p = server.pos_params(name, line, character)
    if method == "textDocument/references":
        p["context"] = {"includeDeclaration": True}
    elif method == "textDocument/rename":
        p["newName"] = new_name
    elif method == "textDocument/onTypeFormatting":
        p["ch"] = "}"
        p["options"] = {"tabSize": 4, "insertSpaces": True}
    return p


if __name__ == "__main__":
    import sys
    mos = sys.argv[1]
    with LspServer(mos, trace=True) as s:
        s.did_open("main.asm", "foo: nop\nlda foo\n")
        print(s.barrier())
        print(s.diagnostics_by_name())
        for m in POSITIONAL + DOCUMENT + WORKSPACE:
            print(m, s.request(m, make_params(s, m, "main.asm", 1, 5)))
        print(s.request("textDocument/prepareRename", s.pos_params("main.asm", 1, 50)))
        print("alive", s.alive())

"""DAP-over-TCP client for the debug adapter of the real `mos lsp -p <port>` (C19; reusable for C20).

One `DapSession` = one `mos lsp` process (started through drivers/lsp_client.LspServer: private scratch project directory,
LSP initialised on stdio and kept open, `main.asm` opened so that the launch handler finds a codegen context) plus one TCP
connection to its debug adapter.

Single-threaded on our side: bytes are read with select()/recv() into one buffer, so a dead or silent adapter is
*observed* (EOF / deadline), never waited for blindly.  Everything sent and received is appended to `self.log` in
arrival order:   ("req", seq, command, arguments) | ("resp", request_seq, command, success, body, message) |
("event", name, body).  That log is the protocol-visible trace the C19 acceptor and oracle work on.

Verdict hygiene: `request()` returns a `Reply` with `.kind` in
  "ok"      - response with success=true  (`.body`)
  "error"   - response with success=false (`.message`)
  "died"    - the TCP connection reached EOF (or the process exited) before the response came
  "timeout" - no response within `timeout` seconds although the connection is open.  DEFAULT_TIMEOUT (60 s) is > 100x
              the normal latency (a request answers in < 20 ms; a stop is reported within one 50 ms poll), so callers
              may treat it as "no response" but must report it as its own class.
Inter-request delays come from the caller's PRNG only (`delay()`), never from the clock.
"""
import json
import os
import select
import socket
import sys
import time

sys.path.insert(0, os.path.dirname(os.path.abspath(__file__)))
from lsp_client import LspServer  # noqa: E402

DEFAULT_TIMEOUT = 60.0


class Reply:
    __slots__ = ("kind", "body", "message", "elapsed", "command")

    def __init__(self, kind, body=None, message=None, elapsed=0.0, command=None):
        self.kind, self.body, self.message, self.elapsed, self.command = kind, body, message, elapsed, command

    @property
    def ok(self):
        return self.kind == "ok"

    def __repr__(self):
        return "Reply(%s %s, %s)" % (self.command, self.kind, json.dumps(self.body if self.kind == "ok" else self.message)[:300])


class DapSession:
    """with DapSession(mos, source_text, env={"MOS_VERIF_SCHED": "7"}) as d:
           d.handshake("t", breakpoints=[3]); d.wait_event("stopped"); d.request("stackTrace", {"threadId": 1})"""

    def __init__(self, mos, source, entry="main.asm", env=None, timeout=DEFAULT_TIMEOUT, workdir=None, disk=None):
        self.timeout = timeout
        files = {entry: source}
        files.update(disk or {})
        self.entry = entry
        self.lsp = LspServer(mos, disk=files, entry=entry, env=env, workdir=workdir)
        self.sock = None
        try:
            self.lsp.did_open(entry, source)
            r = self.lsp.barrier()
            if not r.ok:
                raise RuntimeError("mos lsp did not analyse the project: %r" % r)
            self.lsp_diagnostics = self.lsp.diagnostics_by_name()
            self._connect()
        except Exception:
            self.close()
            raise
        self.buf = b""
        self.eof = False
        self.seq = 0
        self.log = []
        self.events = []          # (index in log, name, body) not yet consumed by wait_event
        self.pending = {}

    # ------------------------------------------------------------------ lifecycle
    def _connect(self):
        deadline = time.time() + self.timeout
        last = None
        while time.time() < deadline:
            if not self.lsp.alive():
                raise RuntimeError("mos lsp exited before the debug adapter accepted: " + self.lsp.stderr_tail())
            try:
                s = socket.create_connection(("127.0.0.1", self.lsp.port), timeout=2.0)
                s.setsockopt(socket.IPPROTO_TCP, socket.TCP_NODELAY, 1)
                s.setblocking(False)
                self.sock = s
                self._quickack()
                return
            except OSError as e:
                last = e
                time.sleep(0.02)
        raise RuntimeError("debug adapter port never accepted: %s" % last)

    def __enter__(self):
        return self

    def __exit__(self, *a):
        self.close()

    def close(self):
        """hard stop; the exit status of `mos lsp` is not interpreted (101 on the pinned tree: C20)"""
        if self.sock is not None:
            try:
                self.sock.close()
            except Exception:
                pass
            self.sock = None
        self.lsp.kill()

    @property
    def dir(self):
        return self.lsp.dir

    def alive(self):
        return self.sock is not None and not self.eof and self.lsp.alive()

    def stderr_tail(self, n=800):
        return self.lsp.stderr_tail(n)

    # ------------------------------------------------------------------ transport
    def _send(self, obj):
        body = json.dumps(obj).encode("utf-8")
        data = b"Content-Length: %d\r\n\r\n" % len(body) + body
        try:
            self.sock.setblocking(True)
            self.sock.sendall(data)
            self.sock.setblocking(False)
            return True
        except OSError:
            return False

    def _parse_one(self):
        idx = self.buf.find(b"\r\n\r\n")
        if idx < 0:
            return None
        length = None
        for line in self.buf[:idx].split(b"\r\n"):
            if line.lower().startswith(b"content-length:"):
                length = int(line.split(b":", 1)[1])
        if length is None:
            raise RuntimeError("DAP frame without Content-Length: %r" % self.buf[:200])
        if len(self.buf) < idx + 4 + length:
            return None
        body = self.buf[idx + 4: idx + 4 + length]
        self.buf = self.buf[idx + 4 + length:]
        return json.loads(body.decode("utf-8"))

    def _read_msg(self, deadline):
        """next message or None (EOF: self.eof set; deadline: self.eof unchanged)"""
        while True:
            m = self._parse_one()
            if m is not None:
                return m
            if self.eof:
                return None
            left = deadline - time.time()
            if left <= 0:
                return None
            try:
                r, _, _ = select.select([self.sock], [], [], min(left, 0.5))
            except (OSError, ValueError):
                self.eof = True
                continue
            if not r:
                if not self.lsp.alive():
                    self.eof = True
                continue
            try:
                chunk = self.sock.recv(1 << 16)
                self._quickack()
            except BlockingIOError:
                continue
            except OSError:
                chunk = b""
            if not chunk:
                self.eof = True
                continue
            self.buf += chunk

    def _quickack(self):
        # the adapter writes header and body of a message with two write() calls; with Nagle on its side and delayed
        # ACKs on ours every message would take 40 ms.  TCP_QUICKACK is reset by the kernel, so it is set after each recv.
        try:
            self.sock.setsockopt(socket.IPPROTO_TCP, socket.TCP_QUICKACK, 1)
        except (OSError, AttributeError):
            pass

    def _dispatch(self, m):
        t = m.get("type")
        if t == "event":
            self.log.append(("event", m.get("event"), m.get("body")))
            self.events.append((len(self.log) - 1, m.get("event"), m.get("body")))
        elif t == "response":
            self.log.append(("resp", m.get("request_seq"), m.get("command"), bool(m.get("success")), m.get("body"),
                             m.get("message")))
            self.pending[m.get("request_seq")] = m
        else:
            self.log.append(("other", m))

    # ------------------------------------------------------------------ requests / events
    def send_request(self, command, arguments=None):
        """fire a request without waiting (for overlapping requests); returns its seq"""
        self.seq += 1
        self.log.append(("req", self.seq, command, arguments))
        ok = self._send({"seq": self.seq, "type": "request", "command": command, "arguments": arguments})
        return self.seq if ok else None

    def await_response(self, seq, command=None, timeout=None):
        t0 = time.time()
        deadline = t0 + (timeout or self.timeout)
        while True:
            if seq in self.pending:
                m = self.pending.pop(seq)
                el = time.time() - t0
                if m.get("success"):
                    return Reply("ok", body=m.get("body"), elapsed=el, command=command)
                return Reply("error", message=m.get("message"), elapsed=el, command=command)
            m = self._read_msg(deadline)
            if m is None:
                if self.eof:
                    return Reply("died", message=self.stderr_tail(), elapsed=time.time() - t0, command=command)
                return Reply("timeout", message=self.stderr_tail(), elapsed=time.time() - t0, command=command)
            self._dispatch(m)

    def request(self, command, arguments=None, timeout=None):
        seq = self.send_request(command, arguments)
        if seq is None:
            return Reply("died", message=self.stderr_tail(), command=command)
        return self.await_response(seq, command, timeout)

    def pump(self, seconds):
        """read whatever arrives during `seconds` (used for seeded delays: the socket is drained while we wait)"""
        deadline = time.time() + seconds
        while True:
            m = self._read_msg(deadline)
            if m is None:
                return
            self._dispatch(m)

    def wait_event(self, name, timeout=None, also=()):
        """consume events up to and including the first one called `name` (or one of `also`);
        returns (name, body) or (None, "timeout"|"died")"""
        deadline = time.time() + (timeout or self.timeout)
        while True:
            while self.events:
                _, n, b = self.events.pop(0)
                if n == name or n in also:
                    return n, b
            m = self._read_msg(deadline)
            if m is None:
                return None, ("died" if self.eof else "timeout")
            self._dispatch(m)

    def take_events(self):
        ev, self.events = self.events, []
        return [(n, b) for _, n, b in ev]

    # ------------------------------------------------------------------ conveniences
    def handshake(self, test_case, breakpoints=None, no_debug=None, configuration_done=True):
        """initialize (lines/columns start at 1) -> launch -> setBreakpoints -> configurationDone"""
        r = self.request("initialize", {"adapterID": "mos", "linesStartAt1": True, "columnsStartAt1": True})
        if not r.ok:
            return r
        args = {"workspace": self.dir, "testRunner": {"testCaseName": test_case}}
        if no_debug is not None:
            args["noDebug"] = no_debug
        r = self.request("launch", args)
        if not r.ok:
            return r
        if breakpoints is not None:
            r = self.set_breakpoints(breakpoints)
            if not r.ok:
                return r
        if configuration_done:
            r = self.request("configurationDone", None)
        return r

    def source_path(self):
        return os.path.join(self.dir, self.entry)

    def set_breakpoints(self, lines):
        return self.request("setBreakpoints", {"source": {"path": self.source_path()},
                                               "breakpoints": [{"line": l} for l in lines]})

    def registers(self):
        """{'A':..,'X':..,'Y':..,'CYC':..} or the failing Reply"""
        r = self.request("variables", {"variablesReference": 1})
        if not r.ok:
            return r
        return {v["name"]: int(v["value"]) for v in r.body["variables"]}

    def flags(self):
        r = self.request("variables", {"variablesReference": 2})
        if not r.ok:
            return r
        return {v["name"][0]: v["value"] == "true" for v in r.body["variables"]}

    def frame(self):
        """(line, endLine) of the single reported frame, None when no frame is reported, or the failing Reply"""
        r = self.request("stackTrace", {"threadId": 1})
        if not r.ok:
            return r
        fr = r.body.get("stackFrames") or []
        if not fr:
            return None
        return fr[0]["line"], fr[0].get("endLine", fr[0]["line"])

    def evaluate(self, expr):
        r = self.request("evaluate", {"expression": expr})
        if not r.ok:
            return r
        return r.body["result"]


if __name__ == "__main__":
    mos = sys.argv[1]
    src = '.test "t" {\n  ldx #0\nloop:\n  inx\n  inx\n  inx\n  jmp loop\n}\n'
    with DapSession(mos, src) as d:
        print(d.handshake("t", breakpoints=[5]))
        print(d.wait_event("stopped", timeout=10))
        print(d.frame(), d.registers(), d.flags(), d.evaluate("cpu.x"))
        print(d.request("continue", {"threadId": 1}))
        print(d.wait_event("stopped", timeout=10))
        print(d.frame(), d.registers())
        for e in d.log:
            print(e)

"""Navigation / rename requests against the real `mos lsp` for one project (C15, C16).  Wraps drivers/lsp_client.py
(read-only import).  Ranges are returned as (file, line, col0, line1, col1) tuples; programs are ASCII."""
import os
import sys

sys.path.insert(0, os.path.dirname(os.path.abspath(__file__)))
import lsp_client  # noqa: E402


class ServerDied(Exception):
    """the server process ended (EOF on its stdout) before answering"""


class ServerSlow(Exception):
    """no answer within the (very generous) deadline although the process is alive: a loaded machine, never a verdict"""


def _rng(r):
    return (r["start"]["line"], r["start"]["character"], r["end"]["line"], r["end"]["character"])


class NavSession:
    def __init__(self, mos, files, workdir, entry="main.asm"):
        self.files = dict(files)
        self.s = lsp_client.LspServer(mos, disk=files, entry=entry, workdir=workdir, timeout=300.0)
        for n, t in files.items():
            self.s.did_open(n, t)
        b = self.s.barrier()
        if b.kind == "timeout":
            self.s.kill()
            raise ServerSlow("no answer after didOpen within the deadline")
        if b.kind != "result":
            self.s.kill()
            raise ServerDied("no answer after didOpen: %r" % b)

    def close(self):
        self.s.kill()

    def __enter__(self):
        return self

    def __exit__(self, *a):
        self.close()

    def diagnostics(self):
        return {k: v for k, v in self.s.diagnostics_by_name().items() if v}

    def _req(self, method, params):
        r = self.s.request(method, params)
        if r.kind == "timeout":
            raise ServerSlow("%s: no answer within the deadline" % method)
        if r.kind == "died":
            raise ServerDied("%s: %r" % (method, r))
        return r

    def definition(self, f, line, col):
        r = self._req("textDocument/definition", self.s.pos_params(f, line, col))
        if r.kind != "result" or not r.value:
            return []
        out = []
        for x in r.value:
            if "targetUri" in x:
                out.append((self.s.name_of(x["targetUri"]),) + _rng(x["targetRange"]))
            else:
                out.append((self.s.name_of(x["uri"]),) + _rng(x["range"]))
        return out

    def references(self, f, line, col, include_declaration=True):
        p = self.s.pos_params(f, line, col)
        p["context"] = {"includeDeclaration": include_declaration}
        r = self._req("textDocument/references", p)
        if r.kind != "result" or r.value is None:
            return None
        return [(self.s.name_of(x["uri"]),) + _rng(x["range"]) for x in r.value]

    def highlight(self, f, line, col):
        r = self._req("textDocument/documentHighlight", self.s.pos_params(f, line, col))
        if r.kind != "result" or r.value is None:
            return None
        return [(f,) + _rng(x["range"]) for x in r.value]

    def prepare_rename(self, f, line, col):
        r = self._req("textDocument/prepareRename", self.s.pos_params(f, line, col))
        if r.kind != "result" or not r.value:
            return None
        v = r.value
        if "range" in v:
            v = v["range"]
        return (f,) + _rng(v)

    def rename(self, f, line, col, new_name):
        p = self.s.pos_params(f, line, col)
        p["newName"] = new_name
        r = self._req("textDocument/rename", p)
        if r.kind != "result" or not r.value:
            return None
        edits = []
        for uri, es in (r.value.get("changes") or {}).items():
            for e in es:
                edits.append((self.s.name_of(uri),) + _rng(e["range"]) + (e["newText"],))
        return edits


def apply_edits(files, edits):
    """LSP manner: every range refers to the ORIGINAL document; edits of one document must not overlap.
    ASCII single-line ranges (all that rename produces).  Returns (new files, problem or None)."""
    out = {}
    per = {}
    for (f, l0, c0, l1, c1, text) in edits:
        per.setdefault(f, []).append((l0, c0, l1, c1, text))
    for f in per:
        if f not in files:
            return None, "edit for a file that is not part of the project: %s" % f
    for f, t in files.items():
        lines = t.split("\n")
        es = sorted(set(per.get(f, [])))
        prev = None
        for e in es:
            if e[0] != e[2]:
                return None, "multi-line edit %r" % (e,)
            if e[0] >= len(lines) or e[3] > len(lines[e[0]]) or e[1] > e[3]:
                return None, "edit outside the document %r" % (e,)
            if prev is not None and prev[0] == e[0] and e[1] < prev[3]:
                return None, "overlapping edits %r %r" % (prev, e)
            prev = e
        for (l0, c0, l1, c1, text) in reversed(es):
            lines[l0] = lines[l0][:c0] + text + lines[l0][c1:]
        out[f] = "\n".join(lines)
    return out, None

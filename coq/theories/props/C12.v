(* C12 -- formatting never changes what a program means and never loses comments. *)
From Coq Require Import List NArith Bool.
Import ListNotations.
From Mos Require Import model.Nom model.Parser spec.LayoutEquiv proofs.C08Sweep.
From Mos Require Import model.Format Gen.FmtRules model.FormatTokens model.FormatParse model.FormatCmd spec.FormatSpec proofs.FormatSweepDefs proofs.FormatSweep
  proofs.FormatProofs proofs.FormatTokensProofs proofs.FormatPreserved proofs.FormatCmdProofs spec.FormatFlat proofs.FormatFlatProofs spec.FormatSource proofs.FormatSourceProofs proofs.FormatSourceTotal.
From Mos Require proofs.FormatShapeProofs.

(* Line assembly (join_chunks), for ALL chunk lists and ALL options: the non-whitespace characters of the output are
   exactly those of the chunk texts, in the same order -- no token or comment character is lost, invented or reordered
   by the label / code / comment column layout, the margins, the indentation, blank-line squeezing or the
   standalone-comment move.  `nonempty_chunks` is the invariant of push_type (an empty string is never pushed). *)
Theorem C12_join_preserves : forall cs o, nonempty_chunks cs ->
  nows (join_chunks cs o) = nows (chunks_text cs).
Proof. exact join_preserves. Qed.
Print Assumptions C12_join_preserves.

(* A one-line comment chunk that is followed by a newline chunk (every `//` comment is: format_tokens emits the newline trivia right
   behind it) is the last thing on its output line: the lines split, at a line boundary, into those that hold everything
   up to and including the comment and those that hold everything behind it.  No later text is ever put behind a line
   comment (it would be commented out). *)
Theorem C12_line_comment_ends_line : forall pre c ind post o,
  c_ty c = Some Comment -> c_str c <> [] -> contains_nl (c_str c) = false -> nonempty_chunks post ->
  exists l1 l2, join_lines (pre ++ c :: mkChunk None ind [NL] :: post) o = l1 ++ l2 /\
    nows (concat l1) = nows (chunks_text (pre ++ [c])) /\ nows (concat l2) = nows (chunks_text post).
Proof. exact line_comment_ends_line. Qed.
Print Assumptions C12_line_comment_ends_line.

(* Token layer (format_tokens / format_token / format_block over the whole Token enum and expression grammar), for ALL
   token lists and ALL options: the comment chunks carry every comment of the file, in source order (compared on their
   non-whitespace characters: a comment chunk may start with the pending space of spc_if_next).  wf_tokens are parser
   invariants (a bare Expression / Config token only as a `.define` / config value, an else block only with its tag, no
   trivia on `:`); the check verifies them on every AST the real parser produces.  The statement is unguarded since the
   two defects that dropped comments were repaired (comments in front of `{`, dfe56f5; in front of import arguments,
   7635ca8): the proof needs Gen.FmtRules.emits_lbrace_trivia = emits_import_arg_trivia = true, read off the source. *)
Theorem C12_comments_in_order : forall o ts, wf_tokens ts = true ->
  nows (concat (chunk_comments (format_chunks o ts))) = nows (concat (all_comments ts)).
Proof. exact comments_in_order. Qed.
Print Assumptions C12_comments_in_order.

(* the former F-C12a on the model: `.if 1 // c` NEWLINE `{ nop }` -- a comment in front of `{` (class
   Known_lbrace_trivia, kept as the classifier of the repaired defect) is emitted *)
Theorem C12_lbrace_trivia_kept : exists o ts,
  wf_tokens ts = true /\ Known_lbrace_trivia ts = true /\
  all_comments ts = [[47; 47; 32; 99]%N] /\ chunk_comments (format_chunks o ts) = [[47; 47; 32; 99]%N].
Proof. exact lbrace_trivia_kept. Qed.
Print Assumptions C12_lbrace_trivia_kept.

(* The whole formatter on the model (format_tokens + join_chunks), ALL token lists, ALL options, no hypothesis: the output
   text consists of exactly the non-whitespace characters of the chunks the token layer built, in order (every chunk is
   non-empty: invariant of push_type, proved for the whole token layer by a generic preservation theorem). *)
Theorem C12_format_accounts : forall o ts, nows (format o ts) = nows (chunks_text (format_chunks o ts)).
Proof. exact format_accounts. Qed.
Print Assumptions C12_format_accounts.

(* ... hence no comment is lost or reordered by the formatter as a whole: the characters of all comments of the file, in
   source order, are a subsequence of the non-whitespace characters of the formatted text *)
Theorem C12_no_comment_lost : forall o ts, wf_tokens ts = true ->
  subseq (nows (concat (all_comments ts))) (nows (format o ts)).
Proof. exact no_comment_lost. Qed.
Print Assumptions C12_no_comment_lost.

(* The token layer at full strength on the characters: for ALL well-formed token lists and ALL options the formatted text,
   blanks and line breaks aside, is exactly the sequence of the token list's leaf texts and comments in source order
   (spec/FormatFlat.v, written over the AST without reference to the formatter; mnemonics and index registers in the
   configured casing) -- no character of any token is dropped, duplicated, invented or moved, and no comment either. *)
Theorem C12_chars_preserved : forall o ts, wf_tokens ts = true ->
  nows (format o ts) = tnows (tokens_flat o ts).
Proof. exact format_flat. Qed.
Print Assumptions C12_chars_preserved.

(* ... and end to end on a source text, unbounded, through the parser model (model/Parser.v, C05), no side condition:
   when a file parses without diagnostics, `format_source o s` = format o (parse s) is defined and, blanks, line breaks
   and ASCII letter case aside, consists of exactly the characters of the source text in the same order (composition of
   C12_chars_preserved, a structural comparison of spec/FormatFlat.v with Display's rendering, C05_lossless, and
   C12_parser_shaped below). *)
Theorem C12_source_chars : forall o s toks,
  Parser.parse s = Parser.Parsed toks [] ->
  exists f, format_source o s = Some f /\ lc (nows f) = lc (nows s).
Proof. exact source_chars. Qed.
Print Assumptions C12_source_chars.

(* The facts about the parser model that the structural comparison needs (spec/FormatSource.v, parser_shaped: whitespace
   trivia consist of blanks, operands carry only what their addressing mode prints, a label's colon follows the name
   directly, config values are blocks or expressions and `.define` values blocks, the tokens of a block / file are
   statements), for EVERY text and every parse result, with or without diagnostics: proved over model/Parser.v by a
   postcondition calculus, one lemma per combinator and per grammar function (proofs/FormatShapeProofs.v). *)
Theorem C12_parser_shaped : forall s toks diags,
  Parser.parse s = Parser.Parsed toks diags -> parser_shaped toks = true.
Proof. exact FormatShapeProofs.parse_shaped. Qed.
Print Assumptions C12_parser_shaped.

(* The formatted text parses to the same tokens: with model/Parser.v (C05) and the projection model/FormatParse.v,
   `format_source o s` = format o (parse s) is a Gallina term, tied to the real parse + format on every generated file.
   PARTIAL: proved by exhaustive kernel evaluation over the layout domain of C08 (every statement form of the grammar plus
   three instruction shapes for every mnemonic -- 126 templates -- each in its canonical layout and in every variant of
   proofs/C08Sweep.v: 7458 texts, with blanks, tabs, nested / multi-line block comments, line comments, LF / CRLF in every
   trivia slot, re-cased keywords) x 3 option sets (defaults; upper case + brace on a new line + indent 2 + margins 5/4 +
   left alignment; all margins and indent 0): the text is formatted without diagnostics and the result parses, without
   diagnostics, to the same skeleton (token tree without spans, trivia, keyword spelling).
   Missing for the unbounded statement: a print-then-parse theorem for the whole grammar (the unbounded form of
   C08_layout_bounded_partial: parsing the exact text of a tree gives the tree back); the formatter side of it is proved --
   consecutive statements are separated by a line break (C12_statements_separated), a line comment ends its line
   (C12_line_comment_ends_line), no character is lost or reordered (C12_format_accounts, C12_no_comment_lost). *)
Theorem C12_reparse_bounded_partial : forall o tpl s,
  In o sweep_options3 -> In tpl templates -> In s (canon tpl :: variants tpl) ->
  exists f, format_source o s = Some f /\ skel_parse f = skel_parse s /\ skel_parse s <> None.
Proof. exact reparse_bounded. Qed.
Print Assumptions C12_reparse_bounded_partial.

(* Two statements are never emitted back to back (repaired defect: `lda foo lda bar` became `lda foolda bar`): between a
   statement and the next one -- unless the first is a label standing in front of its statement, which join_chunks
   separates by a space -- format_tokens emits a chunk that contains a line break.  Holds for the source as it is now
   (Gen.FmtRules.separates_same_line_statements, read off format_tokens on every run). *)
Theorem C12_statements_separated : forall p t st,
  is_blockless_label p = false -> is_eof_token t = false -> kind_of t <> KError ->
  exists gap, f_chunks (newline_before (Some p) t (fmt_otrivia (token_trivia t) st)) = gap ++ f_chunks st /\
              existsb (fun c => contains_nl (c_str c)) gap = true.
Proof. exact statements_separated. Qed.
Print Assumptions C12_statements_separated.

(* `mos format` (model of format_command): any parse diagnostic, in whichever file of the project => no file is opened
   for writing and the command fails *)
Theorem C12_format_cmd_atomic : forall (file : Type) line_ending can_open (r : parse_result file) o,
  pr_diagnostics file r <> 0 -> format_command file line_ending can_open r o = ([], false).
Proof. exact format_cmd_atomic. Qed.
Print Assumptions C12_format_cmd_atomic.

(* ... and without diagnostics every file of the project, in order, is truncated and rewritten with exactly the
   formatter's text for that file; nothing else is touched *)
Theorem C12_format_cmd_writes : forall (file : Type) line_ending can_open (r : parse_result file) o,
  pr_diagnostics file r = 0 -> forallb (fun ft => can_open (fst ft)) (pr_files file r) = true ->
  format_command file line_ending can_open r o =
    (flat_map (fun ft : file * list token =>
                 [OpenTruncate file (fst ft); WriteAll file (fst ft) (replace_nl line_ending (format o (snd ft)))]) (pr_files file r), true).
Proof. exact format_cmd_writes. Qed.
Print Assumptions C12_format_cmd_writes.

(* non-vacuity *)
Example C12_join_preserves_guard_needed : exists cs o, nows (join_chunks cs o) <> nows (chunks_text cs).
Proof. exact join_preserves_needs_nonempty. Qed.

(* C12 -- formatting never changes what a program means and never loses comments. *)
From Coq Require Import List NArith Bool.
Import ListNotations.
From Mos Require Import model.Format Gen.FmtRules model.FormatTokens proofs.FormatProofs.

(* Line assembly (join_chunks), for ALL chunk lists and ALL options: the non-whitespace characters of the output are
   exactly those of the chunk texts, in the same order -- no token or comment character is lost, invented or reordered
   by the label / code / comment column layout, the margins, the indentation, blank-line squeezing or the
   standalone-comment move.  `nonempty_chunks` is the invariant of push_type (an empty string is never pushed). *)
Theorem C12_join_preserves : forall cs o, nonempty_chunks cs ->
  nows (join_chunks cs o) = nows (chunks_text cs).
Proof. exact join_preserves. Qed.
Print Assumptions C12_join_preserves.

(* non-vacuity / the guard is needed: with an empty last chunk the pending line is never flushed *)
Example C12_join_preserves_guard_needed : exists cs o, nows (join_chunks cs o) <> nows (chunks_text cs).
Proof. exact join_preserves_needs_nonempty. Qed.

(* C07 -- loops, conditionals, macros, constants, scopes and imports mean their expansion.
   Per construct: statements about one pass of the model from an arbitrary context.  Whole programs: four theorems
   (C07_whole_program_partial, _stable_conditions, _const, _if_diagnostics); the remaining gap -- macro invocation and
   import expansion at whole-program level, constants with non-closed definitions, `.loop` expansion in runs with
   diagnostics -- is named at C07_whole_program_partial and decided on the implementation by the expansion oracle. *)
From Coq Require Import List NArith ZArith Bool PeanoNat.
Import ListNotations.
From Mos Require spec.Relayout spec.Expand.
From Mos Require Import model.I64 Gen.BinOps model.Expr Gen.OpcodeTable spec.Isa model.Encode.
From Mos Require Import model.SymTab Gen.CodegenConsts model.Segment model.Asm proofs.AsmSim proofs.AsmFuel proofs.ExpandProofs proofs.ExpandWhole proofs.ExpandStable proofs.ExpandDiag proofs.AsmWitnesses.
Open Scope Z_scope.

(* `.if c {a} else {b}` is exactly the statements of the branch selected by the value of c, in the same scope. *)
Theorem C07_if : forall fuel v a b c,
  emit_token (S fuel) (TIf v a b) c =
  match evaluate_expression_as_i64 v c with
  | Ret (Some x) c1 => emit_tokens (emit_token fuel) (selected x a b) c1
  | Ret None c1 => Ret tt c1
  | Err ds c1 => Err ds c1
  | Abort f => Abort f
  end.
Proof. exact if_meaning. Qed.
Print Assumptions C07_if.

(* A macro invocation is the macro's body in the fresh scope `$macro_<n>` with every parameter bound to the value its
   argument has where the invocation stands. *)
Theorem C07_macro : forall fuel name nsp args c nxs dsp params body,
  query_all (symbols c) (current_scope_nx c) [name] = Some nxs ->
  find_macro (symbols c) nxs = Some (dsp, params, body) ->
  length args = length params ->
  emit_token (S fuel) (TInvoke name nsp args) c =
  (modify bump_macro_id ;;;
   values <- eval_macro_args args ;;
   with_scope (macro_scope_name (next_macro_scope_id c)) None
     (bind_macro_args params values ;;; emit_tokens (emit_token fuel) body)) c.
Proof. exact macro_meaning. Qed.
Print Assumptions C07_macro.

(* `.loop e {b}` with count n is the iterations 0 .. n-1 in order, each in its own scope with b's block symbols and
   `index` bound to the iteration number (a count above the per-pass iteration limit is not followed by the model). *)
Theorem C07_loop : forall fuel e lsc b c,
  emit_token (S fuel) (TLoop e lsc b) c =
  match evaluate_expression_as_i64 e c with
  | Ret (Some n) c1 => if loop_iteration_limit <? n then Abort FUnsupported
                       else loop_iterations fuel loop_first_index n (iteration (emit_token fuel) e lsc b) c1
  | Ret None c1 => Ret tt c1
  | Err ds c1 => Err ds c1
  | Abort f => Abort f
  end.
Proof. exact loop_meaning. Qed.
Print Assumptions C07_loop.

(* One iteration and the block written by hand, `{ .const index = <i>  b }`, are the same computation up to the ghost
   log (out_rel: same result, same diagnostics, contexts equal on everything but the ghost fields), for every closed
   expression with value i, unless binding `index` fails. *)
Theorem C07_loop_iteration_is_block : forall fuel (e : lexpr) (b : block) li i c c',
  closed_value li i -> E c c' -> try_current_target_pc c' <> PcPanic ->
  (forall ds d, (c0 <- get ;; add_symbol [t_index] (symbol_ c0 (Some (le_span e)) (SDNum i) TyConstant)) c <> Err ds d) ->
  out_rel ((c0 <- get ;; add_symbol [t_index] (symbol_ c0 (Some (le_span e)) (SDNum i) TyConstant) ;;;
            emit_tokens (emit_token (S fuel)) (blk_inner b)) c)
          (emit_tokens (emit_token (S fuel)) (TVarDef VConst t_index (le_span e) li :: blk_inner b) c').
Proof. exact iteration_is_block. Qed.
Print Assumptions C07_loop_iteration_is_block.

(* Nesting composes: statements that are pairwise equivalent stay equivalent as the body of a block, a labelled block,
   an `.if` branch, a loop body, and in the middle of any statement list. *)
Theorem C07_compose : forall fuel (ts ts' : list token),
  Forall2 (fun a b => SimM (emit_token fuel a) (emit_token fuel b)) ts ts' ->
  (forall sc lp rp, SimM (emit_token (S fuel) (TBraces sc (Blk lp rp ts))) (emit_token (S fuel) (TBraces sc (Blk lp rp ts')))) /\
  (forall id isp lp rp, SimM (emit_token (S fuel) (TLabel id isp (Some (Blk lp rp ts)))) (emit_token (S fuel) (TLabel id isp (Some (Blk lp rp ts'))))) /\
  (forall v lp rp e, SimM (emit_token (S fuel) (TIf v (Blk lp rp ts) e)) (emit_token (S fuel) (TIf v (Blk lp rp ts') e))) /\
  (forall e lsc lp rp, SimM (emit_token (S fuel) (TLoop e lsc (Blk lp rp ts))) (emit_token (S fuel) (TLoop e lsc (Blk lp rp ts')))) /\
  (forall pre post, SimM (emit_tokens (emit_token fuel) (pre ++ ts ++ post)) (emit_tokens (emit_token fuel) (pre ++ ts' ++ post))).
Proof. exact compose. Qed.
Print Assumptions C07_compose.

(* Every statement is equivalent to itself from contexts that differ in the ghost fields only. *)
Theorem C07_statement_self_equivalent : forall fuel t, SimM (emit_token fuel t) (emit_token fuel t).
Proof. exact sim_emit_token. Qed.
Print Assumptions C07_statement_self_equivalent.

(* Former finding Known_changed_reported_unknown (repaired in 0b9c159): a symbol that changes value is recorded in
   `changed`, never in `undefined`, so it can never be reported as an unknown identifier -- for every add_symbol. *)
Theorem C07_changed_not_reported : forall id sym c,
  match add_symbol id sym c with Ret _ c' | Err _ c' => undefined c' = undefined c | Abort _ => True end.
Proof. exact changed_not_reported. Qed.
Print Assumptions C07_changed_not_reported.

(* WHOLE PROGRAMS (C07_whole_program_partial).  The full statement would be
     codegen p = Done c -> codegen (expand p) = Done c' -> images c = images c'   for every construct;
   proved here: for the expansion relation Xp -- every `.if` with a closed condition replaced by the statements of the
   selected branch and every `.loop` with a closed count n replaced by the n blocks `{ .const index = <i>  body }`, at any
   nesting depth inside blocks, labelled blocks, `.if` branches, loop bodies and segment blocks, the remaining statements
   unchanged -- a program that assembles without a diagnostic in any pass (codegen_ok) and its expansion run through the
   same sequence of passes and end with the same symbol table and the same segment images (the expansion with one more
   unit of fuel).  Extensions proved below: conditions / counts that depend on symbols (_stable_conditions), constants
   (_const), runs with transient diagnostics for `.if` (_if_diagnostics).  THE REMAINING GAP (why `_partial` stays):
   (1) macro-invocation and import expansion: the expansion adds symbol-graph nodes (`-` `+` of the block, the label of
   `imp: {..}`, Constant for MacroArgument) and drops others (`$macro_<n>`), so node indices, slot reuse and the node
   count read by the stop rule differ -- equality of contexts is lost and an injection between the two graphs, preserved
   by add_symbol / bubbling lookup / export, would be needed; per construct C07_macro and C07_import_* hold;
   (2) constants whose definition is not closed after substitution (labels, `*`); (3) conditions whose value differs
   between passes -- there the statement is false (include-guard idiom, finding Known_stale_symbol_survives);
   (4) `.loop` expansion in runs with diagnostics -- false as stated: a diagnostic ends a loop early but not a sequence
   of blocks.  For (1), (2) the equality of images is decided by the oracle. *)
Theorem C07_whole_program_partial : forall p p' passes F o cf,
  Xp p p' -> codegen_ok passes F o p = Some cf ->
  codegen passes F o p = Done cf /\
  exists cf', codegen passes (S F) o p' = Done cf' /\ E cf cf' /\ segment_image cf = segment_image cf' /\ symbols cf = symbols cf'.
Proof. exact whole_program. Qed.
Print Assumptions C07_whole_program_partial.

(* WHOLE PROGRAMS, conditions and counts that depend on symbols (C07_whole_program_stable_conditions).  Closedness is replaced by
   stability over the run: chi assigns values to expressions; XpS expands the `.if`s / `.loop`s whose condition / count is
   closed OR is a string-free expression e with chi e = x; codegen_okc is the diagnostic-free run of the original program
   that additionally checks, on the log of EVERY pass, that each evaluation of such an e gave x.  Then -- proved, not assumed --
   the expansion runs through the same passes and ends with the same table and images.  (A condition whose value differs
   between passes, e.g. one on a label that is unknown in the first pass, fails the check: there the two programs really
   do run different passes.) *)
Theorem C07_whole_program_stable_conditions : forall chi p p' passes F o cf,
  XpS chi p p' -> codegen_okc (chk_of chi) passes F o p = Some cf ->
  codegen passes F o p = Done cf /\
  exists cf', codegen passes (S F) o p' = Done cf' /\ E cf cf' /\ segment_image cf = segment_image cf' /\ symbols cf = symbols cf'.
Proof. exact whole_program_stable_chk. Qed.
Print Assumptions C07_whole_program_stable_conditions.

(* WHOLE PROGRAMS, constants (C07_whole_program_const).  XpC replaces, in operands, `.byte`/`.word` data, `* =`, `.align` and
   the right-hand sides of `.const`/`.var`, an expression e by a closed expression e' with the same span -- what the
   substitution of constants by their parenthesised definitions (C07_const_subst, C07_const_subst_oracle) yields when the
   definitions are literal, transitively -- provided e is string-free and chi e is the value of e'; the definitions stay,
   so both programs build the same table.  With the same per-pass check as above (every evaluation of such an e gave that
   value, in every pass -- this is what rules out a use before the definition, where the original would see "unknown" in
   the first pass and the substituted program would not), the two programs run through the same passes and end with the
   same table and images.  Not covered: definitions that are not closed after substitution (labels, `*`), and uses
   inside macro bodies / invocations' arguments. *)
Theorem C07_whole_program_const : forall chi p p' passes F o cf,
  XpC chi p p' -> codegen_okc (chk_of chi) passes F o p = Some cf ->
  codegen passes F o p = Done cf /\
  exists cf', codegen passes (S F) o p' = Done cf' /\ E cf cf' /\ segment_image cf = segment_image cf' /\ symbols cf = symbols cf'.
Proof. exact whole_program_const. Qed.
Print Assumptions C07_whole_program_const.

(* WHOLE PROGRAMS, runs with diagnostics (C07_whole_program_if_diagnostics).  For the expansion XpI of `.if`s with a closed
   condition (at any nesting depth inside blocks, labelled blocks, kept loops and segment blocks) NO assumption on the run
   is needed: statement by statement the expansion has the same outcome -- value, diagnostics in the same order, context --
   so the two programs run through the same passes, with the same transient diagnostics, and codegen ends the same way:
   Done with the same table and images, or Failed with the same list of diagnostics.  (The hypothesis-free form does not
   extend to `.loop`: a diagnostic in an iteration ends the loop, but the blocks of the expansion all run -- the
   diagnostics then differ, see design.d/C07.md.) *)
Theorem C07_whole_program_if_diagnostics : forall p p' passes F o,
  XpI p p' ->
  match codegen passes F o p with
  | Done cf => exists cf', codegen passes (S F) o p' = Done cf' /\ E cf cf' /\ segment_image cf = segment_image cf' /\ symbols cf = symbols cf'
  | Failed errs cf => exists cf', codegen passes (S F) o p' = Failed errs cf' /\ E cf cf'
  | Aborted _ => True
  end.
Proof. exact whole_program_if_result. Qed.
Print Assumptions C07_whole_program_if_diagnostics.

(* fuel is only a bound: a statement that does not run out of fuel does the same with more fuel *)
Theorem C07_fuel_monotone : forall k fuel t, Le (emit_token fuel t) (emit_token (k + fuel) t).
Proof. exact emit_token_fuel_le. Qed.
Print Assumptions C07_fuel_monotone.

(* Constants: replacing names by their parenthesised definitions does not change the value of an expression, under the
   exact guard that, in the environment of the use, each replaced name is a number and its definition evaluates to that
   number (its free symbols mean at the use what they meant at the definition). *)
Theorem C07_const_subst : forall en sigma, subst_guard en sigma -> forall e, eval en (subst_with sigma e) = eval en e.
Proof. exact const_subst. Qed.
Print Assumptions C07_const_subst.

(* ... and the substitution the expansion oracle performs (spec/Expand.v) is that function *)
Theorem C07_const_subst_oracle : forall m defs scope en e,
  subst_guard en (sigma_of m defs scope) -> eval en (Expand.subst_expr m defs scope e) = eval en e.
Proof. exact expand_const_subst. Qed.
Print Assumptions C07_const_subst_oracle.

(* Imports: the parameter block and the file's statements in the import's scope, then the names of the file are linked into
   the importing scope -- all of them, all under a namespace, or the listed ones under their own name or alias. *)
Theorem C07_import_all : forall fuel star isc b toks c,
  emit_token (S fuel) (TImport (ImportAll star None) isc b (Some toks)) c =
  (import_body (emit_token fuel) isc b toks ;;;
   c1 <- get ;;
   match try_index (symbols c1) (current_scope_nx c1) [isc] with
   | None => ret tt
   | Some import_nx =>
       do_exports (map (fun ch => (snd ch, current_scope_nx c1, [fst ch], star))
                       (filter (fun ch => negb (is_special (fst ch))) (children (symbols c1) import_nx)))
   end) c.
Proof. exact import_all_meaning. Qed.
Print Assumptions C07_import_all.

Theorem C07_import_as : forall fuel star p psp isc b toks c,
  emit_token (S fuel) (TImport (ImportAll star (Some (p, psp))) isc b (Some toks)) c =
  (import_body (emit_token fuel) isc b toks ;;;
   c1 <- get ;;
   match try_index (symbols c1) (current_scope_nx c1) [isc] with
   | None => ret tt
   | Some import_nx =>
       scope_nx <- import_as_scope p ;;
       c2 <- get ;;
       do_exports (map (fun ch => (snd ch, scope_nx, [fst ch], psp))
                       (filter (fun ch => negb (is_special (fst ch))) (children (symbols c2) import_nx)))
   end) c.
Proof. exact import_as_meaning. Qed.
Print Assumptions C07_import_as.

Theorem C07_import_specific : forall fuel items isc b toks c,
  emit_token (S fuel) (TImport (ImportSpecific items) isc b (Some toks)) c =
  (import_body (emit_token fuel) isc b toks ;;;
   c1 <- get ;;
   match try_index (symbols c1) (current_scope_nx c1) [isc] with
   | None => ret tt
   | Some import_nx => l <- specific_exports import_nx items ;; do_exports l
   end) c.
Proof. exact import_specific_meaning. Qed.
Print Assumptions C07_import_specific.

(* the imported names are visible: after an export the name resolves, from the target scope, to the imported symbol itself *)
Theorem C07_import_visible : forall (t : symtab symbol) x parent name t',
  is_super name = false -> export t x parent [name] = (t', true) ->
  try_index t' parent [name] = Some x /\ nodes t' = nodes t.
Proof. exact export_visible. Qed.
Print Assumptions C07_import_visible.

(* ---- non-vacuity ---- *)
Example C07_closed_literal : closed_value (mkL (ENum 10 [51%N] false false) (0, 0) []) 3.
Proof. repeat split. Qed.

(* `.loop 2 { dex / bne - }` and the two blocks written by hand assemble to the same bytes (the former witness of F-C07a) *)
Definition sp (a b : Z) : span := (a, b).
Definition t_sc : ident := [36; 115]%N.
Definition body_dex_bne : list token :=
  [ TInstr Dex (sp 10 13) None;
    TInstr Bne (sp 14 17) (Some (mkL (EId [t_minus] None false false) (sp 18 19) [sp 18 19], Isa.FAbs)) ].
Definition prog_loop : list token :=
  [ TLoop (mkL (ENum 10 [50%N] false false) (sp 6 7) []) t_sc (Blk (sp 8 9) (sp 20 21) body_dex_bne) ].
Definition prog_blocks : list token :=
  [ iteration_block (mkL (ENum 10 [50%N] false false) (sp 6 7) []) t_sc (Blk (sp 8 9) (sp 20 21) body_dex_bne)
      (mkL (ENum 10 [48%N] false false) (0, 0) []) 0;
    iteration_block (mkL (ENum 10 [50%N] false false) (sp 6 7) []) t_sc (Blk (sp 8 9) (sp 20 21) body_dex_bne)
      (mkL (ENum 10 [49%N] false false) (0, 0) []) 1 ].
Example C07_example_loop_equals_blocks :
  exists c c', codegen 10 10 default_options prog_loop = Done c /\ codegen 10 10 default_options prog_blocks = Done c' /\
               map snd (segment_image c) = [[202; 208; 253; 202; 208; 253]%N] /\ segment_image c = segment_image c'.
Proof. eexists. eexists. vm_compute. repeat split. Qed.

(* the former witness of Known_changed_reported_unknown now assembles *)
Example C07_example_changing_symbols_converge :
  exists c, codegen 200 10 default_options prog_changed = Done c /\
            map snd (segment_image c) = [[173; 4; 1; 173; 5; 1; 173; 6; 1; 234; 234; 234]%N].
Proof. exact changing_symbols_converge. Qed.

(* the whole-program theorem applies: `.loop 2 { dex / bne - }` assembles without a diagnostic and is Xp-related to its blocks *)
Example C07_example_whole_program :
  Xp prog_loop prog_blocks /\ exists c, codegen_ok 10 10 default_options prog_loop = Some c.
Proof.
  split.
  - unfold prog_loop, prog_blocks.
    apply (Xp_loop (mkL (ENum 10 [50%N] false false) (sp 6 7) []) 2 t_sc (sp 8 9) (sp 20 21) body_dex_bne body_dex_bne
             [mkL (ENum 10 [48%N] false false) (0, 0) []; mkL (ENum 10 [49%N] false false) (0, 0) []] [] []).
    + repeat split.
    + vm_compute. discriminate.
    + reflexivity.
    + cbn. repeat split.
    + repeat apply Xp_keep. apply Xp_nil.
    + apply Xp_nil.
  - eexists. vm_compute. reflexivity.
Qed.

(* stable, symbol-dependent count: `.const K = 2` / `.loop K { dex / bne - }` against `.const K = 2` and the two blocks *)
Definition t_K : ident := [75]%N.
Definition chi_K (e : expr) : option Z :=
  match e with EId [k] None false false => if text_eqb k t_K then Some 2 else None | _ => None end.
Definition count_K : lexpr := mkL (EId [t_K] None false false) (sp 6 7) [sp 6 7].
Definition const_K : token := TVarDef VConst t_K (sp 1 2) (mkL (ENum 10 [50%N] false false) (sp 3 4) []).
Definition prog_loop_K : list token := [ const_K; TLoop count_K t_sc (Blk (sp 8 9) (sp 20 21) body_dex_bne) ].
Definition prog_blocks_K : list token :=
  [ const_K;
    it_block count_K t_sc (sp 8 9) (sp 20 21) body_dex_bne (mkL (ENum 10 [48%N] false false) (0, 0) []) 0;
    it_block count_K t_sc (sp 8 9) (sp 20 21) body_dex_bne (mkL (ENum 10 [49%N] false false) (0, 0) []) 1 ].
Example C07_example_stable_count :
  XpS chi_K prog_loop_K prog_blocks_K /\ exists c, codegen_okc (chk_of chi_K) 10 10 default_options prog_loop_K = Some c.
Proof.
  split.
  - unfold prog_loop_K, prog_blocks_K. apply XpS_keep.
    apply (XpS_loop chi_K count_K 2 t_sc (sp 8 9) (sp 20 21) body_dex_bne body_dex_bne
             [mkL (ENum 10 [48%N] false false) (0, 0) []; mkL (ENum 10 [49%N] false false) (0, 0) []] [] []).
    + right. split; reflexivity.
    + vm_compute. discriminate.
    + reflexivity.
    + cbn. repeat split.
    + repeat apply XpS_keep. apply XpS_nil.
    + apply XpS_nil.
  - eexists. vm_compute. reflexivity.
Qed.

(* runs with diagnostics: `.if 1 { lda nowhere }` fails with "unknown identifier" after two passes, and so does `lda nowhere` *)
Definition t_nowhere : ident := [110; 111]%N.
Definition lda_nowhere : token :=
  TInstr Lda (sp 10 13) (Some (mkL (EId [t_nowhere] None false false) (sp 14 16) [sp 14 16], Isa.FAbs)).
Definition prog_if_fails : list token :=
  [ TIf (mkL (ENum 10 [49%N] false false) (sp 4 5) []) (Blk (sp 6 7) (sp 20 21) [lda_nowhere]) None ].
Example C07_example_if_diagnostics :
  XpI prog_if_fails [lda_nowhere] /\
  exists errs c c', errs <> [] /\ codegen 10 10 default_options prog_if_fails = Failed errs c /\
                    codegen 10 11 default_options [lda_nowhere] = Failed errs c'.
Proof.
  split.
  - unfold prog_if_fails. apply (XpI_if _ 1 _ None [lda_nowhere] [] []).
    + repeat split.
    + cbn. apply XpI_keep. apply XpI_nil.
    + apply XpI_nil.
  - eexists. eexists. eexists. vm_compute. repeat split. discriminate.
Qed.

(* constants: `.const K = 2` / `lda K` / `.byte K` against `.const K = 2` / `lda (2)` / `.byte (2)` *)
Definition use_K (a b : Z) : lexpr := mkL (EId [t_K] None false false) (sp a b) [sp a b].
Definition sub_K (a b : Z) : lexpr := mkL (EParens (ENum 10 [50%N] false false) false false) (sp a b) [sp a b].
Definition prog_use_K : list token := [ const_K; TInstr Lda (sp 30 33) (Some (use_K 34 35, Isa.FAbs)); TData 1 [use_K 42 43] ].
Definition prog_sub_K : list token := [ const_K; TInstr Lda (sp 30 33) (Some (sub_K 34 35, Isa.FAbs)); TData 1 [sub_K 42 43] ].
Lemma esub_K a b : esub chi_K (use_K a b) (sub_K a b).
Proof.
  split; [reflexivity|]. exists 2. split; [right; split; reflexivity|].
  split; [reflexivity|split; [reflexivity|intro en; reflexivity]].
Qed.
Example C07_example_const :
  XpC chi_K prog_use_K prog_sub_K /\
  exists c c', codegen_okc (chk_of chi_K) 10 10 default_options prog_use_K = Some c /\
               codegen 10 11 default_options prog_sub_K = Done c' /\ map snd (segment_image c') = [[165; 2; 2]%N].
Proof.
  split.
  - unfold prog_use_K, prog_sub_K. apply XpC_keep. apply XpC_instr; [apply esub_K|].
    apply XpC_data; [constructor; [apply esub_K|constructor]|apply XpC_nil].
  - eexists. eexists. vm_compute. repeat split.
Qed.

(* C04 -- invalid programs are rejected at the offending location and produce no binary.
   Models: model/Build.v (build_command over an abstract file system; step order = Gen.BuildFlow, translated),
   model/PassLoopErr.v (error logic of the pass loop over an abstract pass function; conditions = Gen.PassLoopConds,
   translated), model/ErrorArms.v (which span each error constructor carries; Gen.ErrSpans, translated). *)
From Coq Require Import List Bool ZArith Permutation.
Import ListNotations.
From Mos Require Import Gen.BuildFlow Gen.PassLoopConds Gen.ErrSpans model.Build model.PassLoopErr model.ErrorArms
  proofs.BuildProofs proofs.PassLoopErrProofs.
From Mos Require model.Utf model.Nom Gen.ParserTables model.Parser spec.ParseErrors proofs.ParseErrProofs.

(* For ALL projects (arbitrary parse / codegen / merge_segments / writer functions, any file system, any configuration):
   a build that ends with diagnostics has not created or modified any file; at most the target directory exists now. *)
Theorem C04_no_write_on_diag :
  forall (path content tree gen bank diag : Type) parse codegen banks_len prg_diag merge_segments write_banks write_listing
         write_symbols mkdir_ok cfg f f' ds,
  Build.build path content tree gen bank diag parse codegen banks_len prg_diag merge_segments write_banks write_listing
              write_symbols mkdir_ok cfg f = (f', Build.Failed diag ds) ->
  files _ _ f' = files _ _ f /\
  (dirs _ _ f' = dirs _ _ f \/ dirs _ _ f' = cfg_target_dir _ cfg :: dirs _ _ f).
Proof. exact no_write_on_diag. Qed.
Print Assumptions C04_no_write_on_diag.

(* ... and a build that succeeds got an empty diagnostics list from the parser and from codegen. *)
Theorem C04_built_means_no_diag :
  forall (path content tree gen bank diag : Type) parse codegen banks_len prg_diag merge_segments write_banks write_listing
         write_symbols mkdir_ok cfg f f',
  Build.build path content tree gen bank diag parse codegen banks_len prg_diag merge_segments write_banks write_listing
              write_symbols mkdir_ok cfg f = (f', Build.Built diag) ->
  exists t g, parse cfg (create_dir_all _ _ (cfg_target_dir _ cfg) f) = (Some t, []) /\ codegen cfg t = (Some g, []).
Proof. exact built_means_no_diag. Qed.
Print Assumptions C04_built_means_no_diag.

(* The pass loop's only successful exit, for ALL pass functions and any number of passes: the last pass raised no
   error, left nothing undefined, changed no symbol's value and added no symbol. *)
Theorem C04_done_means_clean :
  forall state pass nodes_added nothing_changed no_segments create_default_segment next_pass finalize sort_undefined fuel c u pu pe c' fe,
  PassLoopErr.loop state pass nodes_added nothing_changed no_segments create_default_segment next_pass finalize sort_undefined fuel c u pu pe
    = Done state c' fe ->
  exists c0 u0, pass c0 u0 = (c', [], []) /\ nodes_added c0 c' = false /\ nothing_changed c' = true /\
                no_segments c' = false /\ fe = finalize c'.
Proof. exact done_means_clean. Qed.
Print Assumptions C04_done_means_clean.

(* Hence a fault that raises an error in every pass in which it is executed never builds: codegen ends with a
   non-empty diagnostics list. *)
Theorem C04_fault_never_builds :
  forall state pass nodes_added nothing_changed no_segments create_default_segment next_pass finalize sort_undefined,
  (forall l, Permutation (sort_undefined l) l) ->
  (forall c u, snd (pass c u) <> []) ->
  forall fuel c u pu pe, exists c' ds,
    PassLoopErr.loop state pass nodes_added nothing_changed no_segments create_default_segment next_pass finalize sort_undefined fuel c u pu pe
      = PassLoopErr.Failed state c' ds /\ ds <> [].
Proof. exact always_error_never_builds. Qed.
Print Assumptions C04_fault_never_builds.

(* The truly-undefined rule: the same non-empty undefined set after two consecutive error-free passes ends the build
   with one `unknown identifier` diagnostic per item, each labelled with the span recorded at the item's USAGE. *)
Theorem C04_truly_undefined_reported :
  forall state pass nodes_added nothing_changed no_segments create_default_segment next_pass finalize sort_undefined,
  (forall l, Permutation (sort_undefined l) l) ->
  forall f c u pu pe c1 undef1,
  pass c u = (c1, undef1, []) -> no_segments c1 = false -> undef1 <> [] -> uset_eqb undef1 pu = true ->
  exists ds,
    PassLoopErr.loop state pass nodes_added nothing_changed no_segments create_default_segment next_pass finalize sort_undefined (S f) c u pu pe
      = PassLoopErr.Failed state c1 ds /\
    Permutation ds (map undefined_diag undef1) /\
    (forall d, In d ds -> exists x, In x undef1 /\ d_message d = UnknownIdentifier (u_id x) /\ d_label d = u_span x).
Proof. exact truly_undefined_reported. Qed.
Print Assumptions C04_truly_undefined_reported.

(* Each modelled error constructor labels its diagnostic with the span of the offending construct: undefined symbol ->
   the usage; undefined macro / wrong number of arguments -> the invocation's name (not the definition); undefined
   segment -> the segment name; redefinition -> the id of the new definition; invalid instruction -> mnemonic merged
   with operand; branch too far -> the mnemonic. *)
Theorem C04_location : forall k p, diag_span k p = offending_span k p.
Proof. exact location. Qed.
Print Assumptions C04_location.

Theorem C04_instruction_errors_begin_at_mnemonic : forall k p,
  (k = InvalidInstruction \/ k = BranchTooFar) ->
  (match p_operand p with Some o => (lo (p_mnemonic p) <= lo o)%Z | None => True end) ->
  lo (diag_span k p) = lo (p_mnemonic p).
Proof. exact instruction_errors_begin_at_mnemonic. Qed.
Print Assumptions C04_instruction_errors_begin_at_mnemonic.

Theorem C04_spans_in_file : forall k p len, parts_within len p -> within len (diag_span k p).
Proof. exact spans_in_file. Qed.
Print Assumptions C04_spans_in_file.

(* An identifier used ANYWHERE in an expression is looked up (and, if it does not resolve, recorded as undefined and
   reported by the truly-undefined rule at its usage span) -- also as the right operand of `&&` / `||` whose left operand
   already decides the result: the evaluator evaluates both operands of every binary operator (translated shape). *)
Theorem C04_undefined_anywhere : forall e p, mentions p e -> In p (tracked e).
Proof. exact undefined_anywhere. Qed.
Print Assumptions C04_undefined_anywhere.

(* ---- parse level, on dev-parse's parser model (model/Nom.v + model/Parser.v, the whole grammar; see props/C05.v) ----
   For ALL texts: every Error token anywhere in the tree of a parsed file (top level or nested blocks) pushed the
   diagnostic `unexpected '<its text>'` over exactly its span -- unless it was the one diagnostic that
   ignore_next_error() suppresses behind an unterminated block comment, whose own diagnostic is then present. *)
Theorem C04_error_token_reported : forall s toks ds l,
  Parser.parse s = Parser.Parsed toks ds -> ParseErrors.occurs (Parser.TError l) toks ->
  ParseErrors.reported ds (ParseErrors.err_obl l).
Proof. exact ParseErrProofs.error_token_reported. Qed.
Print Assumptions C04_error_token_reported.

(* For ALL texts: every block of the tree whose closing brace is missing pushed `expected closing delimiter`
   (a point diagnostic; by C04_expect_reported at the offset where the brace was expected). *)
Theorem C04_unclosed_block_reported : forall s toks ds t b,
  Parser.parse s = Parser.Parsed toks ds -> ParseErrors.occurs t toks -> In b (ParseErrors.blocks_of t) ->
  ParseErrors.block_closed b = false -> ParseErrors.reported ds (ParseErrors.point_expect Nom.MClosing).
Proof. exact ParseErrProofs.unclosed_block_reported. Qed.
Print Assumptions C04_unclosed_block_reported.

(* Every failed `expect` with a non-empty message consumes nothing and pushes its diagnostic at the current offset,
   i.e. where the missing construct was expected (whatever state-growing parser it wraps). *)
Theorem C04_expect_reported : forall (A : Type) (p : Nom.parser A) m st i st' r,
  ParseErrProofs.quiet p -> m <> Nom.MEmpty -> ParseErrProofs.inv2 st ->
  Nom.expect p m st i = (st', Nom.Ok None r) ->
  r = i /\ ParseErrors.reported (Nom.errors st') (eq (ParseErrors.expect_diag m i)).
Proof. exact @ParseErrProofs.expect_reports. Qed.
Print Assumptions C04_expect_reported.

(* All obligations of the tree at once. *)
Theorem C04_parse_obligations_met : forall s toks ds,
  Parser.parse s = Parser.Parsed toks ds -> Forall (ParseErrors.reported ds) (ParseErrors.Etoks toks).
Proof. exact ParseErrProofs.parse_obligations_met. Qed.
Print Assumptions C04_parse_obligations_met.

(* "nop\n{\n%%\nnop": an error token inside a block that is never closed: both diagnostics are there *)
Example C04_example_parse :
  exists toks d1 d2, Parser.parse [110;111;112;10;123;10;37;37;10;110;111;112]%N = Parser.Parsed toks [d1; d2] /\
    Nom.d_kind d1 = Nom.KUnexpected [37;37]%N /\ Nom.d_lo d1 = 6%N /\ Nom.d_hi d1 = 8%N /\
    Nom.d_kind d2 = Nom.KExpect Nom.MClosing /\ Nom.d_lo d2 = 12%N.
Proof. vm_compute. do 3 eexists. repeat split. Qed.

(* non-vacuity: a pass function that is clean on its second call builds; one that always errs does not *)
Example C04_example_done :
  PassLoopErr.codegen nat (fun c _ => (S c, [], [])) (fun _ _ => false) (fun _ => true) (fun c => Nat.eqb c 1%nat) (fun c => c) (fun c => c)
                      (fun _ => []) (fun l => l) 0%nat = Done nat 2%nat [].
Proof. vm_compute. reflexivity. Qed.

Example C04_example_bail :
  PassLoopErr.codegen nat (fun c _ => (S c, [], [mkDiag (Other 1) None])) (fun _ _ => false) (fun _ => true) (fun c => Nat.eqb c 1%nat) (fun c => c)
                      (fun c => c) (fun _ => []) (fun l => l) 0%nat = PassLoopErr.Failed nat 2%nat [mkDiag (Other 1) None].
Proof. vm_compute. reflexivity. Qed.

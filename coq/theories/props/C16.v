(* C16 -- go-to-definition and find-references agree with the assembler's scoping.
   Model: model/SymGraph.v (symbols.rs), model/Analysis.v (analysis.rs, the recording sites of codegen/mod.rs and
   evaluator.rs, the handlers of lsp/references.rs); vocabulary: spec/NavSpec.v. *)
From Coq Require Import List NArith Arith Bool Permutation.
Import ListNotations.
From Mos Require Import model.SymGraph model.Analysis spec.NavSpec proofs.SymGraphProofs proofs.NavProofs proofs.GreedyProofs proofs.FuelProofs proofs.UnassembledProofs model.SymSlots proofs.SlotsProofs.

(* Within one pass: for every graph, scope, path (dotted, `super`, bubbling outward any number of scopes) the
   occurrence's last identifier is recorded as a usage of exactly the node `query` handed to the evaluator for that
   path from that scope -- on that node, and on no other definition. *)
Theorem C16_usage_is_binding : forall fuel g scope p span a a' nx,
  p <> [] ->
  query fuel g scope p = Some (Some nx) ->
  add_symbol_usage fuel g scope p span a = Some a' ->
  let occ := last_segment_span span p in
  (forall ps, parent g nx = Some ps -> In (mkLoc ps occ) (usages_of a' (DtSymbol nx))) /\
  (forall ty u, dl_span u = occ -> In u (usages_of a' ty) -> ~ In u (usages_of a ty) -> ty = DtSymbol nx).
Proof. exact usage_is_binding. Qed.
Print Assumptions C16_usage_is_binding.

(* Every identifier of a path, not only the last: what one tracked lookup records is, identifier by identifier,
   the node the resolving walk passes through (the Symbol steps of the traversal), at that identifier's columns. *)
Theorem C16_every_segment_recorded : forall fuel g scope p span a a',
  p <> [] -> add_symbol_usage fuel g scope p span a = Some a' ->
  forall ty, (forall u, In u (usages_of a' ty) <-> In u (usages_of a ty) \/ In (ty, u) (use_pairs fuel g scope p span))
             /\ location_of a' ty = location_of a ty.
Proof. exact add_symbol_usage_spec. Qed.
Print Assumptions C16_every_segment_recorded.

(* references(position) lists an occurrence iff a symbol definition found at the position has it as its
   definition site or usage, and that same definition is among definitions_at(every position of that occurrence). *)
Theorem C16_symmetric : forall a f l c sp,
  In sp (find_references a true f l c) <->
  exists ty d, is_symbol ty = true /\ In (ty, d) (find_ a f l c) /\
               In sp (map dl_span (definition_and_usages d)) /\
               (forall f' l' c', span_contains sp f' l' c' = true -> In (ty, d) (find_ a f' l' c')).
Proof. exact references_symmetric. Qed.
Print Assumptions C16_symmetric.

(* document highlights = references (declaration included) restricted to the file, wherever the position is not
   the file name of an import. *)
Theorem C16_highlights_are_references_in_file : forall a f l c,
  (forall ty d, In (ty, d) (find_ a f l c) -> is_symbol ty = true) ->
  document_highlight a f l c = filter (fun s => Nat.eqb (s_file s) f) (find_references a true f l c).
Proof. exact highlights_are_references_in_file. Qed.
Print Assumptions C16_highlights_are_references_in_file.

(* The database after codegen() is what the LAST pass recorded, for every history of passes. *)
Theorem C16_last_pass_decides : forall fuel passes evs, run_passes fuel (passes ++ [evs]) = run_pass fuel [] evs.
Proof. exact cleared_history. Qed.
Print Assumptions C16_last_pass_decides.

(* Go-to-definition = the assembled binding, for every order of the hash map: if the pass evaluated the occurrence
   and `query` answered nx, then at every position of the occurrence's last identifier the answer is nx's definition
   site -- provided everything else the pass recorded at that position is located at the same site
   (single resolution; fails only where one occurrence is bound to different definitions within one pass, i.e. a
   macro body or loop body that is expanded in different scopes). *)
Theorem C16_goto_is_assembled_binding : forall fuel evs a,
  Forall wf_event evs -> run_pass fuel [] evs = Some a ->
  forall g scope p span nx ps,
  In (EvUse g scope p span) evs ->
  query fuel g scope p = Some (Some nx) -> parent g nx = Some ps ->
  forall f l c, span_contains (last_segment_span span p) f l c = true ->
  (forall ty, recorded_at fuel evs ty f l c ->
              option_map dl_span (location_of a ty) = option_map dl_span (location_of a (DtSymbol nx))) ->
  forall a', Permutation a a' ->
  go_to_definition a' f l c = option_map dl_span (location_of a (DtSymbol nx)).
Proof. exact goto_is_assembled_binding. Qed.
Print Assumptions C16_goto_is_assembled_binding.

(* ---- the repaired defect (F-C16a): accumulating over passes ---- *)
(* foo: nop / { lda foo / foo: nop } -- the inner foo exists from the end of the first pass on, so `lda foo`
   resolves to the outer foo (node 1) in pass 0 and to the inner foo (node 3) in pass 1. *)
Definition foo : ident := [102; 111; 111]%N.
Definition scope1 : ident := [36; 115; 49]%N.
Definition g_pass0 : graph := [mkEdge 0 scope1 2; mkEdge 0 foo 1].
Definition g_pass1 : graph := mkEdge 2 foo 3 :: g_pass0.
Definition outer_site := mkSpan 0 1 0 1 3.
Definition inner_site := mkSpan 0 4 0 4 3.
Definition occurrence := mkSpan 0 3 4 3 7.
Definition pass_events (g : graph) : list Event :=
  [EvDefine 1 (mkLoc 0 outer_site); EvUse g 2 [foo] occurrence; EvDefine 3 (mkLoc 2 inner_site)].
Definition history := [pass_events g_pass0; pass_events g_pass1].

(* without the clearing, the occurrence is a usage of both definitions, and there is a hash order in which
   go-to-definition answers the outer foo although the last pass (whose bytes are the output) bound the inner one *)
Theorem C16_all_passes_accumulate_refuted :
  exists a, run_passes_accumulating 5 history = Some a /\
    query 5 g_pass1 2 [foo] = Some (Some 3) /\
    location_of a (DtSymbol 3) = Some (mkLoc 2 inner_site) /\
    In (mkLoc 0 occurrence) (usages_of a (DtSymbol 1)) /\ In (mkLoc 2 occurrence) (usages_of a (DtSymbol 3)) /\
    exists a', Permutation a a' /\ go_to_definition a' 0 3 5 = Some outer_site.
Proof. exact accumulate_refuted. Qed.
Print Assumptions C16_all_passes_accumulate_refuted.

(* with it, the same history answers the inner foo under every hash order *)
Theorem C16_history_witness_repaired : forall a a',
  run_passes 5 history = Some a -> Permutation a a' -> go_to_definition a' 0 3 5 = Some inner_site.
Proof. exact history_repaired. Qed.
Print Assumptions C16_history_witness_repaired.

(* ---- the repaired defect F-C16c (41281c3): the server's greedy analysis; statements about the OLD behaviour and
        about why removing the greedy-only symbols again is enough ---- *)
(* The table of the analysed run is the build's table plus the edges of definitions that only exist in untaken
   branches / uninvoked macro bodies.  foo: nop / { .if 0 { foo: nop } / .word foo }: the analysed run binds
   `.word foo` to the untaken foo (node 3), the build to the outer one (node 1). *)
Theorem C16_greedy_untaken_definition_refuted :
  query 5 gw_table 2 [gw_foo] = Some (Some 3) /\ query 5 (without gw_extra gw_table) 2 [gw_foo] = Some (Some 1) /\
  Known_greedy_untaken_definition gw_extra gw_table [gw_foo] = true.
Proof. exact greedy_refuted. Qed.
Print Assumptions C16_greedy_untaken_definition_refuted.

(* Outside the class -- no identifier of the path is the name of a greedy-only definition -- every lookup of the
   analysed run takes exactly the steps it takes on the build's table (all tables, all paths, all scopes; the
   greedy-only definitions are new nodes). *)
Theorem C16_greedy_agrees_with_build : forall is_extra g' p,
  Known_greedy_untaken_definition is_extra g' p = false ->
  forall scope,
  (forall e, In e g' -> is_extra e = true -> forall n, node_of (without is_extra g') n \/ n = scope -> e_dst e <> n) ->
  forall fuel, query_traversal_steps fuel g' scope p = query_traversal_steps fuel (without is_extra g') scope p.
Proof. exact greedy_agrees. Qed.
Print Assumptions C16_greedy_agrees_with_build.

(* The repair (CodegenContext::analyse_unassembled): what the unassembled code inserted hangs on its new nodes; removing
   those nodes gives back exactly the table the region started with -- for all tables and all such regions.  So the
   table the program's own lookups see is the build's table. *)
Theorem C16_unassembled_region_leaves_no_trace : forall g extra news,
  (forall e, In e extra -> touches news e = true) ->
  (forall e, In e g -> touches news e = false) ->
  fold_left remove news (extra ++ g) = g.
Proof. exact unassembled_region_leaves_no_trace. Qed.
Print Assumptions C16_unassembled_region_leaves_no_trace.

(* ... with the node allocator made explicit (model/SymSlots.v: StableGraph hands vacant slots out again, most recently
   freed first, so a new symbol's index may be SMALLER than indices that existed before): for every well-formed table
   -- any free list -- and every sequence of definitions the unassembled code makes, analyse_unassembled (snapshot of
   the existing indices, everything else removed) restores edges and occupied slots exactly. *)
Theorem C16_analyse_unassembled_leaves_no_trace : forall t r,
  wf t ->
  t_edges (analyse_unassembled t r) = t_edges t /\ t_live (analyse_unassembled t r) = t_live t.
Proof. exact analyse_unassembled_leaves_no_trace. Qed.
Print Assumptions C16_analyse_unassembled_leaves_no_trace.

(* Removing only the indices at or above a high-water mark is NOT enough: with a vacant slot below the mark the first
   new symbol lands there, survives, and captures the lookup of its name from its scope (seeded change C16_6). *)
Theorem C16_high_water_mark_refuted :
  wf hw_table /\
  t_edges (analyse_unassembled hw_table hw_region) = t_edges hw_table /\
  t_edges (analyse_unassembled_high_water hw_table hw_region) = mkEdge 1 hw_foo 2 :: t_edges hw_table /\
  query 5 (t_edges hw_table) 1 [hw_foo] = Some (Some 3) /\
  query 5 (t_edges (analyse_unassembled_high_water hw_table hw_region)) 1 [hw_foo] = Some (Some 2).
Proof. exact high_water_mark_refuted. Qed.
Print Assumptions C16_high_water_mark_refuted.

(* Out-of-fuel (the `None` of query_traversal_steps) is excluded by name in the statements above.  It never occurs on
   a table whose parent chain from the scope ends (depth d) once fuel exceeds d, and more fuel never changes an
   answer: the theorems do not depend on the fuel the check happens to supply (number of nodes + 2). *)
Theorem C16_fuel_suffices : forall g p f n d,
  depth f g n = Some d -> forall fuel, d < fuel -> query_traversal_steps fuel g n p <> None.
Proof. exact qts_fuel_suffices. Qed.
Print Assumptions C16_fuel_suffices.

Theorem C16_fuel_irrelevant : forall g p fuel n steps,
  query_traversal_steps fuel g n p = Some steps -> forall k, query_traversal_steps (fuel + k) g n p = Some steps.
Proof. exact qts_fuel_mono. Qed.
Print Assumptions C16_fuel_irrelevant.

(* non-vacuity: a dotted path that needs bubbling (T.U.a looked up two scopes below T's parent) *)
Example C16_example_bubbling :
  let idT := [84]%N in let idU := [85]%N in let ida := [97]%N in let idS := [83]%N in
  let g := [mkEdge 5 ida 6; mkEdge 4 idU 5; mkEdge 0 idT 4; mkEdge 2 ida 3; mkEdge 1 idS 2; mkEdge 0 idS 1] in
  query_traversal_steps 9 g 2 [idT; idU; ida] = Some [Super 1; Super 0; Symbol 4; Symbol 5; Symbol 6] /\
  use_pairs 9 g 2 [idT; idU; ida] (mkSpan 0 7 4 7 9) =
    [(DtSymbol 4, mkLoc 0 (mkSpan 0 7 4 7 5)); (DtSymbol 5, mkLoc 4 (mkSpan 0 7 6 7 7)); (DtSymbol 6, mkLoc 5 (mkSpan 0 7 8 7 9))].
Proof. vm_compute. split; reflexivity. Qed.

(* C13 -- formatting is idempotent. *)
From Coq Require Import List NArith Bool.
Import ListNotations.
From Mos Require Import model.Format Gen.FmtRules model.FormatTokens spec.FormatSpec proofs.FormatProofs proofs.FormatIdem.

(* F-C13a, on the model of join_chunks: a comment that spans two lines is laid out with its continuation line moved to
   the code column; a second run starts from that text (c2 = the comment as it stands in the output of the first run)
   and moves the continuation line again -- the output of the formatter is not a fixed point. *)
Theorem C13_multiline_comment_refuted : exists o c1 c2 rest,
  let cs c := [mkChunk (Some Comment) 0 c; mkChunk None 0 [NL]; mkChunk None 0 rest] in
  join_chunks (cs c1) o = spaces 20 ++ c2 ++ NL :: spaces 20 ++ rest /\
  join_chunks (cs c2) o <> join_chunks (cs c1) o.
Proof. exact multiline_comment_refuted. Qed.
Print Assumptions C13_multiline_comment_refuted.

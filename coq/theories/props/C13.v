(* C13 -- formatting is idempotent. *)
From Coq Require Import List NArith Bool.
Import ListNotations.
From Mos Require Import model.Nom model.Parser spec.LayoutEquiv proofs.C08Sweep model.FormatParse proofs.FormatSweepDefs proofs.FormatSweep.
From Mos Require Import model.Format Gen.FmtRules model.FormatTokens spec.FormatSpec proofs.FormatProofs
  proofs.FormatIdemGeneral proofs.FormatIdem.

(* Blank-line squeezing, for ALL chunk lists and options: join_chunks never emits two adjacent empty lines -- the
   normal form a second run starts from (it finds at most single empty lines and keeps each of them). *)
Theorem C13_blank_lines_squeezed : forall cs o a b, join_lines cs o <> a ++ [] :: [] :: b.
Proof. exact blank_lines_squeezed. Qed.
Print Assumptions C13_blank_lines_squeezed.

(* Line assembly is a fixed point of re-chunking, for ALL chunk lists and ALL options: take the lines join_chunks emitted,
   describe each by the chunks that went into it (same type, same indent) followed by a newline chunk
   (spec.FormatSpec.rechunk: what a second run sees of the first run's layout -- ignored newlines and squeezed empty
   lines are gone, a plain chunk `text\n` has become `text` + newline chunk, the newline that format_tokens pushes in
   front of Eof follows the last line), join again: the same text.
   Guard (decidable, exact in kind: see the refuted lemma below): stable_chunks = no empty chunk; labels and comments on
   one line -- i.e. no multi-line comment; a plain chunk has a line break at most as its last character.
   Proof: replay invariant over the model's own run (proofs/FormatIdemGeneral.v), no bound on the list. *)
Theorem C13_join_fixed : forall cs o, stable_chunks cs = true ->
  join_chunks (rechunk cs o) o = join_chunks cs o.
Proof. exact join_fixed. Qed.
Print Assumptions C13_join_fixed.

(* the guard is exact in kind: a typed chunk that contains its own line break is not reproduced from its lines *)
Theorem C13_join_fixed_guard_needed_refuted : exists cs o,
  stable_chunks cs = false /\ join_chunks (rechunk cs o) o <> join_chunks cs o.
Proof. exact join_fixed_needs_stable. Qed.
Print Assumptions C13_join_fixed_guard_needed_refuted.

(* The full statement, format o (parse (format o (parse s))) = format o (parse s), on the whole Gallina pipeline
   (model/Parser.v -> model/FormatParse.v -> model/FormatTokens.v -> model/Format.v).
   PARTIAL: proved by exhaustive kernel evaluation over the layout domain of C08 (126 statement templates, 7458 texts incl.
   multi-line and nested block comments, line comments and CRLF in every trivia slot) x 3 option sets -- see
   C12_reparse_bounded_partial -- not for arbitrary programs.  No guard: since 3aa1103 multi-line comments are fixed
   points too.  Missing for the unbounded statement: the print-then-parse theorem of the parser (unbounded C08 layout
   theorem), which would turn C13_join_fixed (all chunk lists) plus the layout independence of format_tokens into it. *)
Theorem C13_idempotent_bounded_partial : forall o tpl s,
  In o sweep_options3 -> In tpl templates -> In s (canon tpl :: variants tpl) ->
  exists f, format_source o s = Some f /\ format_source o f = Some f.
Proof. exact idempotent_bounded. Qed.
Print Assumptions C13_idempotent_bounded_partial.

(* The repaired F-C13a (3aa1103) on the model of join_chunks: a comment that spans two lines is laid out with its
   continuation line at the code column (c2 = the comment as it stands in the output); laying out c2 again gives the
   same text -- the blanks a continuation line starts with are dropped before it is placed.  (Before the repair the
   second layout differed: the line drifted to the right on every run.) *)
Theorem C13_multiline_comment_fixed : exists o c1 c2 rest,
  let cs c := [mkChunk (Some Comment) 0 c; mkChunk None 0 [NL]; mkChunk None 0 rest] in
  contains_nl c1 = true /\ c2 <> c1 /\
  join_chunks (cs c1) o = spaces 20 ++ c2 ++ NL :: spaces 20 ++ rest /\
  join_chunks (cs c2) o = join_chunks (cs c1) o.
Proof. exact multiline_comment_fixed. Qed.
Print Assumptions C13_multiline_comment_fixed.

(* non-vacuity of C13_join_fixed: label + code + comment + newline, re-chunked and joined again *)
Example C13_join_fixed_example :
  let cs := [mkChunk (Some Label) 0 [97; 58]%N; mkChunk None 0 [NL]; mkChunk None 0 [110; 111; 112]%N;
             mkChunk (Some Comment) 0 [47; 47; 32; 99]%N; mkChunk None 0 [NL]; mkChunk None 0 [NL]; mkChunk None 0 [NL]] in
  stable_chunks cs = true /\
  rechunk cs default_options = [mkChunk (Some Label) 0 [97; 58]%N; mkChunk None 0 [110; 111; 112]%N;
                                mkChunk (Some Comment) 0 [47; 47; 32; 99]%N; mkChunk None 0 [NL]; mkChunk None 0 [NL]].
Proof. vm_compute. repeat split; reflexivity. Qed.

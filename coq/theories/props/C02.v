(* C02 -- a successful build is a fixed point: labels are addresses, operands final. *)
From Coq Require Import List NArith ZArith Bool.
Import ListNotations.
From Mos Require Import model.I64 Gen.BinOps model.Expr Gen.OpcodeTable spec.Isa model.Encode.
From Mos Require Import model.SymTab Gen.CodegenConsts model.Segment model.Asm spec.FixedPoint proofs.AsmLift proofs.AsmProofs
  proofs.SegmentProofs proofs.AsmSim proofs.AsmWitnesses.
Open Scope Z_scope.

(* A pass is a function of the tokens and of the non-ghost part of the context it starts from (symbol table, undefined
   set, segments, scope, counters): contexts that agree on it give equal diagnostics and end contexts that agree on it
   again -- in particular equal images and end tables; the ghost log and counters are never read. *)
Theorem C02_pass_deterministic : forall fuel toks c c',
  E c c' -> pass_rel (run_pass fuel toks c) (run_pass fuel toks c').
Proof. exact run_pass_core. Qed.
Print Assumptions C02_pass_deterministic.

(* Table-write invariant, for every token at every fuel (labels, blocks, instructions, data, `* =`, .align, const/var,
   segments, if, loop, macro definition and invocation, import, test): the undefined set, the number of table nodes and
   the ghost counter of unflagged changes (.var value changes, import links) only grow; a step that grew none of them left
   the table unchanged up to pass stamps, and every symbol write / expression evaluation it logged is true of that table. *)
Theorem C02_table_write_invariant : forall fuel t c,
  match emit_token fuel t c with Ret _ c' | Err _ c' => good c c' | Abort _ => True end.
Proof. exact emit_token_good. Qed.
Print Assumptions C02_table_write_invariant.

(* A pass that found every identifier, changed no symbol value, inserted no node and changed no variable leaves the
   table unchanged. *)
Theorem C02_clean_static_stable : forall fuel toks c errs c',
  run_pass fuel toks c = PassOk errs c' ->
  undefined c' = [] -> changed c' = [] -> node_count (symbols c') = node_count (symbols c) -> g_vch c' = g_vch c ->
  same_vals (symbols c) (symbols c').
Proof. exact clean_static_stable. Qed.
Print Assumptions C02_clean_static_stable.

(* The stop rule translated from codegen() (Gen.CodegenConsts.stop_needs_no_new_symbols = true since the repair of
   F-C02a): a run that ends in Done ended with a pass that flagged nothing and added no node. *)
Theorem C02_stop_rule_stable : forall passes fuel o toks cf,
  codegen passes fuel o toks = Done cf ->
  (undefined cf = [] /\ changed cf = []) /\
  exists c0, run_pass fuel toks c0 = PassOk [] cf /\ g_trace c0 = [] /\ node_count (symbols cf) = node_count (symbols c0).
Proof. exact done_is_stable. Qed.
Print Assumptions C02_stop_rule_stable.

(* Fixed point, for every program of the modelled language, every pass bound and fuel: if assembly succeeds (and no
   `.var` changed value / no import re-linked symbols during the last pass), then against the FINAL symbol table every
   symbol the last pass stored -- labels (= target pc at the statement), `-`/`+` of blocks, constants, macro arguments,
   segments.<n>.start/end -- is found under its scope with the stored value, and every expression the last pass evaluated
   -- operands, data items, `* =`, .align, .if/.loop arguments, segment options -- evaluates to the value that was used. *)
Theorem C02_fixed_point : forall passes fuel o toks cf,
  codegen passes fuel o toks = Done cf -> no_silent_change cf -> FixedPoint cf.
Proof. exact fixed_point. Qed.
Print Assumptions C02_fixed_point.

(* Segment image: the bytes of a segment after the pass are the bytes of the emissions logged for it, in order,
   each placed at the program counter it was emitted at, later emissions overwriting earlier ones, zero elsewhere; the
   range spans from the lowest start to the highest end of the emissions. *)
Theorem C02_segment_image : forall passes fuel o toks cf name s,
  codegen passes fuel o toks = Done cf -> seg_get (segments cf) name = Some s ->
  let ws := writes_of name (g_trace cf) in
  g_writes s = ws /\
  (g_has_data s = false -> ws = [] /\ range_data s = []) /\
  (g_has_data s = true -> g_range s = (range_lo ws, range_hi ws) /\
     forall a, range_lo ws <= a < range_hi ws ->
       nth (Z.to_nat (a - range_lo ws)) (range_data s) 0%N = byte_at ws a).
Proof. exact segment_image_splice. Qed.
Print Assumptions C02_segment_image.

(* Relocation: every logged emission carries target = pc + (target_address - initial_pc) of its segment. *)
Theorem C02_emit_target : forall s bytes s', seg_emit s bytes = EmitOk s' ->
  forall off, target_offset s = Some off ->
  g_pc s' = g_pc s + Z.of_nat (length bytes) /\ target_offset s' = Some off /\
  (forall t, target_pc s = Some t -> t = as_usize (usize_as_i64 (g_pc s) + off)).
Proof. exact emit_target. Qed.
Print Assumptions C02_emit_target.

(* The VICE symbol list is exactly the Label symbols of the final table with their values. *)
Theorem C02_vice_exact : forall c p v,
  In (p, v) (vice_symbols c) <-> exists nx s, In (p, nx, s) (all (symbols c)) /\ s_ty s = TyLabel /\ s_data s = SDNum v.
Proof. exact vice_exact. Qed.
Print Assumptions C02_vice_exact.

(* Guarded by the known finding: when the final table holds no symbol left over from an earlier pass, every label of
   the VICE list was written by the last pass (so, by C02_fixed_point, with the address of its statement). *)
Theorem C02_vice_current : forall c p v,
  Known_stale_symbol_survives c = false -> In (p, v) (vice_symbols c) ->
  exists nx s, In (p, nx, s) (all (symbols c)) /\ s_ty s = TyLabel /\ s_data s = SDNum v /\
               (Nat.ltb (s_pass s) (pass_idx c) = false \/ s_span s = None).
Proof. exact vice_current. Qed.
Print Assumptions C02_vice_current.

(* ---- non-vacuity ---- *)
Definition sp (a b : Z) : span := (a, b).
Definition t_fwd : text := [102; 119; 100]%N.
Definition t_foo : text := [102; 111; 111]%N.
Definition t_a : text := [97]%N.
(* `lda fwd` / `fwd: nop` on the default segment: a forward reference, three passes *)
Definition prog_forward : list token :=
  [ TInstr Lda (sp 0 3) (Some (mkL (EId [t_fwd] None false false) (sp 4 7) [sp 4 7], FAbs));
    TLabel t_fwd (sp 8 11) None;
    TInstr Nop (sp 13 16) None ].
Example C02_example_forward_reference :
  exists c, codegen 10 10 default_options prog_forward = Done c /\ no_silent_change c /\
            map snd (segment_image c) = [[173; 3; 192; 234]%N] /\ vice_symbols c = [([t_fwd], 49155)].
Proof. eexists. vm_compute. repeat split. Qed.

(* the former witness of F-C02a: explicit segment, `foo: nop / { lda foo / foo: nop }` -- the inner foo is used *)
Definition seg_a : token :=
  TDefine t_segment (sp 0 0)
    (Some [ mkPair t_name (sp 0 0) (Some (mkL (EStr [SLit t_a] false false) (sp 0 0) [])) (sp 0 0);
            mkPair t_start (sp 0 0) (Some (mkL (ENum 16 [50; 48; 48; 48]%N false false) (sp 0 0) [])) (sp 0 0) ]).
Definition prog_shadow : list token :=
  [ seg_a;
    TLabel t_foo (sp 50 53) None; TInstr Nop (sp 55 58) None;
    TBraces [36; 49]%N (Blk (sp 60 61) (sp 90 91)
      [ TInstr Lda (sp 62 65) (Some (mkL (EId [t_foo] None false false) (sp 66 69) [sp 66 69], FAbs));
        TLabel t_foo (sp 70 73) None; TInstr Nop (sp 75 78) None ]) ].
Example C02_example_shadowed_forward_reference :
  exists c, codegen 10 10 default_options prog_shadow = Done c /\ no_silent_change c /\
            map snd (segment_image c) = [[234; 173; 4; 32; 234]%N].
Proof. eexists. vm_compute. repeat split. Qed.

(* Known finding (Known_stale_symbol_survives): symbols are never removed, so a definition that the last pass no longer
   executes keeps the value an earlier pass gave it -- the include-guard idiom `.if !defined(x) { x: nop }` (the unit tests
   rely on it for constants) leaves the label x at the address of a statement that is not in the image, and in the VICE list.
   The harmful instance found first -- a macro invoked before its definition inherited the labels of another invocation's
   `$macro_<n>` scope -- is repaired (e323987), see C02_example_macro_before_definition. *)
Theorem C02_stale_symbol_survives_refuted :
  exists toks c, codegen 10 10 default_options toks = Done c /\ no_silent_change c /\
                 Known_stale_symbol_survives c = true /\
                 map snd (segment_image c) = [[173; 0; 32]%N] /\ In ([[120]%N], 8192) (vice_symbols c).
Proof. exact stale_symbol_witness. Qed.
Print Assumptions C02_stale_symbol_survives_refuted.

Example C02_example_macro_before_definition :
  exists c, codegen 10 10 default_options prog_macro_before_definition = Done c /\
            Known_stale_symbol_survives c = false /\ map snd (segment_image c) = [[173; 4; 32; 234; 234]%N].
Proof. exact macro_before_definition_example. Qed.

(* C06 -- every input terminates cleanly: no crash, no hang, output or located diagnostics.
   Statements only.  Code model: model/PassLoop.v (the pass loop over an abstract deterministic pass), model/Sites.v
   (every place where mos-core can panic / recurse / iterate without bound on user input, with explicit Panic /
   Unbounded results), model/Expr.v + Gen/BinOps.v (evaluator).  Which variant of each site the source has now is
   translated on every run (Gen/PassLoop.v, Gen/C06Sites.v, Gen/BinOps.v), so every statement below is about the
   current source.  `_refuted` lemmas carry the witnesses of the known findings; `_guarded` are the strongest
   statements that hold outside the Known_* classes. *)
From Coq Require Import List NArith ZArith Bool.
Import ListNotations.
From Mos Require Import model.I64 Gen.BinOps model.Expr Gen.PassLoop model.PassLoop spec.PassLoopSpec Gen.C06Sites model.Sites
  proofs.PassLoopProofs proofs.SitesProofs model.Spans proofs.SpansProofs.
From Mos Require proofs.EvalRange proofs.AsmSites model.SymTab model.Segment model.Asm proofs.AsmNoPanic.
From Mos Require model.Nom model.Parser proofs.ParserTotalProofs proofs.ParserProgressProofs model.SourceMap model.Listing spec.ListingSpec proofs.StagesTotal.
Open Scope Z_scope.

(* ================================================================== the pass loop *)
(* For every pass function, every context: the loop leaves after pass k through a bail-out rule iff k is the first
   pass that is clean (has segments, no errors, nothing undefined, no symbol added), or repeats the errors of pass
   k-1, or is error-free with the same non-empty undefined set as the latest earlier error-free pass -- and the cap,
   if there is one, lies above k.  (spec/PassLoopSpec.v states the three conditions over the sequence of passes,
   without the loop's control flow or its carried variables.) *)
Theorem C06_pass_loop_exits_iff :
  forall (C E U : Type) (pass : C -> C * E * bool) (undefined : C -> U) (take_undefined : C -> C) (no_segments : C -> bool)
         (create_default_segment next_pass : C -> C) (e_none : E) (e_is_empty : E -> bool) (e_eqb : E -> E -> bool)
         (u_none : U) (u_is_empty : U -> bool) (u_eqb : U -> U -> bool) (c0 : C) (cap : option nat) (fuel k : nat) (x : exit C E),
  (k < fuel)%nat ->
  (run C E U pass undefined take_undefined no_segments create_default_segment next_pass e_is_empty e_eqb u_is_empty u_eqb
       cap fuel 0 (initial C E U e_none u_none c0) = Exited (S k) x /\ (forall c e, x <> ExitCap c e)
   <->
   first_stop C E U pass undefined take_undefined no_segments create_default_segment next_pass e_none e_is_empty e_eqb
              u_none u_is_empty u_eqb c0 k
   /\ (forall m, cap = Some m -> (k < m)%nat)
   /\ x = exit_of C E U pass undefined take_undefined no_segments create_default_segment next_pass e_none e_is_empty e_eqb
                  u_is_empty c0 k).
Proof. exact loop_exits_iff. Qed.
Print Assumptions C06_pass_loop_exits_iff.

(* the cap ends the loop (after exactly m passes) iff none of the first m passes satisfied a rule *)
Theorem C06_pass_loop_cap_iff :
  forall (C E U : Type) (pass : C -> C * E * bool) (undefined : C -> U) (take_undefined : C -> C) (no_segments : C -> bool)
         (create_default_segment next_pass : C -> C) (e_none : E) (e_is_empty : E -> bool) (e_eqb : E -> E -> bool)
         (u_none : U) (u_is_empty : U -> bool) (u_eqb : U -> U -> bool) (c0 : C) (m fuel : nat),
  (m < fuel)%nat ->
  (run C E U pass undefined take_undefined no_segments create_default_segment next_pass e_is_empty e_eqb u_is_empty u_eqb
       (Some m) fuel 0 (initial C E U e_none u_none c0)
   = Exited m (ExitCap (ctx_before C E pass take_undefined no_segments create_default_segment next_pass e_is_empty c0 m)
                       (previous_errors C E pass take_undefined no_segments create_default_segment next_pass e_none e_is_empty c0 m))
   <-> forall j, (j < m)%nat ->
       stops_at C E U pass undefined take_undefined no_segments create_default_segment next_pass e_none e_is_empty e_eqb
                u_none u_is_empty u_eqb c0 j = false).
Proof. exact loop_cap_iff. Qed.
Print Assumptions C06_pass_loop_cap_iff.

(* the loop of the current source (MAX_ITERATIONS translated from codegen()) leaves after at most `cap` passes, for
   EVERY pass function and context: assembling terminates after a bounded number of passes *)
Theorem C06_pass_loop_terminates :
  forall (C E U : Type) (pass : C -> C * E * bool) (undefined : C -> U) (take_undefined : C -> C) (no_segments : C -> bool)
         (create_default_segment next_pass : C -> C) (e_none : E) (e_is_empty : E -> bool) (e_eqb : E -> E -> bool)
         (u_none : U) (u_is_empty : U -> bool) (u_eqb : U -> U -> bool) (c0 : C),
  exists cap n x, max_iterations = Some cap /\ (n <= cap)%nat /\
    codegen_loop C E U pass undefined take_undefined no_segments create_default_segment next_pass e_none e_is_empty e_eqb
                 u_none u_is_empty u_eqb (S cap) c0 = Exited n x.
Proof. exact codegen_loop_terminates. Qed.
Print Assumptions C06_pass_loop_terminates.

(* the three bail-out rules alone do not bound the loop: a pass function whose state has period 2 (errors alternate,
   so "same errors twice" never fires; never error-free) is never left without a cap ... *)
Theorem C06_pass_loop_without_cap_refuted : forall fuel, p2_run None fuel 0 (mkL true tt []) = NoExitWithin fuel.
Proof. exact period2_pass_never_exits. Qed.
Print Assumptions C06_pass_loop_without_cap_refuted.
(* ... and is left through the cap, and only through it, with one *)
Theorem C06_pass_loop_period2_hits_cap : forall m, exists x, p2_run (Some m) (S m) 0 (mkL true tt []) = Exited m x.
Proof. exact period2_pass_hits_cap. Qed.
Print Assumptions C06_pass_loop_period2_hits_cap.

(* ================================================================== evaluator *)
(* the operator table translated from evaluator.rs never panics, for all operand values *)
Theorem C06_apply_i64_total : forall op a b, apply_i64 op a b <> Panic.
Proof. exact apply_i64_total. Qed.
Print Assumptions C06_apply_i64_total.

(* it reports a diagnostic exactly when the result does not fit in 64 bits / the shift count is outside 0..63 / MIN / -1 *)
Theorem C06_apply_i64_diag_iff : forall op a b, apply_i64 op a b = Ovf <-> overflows op a b.
Proof. exact apply_i64_diag_iff. Qed.
Print Assumptions C06_apply_i64_diag_iff.

(* exact panic guards of the unchecked operators (the source before 38da25f; what a regression would bring back) *)
Theorem C06_unchecked_add_panics_iff : forall a b, i64_add a b = Panic <-> in_i64 (a + b) = false.
Proof. exact unchecked_add_panics_iff. Qed.
Print Assumptions C06_unchecked_add_panics_iff.
Theorem C06_unchecked_sub_panics_iff : forall a b, i64_sub a b = Panic <-> in_i64 (a - b) = false.
Proof. exact unchecked_sub_panics_iff. Qed.
Print Assumptions C06_unchecked_sub_panics_iff.
Theorem C06_unchecked_mul_panics_iff : forall a b, i64_mul a b = Panic <-> in_i64 (a * b) = false.
Proof. exact unchecked_mul_panics_iff. Qed.
Print Assumptions C06_unchecked_mul_panics_iff.
Theorem C06_unchecked_shl_panics_iff : forall a b, i64_shl a b = Panic <-> ~ (0 <= b < 64).
Proof. exact unchecked_shl_panics_iff. Qed.
Print Assumptions C06_unchecked_shl_panics_iff.
Theorem C06_unchecked_shr_panics_iff : forall a b, i64_shr a b = Panic <-> ~ (0 <= b < 64).
Proof. exact unchecked_shr_panics_iff. Qed.
Print Assumptions C06_unchecked_shr_panics_iff.
Theorem C06_unchecked_div_panics_iff : forall a b, i64_div a b = Panic <-> a = i64_min /\ b = -1.
Proof. exact unchecked_div_panics_iff. Qed.
Print Assumptions C06_unchecked_div_panics_iff.

Theorem C06_apply_flags_total : forall fnot fneg n, apply_flags flag_order fnot fneg n <> Panic.
Proof. exact apply_flags_total. Qed.
Print Assumptions C06_apply_flags_total.

(* Number::value: any radix, any digit string (empty, invalid digits, wider than 64 bits, TRUE/False) *)
Theorem C06_number_value_total : forall radix digits, number_value radix digits <> Panic.
Proof. exact number_value_total. Qed.
Print Assumptions C06_number_value_total.

(* every expression tree, every environment *)
Theorem C06_eval_no_panic : forall en e, eval en e <> EPanic.
Proof. exact eval_no_panic. Qed.
Print Assumptions C06_eval_no_panic.

(* ================================================================== .align *)
Theorem C06_align_total : forall pc align, 0 <= pc < two64 -> in_i64 align = true -> align_padding pc align <> SPanic.
Proof. exact align_total. Qed.
Print Assumptions C06_align_total.

(* a diagnostic for every alignment <= 0; otherwise between 1 and min(align, 65537) padding bytes (never an
   allocation proportional to the argument) *)
Theorem C06_align_spec : forall pc align, 0 <= pc < two64 -> in_i64 align = true ->
  (align <= 0 -> align_padding pc align = SDiag diag_align_not_positive) /\
  (0 < align -> exists n, align_padding pc align = SOk n /\ 1 <= n <= 65537 /\ n <= align).
Proof. exact align_padding_spec. Qed.
Print Assumptions C06_align_spec.

(* exact panic guard of the arithmetic before 74063b3 (no guard, truncating %, no cap) *)
Theorem C06_legacy_align_panics_iff : forall pc align, 0 <= pc < 9223372036854775808 -> in_i64 align = true ->
  (align_padding_with false false None pc align = SPanic <-> align <= 0).
Proof. exact legacy_align_panics_iff. Qed.
Print Assumptions C06_legacy_align_panics_iff.

(* ================================================================== names *)
Theorem C06_identifier_new_panics_iff : forall s, identifier_new s = SPanic <-> has_period s = true.
Proof. exact identifier_new_panics_iff. Qed.
Print Assumptions C06_identifier_new_panics_iff.
(* bank / segment names built from strings never reach the assert *)
Theorem C06_name_from_string_total : forall s, name_from_string s <> SPanic.
Proof. exact name_from_string_total. Qed.
Print Assumptions C06_name_from_string_total.
Theorem C06_name_from_string_diag_iff : forall s, name_from_string s = SDiag diag_name_with_period <-> has_period s = true.
Proof. exact name_from_string_diag_iff. Qed.
Print Assumptions C06_name_from_string_diag_iff.

(* ================================================================== program counter arithmetic *)
(* exact overflow conditions of the three primitives (they are still plain additions / subtractions) ... *)
Theorem C06_segment_emit_panics_iff : forall pc len, segment_emit pc len = SPanic <-> two64 <= pc + len.
Proof. exact segment_emit_panics_iff. Qed.
Print Assumptions C06_segment_emit_panics_iff.
Theorem C06_target_pc_panics_iff : forall pc initial target,
  target_pc pc initial target = SPanic <->
  in_i64 (usize_as_i64 target - usize_as_i64 initial) = false \/
  in_i64 (usize_as_i64 pc + (usize_as_i64 target - usize_as_i64 initial)) = false.
Proof. exact target_pc_panics_iff. Qed.
Print Assumptions C06_target_pc_panics_iff.
Theorem C06_source_map_add_panics_iff : forall tpc len, source_map_add tpc len = SPanic <-> two64 <= tpc + len.
Proof. exact source_map_add_panics_iff. Qed.
Print Assumptions C06_source_map_add_panics_iff.
(* ... which made `* = -1`, a pc option of 2^63-1 and a pc moved below a relocated segment's start panic before dbc944a *)
Theorem C06_unchecked_pc_witnesses :
  segment_emit (pc_from_i64 (-1)) 1 = SPanic /\ target_pc (pc_from_i64 i64_max) 0 1 = SPanic /\
  (exists t, target_pc 4096 8192 0 = SOk t /\ source_map_add t 8192 = SPanic).
Proof. exact unchecked_pc_witnesses. Qed.
Print Assumptions C06_unchecked_pc_witnesses.
(* the range checks where a value enters the program counter: segment options start / pc are addresses (0..$FFFF),
   `* =` also accepts the end of the address space (0..$10000); all values *)
Theorem C06_address_check_spec : forall v,
  (0 <= v <= 65535 -> address_check v = SOk v) /\ (~ 0 <= v <= 65535 -> address_check v = SDiag diag_pc_out_of_range).
Proof. exact address_check_spec. Qed.
Print Assumptions C06_address_check_spec.
Theorem C06_pc_value_check_spec : forall v,
  (0 <= v <= 65536 -> pc_value_check v = SOk v) /\ (~ 0 <= v <= 65536 -> pc_value_check v = SDiag diag_pc_out_of_range).
Proof. exact pc_value_check_spec. Qed.
Print Assumptions C06_pc_value_check_spec.
(* Bank::prg_header asserts start < 65536: exact guard, and every accepted segment start satisfies it *)
Theorem C06_prg_header_panics_iff : forall s, prg_header s = SPanic <-> 65536 <= s.
Proof. exact prg_header_panics_iff. Qed.
Print Assumptions C06_prg_header_panics_iff.
Theorem C06_prg_header_of_accepted_start : forall v s, address_check v = SOk s -> prg_header s <> SPanic.
Proof. exact prg_header_of_accepted_start. Qed.
Print Assumptions C06_prg_header_of_accepted_start.
(* a program that defines `segments.<name>.start` itself: the assembler's span-less symbol clashes -- a diagnostic *)
Theorem C06_spanless_clash_is_diagnostic : spanless_clash = SDiag diag_redefine.
Proof. exact spanless_clash_is_diagnostic. Qed.
Print Assumptions C06_spanless_clash_is_diagnostic.
(* `* = v` in a segment: a diagnostic iff v is outside 0..$10000 or its relocated address is negative; else the invariant holds *)
Theorem C06_set_pc_spec : forall v initial target,
  0 <= initial <= 65536 -> 0 <= target <= 65536 ->
  (0 <= v <= 65536 /\ 0 <= v + (target - initial) ->
     set_pc_site v (Some (seg_offset initial target)) = SOk (Some v) /\ pc_ok v initial target) /\
  (~ (0 <= v <= 65536 /\ 0 <= v + (target - initial)) ->
     set_pc_site v (Some (seg_offset initial target)) = SDiag diag_pc_out_of_range).
Proof. exact set_pc_site_spec. Qed.
Print Assumptions C06_set_pc_spec.
(* under the invariant no primitive panics (any emission an address space can hold) and a successful emit preserves it *)
Theorem C06_pc_arithmetic_total : forall pc initial target len,
  pc_ok pc initial target -> 0 <= len < 4611686018427387904 ->
  (exists t, target_pc pc initial target = SOk t /\ 0 <= t <= 131072 /\ source_map_add t len <> SPanic) /\
  segment_emit pc len <> SPanic /\
  (forall p, segment_emit pc len = SOk p -> pc_ok p initial target).
Proof. exact pc_arithmetic_total. Qed.
Print Assumptions C06_pc_arithmetic_total.
(* the branch arm never panics: any target, any current pc (also none: the segment-less pass 0) *)
Theorem C06_branch_offset_total : forall cur target, branch_offset cur target <> SPanic.
Proof. exact branch_offset_total. Qed.
Print Assumptions C06_branch_offset_total.
(* before dbc944a `+ 2` was a plain addition on the branch target in pass 0: it overflowed exactly for -1 and -2 *)
Theorem C06_unchecked_branch_base_panics_iff : forall target, in_i64 target = true ->
  (two64 <= pc_from_i64 target + 2 <-> target = -1 \/ target = -2).
Proof. exact unchecked_branch_base_panics_iff. Qed.
Print Assumptions C06_unchecked_branch_base_panics_iff.

(* ================================================================== whole statements *)
(* every number the evaluator returns fits i64 (each operator is checked or cannot leave the range), given an environment
   whose numbers do: the Rust type of a symbol's value and of the program counter *)
Theorem C06_eval_in_i64 : forall en e, EvalRange.env_i64 en -> forall z, eval en e = EVal (Some (SNum z)) -> in_i64 z = true.
Proof. exact EvalRange.eval_in_i64. Qed.
Print Assumptions C06_eval_in_i64.
(* `.align <any expression>`: no hypothesis about the expression *)
Theorem C06_stmt_align_total : forall en pc e, EvalRange.env_i64 en -> 0 <= pc <= 65536 -> stmt_align en pc e <> RPanic.
Proof. exact EvalRange.stmt_align_never_panics. Qed.
Print Assumptions C06_stmt_align_total.
Theorem C06_stmt_data_total : forall en pc size e, 0 <= pc <= 65536 -> 0 <= size <= 4 -> stmt_data en pc size e <> RPanic.
Proof. exact stmt_data_total. Qed.
Print Assumptions C06_stmt_data_total.
(* `* = <any expression>` then a byte, in any segment whose options were accepted; `.define segment` with ANY start / pc then a byte *)
Theorem C06_stmt_pc_total : forall en initial target e,
  0 <= initial <= 65536 -> 0 <= target <= 65536 -> stmt_pc_then_byte en initial target e <> RPanic.
Proof. exact stmt_pc_total. Qed.
Print Assumptions C06_stmt_pc_total.
Theorem C06_stmt_segment_total : forall s t, stmt_segment_then_byte s t <> RPanic.
Proof. exact stmt_segment_total. Qed.
Print Assumptions C06_stmt_segment_total.

(* ================================================================== loops, recursion, nesting, dummy segments *)
(* `.loop`: a diagnostic iff the count exceeds what is left of the pass's budget of 65536 iterations; all counts *)
Theorem C06_loop_enter_spec : forall used count, 0 <= used <= 65536 ->
  (count <= 65536 - used -> loop_enter used count = SOk (used + loop_iterations count) /\ 0 <= used + loop_iterations count <= 65536) /\
  (65536 - used < count -> loop_enter used count = SDiag diag_loop_budget).
Proof. exact loop_enter_spec. Qed.
Print Assumptions C06_loop_enter_spec.
(* a negative count refunds nothing: the counter of started iterations never decreases; and the loop arm never panics *)
Theorem C06_loop_enter_monotone : forall used count u, 0 <= used <= 65536 -> loop_enter used count = SOk u -> used <= u.
Proof. exact loop_enter_monotone. Qed.
Print Assumptions C06_loop_enter_monotone.
Theorem C06_loop_enter_total : forall used count, 0 <= used <= 65536 -> loop_enter used count <> SPanic.
Proof. exact loop_enter_total. Qed.
Print Assumptions C06_loop_enter_total.
(* any sequence of loops a pass enters (nested ones re-entered per outer iteration): at most 65536 iterations are started *)
Theorem C06_loops_of_a_pass_bounded : forall counts used, 0 <= used <= 65536 -> 0 <= run_loops used counts <= 65536.
Proof. exact run_loops_bounded. Qed.
Print Assumptions C06_loops_of_a_pass_bounded.
(* every import graph (cycles included): the recursive emission is bounded or the cycle is reported *)
Theorem C06_import_depth_bounded : forall g, import_depth g <> Unbounded.
Proof. exact import_depth_bounded. Qed.
Print Assumptions C06_import_depth_bounded.
(* every macro invocation graph, cyclic ones included *)
Theorem C06_macro_depth_bounded : forall g, macro_depth g <> Unbounded.
Proof. exact macro_depth_bounded. Qed.
Print Assumptions C06_macro_depth_bounded.
(* the recursion guards of the code generator (emit_token) and of the parser (`nested`): a container at depth d is
   entered iff d < 64, otherwise a diagnostic *)
Theorem C06_guard_enter_spec : forall d,
  (codegen_enter d = SOk (S d) <-> (d < 64)%nat) /\ (codegen_enter d = SDiag diag_nested_too_deep <-> (64 <= d)%nat) /\
  (parser_enter d = SOk (S d) <-> (d < 64)%nat) /\ (parser_enter d = SDiag diag_nested_too_deep <-> (64 <= d)%nat).
Proof. exact guard_enter_spec. Qed.
Print Assumptions C06_guard_enter_spec.
(* the code generator's walk over ANY tree of containers (any depth, any branching -- e.g. a macro that invokes itself
   twice per level), with the guard's per-pass state: never deeper than 64 levels, at most 65536 containers entered, at
   most one diagnostic; after it nothing descends any more *)
Theorem C06_walk_pass_bounded : forall fuel t,
  0 <= g_entered (walk_pass fuel t) <= 65536 /\ (g_max_depth (walk_pass fuel t) <= 64)%nat /\ (g_reported (walk_pass fuel t) <= 1)%nat.
Proof. exact walk_pass_bounded. Qed.
Print Assumptions C06_walk_pass_bounded.
(* a failing parse of n nested parentheses / argument lists is attempted once per level on the current source ... *)
Theorem C06_parse_attempts_linear : forall n,
  parse_attempts factor_attempts_per_level n = 1%nat /\ parse_attempts arg_list_attempts_per_level n = 1%nat.
Proof. exact parse_attempts_linear. Qed.
Print Assumptions C06_parse_attempts_linear.
(* ... and 2^n times when a level tries the same text twice (the source before d3a5f8a / 5a55722) *)
Theorem C06_parse_attempts_unguarded : forall n, parse_attempts 2 n = (2 ^ n)%nat.
Proof. exact parse_attempts_unguarded. Qed.
Print Assumptions C06_parse_attempts_unguarded.
(* `defined(defined(x))`, `ram16(ram16($fb))`: the callback is not locked, the inner call returns *)
Theorem C06_nested_call_returns : nested_call_of_same_function = CallReturns.
Proof. exact nested_call_returns. Qed.
Print Assumptions C06_nested_call_returns.
Theorem C06_nested_dummy_segment_ok : emit_after_nested_dummy = SOk tt.
Proof. exact nested_dummy_segment_ok. Qed.
Print Assumptions C06_nested_dummy_segment_ok.

(* ================================================================== bank padding *)
Theorem C06_bank_padding_total : forall size len fill, bank_padding size len fill <> SPanic.
Proof. exact bank_padding_total. Qed.
Print Assumptions C06_bank_padding_total.
(* whatever size is configured: at most 16 MiB of padding are built in memory, or the size is rejected *)
Theorem C06_bank_padding_bounded : forall size len fill n, 0 <= len -> bank_padding size len fill = SOk n -> 0 <= n <= 16777216.
Proof. exact bank_padding_bounded. Qed.
Print Assumptions C06_bank_padding_bounded.

(* ================================================================== diagnostic locations (span construction, code_map.rs) *)
(* diagnostics carry token spans or merges of two spans of the same statement: a merge of spans of one file stays in it *)
Theorem C06_span_merge_in_file : forall f a b, in_file f a = true -> in_file f b = true -> in_file f (merge a b) = true.
Proof. exact merge_in_file. Qed.
Print Assumptions C06_span_merge_in_file.
(* Span::subspan asserts: exact guard, and the result stays inside *)
Theorem C06_subspan_panics_iff : forall s b e, subspan s b e = SpPanic <-> ~ (b <= e /\ s_low s + e <= s_high s).
Proof. exact subspan_panics_iff. Qed.
Print Assumptions C06_subspan_panics_iff.
Theorem C06_subspan_in_file : forall f s b e r, in_file f s = true -> 0 <= b -> subspan s b e = SpOk r -> in_file f r = true.
Proof. exact subspan_in_file. Qed.
Print Assumptions C06_subspan_in_file.
(* a span inside a file of the code map is looked up without a panic, in a file that contains it *)
Theorem C06_look_up_in_file : forall files f s, disjoint files -> In f files -> in_file f s = true ->
  exists g, look_up_span files s = SpOk g /\ in_file g s = true.
Proof. exact look_up_in_file. Qed.
Print Assumptions C06_look_up_in_file.
(* files added to a code map never overlap *)
Theorem C06_add_file_disjoint : forall files len f' files',
  0 <= len -> disjoint files -> (forall f, In f files -> 0 <= f_len f) ->
  (forall f, In f files -> match files with [] => True | h :: _ => f_high f <= f_high h end) ->
  add_file files len = (files', f') -> disjoint files'.
Proof. exact add_file_disjoint. Qed.
Print Assumptions C06_add_file_disjoint.

(* ================================================================== the other stages, over the models of C05 and C11 *)
(* parser (model/Nom.v + model/Parser.v, the whole grammar): from any state, on any input, no grammar function yields a
   panic; in particular the top-level rule on every text *)
Theorem C06_parser_never_panics : forall s,
  snd (Parser.source_file Nom.st0 (Nom.mkIn 0%N s)) <> Nom.Abort Nom.Panic.
Proof. exact ParserTotalProofs.source_file_never_panics. Qed.
Print Assumptions C06_parser_never_panics.
(* parse_with_instance (`all_consuming(source_file)(input).ok().unwrap()`) can panic only when the statement loop
   reports nom's no-progress error, i.e. a statement / error token was accepted without consuming anything ... *)
Theorem C06_parse_panics_iff : forall s,
  Parser.parse s = Parser.ParsePanic <->
  snd (Nom.many0 (Nom.alt Parser.statement Parser.error) Nom.st0 (Nom.mkIn 0%N s)) = Nom.Err.
Proof. exact ParserTotalProofs.parse_panics_iff. Qed.
Print Assumptions C06_parse_panics_iff.
(* ... and that never happens: every statement alternative starts with a terminal that consumes at least one character
   (keyword tables translated from the source: no empty tag), the error token consumes at least its lead or one
   non-stop character, and nothing after that gives input back; from any state, on any input *)
Theorem C06_statement_loop_never_errs : forall st i,
  snd (Nom.many0 (Nom.alt Parser.statement Parser.error) st i) <> Nom.Err.
Proof. exact ParserProgressProofs.statement_loop_never_errs. Qed.
Print Assumptions C06_statement_loop_never_errs.
(* so the parser never panics, on any text *)
Theorem C06_parse_never_panics : forall s, Parser.parse s <> Parser.ParsePanic.
Proof. exact ParserProgressProofs.parse_never_panics. Qed.
Print Assumptions C06_parse_never_panics.
(* listing writer (model/Listing.v): for every well-formed emission (C11's invariant of what the code generator leaves
   behind), spans inside their files and n > 0 bytes per line: no panic (n = 0 is rejected before the writer runs
   since d1e6ad5) *)
Theorem C06_listing_total : forall cm segs es n f,
  ListingSpec.wf_emission segs es -> ListingSpec.spans_ok cm es -> (0 < n)%nat ->
  Listing.to_listing_file cm (map fst es) segs n f <> SourceMap.Panic.
Proof. exact StagesTotal.listing_file_total. Qed.
Print Assumptions C06_listing_total.

(* non-vacuity *)
Example C06_example_pc :
  stmt_pc_then_byte (mkEnv (fun _ => None) None) 49152 49152 (ENum 10 [49%N] false true) = RDiag diag_pc_out_of_range /\
  stmt_segment_then_byte 1 i64_max = RDiag diag_pc_out_of_range /\ stmt_segment_then_byte 4096 8192 = REmitted 4097.
Proof. exact stmt_pc_examples. Qed.
Example C06_example_align : align_padding 49153 256 = SOk 255 /\ align_padding 49153 0 = SDiag diag_align_not_positive /\
                            align_padding 49153 1099511627776 = SOk 65537.
Proof. repeat split; vm_compute; reflexivity. Qed.
Example C06_example_overflow : apply_i64 Add i64_max 1 = Ovf /\ apply_i64 Shl 1 64 = Ovf /\ apply_i64 Div i64_min (-1) = Ovf /\
                               apply_i64 Add 1 2 = Val 3.
Proof. repeat split; vm_compute; reflexivity. Qed.
Example C06_example_guards :
  loop_enter 0 i64_max = SDiag diag_loop_budget /\ loop_enter 65000 536 = SOk 65536 /\ macro_depth [[1%nat]; [1%nat]] = CycleReported /\
  codegen_enter 63 = SOk 64%nat /\ parser_enter 64 = SDiag diag_nested_too_deep /\
  bank_padding 1099511627776 1 true = SDiag diag_bank_size_negative /\ bank_padding 16 1 true = SOk 15.
Proof. repeat split; vm_compute; reflexivity. Qed.

(* ================================================================== over the assembler model (C02's model/Asm.v) *)
(* No statement of the modelled language panics.  Asm.emit_token has the outcomes Ret / Err (diagnostics) / Abort f,
   f = FFuel (the model's recursion bound), FUnsupported (statements the model does not follow), FDiverge (unbounded
   parent chain) or FPanic (the dev build panics).  From a context of the invariant AsmNoPanic.inv (accepted segment
   options, program counters 0..$10000 with a non-negative target, the current segment exists, stored macro bodies
   are tok_ok) and for a token of AsmNoPanic.tok_ok (data values of at most 8 bytes, `.text` of a literal shorter
   than 2^32 bytes -- byte strings the model can build and a Vec cannot hold are excluded, see emit_panics_only_if),
   the outcome is never Abort FPanic and the invariant holds afterwards. *)
Theorem C06_emit_token_total : forall fuel t c, AsmNoPanic.tok_ok t -> AsmNoPanic.inv c ->
  match Asm.emit_token fuel t c with
  | Asm.Ret _ c' | Asm.Err _ c' => AsmNoPanic.inv c'
  | Asm.Abort f => f <> Asm.FPanic
  end.
Proof. exact AsmNoPanic.emit_token_total. Qed.
Print Assumptions C06_emit_token_total.
(* the whole assembly: for every number of passes, every fuel, every start address 0..$FFFF and predefined constants *)
Theorem C06_codegen_never_panics : forall passes fuel o toks, AsmNoPanic.start_ok o -> Forall AsmNoPanic.tok_ok toks ->
  Asm.codegen passes fuel o toks <> Asm.Aborted Asm.FPanic.
Proof. exact AsmNoPanic.codegen_np. Qed.
Print Assumptions C06_codegen_never_panics.
(* the one panic of `emit` from a context of the invariant: a byte string of 2^64 - 2^17 bytes or more *)
Theorem C06_emit_panics_only_if : forall sp bytes c, AsmNoPanic.inv c -> Asm.emit sp bytes c = Asm.Abort Asm.FPanic ->
  Encode.two64 - 131072 <= Z.of_nat (length bytes).
Proof. exact AsmNoPanic.emit_panics_only_if. Qed.
Print Assumptions C06_emit_panics_only_if.
(* the arms of Asm.v decide by the site functions of Sites.v *)
Theorem C06_asm_segment_option_is_address_check : forall v,
  (if negb ((0 <=? v) && (v <=? 65535)) then None else Some (Encode.as_usize v)) = AsmSites.site_value (address_check v) /\
  (negb ((0 <=? v) && (v <=? 65535)) = true <-> address_check v = SDiag diag_pc_out_of_range).
Proof. exact AsmSites.segment_option_is_address_check. Qed.
Print Assumptions C06_asm_segment_option_is_address_check.
Theorem C06_asm_set_pc_is_pc_value_check : forall v,
  (if negb ((0 <=? v) && (v <=? 65536)) then None else Some (Encode.as_usize v)) = AsmSites.site_value (pc_value_check v) /\
  (negb ((0 <=? v) && (v <=? 65536)) = true <-> pc_value_check v = SDiag diag_pc_out_of_range).
Proof. exact AsmSites.set_pc_is_pc_value_check. Qed.
Print Assumptions C06_asm_set_pc_is_pc_value_check.
Theorem C06_asm_align_arm_is_align_padding : forall pc align, 0 <= pc < two64 -> in_i64 align = true ->
  align_padding pc align =
  if align <=? 0 then SDiag diag_align_not_positive
  else SOk (Z.min (align - Z.modulo (Encode.usize_as_i64 pc) align) CodegenConsts.align_padding_cap).
Proof. exact AsmSites.align_arm_is_align_padding. Qed.
Print Assumptions C06_asm_align_arm_is_align_padding.
Theorem C06_asm_loop_arm_is_loop_enter : forall count,
  (CodegenConsts.loop_iteration_limit <? count) = true <-> loop_enter 0 count = SDiag diag_loop_budget.
Proof. exact AsmSites.loop_arm_is_loop_enter. Qed.
Print Assumptions C06_asm_loop_arm_is_loop_enter.

(* C20 -- shutdown is clean in every session state.
   `life_variant` (Gen/LifeSites.v) says how the code is written today at the five places that decide the outcome; it is
   re-read from the Rust source on every run.  The model (model/Life.v) is a finite transition system; the bound of
   every statement is its state space: the 378 initial states `all_initial` = 6 session states (no debugger /
   attached and idle / test running / test paused / debug thread already dead by a panic / dead while holding the
   context lock) x the 63 orders in which an editor can deliver `shutdown`, `exit`, a pipe close and a debugger
   disconnect (each at most once, at least one of the first three), every interleaving of the threads, paths of at
   most `depth_bound` = 40 steps. *)
From Coq Require Import List Bool Arith.
Import ListNotations.
From Mos Require Import model.Life Gen.LifeSites proofs.LifeProofs proofs.LifeProofs2 proofs.LifeProofs3.

(* From every state the process can be in while the script is delivered, EVERY continuation (any scheduling of main
   thread, stdio writer, debug-server thread and the environment) is finite and ends with the process gone with the
   exit status the property demands: 0 after shutdown+exit and after a pipe close, 1 when `shutdown` is not followed
   by `exit` (spec_exit_code).  No fairness assumption is needed: the model has no idle steps. *)
Theorem C20_exit_clean : forall s0, In s0 all_initial ->
  forall s, reachable life_variant s0 s -> inev life_variant clean_exit depth_bound s.
Proof. exact exit_clean_repaired. Qed.
Print Assumptions C20_exit_clean.

(* beyond the property's quantifier: the same when a debugger front end connects to the debug port at an arbitrary
   moment during the shutdown (276 further initial states: no debugger / attached x the 138 scripts of at most four
   actions that contain the connect and an LSP action; paths of at most 60 steps) *)
Theorem C20_exit_clean_with_reconnect : forall s0, In s0 reconnect_initial ->
  forall s, reachable life_variant s0 s -> inev life_variant clean_exit reconnect_depth s.
Proof. exact exit_clean_reconnect. Qed.
Print Assumptions C20_exit_clean_with_reconnect.

(* the seventh session state: a debugger's `launch` is in flight -- the session thread waits for the LSP context lock, which
   the main thread holds while it re-analyses a big edit (and later for the whole of the shutdown handshake) -- when the
   editor's script starts; 63 further initial states.  Holds because the shutdown-handler channel is buffered. *)
Theorem C20_exit_clean_launch_in_flight : forall s0, In s0 launch_initial ->
  forall s, reachable life_variant s0 s -> inev life_variant clean_exit depth_bound s.
Proof. exact exit_clean_launch. Qed.
Print Assumptions C20_exit_clean_launch_in_flight.

(* with a rendezvous channel (crossbeam_channel::bounded(0)) invoke_shutdown_handlers blocks until the session receives,
   while its caller holds the context lock the session is waiting for: each of the property's four orders then has a run
   that ends with nothing able to move and the process still there; in every other session state the rendezvous shape
   is harmless, which is why only the in-flight state exposes it *)
Theorem C20_rendezvous_handler_refuted : forall sc, In sc property_scripts ->
  exists s', reachable v_rendezvous (initial_launch sc) s' /\ step v_rendezvous s' = [] /\ exited s' = false.
Proof. exact rendezvous_launch_deadlocks. Qed.
Print Assumptions C20_rendezvous_handler_refuted.

Theorem C20_rendezvous_clean_elsewhere : forall s0, In s0 all_initial -> inev v_rendezvous clean_exit depth_bound s0.
Proof. exact rendezvous_clean_elsewhere. Qed.
Print Assumptions C20_rendezvous_clean_elsewhere.

(* spelled out: no deadlock (a state without successor is a clean exit) and no path longer than the bound *)
Theorem C20_no_hang_no_wrong_status : forall s0, In s0 all_initial -> forall s, reachable life_variant s0 s ->
  (step life_variant s = [] -> st_main s = MExited (spec_exit_code (st_script s0))) /\
  (forall n s', path life_variant n s s' -> n < depth_bound).
Proof. exact no_hang_no_wrong_status. Qed.
Print Assumptions C20_no_hang_no_wrong_status.

(* the demanded status of the property's own scenarios *)
Theorem C20_spec_examples :
  spec_exit_code [LspShutdown; LspExit] = 0 /\ spec_exit_code [LspClose] = 0 /\ spec_exit_code [DapDisconnect; LspShutdown; LspExit] = 0 /\
  spec_exit_code [LspShutdown; DapDisconnect; LspExit] = 0 /\ spec_exit_code [LspShutdown; LspClose] = 1 /\ spec_exit_code [LspShutdown] = 1.
Proof. exact spec_exit_code_examples. Qed.
Print Assumptions C20_spec_examples.

(* F-C20a, the code as pinned: the debug server always holds a second reference to the context, so
   Arc::try_unwrap(..).ok().unwrap() panics: in EVERY session state EVERY run that should end with status 0 ends with 101 *)
Theorem C20_panics_refuted : forall s0, In s0 all_initial -> st_expect s0 = 0 ->
  inev v_pinned (exits_with 101) depth_bound s0.
Proof. exact pinned_always_panics. Qed.
Print Assumptions C20_panics_refuted.

(* what a repair has to address beyond the unwrap: with only the unwrap replaced every such run hangs in IoThreads::join
   (a Sender to the writer is still alive); with the sender dropped first, every scenario still has a failing run
   (DebugServer::join while the thread blocks in accept() or has re-entered it because the flag is set only in join) *)
Theorem C20_unwrap_fix_alone_hangs : forall s0, In s0 live_initial -> st_expect s0 = 0 ->
  inev v_take_only hung depth_bound s0 /\
  exists s', reachable v_take_drop s0 s' /\ step v_take_drop s' = [] /\ clean_exit s' = false.
Proof. exact unwrap_fix_alone_hangs. Qed.
Print Assumptions C20_unwrap_fix_alone_hangs.

(* ... and with the wake-up in join but the select's shutdown arm left as it was, a signalled session panics the debug
   thread ("dropped SelectedOperation") and join's expect() ends the process with 101 *)
Theorem C20_select_arm_panics :
  exists s', reachable v_take_drop_wake (initial true MachNone [LspShutdown; LspExit]) s' /\ exits_with 101 s' = true.
Proof. exact select_arm_panics. Qed.
Print Assumptions C20_select_arm_panics.

(* the repair 051876a alone: with the debug thread already dead by a panic (a request handler panicked), every run that
   should exit 0 still ended with 101 -- `expect` in DebugServer::join, or, when the thread died holding the context
   lock, the unwrap of the poisoned LockResult at the next LSP message; tolerating the dead thread is not enough for the
   poisoned state *)
Theorem C20_dead_thread_refuted : forall poisoned script, In script all_scripts -> spec_exit_code script = 0 ->
  inev v_first_repair (exits_with 101) depth_bound (initial_dead poisoned script).
Proof. exact first_repair_dead_thread_panics. Qed.
Print Assumptions C20_dead_thread_refuted.

Theorem C20_poison_needs_recovery : forall script, In script all_scripts -> spec_exit_code script = 0 ->
  inev (mkVariant false true true true false true false false) (exits_with 101) depth_bound (initial_dead true script).
Proof. exact poison_needs_recovery. Qed.
Print Assumptions C20_poison_needs_recovery.

(* registering the shutdown handler before the blocking accept (instead of waking the thread) is not enough: with no
   debugger attached the signal is only noticed after accept returns, and every run hangs in DebugServer::join *)
Theorem C20_register_first_not_enough :
  inev v_register_first hung depth_bound (initial false MachNone [LspShutdown; LspExit]) /\
  inev v_register_first hung depth_bound (initial false MachNone [LspClose]).
Proof. exact register_first_not_enough. Qed.
Print Assumptions C20_register_first_not_enough.

(* non-vacuity: the scenario set, and one concrete run of the repaired code *)
Example C20_scenarios : length all_scripts = 63 /\ length all_initial = 378 /\
  In (initial true MachPaused [LspShutdown; DapDisconnect; LspExit]) all_initial /\
  (exists s0, In s0 all_initial /\ st_expect s0 = 0).
Proof. split; [reflexivity|]. split; [reflexivity|]. split; [vm_compute; tauto | exact wants_zero_nonempty]. Qed.

(* C05 -- nothing in a source file is silently ignored (lossless parse).
   Model: model/Nom.v + model/Parser.v (the whole grammar of parser/mod.rs, config_map.rs, mnemonic.rs under the
   Rust names; tables regenerated from /repo) and model/Display.v (Display of ast.rs).
   `parse s = Parsed toks ds` : the model of parse_with_instance returned normally (no panic, fuel not exhausted). *)
From Coq Require Import List NArith Bool.
Import ListNotations.
From Mos Require Import model.Utf model.Nom Gen.ParserTables model.Parser model.Display spec.Lossless
  proofs.NomProofs proofs.TriviaProofs proofs.ParserProofs proofs.C05Proofs.
Open Scope N_scope.

(* For ALL texts: a parse without diagnostics re-renders (concatenated Display of the tokens) to the text itself,
   up to ASCII letter case and CRLF -> LF. *)
Theorem C05_lossless : forall s toks, parse s = Parsed toks [] -> sim s (render toks).
Proof. exact parse_sim. Qed.
Print Assumptions C05_lossless.

(* For ALL texts, with or without diagnostics: the end-of-file token (mws(rest)) takes nothing but trivia, i.e. the
   statement loop never stops before the end of the text -- a prefix is never accepted for the file.
   (False before the fix 295fd74: see corpus/C05/eof_swallow_*.asm.) *)
Theorem C05_no_silent_tail : forall s toks ds, parse s = Parsed toks ds -> eof_rest toks = [].
Proof. exact eof_takes_nothing. Qed.
Print Assumptions C05_no_silent_tail.

(* For ALL texts, with or without diagnostics: the tokens, printed with the source spelling of keywords and line
   ends (ghost data), are exactly the text: no character is dropped or invented by the parser. *)
Theorem C05_exact : forall s toks ds, parse s = Parsed toks ds -> show toks = s.
Proof. exact parse_show_exact. Qed.
Print Assumptions C05_exact.

(* Every character is accounted for exactly once: the printed pieces (token texts and trivia) tile the byte range
   [0, len) in order, and every span recorded in the tree is exactly the range of its piece. *)
Theorem C05_total_account : forall s toks ds, parse s = Parsed toks ds ->
  tiling 0 (pieces (a_tokens toks)) (blen s) /\ concat (map snd (pieces (a_tokens toks))) = s.
Proof. exact parse_tiling. Qed.
Print Assumptions C05_total_account.

(* Whatever Display cannot reproduce (an unterminated block comment, a missing closing brace) comes with a diagnostic. *)
Theorem C05_lossy_reported : forall s toks, parse s = Parsed toks [] -> lossy (a_tokens toks) = false.
Proof. exact parse_lossy_reported. Qed.
Print Assumptions C05_lossy_reported.

(* The lossless statement as originally designed (kept: it does not depend on the analysis of the error stop set). *)
Theorem C05_lossless_given_eof : forall s toks, parse s = Parsed toks [] -> eof_rest toks = [] -> sim s (render toks).
Proof. exact parse_sim_given_eof. Qed.
Print Assumptions C05_lossless_given_eof.

(* non-vacuity: a clean parse with mixed case, CRLF, comments, a block; and a parse with diagnostics *)
Definition ex1 : text :=
  [76;100;65;32;35;36;70;102;13;10;102;111;111;58;32;123;32;110;79;112;32;47;42;32;99;32;42;47;32;125;10;46;66;89;84;69;32;49;44;50;32;47;47;32;120].
  (* "LdA #$Ff\r\nfoo: { nOp /* c */ }\n.BYTE 1,2 // x" *)
Example C05_example_clean : exists toks, parse ex1 = Parsed toks [] /\ render toks <> ex1 /\ show toks = ex1.
Proof. vm_compute. eexists. split; [reflexivity|]. split; [discriminate|reflexivity]. Qed.
Definition ex2 : text := [110;111;112;10;41;10;108;100;97;32;35;49].   (* "nop\n)\nlda #1" *)
Example C05_example_stray_paren : exists toks d, parse ex2 = Parsed toks [d] /\ eof_rest toks = [] /\ show toks = ex2.
Proof. vm_compute. do 2 eexists. split; [reflexivity|]. split; reflexivity. Qed.

(* C17 -- format-document edits reproduce the formatter.
   Model: model/Edits.v (RangeKeeper, get_text_edits, do_formatting, both handlers; constants translated into
   Gen/EditsConsts.v).  Spec: spec/LspEdits.v (LSP positions over LF / CR LF / CR lines in UTF-16 code units,
   apply_edits).  `diff` (dissimilar::diff) and `format` are arbitrary functions; about the diff only
   `partitions` is assumed (validated on every case by the check). *)
From Coq Require Import List NArith Bool Arith.
Import ListNotations.
From Mos Require Import spec.LspEdits model.Utf Gen.EditsConsts model.Edits proofs.EditsProofs.

(* For ALL old/new texts (any characters, any line ends) and ANY diff function (no assumption: chunks that do not
   add up to both texts are detected and not used): the edits are in range, ordered and non-overlapping, and applying
   them to the old text in the LSP manner yields the new text. *)
Theorem C17_edits_reproduce_new_text : forall (diff : text -> text -> list chunk) old new,
  apply_edits old (get_text_edits diff old new) = Some new /\
  in_range old (get_text_edits diff old new) /\ ordered_disjoint old (get_text_edits diff old new).
Proof. exact get_text_edits_correct. Qed.
Print Assumptions C17_edits_reproduce_new_text.

(* A diff that partitions CR-free text is used as it is (the whole-document answer is the fallback only). *)
Theorem C17_chunkwise_when_diff_sound : forall (diff : text -> text -> list chunk) old new,
  partitions (diff old new) old new -> has_cr old = false ->
  get_text_edits diff old new = gte rk_new (diff old new).
Proof. exact get_text_edits_chunkwise. Qed.
Print Assumptions C17_chunkwise_when_diff_sound.

(* ... and why the validation is needed: chunks with a character missing (what dissimilar 1.0.3 returns for
   neighbouring multi-byte characters that share bytes, defect F-C17c) give edits that lose that character. *)
Theorem C17_unsound_diff_refuted : exists cs old new, old_of cs = old /\ new_of cs <> new /\ has_cr old = false /\
  apply_edits old (gte rk_new cs) <> Some new.
Proof. exact unsound_diff_refuted. Qed.
Print Assumptions C17_unsound_diff_refuted.

(* The chunk-wise computation (three-chunk rewrite, RangeKeeper) for ALL chunk lists over CR-free old text. *)
Theorem C17_chunk_edits_correct : forall cs, has_cr (old_of cs) = false ->
  apply_edits (old_of cs) (gte rk_new cs) = Some (new_of cs) /\
  in_range (old_of cs) (gte rk_new cs) /\ ordered_disjoint (old_of cs) (gte rk_new cs).
Proof. exact edits_correct. Qed.
Print Assumptions C17_chunk_edits_correct.

(* ... and why buffers with CR need the whole-document branch (defect F-C17b, repaired in /repo). *)
Theorem C17_chunkwise_crlf_refuted : exists cs, has_cr (old_of cs) = true /\
  apply_edits (old_of cs) (gte rk_new cs) <> Some (new_of cs).
Proof. exact chunkwise_crlf_refuted. Qed.
Print Assumptions C17_chunkwise_crlf_refuted.

(* The line/character tracker is exact: after pushing any CR-free prefix its position denotes, in the LSP sense,
   exactly the end of that prefix; the LF-only form of ANY document ends at the LSP end of the document. *)
Theorem C17_range_keeper_exact : forall pre suf, has_cr pre = false ->
  offset_of (pre ++ suf) (fst (push rk_new pre)) (snd (push rk_new pre)) = Some (length pre).
Proof. exact offset_of_prefix. Qed.
Print Assumptions C17_range_keeper_exact.

Theorem C17_document_end_exact : forall old,
  offset_of old (fst (push rk_new (replace_cr (replace_crlf old)))) (snd (push rk_new (replace_cr (replace_crlf old))))
  = Some (length old).
Proof. exact offset_of_end. Qed.
Print Assumptions C17_document_end_exact.

(* Formatting only when the project has no diagnostics. *)
Theorem C17_guard : forall diff format (diagnostic : Type) (error : list diagnostic) codegen,
  error <> [] -> do_formatting diff format diagnostic error codegen = None.
Proof. exact guard. Qed.
Print Assumptions C17_guard.

(* The request handler: with no diagnostics the answer is a list of edits that reproduces the formatter's text. *)
Theorem C17_formatting_reproduces : forall diff format (diagnostic : Type) (error : list diagnostic) old,
  error = [] ->
  exists es, do_formatting diff format diagnostic error (Some (Some old)) = Some es /\
             apply_edits old es = Some (format old) /\ in_range old es /\ ordered_disjoint old es.
Proof. exact formatting_reproduces. Qed.
Print Assumptions C17_formatting_reproduces.

(* On-type formatting answers exactly like document formatting (position and typed character are ignored). *)
Theorem C17_on_type_same : forall diff format (diagnostic : Type) (error : list diagnostic) codegen p ch,
  handle_on_type_formatting diff format diagnostic p ch error codegen =
  handle_formatting diff format diagnostic error codegen.
Proof. exact on_type_same. Qed.
Print Assumptions C17_on_type_same.

(* No edits exactly when the diff consists of Equal chunks only; in particular for already formatted text. *)
Theorem C17_no_edits_iff_only_equal : forall cs rk, gte rk cs = [] <-> forallb is_equal cs = true.
Proof. exact gte_nil_iff. Qed.
Print Assumptions C17_no_edits_iff_only_equal.

Theorem C17_already_formatted : forall (diff : text -> text -> list chunk) old,
  forallb is_equal (diff old old) = true -> get_text_edits diff old old = [].
Proof. exact already_formatted. Qed.
Print Assumptions C17_already_formatted.

(* The executable oracle agrees with the predicates: whenever apply_edits succeeds the edits are in range, ordered
   and non-overlapping. *)
Theorem C17_apply_edits_sound : forall doc es out, apply_edits doc es = Some out ->
  in_range doc es /\ ordered_disjoint doc es.
Proof. exact apply_edits_wellformed. Qed.
Print Assumptions C17_apply_edits_sound.

(* Locality: the text of an Equal chunk is not touched by any edit (every resolved range ends at or before its
   first character or starts at or after its end) unless the chunk is the middle of a Delete x / Equal / Insert x
   triple, where the rewrite rule deliberately replaces x ++ e by e ++ x. *)
Theorem C17_equal_text_untouched : forall pre e post,
  has_cr (old_of (pre ++ Equal e :: post)) = false -> absorbed pre post = false ->
  exists rs, resolve_all (old_of (pre ++ Equal e :: post)) (gte rk_new (pre ++ Equal e :: post)) = Some rs /\
             Forall (avoids (length (old_of pre)) (length e)) rs.
Proof. exact equal_text_untouched. Qed.
Print Assumptions C17_equal_text_untouched.

Theorem C17_absorbed_iff : forall pre post, absorbed pre post = true <->
  exists pre' x y post', pre = pre' ++ [Delete x] /\ post = Insert y :: post' /\ text_eqb x y = true.
Proof. exact absorbed_iff. Qed.
Print Assumptions C17_absorbed_iff.

(* non-vacuity: the witness of F-C17a (columns in UTF-16 units, not bytes): `lda /* eee */    #1` with e = U+00E9 *)
Definition sp (n : nat) : text := repeat 32%N n.
Definition w_c17a : list chunk :=
  [Insert (sp 20); Equal [108;100;97;32;47;42;32;233;233;233;32;42;47]%N; Delete (sp 3); Equal [32;35;49]%N].
Example C17_witness_c17a :
  gte rk_new w_c17a = [mkEdit (0, 0) (0, 0) (sp 20); mkEdit (0, 13) (0, 16) []] /\
  has_cr (old_of w_c17a) = false /\
  apply_edits (old_of w_c17a) (gte rk_new w_c17a) = Some (new_of w_c17a).
Proof. vm_compute. auto. Qed.
(* the three-chunk rewrite, a multi-line chunk and an astral character (two UTF-16 units) *)
Example C17_example_merge :
  let cs := [Equal [128512]%N; Delete [125]%N; Equal [10]%N; Insert [125]%N; Equal [10;120]%N; Delete [10;10;10]%N] in
  gte rk_new cs = [mkEdit (0, 2) (1, 0) [10;125]%N; mkEdit (2, 1) (5, 0) []] /\
  apply_edits (old_of cs) (gte rk_new cs) = Some (new_of cs).
Proof. vm_compute. auto. Qed.
(* CR LF buffer: one whole-document edit ending at the LSP end of the document *)
Example C17_example_crlf :
  let old := [110;111;112;13;10;110;111;112;13]%N in let new := [110;111;112;10]%N in
  get_text_edits (fun _ _ => []) old new = [mkEdit (0, 0) (2, 0) new] /\
  apply_edits old (get_text_edits (fun _ _ => []) old new) = Some new.
Proof. vm_compute. auto. Qed.
(* locality is not vacuous: an untouched Equal chunk between two edits, and an absorbed one *)
Example C17_example_local :
  absorbed [Delete [97]%N] [Insert [98]%N] = false /\ absorbed [Delete [97]%N] [Insert [97]%N] = true /\
  resolve_all [97;10;120]%N (gte rk_new [Delete [97]%N; Equal [10;120]%N; Insert [98]%N]) = Some [(0, 1, []); (3, 3, [98]%N)].
Proof. vm_compute. auto. Qed.

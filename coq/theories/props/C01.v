(* C01 -- every instruction is encoded exactly as the 6502 ISA prescribes.
   Property theorems only; each closed by `exact` of a lemma from proofs/. *)
From Coq Require Import List NArith ZArith Bool.
Import ListNotations.
From Mos Require Import Gen.OpcodeTable spec.Isa model.Encode proofs.EncodeProofs.
From Mos Require Import model.Segment model.SymTab model.Asm proofs.AsmConcat.
From Mos Require model.Nom model.Parser proofs.ParserNewline.
Open Scope Z_scope.

(* The translated opcode table, read through the operand parser's form mapping, is the ISA matrix
   (56 mnemonics x 10 syntactic forms, candidate order and operand lengths included). *)
Theorem C01_table_is_isa : forall m f, code_cands m f = spec_cands m f.
Proof. exact table_is_isa. Qed.
Print Assumptions C01_table_is_isa.

Theorem C01_isa_151_opcodes : length isa_opcodes = 151%nat /\ NoDup isa_opcodes.
Proof. exact isa_has_151_distinct_opcodes. Qed.
Print Assumptions C01_isa_151_opcodes.

(* Every legal and illegal (mnemonic, form) with any operand value 0..65535: exact opcode, little-endian
   operand, zero page exactly when one exists and v <= 255, immediate > 255 rejected, undefined rejected. *)
Theorem C01_encode_legal : forall m f v cur,
  is_branch m = false -> 0 <= v <= 65535 -> code_encode m f v cur = spec_encode m f v.
Proof. exact encode_legal. Qed.
Print Assumptions C01_encode_legal.

Theorem C01_encode_undefined_rejected : forall m f v cur,
  isa_undefined m f -> code_encode m f v cur = None.
Proof. exact encode_undefined_rejected. Qed.
Print Assumptions C01_encode_undefined_rejected.

Theorem C01_immediate_above_255_rejected : forall m v cur,
  255 < v -> is_branch m = false -> code_encode m FImm v cur = None.
Proof. exact immediate_above_255_rejected. Qed.
Print Assumptions C01_immediate_above_255_rejected.

(* Branches: signed byte of target - (pc + 2), rejected outside -128..127 -- for every target, address 0 included
   (the former escape for a target of 0, defect F-C01b, is repaired in /repo 8111844; the translator reads whether the
   escape is present, and this proof does not go through if it is). *)
Theorem C01_branch : forall m pc target,
  is_branch m = true -> 0 <= pc <= 65535 -> - 2 ^ 62 <= target <= 2 ^ 62 ->
  code_encode m FAbs target (Some pc) = spec_branch m pc target.
Proof. exact branch_encode. Qed.
Print Assumptions C01_branch.

Theorem C01_branch_to_zero_rejected :
  spec_branch Bne 8192 0 = None /\ code_encode Bne FAbs 0 (Some 8192) = None /\
  code_encode Bne FAbs 0 (Some 100) = Some [208%N; 154%N].
Proof. exact branch_to_zero_rejected. Qed.
Print Assumptions C01_branch_to_zero_rejected.

(* Neighbour independence on the assembler model (model/Asm.v, the emit_token loop of codegen/mod.rs): a sequence of
   position-independent statements (non-branch instructions whose operand is absent or a closed expression, data with
   closed values) emitted into a fresh, unrelocated segment with room assembles -- whatever the rest of the context is,
   whatever stands before or after each statement -- to the bytes `all_bytes ts`, and `all_bytes` of a sequence is the
   concatenation of what each statement assembles to alone.  Any length, any statements of that class. *)
Theorem C01_concat : forall fuel ts c name seg bs,
  current_segment c = Some name -> seg_get (segments c) name = Some seg ->
  so_target_address (g_options seg) = so_initial_pc (g_options seg) -> 0 <= so_initial_pc (g_options seg) ->
  g_pc seg = so_initial_pc (g_options seg) -> g_writes seg = [] -> g_has_data seg = false ->
  forallb position_independent ts = true -> all_bytes ts = Some bs ->
  g_pc seg + Z.of_nat (length bs) <= 65535 ->
  exists c' seg', emit_tokens (emit_token (S fuel)) ts c = Ret tt c' /\ same_rest c c' /\
                  seg_get (segments c') name = Some seg' /\ range_data seg' = bs /\
                  g_pc seg' = g_pc seg + Z.of_nat (length bs).
Proof. exact concat_emit. Qed.
Print Assumptions C01_concat.

Theorem C01_concat_is_each_alone : forall ts bs, all_bytes ts = Some bs ->
  exists parts, Forall2 (fun t b => all_bytes [t] = Some b) ts parts /\ bs = concat parts.
Proof. exact concat_alone. Qed.
Print Assumptions C01_concat_is_each_alone.

(* Neighbour independence at text level, on the parser model (model/Parser.v = parser/mod.rs, whole grammar): for every
   single-line statement text y (no line end, no block-comment opener, first non-blank character exists and does not start
   a line comment) that does not begin one of the multi-line forms (`block_heads`: braces, label + block, .define, .macro,
   .segment, .loop, .if/else, .import/from, .test -- the forms that may legitimately continue on the next line), parsing y
   followed by a line end gives the same state, the same token (spans included) and stops at the same place whatever
   stands on the following lines.  (The defect F-C01a -- `lsr` followed by `lda ($10,x)` on the next line -- was exactly a
   failure of this statement; it is repaired in /repo b4d3e48 and the theorem holds for the code as it is now.) *)
Theorem C01_newline_local : forall y rest st o st1 v r,
  ParserNewline.lineb y = true -> ParserNewline.simple_line y ->
  Parser.statement st (Nom.mkIn o (y ++ [10%N])) = (st1, Nom.Ok v r) ->
  exists r', Parser.statement st (Nom.mkIn o (y ++ 10%N :: rest)) = (st1, Nom.Ok v r') /\ Nom.off r' = Nom.off r /\
             exists y2, ParserNewline.sfx y2 y /\ Nom.rem r = y2 ++ [10%N] /\ Nom.rem r' = y2 ++ 10%N :: rest.
Proof. exact ParserNewline.newline_local. Qed.
Print Assumptions C01_newline_local.

(* non-vacuity: the hypotheses are met by ordinary instructions *)
Example C01_example_lda : code_encode Lda FAbs 255 None = Some [165%N; 255%N] /\
                          code_encode Lda FAbs 256 None = Some [173%N; 0%N; 1%N] /\
                          code_encode Bne FAbs 8192 (Some 8200) = Some [208%N; 246%N].
Proof. vm_compute. repeat split; reflexivity. Qed.

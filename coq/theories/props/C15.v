(* C15 -- rename is behaviour-preserving and complete.
   Model: model/SymGraph.v (symbols.rs: query_traversal_steps with bubbling / super / dotted paths), model/Analysis.v
   (definitions and usages), model/Rename.v (lsp/rename.rs); vocabulary: spec/RenameSpec.v. *)
From Coq Require Import List NArith Arith Bool.
Import ListNotations.
From Mos Require Import model.SymGraph model.Analysis model.Rename spec.NavSpec spec.RenameSpec
  proofs.SymGraphProofs proofs.NavProofs proofs.GreedyProofs proofs.RenameProofs model.RenameNames proofs.NamesProofs.

(* The edit set, for every database, position and hash order that makes this symbol the first one found: exactly
   the places (definition site, usages) where the symbol found at the position is written with the name under the
   cursor -- nothing else: not `super`, not another name of the same symbol (import alias), and, the places being the
   symbol's recorded usages (C16), no comment, string or equally named symbol of another scope. *)
Theorem C15_edits_are_the_named_occurrences : forall names d f l c new old edits,
  rename_symbol names d f l c new = RenEdits old edits ->
  name_under_cursor names d f l c = Some old /\ is_super old = false /\ ident_ok old = true /\
  forall e, In e edits <->
    exists dl off id, In dl (definition_and_usages d) /\ In (off, id) (names (dl_span dl)) /\ id = old /\
                      e = mkEdit (subspan (dl_span dl) off (off + List.length id)) new.
Proof. exact rename_symbol_edits. Qed.
Print Assumptions C15_edits_are_the_named_occurrences.

(* ... and the name under the cursor is a name of one of those places, at the cursor's column *)
Theorem C15_name_under_cursor : forall names d f l c old,
  name_under_cursor names d f l c = Some old ->
  exists dl off, In dl (definition_and_usages d) /\ span_contains (dl_span dl) f l c = true /\
                 In (off, old) (names (dl_span dl)) /\
                 s_c0 (dl_span dl) + off <= c <= s_c0 (dl_span dl) + off + List.length old.
Proof. exact name_under_cursor_spec. Qed.
Print Assumptions C15_name_under_cursor.

(* every edit writes exactly the new name (unguarded since the repair of F-C15a) *)
Theorem C15_edit_text_is_new_name : forall names d f l c new old edits,
  rename_symbol names d f l c new = RenEdits old edits -> forall e, In e edits -> ed_text e = new.
Proof. exact edit_text_is_new_name. Qed.
Print Assumptions C15_edit_text_is_new_name.

(* `names_in` (the environment function `names` of the handler): for every text, every name it reports stands in the
   text exactly at the reported offset -- also when the same letters occur earlier (`draw_sprite as draw`, `x as a`). *)
Theorem C15_names_in_offsets : forall t e, In e (names_in t) -> stands_at t e.
Proof. exact names_in_offsets. Qed.
Print Assumptions C15_names_in_offsets.

Example C15_names_in_alias_is_prefix :
  names_in [100; 114; 97; 119; 95; 115; 112; 32; 97; 115; 32; 100; 114; 97; 119]%N
  = [(0, [100; 114; 97; 119; 95; 115; 112]%N); (11, [100; 114; 97; 119]%N)].
Proof. vm_compute. reflexivity. Qed.

(* What assembling the edited text builds is the table with relabelled edges: same edges, same order, same
   endpoints; the label differs exactly on the edges INTO the symbol that carried the old name. *)
Theorem C15_relabel_is_relabelling : forall g c old new, relabelled g (relabel g c old new) c old new.
Proof. exact relabel_relabelled. Qed.
Print Assumptions C15_relabel_is_relabelling.

(* For ALL functional tables, scopes and paths (dotted, `super`, bubbling outward any number of scopes), a fresh new
   name and any old name: every lookup that resolved before resolves through exactly the same nodes afterwards --
   same bubbling steps, same Symbol steps, hence the same symbol and value -- once every identifier that reached the
   symbol under the old name is replaced by the new name (which is what the text edit does).  Lookups that do not
   mention the symbol, or reach it under another name (alias), are unchanged; no lookup is captured by a nearer or
   farther scope. *)
Theorem C15_rename_iso : forall g c old new, functional g -> fresh g new -> is_super old = false ->
  forall fuel scope pth steps,
    pth <> [] ->
    query_traversal_steps fuel g scope pth = Some steps ->
    symbols_of steps <> [] ->
    query_traversal_steps fuel (relabel g c old new) scope (ren_path c old new (symbols_of steps) pth) = Some steps.
Proof. exact relabel_iso. Qed.
Print Assumptions C15_rename_iso.

Theorem C15_rename_keeps_functional : forall g c old new, functional g -> fresh g new -> functional (relabel g c old new).
Proof. exact relabel_functional. Qed.
Print Assumptions C15_rename_keeps_functional.

(* `functional` is what every table built by the code satisfies: the empty table does, and insert (called only after
   the identifier's lookup in that node failed), export (which refuses a second target) and remove keep it. *)
Theorem C15_functional_is_invariant :
  functional [] /\
  (forall g parent_nx id new_nx, functional g -> child g parent_nx id = None -> functional (insert g parent_nx id new_nx)) /\
  (forall g to_export_nx new_nx new_id g', functional g -> export g to_export_nx new_nx new_id = Some g' -> functional g') /\
  (forall g nx, functional g -> functional (remove g nx)).
Proof. exact functional_invariant. Qed.
Print Assumptions C15_functional_is_invariant.

(* Renaming back (new -> old) restores the table and every edited path; no guard beyond freshness is needed now that
   only the old name's edges are touched. *)
Theorem C15_roundtrip : forall g c old new,
  fresh g new ->
  relabel (relabel g c old new) c new old = g /\
  forall pth n l, walk g n pth = Some l -> ren_path c new old l (ren_path c old new l pth) = pth.
Proof. exact roundtrip. Qed.
Print Assumptions C15_roundtrip.

(* F-C15a repaired.  .import x as y from "b.asm" / lda y: renaming y edits the alias half of the argument and the
   use; renaming x edits the definition and the other half. *)
Theorem C15_import_alias_repaired :
  rename_handler w_analysis w_names 0 1 4 w_zz =
    RenEdits w_y [mkEdit w_use w_zz; mkEdit (mkSpan 0 0 13 0 14) w_zz] /\
  rename_handler w_analysis w_names 1 0 0 w_zz =
    RenEdits w_x [mkEdit w_def_site w_zz; mkEdit (mkSpan 0 0 8 0 9) w_zz].
Proof. exact import_alias_repaired. Qed.
Print Assumptions C15_import_alias_repaired.

(* Repaired defect shared with C16 (41281c3; the old behaviour).  foo: nop / { .if 0 { foo: nop } / lda foo }:
   on the analysed table the pass records `lda foo` as a usage of the untaken foo, so the rename of the outer foo
   edits the definition only; with the build's table the same request also edits `lda foo`.  Outside the class the
   lookups of the analysed run are the build's (C16_greedy_agrees_with_build), hence so are the recorded usages. *)
Theorem C15_greedy_untaken_definition_refuted :
  exists a a_b,
    run_pass 5 [] gr_analysed_events = Some a /\ run_pass 5 [] gr_build_events = Some a_b /\
    rename_handler a gr_names 0 0 0 gr_zz = RenEdits gw_foo [mkEdit gr_outer gr_zz] /\
    rename_handler a_b gr_names 0 0 0 gr_zz = RenEdits gw_foo [mkEdit gr_outer gr_zz; mkEdit gr_occ gr_zz].
Proof. exact greedy_rename_refuted. Qed.
Print Assumptions C15_greedy_untaken_definition_refuted.

(* non-vacuity of C15_rename_iso: a lookup that bubbles two scopes and crosses the renamed edge *)
Example C15_example_iso :
  let foo := [102; 111; 111]%N in let bar := [98; 97; 114]%N in let s := [36; 115]%N in let zz := [122; 122]%N in
  let g := [mkEdge 3 bar 4; mkEdge 0 foo 3; mkEdge 1 s 2; mkEdge 0 s 1] in
  query_traversal_steps 9 g 2 [foo; bar] = Some [Super 1; Super 0; Symbol 3; Symbol 4] /\
  ren_path 3 foo zz [3; 4] [foo; bar] = [zz; bar] /\
  query_traversal_steps 9 (relabel g 3 foo zz) 2 [zz; bar] = Some [Super 1; Super 0; Symbol 3; Symbol 4].
Proof. vm_compute. repeat split; reflexivity. Qed.

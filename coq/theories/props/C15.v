(* C15 -- rename is behaviour-preserving and complete.
   Model: model/SymGraph.v (symbols.rs: rename = edge relabelling, query_traversal_steps, query_steps_to_path),
   model/Analysis.v (definitions and usages), model/Rename.v (lsp/rename.rs); vocabulary: spec/RenameSpec.v. *)
From Coq Require Import List NArith Arith Bool.
Import ListNotations.
From Mos Require Import model.SymGraph model.Analysis model.Rename spec.NavSpec spec.RenameSpec
  proofs.SymGraphProofs proofs.NavProofs proofs.GreedyProofs proofs.RenameProofs.

(* The table after `rename` is the table before with relabelled edges: same edges, same order, same endpoints; the
   label differs exactly on the edges parent -> symbol. *)
Theorem C15_rename_is_relabelling : forall g p c new, relabelled g (rename g p c new) p c new.
Proof. exact rename_relabelled. Qed.
Print Assumptions C15_rename_is_relabelling.

(* For ALL tables, scopes and paths (dotted, `super`, bubbling outward any number of scopes): if the new name is fresh,
   every lookup that resolved before the rename resolves through exactly the same nodes afterwards -- same bubbling
   steps, same Symbol steps, hence the same symbol and value -- once every identifier that crossed an edge
   parent -> symbol is replaced by the new name (which is what the text edit does to the usages of the symbol).
   In particular lookups that do not touch the symbol are unchanged (their path is not edited), and no lookup is
   captured by an inner or outer scope. *)
Theorem C15_rename_iso : forall g p c new, functional g -> fresh g new ->
  forall fuel scope pth steps,
    pth <> [] ->
    query_traversal_steps fuel g scope pth = Some steps ->
    symbols_of steps <> [] ->
    query_traversal_steps fuel (rename g p c new) scope
      (ren_path p c new (resolving_scope scope steps) (symbols_of steps) pth) = Some steps.
Proof. exact rename_iso. Qed.
Print Assumptions C15_rename_iso.

(* the invariant `functional` is kept by a rename to a fresh name (so renames compose) *)
Theorem C15_rename_keeps_functional : forall g p c new, functional g -> fresh g new -> functional (rename g p c new).
Proof. exact rename_functional. Qed.
Print Assumptions C15_rename_keeps_functional.

(* `functional` is what every table built by the code satisfies: the empty table does, and insert (called only after
   the identifier's lookup in that node failed), export (which refuses a second target) and remove keep it. *)
Theorem C15_functional_is_invariant :
  functional [] /\
  (forall g parent_nx id new_nx, functional g -> child g parent_nx id = None -> functional (insert g parent_nx id new_nx)) /\
  (forall g to_export_nx new_nx new_id g', functional g -> export g to_export_nx new_nx new_id = Some g' -> functional g') /\
  (forall g nx, functional g -> functional (remove g nx)).
Proof. exact functional_invariant. Qed.
Print Assumptions C15_functional_is_invariant.

(* The edit set: one edit per definition site / usage of the symbol found at the position, except usages written
   `super` -- nothing else (comments, strings, equally named symbols of other scopes are no usages of it, C16). *)
Theorem C15_edit_spans_are_usages : forall fuel g slice nx d new g' edits,
  rename_symbol fuel g slice nx d new = RenEdits g' edits ->
  map ed_span edits = map dl_span (filter (fun dl => negb (is_super_slice slice dl)) (definition_and_usages d)).
Proof. exact rename_symbol_spans. Qed.
Print Assumptions C15_edit_spans_are_usages.

(* Renaming back restores the table and every edited path, under the exact guard that all edges parent -> symbol
   carried the old name (no second name for the same symbol in that scope). *)
Theorem C15_roundtrip : forall g p c new old,
  is_super new = false -> functional g -> uniform g p c old ->
  rename (rename g p c new) p c old = g /\
  forall pth n l, walk g n pth = Some l -> ren_path p c old n l (ren_path p c new n l pth) = pth.
Proof. exact roundtrip. Qed.
Print Assumptions C15_roundtrip.

(* F-C15a.  .import x as y from "b.asm" / lda y ; rename y -> zz: the argument `x as y` is replaced by the EMPTY
   path, and x is renamed in b.asm. *)
Theorem C15_import_alias_refuted :
  exists g' edits, rename_handler 5 w_graph w_analysis w_slice 0 1 4 w_zz = RenEdits g' edits /\
    In (mkEdit w_arg []) edits /\ In (mkEdit w_def_site [w_zz]) edits /\ In (mkEdit w_use [w_zz]) edits.
Proof. exact import_alias_refuted. Qed.
Print Assumptions C15_import_alias_refuted.

(* Outside that class every edit writes exactly the new name (for all tables, usages through bubbling included). *)
Theorem C15_edit_text_is_new_name : forall fuel g slice nx d new g' edits,
  rename_symbol fuel g slice nx d new = RenEdits g' edits ->
  Known_import_alias fuel g slice nx d = false ->
  forall e, In e edits -> ed_text e = [new].
Proof. exact edit_text_guarded. Qed.
Print Assumptions C15_edit_text_is_new_name.

(* Known finding shared with C16 (Known_greedy_untaken_definition).  foo: nop / { .if 0 { foo: nop } / lda foo }:
   on the analysed table the pass records `lda foo` as a usage of the untaken foo, so the rename of the outer foo
   edits the definition only; on the build's table the same request also edits `lda foo`.  Outside the class the
   lookups of the analysed run are the build's (C16_greedy_agrees_with_build), hence so are the recorded usages. *)
Theorem C15_greedy_untaken_definition_refuted :
  exists a a_b g1 g2,
    run_pass 5 [] gr_analysed_events = Some a /\ run_pass 5 [] gr_build_events = Some a_b /\
    rename_handler 5 gw_table a gr_slice 0 0 0 gr_zz = RenEdits g1 [mkEdit gr_outer [gr_zz]] /\
    rename_handler 5 (without gw_extra gw_table) a_b gr_slice 0 0 0 gr_zz =
      RenEdits g2 [mkEdit gr_outer [gr_zz]; mkEdit gr_occ [gr_zz]].
Proof. exact greedy_rename_refuted. Qed.
Print Assumptions C15_greedy_untaken_definition_refuted.

(* the witness is inside the class, a plain program outside (non-vacuity of the guard) *)
Example C15_witness_in_class :
  Known_import_alias 5 w_graph w_slice 2 (mkDef (Some (mkLoc 1 w_def_site)) [mkLoc 0 w_use; mkLoc 0 w_arg]) = true.
Proof. vm_compute. reflexivity. Qed.

Example C15_plain_outside_class :
  let foo := [102; 111; 111]%N in let sc := [36; 115]%N in
  let g := [mkEdge 1 foo 2; mkEdge 0 sc 1] in
  let slice := fun _ : Span => [foo] in
  let d := mkDef (Some (mkLoc 1 (mkSpan 0 0 0 0 3))) [mkLoc 1 (mkSpan 0 2 4 2 7)] in
  Known_import_alias 5 g slice 2 d = false /\
  exists g', rename_symbol 5 g slice 2 d [122]%N =
             RenEdits g' [mkEdit (mkSpan 0 0 0 0 3) [[122]%N]; mkEdit (mkSpan 0 2 4 2 7) [[122]%N]].
Proof. vm_compute. split; [reflexivity|eexists; reflexivity]. Qed.

(* C15 -- rename is behaviour-preserving and complete (statements; proofs in proofs/RenameProofs.v). *)
From Coq Require Import List NArith Arith Bool.
Import ListNotations.
From Mos Require Import model.SymGraph model.Analysis model.Rename.

Theorem C15_placeholder_model_loads : rename [] 0 0 [] = [].
Proof. exact (eq_refl : rename [] 0 0 [] = []). Qed.
Print Assumptions C15_placeholder_model_loads.

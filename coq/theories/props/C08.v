(* C08 -- layout of the source text does not change its meaning (parser side).
   Model: model/Nom.v + model/Parser.v (tables regenerated from /repo).  skeleton = token tree with spans, trivia,
   keyword spelling, digit case and implied punctuation erased (spec/LayoutEquiv.v).
   The half "bytes, symbols and diagnostics depend only on the skeleton" has no code model here: it is decided on the
   implementation by the metamorphic oracle of checks/c08.py. *)
From Coq Require Import List NArith Bool.
Import ListNotations.
From Mos Require Import model.Utf model.Nom Gen.ParserTables model.Parser model.Display spec.Lossless spec.LayoutEquiv
  proofs.NomProofs proofs.TriviaProofs proofs.C08Proofs proofs.C08Sweep proofs.ParserBlind proofs.ParserLayout.
Open Scope N_scope.

(* A single-line trivia slot: whatever the trivia parser consumes in front of x (tr or tr'), the wrapped parser sees x;
   for every parser that is blind to position and state the two results agree (values up to R, same remaining text). *)
Theorem C08_ws_slot : forall (A : Type) (R : A -> A -> Prop) (p : parser A), blind R p ->
  forall st st' o o' tr tr' x T T' s1 s1',
    opt trivia_p st (mkIn o (tr ++ x)) = (s1, Ok T (mkIn (o + blen tr) x)) ->
    opt trivia_p st' (mkIn o' (tr' ++ x)) = (s1', Ok T' (mkIn (o' + blen tr') x)) ->
    same_res (fun l l' => R (data l) (data l')) (snd (ws p st (mkIn o (tr ++ x)))) (snd (ws p st' (mkIn o' (tr' ++ x)))).
Proof. exact @ws_slot. Qed.
Print Assumptions C08_ws_slot.

(* the multi-line analogue *)
Theorem C08_mws_slot : forall (A : Type) (R : A -> A -> Prop) (p : parser A), blind R p ->
  forall st st' o o' tr tr' x T T' s1 s1',
    opt multiline_trivia st (mkIn o (tr ++ x)) = (s1, Ok T (mkIn (o + blen tr) x)) ->
    opt multiline_trivia st' (mkIn o' (tr' ++ x)) = (s1', Ok T' (mkIn (o' + blen tr') x)) ->
    same_res (fun l l' => R (data l) (data l')) (snd (mws p st (mkIn o (tr ++ x)))) (snd (mws p st' (mkIn o' (tr' ++ x)))).
Proof. exact @mws_slot. Qed.
Print Assumptions C08_mws_slot.

(* the trivia parsers themselves do not depend on the parser state, and a trivia loop stops only where no trivia starts *)
Theorem C08_trivia_state_independent : oblivious trivia_p /\ oblivious multiline_trivia.
Proof. exact (conj oblivious_trivia_p oblivious_multiline_trivia). Qed.
Print Assumptions C08_trivia_state_independent.

(* Every keyword of the grammar (all mnemonics, directives, `as from else`, encodings, registers, true/false -- the
   translated tag list) is matched in every ASCII letter case, consuming exactly the keyword, with the same result,
   whenever it ends at a word boundary (a keyword that starts with a letter is not followed by an identifier character). *)
Theorem C08_tag_case : forall t, In t all_keyword_tags ->
  forall a x st o, ci_eq a t -> boundary t x -> tag_no_case t st (mkIn o (a ++ x)) = (st, Ok a (mkIn (o + blen a) x)).
Proof. exact keyword_case. Qed.
Print Assumptions C08_tag_case.

(* ... and as the beginning of a longer word it is not a keyword in any spelling (`rtsg`, `trueval`, `asciitable`) *)
Theorem C08_keyword_word_boundary : forall t, In t all_keyword_tags ->
  forall a x st o, ci_eq a t -> word_tag t && starts_ident x = true -> tag_no_case t st (mkIn o (a ++ x)) = (st, Err).
Proof. exact keyword_word. Qed.
Print Assumptions C08_keyword_word_boundary.

(* ... and only in those spellings *)
Theorem C08_tag_case_only : forall t st i st' a r, tag_no_case t st i = (st', Ok a r) -> ci_eq a t.
Proof. exact tag_no_case_ci. Qed.
Print Assumptions C08_tag_case_only.

(* The block comment scanner consumes exactly a well-nested comment (any nesting depth, any length) and nothing of
   what follows; the parser state is untouched. *)
Theorem C08_nested_comment : forall b rest st o, cbody b ->
  c_comment st (mkIn o (47 :: 42 :: b ++ 42 :: 47 :: rest)) =
  (st, Ok (47 :: 42 :: b ++ [42; 47], true) (mkIn (o + blen (47 :: 42 :: b ++ [42; 47])) rest)).
Proof. exact c_comment_nested. Qed.
Print Assumptions C08_nested_comment.

(* Statement level, leading trivia -- for EVERY statement form (all 20 alternatives, blocks included, any nesting) and
   ARBITRARY legal trivia: if tr and tr' are both legal multi-line trivia in front of the same text x (`leading`: the
   multi-line trivia parser consumes exactly them, in every state, at every position), then `statement` -- and one step
   `statement | error` of the top-level loop -- run on tr ++ x and on tr' ++ x, at any two offsets, from any two states
   that agree on ignore flag / scope counter / nesting depth / diagnostic KINDS, end in states that agree in the same
   way (in particular: the same diagnostics kinds), return tokens of EQUAL SKELETON (or both fail / both abort alike)
   and leave the same remaining text.  Rests on the blindness family of proofs/ParserBlind.v: no grammar function looks
   at the absolute position or at the diagnostics recorded so far (`statement_blind`). *)
Theorem C08_layout_leading : forall tr tr' x st st' o o', leading tr x -> leading tr' x -> SR st st' ->
  RR Rtok (statement st (mkIn o (tr ++ x))) (statement st' (mkIn o' (tr' ++ x))) /\
  RR Rtok (alt statement error st (mkIn o (tr ++ x))) (alt statement error st' (mkIn o' (tr' ++ x))).
Proof. exact layout_leading_both. Qed.
Print Assumptions C08_layout_leading.

(* the same statement text at a different place in the file (other offset, other diagnostics so far) parses alike *)
Theorem C08_position_blind : blind2 Rtok statement.
Proof. exact statement_blind. Qed.
Print Assumptions C08_position_blind.

(* Statement level, ALL slots at once, arbitrary legal trivia, all 20 statement forms (blocks included, any nesting).
   `lay 2 z z'` (proofs/ParserLayout.v) relates two texts that consist of the same characters with trivia at the same
   places: character by character equal (no blank, tab, CR, LF or double quote among them; a `/` is not followed by
   `/` or `*`), and at any place both texts may carry trivia instead -- ANY texts from which the model's own trivia
   parsers behave alike: both start with blank/tab/`/`/CR/LF, the single-line trivia parser leads from them to texts
   related at level 1 and the multi-line trivia parser to texts related at level 0 (in every state, at every offset,
   silently), or both start with CR/LF and the multi-line trivia parser leads to texts related at level 0.  Trivia are
   therefore replaced by other trivia (blanks by tabs or comments, LF by CRLF, empty lines added, line comment by block
   comment; a comment or blanks in front of a line break in one text and nothing in the other; trivia after the last
   statement in one text and none in the other), not inserted between two characters that touch nor removed there.
   `lay2 2 Rtok statement`: (i) diagnostics never disappear; (ii) run on two such texts from silent states (no
   diagnostics so far, same scope counter and nesting depth), at any offsets, the statement parser either reports in
   BOTH runs, or stays silent in both and returns tokens of EQUAL SKELETON (or fails / aborts alike), the remaining
   texts again related, and both runs consumed something or both consumed nothing.
   What the statement does not cover: string literals (a double quote is not among the common characters, so `.text`,
   `.file`, `.import .. from "f"`, assert messages with a string do not occur), insertion or removal of trivia between
   touching tokens (`a+b` against `a + b`), the letter case of keywords, and texts that produce diagnostics (error tokens
   contain the trivia inside them, so there the skeletons differ legitimately; the theorem only says both runs report). *)
Theorem C08_layout_inner : lay2 2 Rtok statement.
Proof. exact statement_lay. Qed.
Print Assumptions C08_layout_inner.

(* the same for an expression on its own *)
Theorem C08_layout_expression : lay2 2 (Rloc Rexp) expression.
Proof. exact expression_lay. Qed.
Print Assumptions C08_layout_expression.

(* Whole files: two layouts of the same characters (all trivia of the file varied at once).  If the first parses
   without diagnostics, then so does the second, and the two token lists have the same skeleton. *)
Theorem C08_layout_file : forall s1 s2 toks1, lay 2 s1 s2 -> parse s1 = Parsed toks1 [] ->
  exists toks2, parse s2 = Parsed toks2 [] /\ skeleton toks1 = skeleton toks2.
Proof. exact layout_file. Qed.
Print Assumptions C08_layout_file.

(* fuel: the expression parser gives related results on the same text whatever (sufficient) fuel it is run with *)
Theorem C08_expression_fuel_independent : forall n f f', (n < f)%nat -> (n < f')%nat ->
  blindh n (Rloc Rexp) (expression_fuel f) (expression_fuel f').
Proof. exact expression_fuel_blindh. Qed.
Print Assumptions C08_expression_fuel_independent.

(* Statement level, inner slots, PARTIAL: proved by exhaustive evaluation over a finite domain (bound = the lists below), not for
   arbitrary trivia.  For every template -- one per statement form of the grammar plus three instruction shapes for
   every mnemonic of the translated tables -- replacing ONE slot by each sample trivia (7 single-line: blanks, tabs,
   empty / nested / code-containing block comments, a block comment with a line end; for multi-line slots also LF, CRLF,
   empty and non-empty line comments), re-casing ONE keyword (upper, alternating), and applying one sample to ALL slots
   at once gives a parse without diagnostics and the SAME skeleton as the canonical single-space layout.
   Kept beside C08_layout_inner / C08_layout_file because it covers what those do not: string literals, removal and
   insertion of trivia at the sampled slots, and the letter case of keywords -- on the finite domain only.  Beyond the
   domain these three are covered by the correspondence check and the metamorphic oracle on generated layouts. *)
Theorem C08_layout_bounded_partial : forall tpl, In tpl templates ->
  exists k, skel_parse (canon tpl) = Some k /\ forall v, In v (variants tpl) -> skel_parse v = Some k.
Proof. exact layout_bounded. Qed.
Print Assumptions C08_layout_bounded_partial.

(* non-vacuity *)
Example C08_domain_size : N.of_nat n_templates = 126 /\ N.of_nat n_variants = 7332.
Proof. vm_compute. split; reflexivity. Qed.
Example C08_blind_terminal : blind eq (tag_no_case [108; 100; 97]).
Proof. exact (blind_tag_no_case _). Qed.
Example C08_nested_example : cbody [32; 97; 32; 47; 42; 32; 98; 32; 47; 42; 99; 42; 47; 32; 42; 47; 32].   (* " a /* b /*c*/ */ " *)
Proof.
  apply cb_char; [discriminate|discriminate|]. apply cb_char; [discriminate|discriminate|]. apply cb_char; [discriminate|discriminate|].
  apply (cb_nest [32; 98; 32; 47; 42; 99; 42; 47; 32] [32]).
  - apply cb_char; [discriminate|discriminate|]. apply cb_char; [discriminate|discriminate|]. apply cb_char; [discriminate|discriminate|].
    apply (cb_nest [99] [32]); repeat (apply cb_char; [discriminate|discriminate|]); apply cb_nil.
  - apply cb_char; [discriminate|discriminate|]. apply cb_nil.
Qed.
(* legal leading trivia exist: blank + LF + line comment + LF + tab; a nested block comment + CRLF; nothing -- in front of `lda #1` *)
Example C08_leading_examples :
  leading [32; 10; 47; 47; 32; 99; 10; 9] [108; 100; 97; 32; 35; 49] /\
  leading [47; 42; 32; 97; 32; 47; 42; 32; 98; 32; 42; 47; 32; 42; 47; 13; 10] [108; 100; 97; 32; 35; 49] /\
  leading [] [108; 100; 97; 32; 35; 49].
Proof. repeat split; intros st o; vm_compute; eexists; eexists; split; reflexivity. Qed.
(* two layouts of `lda #1 + x // c<LF>rts`: blanks against tabs and block comments, a line comment against a block
   comment, LF against CRLF and an empty line with an indented next statement *)
Example C08_layout_example :
  lay 2 [108; 100; 97; 32; 35; 49; 32; 43; 32; 120; 32; 47; 47; 32; 99; 10; 114; 116; 115]
        [108; 100; 97; 9; 35; 49; 32; 47; 42; 99; 42; 47; 32; 43; 32; 32; 120; 32; 47; 42; 100; 42; 47; 13; 10; 13; 10; 32; 114; 116; 115].
Proof. exact layout_example. Qed.
(* trailing trivia on one side only: `lda #1 // one<LF>  rts /* two */ // three<LF>` against `lda #1<LF>rts<LF><LF>` *)
Example C08_layout_example_trailing :
  lay 2 [108; 100; 97; 32; 35; 49; 32; 47; 47; 32; 111; 110; 101; 10; 32; 32; 114; 116; 115; 32; 47; 42; 32; 116; 119; 111; 32; 42; 47; 32; 47; 47; 32; 116; 104; 114; 101; 101; 10]
        [108; 100; 97; 32; 35; 49; 10; 114; 116; 115; 10; 10].
Proof. exact layout_example_trailing. Qed.
(* ... and at the end of the text: `lda #1<LF>rts // end<LF><LF>` against `lda #1 /* x */<LF><TAB>rts` *)
Example C08_layout_example_end :
  lay 2 [108; 100; 97; 32; 35; 49; 10; 114; 116; 115; 32; 47; 47; 32; 101; 110; 100; 10; 10]
        [108; 100; 97; 32; 35; 49; 32; 47; 42; 32; 120; 32; 42; 47; 10; 9; 114; 116; 115].
Proof. exact layout_example_end. Qed.

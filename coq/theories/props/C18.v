(* C18 -- unit-test verdicts reflect the emulated machine state.
   Runner model: model/TestRun.v (test_runner/mod.rs after the repair of F-C18a, commands/test.rs);
   machine: spec/Cpu6502.v; meaning of a verdict: spec/TestSpec.v. *)
From Coq Require Import List NArith ZArith Bool.
Import ListNotations.
From Mos Require Import model.I64 Gen.BinOps model.Expr spec.Cpu6502 Gen.CpuSyms model.TestRun spec.TestSpec
  proofs.TestRunProofs.
From Mos Require Gen.OpcodeTable spec.Isa proofs.Cpu6502Proofs model.Output spec.Layout proofs.TestBankProofs.
Open Scope Z_scope.

(* For every element list (assertions and traces at arbitrary program counters, also inside loops and
   subroutines), every initial machine state and every run length: unless the process aborts (an expression
   of a fired element panics), the runner's verdict -- pass / location, message and machine state of the
   failure / instruction outside the subset / still running -- is the one the spec computes by evaluating, at
   EACH instruction boundary, EVERY assertion attached to the pc, EACH time it is reached.  No hypothesis about
   how often an assertion is reached (F-C18a is repaired). *)
Theorem C18_runner_spec : forall n els c0,
  run n (runner0 els c0) <> VPanic -> view (run n (runner0 els c0)) = spec_run n els c0.
Proof. exact runner_spec. Qed.
Print Assumptions C18_runner_spec.

(* the same from any runner state (any open-call count, any traces collected so far): stepping through the debug
   adapter before running does not change what the rest of the run reports *)
Theorem C18_runner_spec_any_state : forall n els c d traces,
  run n (mkRunner els c d traces) <> VPanic ->
  view (run n (mkRunner els c d traces)) = spec_run n els c.
Proof. exact run_spec_run. Qed.
Print Assumptions C18_runner_spec_any_state.

(* passed exactly when execution reaches a BRK and every assertion encountered on the way holds *)
Theorem C18_pass_meaning : forall els c0,
  (forall n, run n (runner0 els c0) <> VPanic) ->
  ((exists n, run n (runner0 els c0) = Passed) <-> spec_passes els c0).
Proof. exact pass_meaning. Qed.
Print Assumptions C18_pass_meaning.

(* failed, reporting location l, message m and machine state cf, exactly when cf is the first instruction
   boundary with an assertion that does not hold and l, m belong to the first such assertion in source order *)
Theorem C18_fail_meaning : forall els c0 l m cf,
  (forall n, run n (runner0 els c0) <> VPanic) ->
  ((exists n f, run n (runner0 els c0) = Failed f /\ f_loc f = l /\ f_message f = m /\ f_cpu f = cf) <->
   exists a, spec_fails els c0 a cf /\ l = a_loc a /\ m = failure_message a).
Proof. exact fail_meaning. Qed.
Print Assumptions C18_fail_meaning.

Theorem C18_failure_location : forall n els c0 f,
  run n (runner0 els c0) = Failed f ->
  exists k a, (k < n)%nat /\ runs_to els c0 k /\ f_cpu f = state_after c0 k /\
              first_failing (f_cpu f) (asserts_at els (rPC (f_cpu f))) a /\
              f_loc f = a_loc a /\ f_message f = failure_message a.
Proof. exact failure_location. Qed.
Print Assumptions C18_failure_location.

(* the registers/flags offered to assertions and the ram()/ram16() callbacks, as translated from the code, are the
   documented ones: cpu.a/x/y/sp, cpu.flags.<f> = the flag's status-register bit (carry 1 ... negative 128) when
   set and 0 when clear; ram(a) has a value for every address $0000..$FFFF (a taken mod 65536), ram16(a) is the
   little-endian word for every a up to $FFFE and has no value at $FFFF (bounds translated from RamFn::apply,
   TestRunnerMemoryAccessor::read and BasicRam::new) *)
Theorem C18_cpu_symbols_documented : forall c, cpu_entries c = doc_cpu_entries c.
Proof. exact cpu_entries_doc. Qed.
Print Assumptions C18_cpu_symbols_documented.

Theorem C18_ram_functions_documented : forall m w r, ram_fn m w r = doc_ram_fn m w r.
Proof. exact ram_fn_doc. Qed.
Print Assumptions C18_ram_functions_documented.

(* the executable spec means the declarative one *)
Theorem C18_spec_run_pass : forall n els c,
  spec_run n els c = SPass <->
  exists k, (k < n)%nat /\ runs_to els c k /\ clean els (state_after c k) /\ at_brk (state_after c k) = true.
Proof. exact spec_run_pass. Qed.
Print Assumptions C18_spec_run_pass.

Theorem C18_spec_run_fail : forall n els c l m cf,
  spec_run n els c = SFail l m cf <->
  exists k a, (k < n)%nat /\ runs_to els c k /\ cf = state_after c k /\
              first_failing cf (asserts_at els (rPC cf)) a /\ l = a_loc a /\ m = failure_message a.
Proof. exact spec_run_fail. Qed.
Print Assumptions C18_spec_run_fail.

(* traces never change a verdict (they can only abort the process) *)
Theorem C18_traces_irrelevant : forall n els c, spec_run n (no_traces els) c = spec_run n els c.
Proof. exact spec_run_no_traces. Qed.
Print Assumptions C18_traces_irrelevant.

(* each test sees only the bank it is defined in: the verdict depends on the project's banks only through
   that bank, and the machine starts with exactly its image (0 elsewhere) at the test's pc *)
Theorem C18_bank_isolation : forall n banks banks' t,
  find_bank banks (tc_bank t) = find_bank banks' (tc_bank t) ->
  run_test n banks t = run_test n banks' t.
Proof. exact bank_isolation. Qed.
Print Assumptions C18_bank_isolation.

Theorem C18_initial_ram : forall banks t b r a,
  find_bank banks (tc_bank t) = Some b -> new_runner banks t = Some r ->
  ram_read (rM (r_cpu r)) a = bank_byte b a /\ rPC (r_cpu r) = tc_pc t mod 65536.
Proof. exact initial_ram. Qed.
Print Assumptions C18_initial_ram.

(* composed with C09: the RAM a test starts with holds, at every address inside the span of the test's bank, the byte
   of the LAST-defined segment of THAT bank covering the address (else the bank's fill), and 0 outside the span --
   segments of other banks do not appear *)
Theorem C18_test_ram_pointwise : forall fill segs a,
  segs <> [] -> Forall Layout.nonempty segs ->
  ram_read (TestBankProofs.ram_of_bank_segments fill segs) a =
    if (Layout.spec_lo segs <=? a) && (a <? Layout.spec_hi segs)
    then byte8 (Z.of_N (Layout.spec_byte fill segs a)) else 0.
Proof. exact TestBankProofs.test_ram_pointwise. Qed.
Print Assumptions C18_test_ram_pointwise.

(* exit status of `mos test`: non-zero iff at least one test failed *)
Theorem C18_exit_status : forall results,
  process_exit_status (test_command results) <> 0 <-> exists name f, In (name, Failed f) results.
Proof. exact exit_status. Qed.
Print Assumptions C18_exit_status.

Theorem C18_report_counts : forall results,
  let rp := test_command results in
  rp_num_passed rp + rp_num_failed rp = Z.of_nat (List.length results) /\
  (rp_num_failed rp = 0 <-> process_exit_status rp = 0).
Proof. exact report_counts. Qed.
Print Assumptions C18_report_counts.

(* a verdict, once reached, does not depend on the run length *)
Theorem C18_verdict_stable : forall n r v,
  run n r = v -> v <> VOutOfFuel -> forall m, (n <= m)%nat -> run m r = v.
Proof. exact run_mono. Qed.
Print Assumptions C18_verdict_stable.

(* the machine decodes exactly the documented opcode matrix (spec/Isa.v, the one the assembler is proved against in C01) *)
Theorem C18_decode_isa : forall o m md, decode o = Some (m, md) <-> Isa.isa m md = Some o.
Proof. exact Cpu6502Proofs.decode_isa. Qed.
Print Assumptions C18_decode_isa.

(* in every state a test can reach, registers and RAM cells are bytes, SP stays in the stack page, pc is a 16-bit address *)
Theorem C18_machine_wf : forall k pc start data,
  Cpu6502Proofs.wf_state (Nat.iter k step (cpu_init pc (load_program start data))).
Proof. exact Cpu6502Proofs.run_states_wf. Qed.
Print Assumptions C18_machine_wf.

(* F-C18a, repaired in /repo by 900f3f8: a runner that removes an element from its list when it fires reports
   `passed` for an assertion in a loop that is false on the second visit (corpus/C18/loop_assert.asm) and for an
   assertion in a subroutine that is false on the second call (corpus/C18/sub_twice.asm) *)
Theorem C18_remove_on_fire_refuted :
  (run_removing 20 (runner0 w1_elements w1_cpu) = Passed /\
   exists m cf, spec_run 20 w1_elements w1_cpu = SFail (mkLoc 4 13) m cf /\ rX cf = 2) /\
  (run_removing 20 (runner0 w2_elements w2_cpu) = Passed /\
   exists m cf, spec_run 20 w2_elements w2_cpu = SFail (mkLoc 7 13) m cf /\ rA cf = 0).
Proof. exact remove_on_fire_refuted. Qed.
Print Assumptions C18_remove_on_fire_refuted.

(* non-vacuity: the two witnesses run without abort and the repaired runner reports them at the right place *)
Example C18_witnesses_now_fail :
  (exists f, run 20 (runner0 w1_elements w1_cpu) = Failed f /\ f_loc f = mkLoc 4 13 /\ rX (f_cpu f) = 2) /\
  (exists f, run 20 (runner0 w2_elements w2_cpu) = Failed f /\ f_loc f = mkLoc 7 13 /\ rA (f_cpu f) = 0).
Proof. exact witnesses_now_fail. Qed.

(* step_over / step_out (used by the debug adapter): the crate's two unit tests, `jsr foo / brk / foo: nop / rts` *)
Definition so_image : list N := [32; 4; 192; 0; 234; 96]%N.
Definition so_runner : runner := mkRunner [] (cpu_init 49152 (load_program 49152 so_image)) 0 [].
Example C18_step_over_unit_test :
  match step_over 10 so_runner with Some (Running r) => rPC (r_cpu r) = 49155 | _ => False end.
Proof. vm_compute. reflexivity. Qed.
Example C18_step_out_unit_test :
  match execute_instruction so_runner with
  | Running r1 => rPC (r_cpu r1) = 49156 /\
                  match step_out 10 r1 with Some (Running r2) => rPC (r_cpu r2) = 49155 | _ => False end
  | _ => False
  end.
Proof. vm_compute. split; reflexivity. Qed.

(* C14 -- the language server depends only on the current buffers and survives any request. *)
From Coq Require Import List NArith Arith Bool.
Import ListNotations.
From Mos Require Import model.Utf model.Lsp spec.LspSpec proofs.LspStrProofs proofs.LspLineColProofs proofs.LspDeltaProofs
  proofs.LspBookProofs proofs.LspFreshProofs.

(* ---- bookkeeping, for every history (any length, any number of files) and every abstract analysis (`world`) ---- *)

(* after ANY history the analysis held by the server is the analysis of (open buffers over disk): no guard on the last event
   is needed (didClose re-analyses, rename only reads the analysis); the buffer map is exactly the spec's final_buffers *)
Theorem C14_state_is_function : forall (w : world), world_ok w -> forall h s, run_w w h = Ok s ->
  (forall p, lookup (w_path_eqb w) p (files s) = final_buffers _ _ (w_path_eqb w) h p) /\
  ana s = w_analyze w (overlay (w_disk w) (final_buffers _ _ (w_path_eqb w) h)).
Proof. exact w_state_is_function. Qed.
Print Assumptions C14_state_is_function.

(* the list last published for EVERY file (not only files of the current tree) is what the fresh analysis of the final buffers
   says: its diagnostics for files of the tree, nothing for all others (files that left the tree are cleared) *)
Theorem C14_published_current : forall (w : world), world_ok w -> forall h s, run_w w h = Ok s -> notified _ _ h = true ->
  forall p, shown_for (w_path_eqb w) s p =
            spec_diags (w_path_eqb w) (w_tree_files w) (w_diags_of w)
                       (w_analyze w (overlay (w_disk w) (final_buffers _ _ (w_path_eqb w) h))) p.
Proof. exact w_published_current. Qed.
Print Assumptions C14_published_current.

Theorem C14_nothing_published_before_first_notification : forall (w : world), world_ok w ->
  forall h s, run_w w h = Ok s -> notified _ _ h = false -> forall p, shown_for (w_path_eqb w) s p = [].
Proof. exact w_nothing_published_before. Qed.
Print Assumptions C14_nothing_published_before_first_notification.

(* every request (any document, any line/column) is answered and the server is still there: spec/LspSpec.v *)
Theorem C14_survives_any_request : forall (w : world), world_ok w ->
  survives_any_request _ _ _ _ (run_w w) (fun s : w_state w => log s).
Proof. exact w_survives. Qed.
Print Assumptions C14_survives_any_request.

(* the property: two histories with the same final buffers (e.g. any history and the fresh server's) leave the same
   published diagnostics for every file and give the same answer to every subsequent request *)
Theorem C14_depends_only_on_current_buffers : forall (w : world), world_ok w ->
  depends_only_on_current_buffers _ _ _ _ _ (w_path_eqb w) (run_w w)
    (fun s : w_state w => shown_for (w_path_eqb w) s) (fun s : w_state w => log s).
Proof. exact w_depends_only_on_buffers. Qed.
Print Assumptions C14_depends_only_on_current_buffers.

(* the property as the text states it: the server after ANY history h and a freshly started server that is only given the final
   buffer contents (`fresh_history bufs`: one didOpen per document; bufs are h's final buffers) show the same diagnostics for
   every file and answer every subsequent request identically *)
Theorem C14_history_equals_fresh_server : forall (w : world), world_ok w -> forall h bufs o o',
  run_w w h = Ok o -> run_w w (fresh_history _ _ bufs) = Ok o' ->
  (forall p, final_buffers _ _ (w_path_eqb w) h p = lookup (w_path_eqb w) p (rev bufs)) -> bufs <> [] -> notified _ _ h = true ->
  (forall p, shown_for (w_path_eqb w) o p = shown_for (w_path_eqb w) o' p) /\
  (forall e o1 o1', is_request _ _ e = true -> run_w w (h ++ [e]) = Ok o1 -> run_w w (fresh_history _ _ bufs ++ [e]) = Ok o1' ->
     hd None (log o1) = hd None (log o1')).
Proof. exact history_equals_fresh. Qed.
Print Assumptions C14_history_equals_fresh_server.

(* ---- positions: Rust's byte-indexed string operations and the code map, with the exact panic conditions ---- *)

(* &s[..n], &s[n..], s.split_at(n): panic iff n is not a char boundary of s (past the end, or inside a multi-byte char) *)
Theorem C14_str_slicing_panics_iff : forall s n,
  (str_slice_to s n = Panic <-> ~ is_char_boundary s n) /\
  (str_slice_from s n = Panic <-> ~ is_char_boundary s n) /\
  (str_split_at s n = Panic <-> ~ is_char_boundary s n).
Proof. exact str_slicing_panics_iff. Qed.
Print Assumptions C14_str_slicing_panics_iff.

Theorem C14_str_slice_past_end_or_inside_char : forall a c b k,
  (byte_len a < k -> str_slice_to a k = Panic) /\
  (0 < k < width_utf8 c -> str_slice_to (a ++ c :: b) (byte_len a + k) = Panic).
Proof. exact str_slice_past_end_or_inside_char. Qed.
Print Assumptions C14_str_slice_past_end_or_inside_char.

(* File::source_line: panics iff the line number is past the end of the file; otherwise it is that line of the text without
   its terminator (all internal byte slicing is on char boundaries) *)
Theorem C14_source_line_panics_iff : forall src line,
  (source_line src line = Panic <-> num_lines src <= line) /\
  (line < num_lines src -> source_line src line = Ok (trim_end_nl (nth line (split_nl src) []))).
Proof. exact source_line_spec. Qed.
Print Assumptions C14_source_line_panics_iff.

(* File::find_line_col (the source of every line/column the server returns): panics iff the byte position is not a char
   boundary of the file (which includes positions past its end); otherwise the position lies inside the document: the line
   exists, the column is at most the number of characters of that line, and (line, column) denotes exactly that byte position *)
Theorem C14_find_line_col_inside : forall src pos,
  (find_line_col src pos = Panic <-> ~ is_char_boundary src pos) /\
  (forall l c, find_line_col src pos = Ok (l, c) ->
     l < num_lines src /\ c <= length (nth l (split_nl src) []) /\
     exists x y, nth l (split_nl src) [] = x ++ y /\ length x = c /\
                 pos = total_len (firstn l (split_nl src)) + byte_len x).
Proof. exact find_line_col_spec. Qed.
Print Assumptions C14_find_line_col_inside.

(* prepareRename's position arithmetic for EVERY client position: never panics; answers a range exactly when the line exists
   and the column is at most the line's length, and that range lies inside the line and contains the cursor *)
Theorem C14_handlers_total : forall alnum src line col,
  prepare_rename_range alnum src line col <> Panic /\ completion_scope alnum src line col <> Panic.
Proof. exact handlers_total. Qed.
Print Assumptions C14_handlers_total.

Theorem C14_prepare_rename_range_inside : forall alnum src line col,
  (line < num_lines src /\ col <= length (trim_end_nl (nth line (split_nl src) [])) ->
     exists s e, prepare_rename_range alnum src line col = Ok (Some (s, e)) /\
                 s <= col <= e /\ e <= length (trim_end_nl (nth line (split_nl src) []))) /\
  (~ (line < num_lines src /\ col <= length (trim_end_nl (nth line (split_nl src) []))) ->
     prepare_rename_range alnum src line col = Ok None).
Proof. exact prepare_rename_range_spec. Qed.
Print Assumptions C14_prepare_rename_range_inside.

(* ---- semantic tokens ---- *)

(* for ALL token lists (any order, spans over several lines, empty spans, any line lengths): to_deltas does not panic, an LSP
   client decodes its output to exactly the per-line pieces, every token has non-zero length, tokens are sorted *)
Theorem C14_deltas_decode : forall line_chars toks,
  exists out, to_deltas line_chars toks = Ok out /\ decode out = map abs_of (pieces line_chars toks) /\
              Forall (fun t => 0 < a_len t) (decode out) /\ tokens_sorted (decode out).
Proof. exact to_deltas_decodes. Qed.
Print Assumptions C14_deltas_decode.

(* sorted, disjoint, non-empty single-line spans (what the parser's lexemes are) are transmitted exactly, and what the client
   decodes is sorted, non-overlapping and of non-zero length *)
Theorem C14_deltas_wellformed : forall line_chars spans,
  sorted_disjoint_nonempty spans ->
  exists out, to_deltas line_chars spans = Ok out /\ decode out = map abs_of spans /\ tokens_wellformed (decode out).
Proof. exact to_deltas_roundtrip. Qed.
Print Assumptions C14_deltas_wellformed.

(* ---- non-vacuity ---- *)
Definition ex_src : text := [108; 100; 97; 32; 233; 8364; 10; 10; 102; 111; 111]%N.   (* "lda é€\n\nfoo" *)
Example C14_ex_lines : lines ex_src = [0; 10; 11] /\ source_line ex_src 0 = Ok [108; 100; 97; 32; 233; 8364]%N /\
  source_line ex_src 3 = Panic /\ str_slice_to ex_src 5 = Panic /\ str_slice_to ex_src 6 <> Panic /\ str_slice_to ex_src 99 = Panic.
Proof. vm_compute. repeat split; discriminate. Qed.
Example C14_ex_prepare : let alnum := fun c => N.eqb c 233 in
  prepare_rename_range alnum ex_src 2 1 = Ok (Some (0, 3)) /\ prepare_rename_range alnum ex_src 0 5 = Ok (Some (4, 5)) /\
  prepare_rename_range alnum ex_src 0 7 = Ok None /\ prepare_rename_range alnum ex_src 3 0 = Ok None.
Proof. vm_compute. repeat split. Qed.
(* a span over three lines, the middle one empty: two tokens, none of length 0 (the witness of the fixed zero-length defect) *)
Example C14_ex_deltas :
  to_deltas (fun l => match l with 0 => 6 | 1 => 0 | _ => 3 end) [mkLoc 0 4 2 2 7; mkLoc 0 0 0 3 1]
  = Ok [mkTok 0 0 3 1; mkTok 0 4 2 7; mkTok 2 0 2 7].
Proof. vm_compute. reflexivity. Qed.

(* a concrete world: paths are numbers, file 0 is the entry point; the tree is file 0 plus file 1 when file 0's text starts with
   the scalar 1 ("imports 1"); a file has a diagnostic (its text) when its text is non-empty *)
Definition ex_world : world :=
  mkWorld nat (list (nat * text)) text nat (list nat) Nat.eqb
    (fun f => match f 0 with
              | Some (1%N :: r) => (0, 1%N :: r) :: match f 1 with Some t => [(1, t)] | None => [] end
              | Some t => [(0, t)]
              | None => []
              end)
    (fun _ => None) (map fst)
    (fun a p => match find (fun x => Nat.eqb (fst x) p) a with Some (_, []) => [] | Some (_, t) => [t] | None => [] end)
    (fun a p => option_map snd (find (fun x => Nat.eqb (fst x) p) a))
    (fun a r => r :: map fst a) [] (fun _ _ => None) (fun f r => match f r with Some _ => [r] | None => [] end)
    (fun a r rg => [fst rg; snd rg]) (fun a r sc => [r]) (fun _ => false).
Lemma ex_world_ok : world_ok ex_world.
Proof.
  repeat split.
  - apply Nat.eqb_eq.
  - intro; subst; apply Nat.eqb_refl.
  - intros f g H. simpl. rewrite (H 0), (H 1). reflexivity.
  - intros f g r H. simpl. rewrite (H r). reflexivity.
Qed.
(* the witness history of F-C14b (now fixed): file 1 has a diagnostic, then file 0 stops importing it: cleared *)
Example C14_ex_dropped_file_is_cleared :
  match run_w ex_world [DidOpen (FileUri 0) [1%N]; DidOpen (FileUri 1) [9%N]; DidChange (FileUri 0) []] with
  | Ok s => shown_for Nat.eqb s 1 = [] /\ published_files s = [0]
  | Panic => False
  end /\
  match run_w ex_world [DidOpen (FileUri 0) [1%N]; DidOpen (FileUri 1) [9%N]] with
  | Ok s => shown_for Nat.eqb s 1 = [[9%N]] /\ published_files s = [0; 1]
  | Panic => False
  end.
Proof. vm_compute. repeat split. Qed.

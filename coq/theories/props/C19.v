(* C19 -- the debugger reports where the machine really is.

   All statements are about schedules (lists of atomic actions of the machine, session and poller threads) of the
   lock-granularity protocol model model/Dap.v; the CPU (the whole TestRunner) is abstract, so they hold for every
   program, every breakpoint set and runs of any length.  `adapter_protocol` (Gen/DapShape.v) is the protocol
   translate/t_dap.py reads off the lock structure of the adapter's source on every run: `StateHeld` for the current
   adapter (after fix ea42293), `Legacy` for the adapter as pinned.  What the model cannot exhibit: which of these
   schedules the operating system actually produces (checks/c19.py samples that on the real adapter under hook H3). *)
From Coq Require Import List ZArith Bool.
Import ListNotations.
From Mos Require Import model.Dap model.DapStep Gen.DapShape spec.DapSpec spec.DapStepSpec proofs.DapProofs proofs.DapStepProofs.
From Mos Require Import spec.Cpu6502 proofs.Cpu6502Proofs spec.DapCpu proofs.DapCpuProofs.
Open Scope Z_scope.

(* Current adapter: in every reachable state in which Stopped(p) is published and the session is not in the middle of
   a step command, the machine thread cannot execute an instruction and p is the CPU's program counter. *)
Theorem C19_inv : forall (cpu : Type) (pc : cpu -> Z) (step : cpu -> cpu) (fin : cpu -> bool)
    (step_over step_out : cpu -> cpu) (reset_lcp : bool) (c0 : cpu) (tr : list action) (s : st cpu),
  run cpu pc step fin step_over step_out reset_lcp adapter_protocol tr (init c0) = Some s ->
  Inv cpu pc s.
Proof. exact inv_stateheld. Qed.
Print Assumptions C19_inv.

(* what a stackTrace response carries is the CPU's program counter, and the machine is halted when it is sent *)
Theorem C19_stacktrace_is_cpu_pc : forall (cpu : Type) (pc : cpu -> Z) (step : cpu -> cpu) (fin : cpu -> bool)
    (step_over step_out : cpu -> cpu) (reset_lcp : bool) (c0 : cpu) (tr : list action) (s s' : st cpu) (p : Z),
  run cpu pc step fin step_over step_out reset_lcp adapter_protocol tr (init c0) = Some s ->
  step_act cpu pc step fin step_over step_out reset_lcp adapter_protocol S_stack s = Some (s', [OStack (Stopped p)]) ->
  p = pc (cp s) /\ machine_cannot_execute cpu s.
Proof. exact stacktrace_is_cpu_pc. Qed.
Print Assumptions C19_stacktrace_is_cpu_pc.

(* registers, variables and evaluated expressions do not change until the client resumes or steps: from a reachable
   stopped state, any schedule without a run-control request (machine thread, poller, stackTrace / variables /
   evaluate / setBreakpoints requests, event delivery, in any interleaving) leaves the CPU and the published stop
   address unchanged, and the address stays the CPU's program counter. *)
Theorem C19_halted_stable : forall (cpu : Type) (pc : cpu -> Z) (step : cpu -> cpu) (fin : cpu -> bool)
    (step_over step_out : cpu -> cpu) (reset_lcp : bool) (c0 : cpu) (tr0 tr : list action) (s s' : st cpu) (p : Z),
  run cpu pc step fin step_over step_out reset_lcp adapter_protocol tr0 (init c0) = Some s ->
  rs s = Stopped p -> observing cpu s = true ->
  forallb (fun a => negb (run_control a)) tr = true ->
  run cpu pc step fin step_over step_out reset_lcp adapter_protocol tr s = Some s' ->
  cp s' = cp s /\ rs s' = Stopped p /\ p = pc (cp s').
Proof. exact halted_stable_reachable. Qed.
Print Assumptions C19_halted_stable.

(* The session thread survives every request sequence (after fix f081c69: continue / pause / next / stepIn / stepOut are
   refused with an error response while the machine is launching): in no reachable state of either protocol has
   handle_machine_event met a state change from or to Launching -- its panicking arm. *)
Theorem C19_session_never_dies : forall (cpu : Type) (pc : cpu -> Z) (step : cpu -> cpu) (fin : cpu -> bool)
    (step_over step_out : cpu -> cpu) (reset_lcp : bool) (p : protocol) (c0 : cpu) (tr : list action) (s : st cpu),
  run cpu pc step fin step_over step_out reset_lcp p tr (init c0) = Some s -> sl s <> SDead.
Proof. exact session_never_dies. Qed.
Print Assumptions C19_session_never_dies.

(* The adapter as pinned (F-C19a): the schedule
     configurationDone . M_read_state(Running) . M_check_bp . pause: S_pause_read_pc . S_pause_publish . M_execute
   ends with the session idle, Stopped(pc c0) published and the CPU one instruction further. *)
Theorem C19_pause_race_refuted : forall (cpu : Type) (pc : cpu -> Z) (step : cpu -> cpu) (fin : cpu -> bool)
    (step_over step_out : cpu -> cpu) (reset_lcp : bool) (c0 : cpu),
  fin c0 = false -> pc (step c0) <> pc c0 ->
  exists s, run cpu pc step fin step_over step_out reset_lcp Legacy race_schedule (init c0) = Some s /\
            sl s = SIdle /\ rs s = Stopped (pc c0) /\ cp s = step c0 /\ ~ Inv cpu pc s.
Proof. exact pause_race_refuted. Qed.
Print Assumptions C19_pause_race_refuted.

(* ... and before that last action the client has its `stopped` while the machine thread is still going to execute *)
Theorem C19_pause_race_machine_still_executes : forall (cpu : Type) (pc : cpu -> Z) (step : cpu -> cpu)
    (fin : cpu -> bool) (step_over step_out : cpu -> cpu) (reset_lcp : bool) (c0 : cpu),
  exists s, run cpu pc step fin step_over step_out reset_lcp Legacy (removelast race_schedule) (init c0) = Some s /\
            sl s = SIdle /\ rs s = Stopped (pc c0) /\ ml s = MChecked /\ ~ machine_cannot_execute cpu s.
Proof. exact pause_race_machine_still_executes. Qed.
Print Assumptions C19_pause_race_machine_still_executes.

(* The pinned adapter's overrun is bounded: once the published state is not Running, at most one more M_execute
   happens before the next resume/start, whatever else is scheduled (acceptance bound of the trace check for the
   Legacy protocol: a second change of the registers after `stopped` is not a Legacy behaviour either). *)
Theorem C19_pause_overrun_le_1 : forall (cpu : Type) (pc : cpu -> Z) (step : cpu -> cpu) (fin : cpu -> bool)
    (step_over step_out : cpu -> cpu) (reset_lcp : bool) (tr : list action) (s s' : st cpu),
  rs s <> Running -> forallb (fun a => negb (is_resume a)) tr = true ->
  run cpu pc step fin step_over step_out reset_lcp Legacy tr s = Some s' ->
  (count_exec tr <= 1)%nat.
Proof. exact pause_overrun_le_1. Qed.
Print Assumptions C19_pause_overrun_le_1.

(* Breakpoints, current adapter.  `bp_ok` is a monitor over schedules: it fails at an M_execute of an instruction whose
   address is covered by a breakpoint unless, since the CPU last changed, Stopped(that address) was published (the client
   was told "stopped here" and resumed).  For every program, every breakpoint history and every interleaving in which the
   client steps only while stopped and replaces breakpoints only while not running, no instruction at a breakpoint
   address executes without a stop there first.  (`adapter_reset_lcp`: the machine thread clears last_checked_pc after
   executing, as translate/t_dap.py finds in the source.) *)
Theorem C19_bp_no_overrun : forall (cpu : Type) (pc : cpu -> Z) (step : cpu -> cpu) (fin : cpu -> bool)
    (step_over step_out : cpu -> cpu) (c0 : cpu) (tr : list action),
  disciplined cpu pc step fin step_over step_out adapter_reset_lcp adapter_protocol tr (init c0) = true ->
  bp_ok cpu pc step fin step_over step_out adapter_reset_lcp adapter_protocol tr (init c0) false = true.
Proof. exact bp_no_overrun_adapter. Qed.
Print Assumptions C19_bp_no_overrun.

(* Breakpoints replaced at ANY time, also during a free run (the property's "any interleaving of client requests
   (setBreakpoints, ...)").  `bp_ok_live` is the same monitor with one exemption: a setBreakpoints whose response is sent
   while the machine thread is already past the breakpoint check of its current iteration exempts that one pending
   instruction (it was checked against the list in force before the response).  For every program, every interleaving in
   which the client only steps while stopped: from the moment a setBreakpoints response is sent, at most the instruction in
   flight executes against the old list; no later instruction at an address of the acknowledged list executes without a
   stop there first.  (S_set_bps takes the breakpoint mutex the machine thread takes inside every M_check_bp.) *)
Theorem C19_bp_no_overrun_live : forall (cpu : Type) (pc : cpu -> Z) (step : cpu -> cpu) (fin : cpu -> bool)
    (step_over step_out : cpu -> cpu) (c0 : cpu) (tr : list action),
  steps_when_stopped cpu pc step fin step_over step_out adapter_reset_lcp adapter_protocol tr (init c0) = true ->
  bp_ok_live cpu pc step fin step_over step_out adapter_reset_lcp adapter_protocol tr (init c0) false false = true.
Proof. exact bp_no_overrun_live_adapter. Qed.
Print Assumptions C19_bp_no_overrun_live.

(* the general form: without the reset the theorem needs a program that never executes a one-instruction loop *)
Theorem C19_bp_no_overrun_guarded : forall (cpu : Type) (pc : cpu -> Z) (step : cpu -> cpu) (fin : cpu -> bool)
    (step_over step_out : cpu -> cpu) (reset_lcp : bool) (c0 : cpu) (tr : list action),
  (reset_lcp = false -> no_self_loop cpu pc step fin) ->
  disciplined cpu pc step fin step_over step_out reset_lcp StateHeld tr (init c0) = true ->
  bp_ok cpu pc step fin step_over step_out reset_lcp StateHeld tr (init c0) false = true.
Proof. exact bp_no_overrun. Qed.
Print Assumptions C19_bp_no_overrun_guarded.

(* ... and the guard was needed for the adapter as pinned (reset_lcp = false): `last_checked_pc` skipped the check whenever
   the same pc was reached twice in a row, so a breakpoint on `hang: jmp hang` stopped once; after `continue` the
   instruction executed again and again without another stop. *)
Theorem C19_bp_self_loop_refuted :
  exists (cpu : Type) (pc : cpu -> Z) (step : cpu -> cpu) (fin : cpu -> bool) (so sout : cpu -> cpu) (c0 : cpu),
    disciplined cpu pc step fin so sout false StateHeld self_loop_schedule (init c0) = true /\
    run cpu pc step fin so sout false StateHeld self_loop_schedule (init c0) <> None /\
    bp_ok cpu pc step fin so sout false StateHeld self_loop_schedule (init c0) false = false.
Proof. exact bp_self_loop_refuted. Qed.
Print Assumptions C19_bp_self_loop_refuted.

(* ---- stepping (model/DapStep.v: TestRunner::step_over / step_out / run_until_return on the uninterrupted run, indexed by
   instruction; `depthZ` counts JSR up and RTS down from the opcodes of the run).
   The step commands only ever call execute_instruction, so they move along the uninterrupted run: a command started at
   index i leaves the machine at an index j >= i having executed exactly the instructions i .. j-1 of that run. *)
Theorem C19_step_sequence : forall (opT : Z -> Z) (fuel : nat) (i j : Z),
  (step_over opT fuel i = Some j \/ step_out opT fuel i = Some j \/ exec_in opT i = j) -> i <= j.
Proof. exact step_forward. Qed.
Print Assumptions C19_step_sequence.

(* `next` on a JSR is one step: it lands where that call has returned (first index after i at i's call depth) -- no
   hypothesis on the CPU, on what the subroutine pushes, or on recursion (after fix 8107cbd).  On anything else `next`
   is `stepIn`. *)
Theorem C19_next_over_call : forall (opT : Z -> Z) (fuel : nat) (i j : Z),
  returns_at opT i j ->
  (forall m, i <= m < j -> finT opT m = false) ->
  (Z.to_nat (j - i) <= fuel)%nat ->
  step_over opT fuel i = Some j.
Proof. exact next_over_call. Qed.
Print Assumptions C19_next_over_call.

Theorem C19_next_plain : forall (opT : Z -> Z) (fuel : nat) (i : Z),
  is_jsr opT i = false -> step_over opT fuel i = Some (exec_in opT i).
Proof. exact next_plain. Qed.
Print Assumptions C19_next_plain.

(* `stepOut` lands where the subroutine the machine is in has just returned -- the first later index below the current
   call depth (after fix 7e8ab84) ... *)
Theorem C19_stepout_returns : forall (opT : Z -> Z) (fuel : nat) (i j : Z),
  0 <= i < j -> 0 < call_depth opT (Z.to_nat i) ->
  depthZ opT j = depthZ opT i - 1 ->
  (forall m, i < m < j -> depthZ opT m >= depthZ opT i) ->
  (forall m, i <= m < j -> finT opT m = false) ->
  (Z.to_nat (j - i) <= fuel)%nat ->
  step_out opT fuel i = Some j.
Proof. exact stepout_returns. Qed.
Print Assumptions C19_stepout_returns.

(* ... which, with c the call that opened i's frame, is the index that call returns at ... *)
Theorem C19_stepout_after_call : forall (opT : Z -> Z) (fuel : nat) (c i j : Z),
  frame_call opT c i -> returns_at opT c j ->
  (forall m, i <= m < j -> finT opT m = false) ->
  (Z.to_nat (j - i) <= fuel)%nat ->
  i < j /\ step_out opT fuel i = Some j.
Proof. exact stepout_after_call. Qed.
Print Assumptions C19_stepout_after_call.

(* ... and outside any subroutine it executes nothing (after fix 058ffc4). *)
Theorem C19_stepout_top_level : forall (opT : Z -> Z) (fuel : nat) (i : Z),
  call_depth opT (Z.to_nat i) = 0 -> step_out opT fuel i = Some i.
Proof. exact stepout_top_level. Qed.
Print Assumptions C19_stepout_top_level.

(* The runner as pinned.  `next` (run until pc = call site + 3) was right when calls return to the instruction after them
   and the return address is not passed inside the call ... *)
Theorem C19_next_pinned_over_call : forall (pcT opT : Z -> Z) (fuel : nat) (i j : Z),
  returns_to_caller pcT opT ->
  returns_at opT i j ->
  Known_next_reenters_call_site pcT i j = false ->
  (forall k, i <= k < j -> finT opT k = false) ->
  (Z.to_nat (j - i) <= fuel)%nat ->
  step_over_pinned pcT opT fuel i = Some j.
Proof. exact next_pinned_over_call. Qed.
Print Assumptions C19_next_pinned_over_call.

(* ... and wrong on recursion through one call site: on the run of corpus/C19/recursive_next.asm, `next` on the `jsr rec`
   of the first activation (index 4, returns at 14) stopped at index 10, two activations deeper; the repaired one lands
   on 14, and `stepOut` from the innermost activation (index 10) lands in its caller's activation (index 12). *)
Theorem C19_next_recursion_refuted :
  returns_at r_op 4 14 /\ r_pc 14 = r_pc 4 + 3 /\
  Known_next_reenters_call_site r_pc 4 14 = true /\
  step_over_pinned r_pc r_op 100 4 = Some 10 /\
  step_over r_op 100 4 = Some 14 /\
  step_out r_op 100 10 = Some 12.
Proof. exact next_recursion_refuted. Qed.
Print Assumptions C19_next_recursion_refuted.

(* `stepOut` (the two bytes above the stack pointer taken as the return address) was right only with a clean stack ... *)
Theorem C19_stepout_pinned_clean : forall (pcT spT opT retT : Z -> Z) (fuel : nat) (c i j : Z),
  returns_to_caller pcT opT ->
  frame_call opT c i -> returns_at opT c j -> i <= j ->
  Known_stepout_stack_dirty pcT retT c i = false ->
  spT i <= 253 ->
  (forall k, i <= k < j -> pcT k <> pcT c + 3) ->
  (forall k, i <= k < j -> finT opT k = false) ->
  (S (Z.to_nat (j - i)) <= fuel)%nat ->
  step_out_pinned pcT spT opT retT fuel i = Some j.
Proof. exact stepout_pinned_clean. Qed.
Print Assumptions C19_stepout_pinned_clean.

(* ... and wrong after `pha` (F-C19b): on the run of corpus/C19/stepout_after_pha.asm, stopped on the `nop` after the `pha`
   (index 4, frame of the call at index 2, which returns at index 7), it took 1 + A + 256 * (low byte of the return
   address) = $0608 for the return address and ran to the test's brk (index 8); the repaired one lands on 7. *)
Theorem C19_stepout_dirty_refuted :
  frame_call w_op 2 4 /\ returns_at w_op 2 7 /\ w_pc 7 = w_pc 2 + 3 /\
  Known_stepout_stack_dirty w_pc w_ret 2 4 = true /\
  step_out_pinned w_pc w_sp w_op w_ret 100 4 = Some 8 /\
  step_out w_op 100 4 = Some 7.
Proof. exact stepout_dirty_refuted. Qed.
Print Assumptions C19_stepout_dirty_refuted.

(* ---- the concrete CPU: the run of the 6502 of spec/Cpu6502.v (the machine C18 validates against emulator_6502) from any
   well-formed state c0, e.g. `cpu_init pc (load_program start bytes)`.  `returns_to_caller`, the hypothesis of the
   pinned-runner theorems and the link between "where the call returns" and "the instruction after the call", is a theorem
   there for every disciplined call (spec/DapCpu.v: no SP/PC wrap at the JSR; until the return SP stays at or below the
   frame, no TXS, stores into the stack page only by pushing; the RTS executes with the SP the JSR left) -- each clause a
   decidable condition on the run. *)
Theorem C19_returns_to_caller_6502 : forall (c0 : cpu), wf_state c0 -> forall c j : Z,
  returns_at (op6502 c0) c j -> disciplined_call c0 c j -> pc6502 c0 j = pc6502 c0 c + 3.
Proof. exact returns_to_caller_6502. Qed.
Print Assumptions C19_returns_to_caller_6502.

(* `next` treats the call as one step and lands on the instruction after it *)
Theorem C19_next_over_call_6502 : forall (c0 : cpu), wf_state c0 -> forall (fuel : nat) (i j : Z),
  returns_at (op6502 c0) i j -> disciplined_call c0 i j ->
  (forall m, i <= m < j -> finT (op6502 c0) m = false) ->
  (Z.to_nat (j - i) <= fuel)%nat ->
  step_over (op6502 c0) fuel i = Some j /\ pc6502 c0 j = pc6502 c0 i + 3.
Proof. exact next_over_call_6502. Qed.
Print Assumptions C19_next_over_call_6502.

(* `stepOut` runs to the instruction after the call of the current frame *)
Theorem C19_stepout_after_call_6502 : forall (c0 : cpu), wf_state c0 -> forall (fuel : nat) (c i j : Z),
  frame_call (op6502 c0) c i -> returns_at (op6502 c0) c j -> disciplined_call c0 c j ->
  (forall m, i <= m < j -> finT (op6502 c0) m = false) ->
  (Z.to_nat (j - i) <= fuel)%nat ->
  step_out (op6502 c0) fuel i = Some j /\ pc6502 c0 j = pc6502 c0 c + 3.
Proof. exact stepout_after_call_6502. Qed.
Print Assumptions C19_stepout_after_call_6502.

(* the model's event table is the one translated from DebugSession::handle_machine_event *)
Theorem C19_event_table : forall e : mevent, event_of e = gen_event_of e.
Proof. exact event_table_ok. Qed.
Print Assumptions C19_event_table.

(* non-vacuity: a concrete CPU (pc counts instructions), pause after two instructions in the repaired protocol *)
Example C19_example_stateheld :
  let tr := [S_req RConfigDone; S_start; M_read_state; M_check_bp; M_execute; M_read_state; M_check_bp; M_execute;
             S_req RPause; S_pause_read_pc; S_event; S_req RStackTrace; S_stack] in
  match run_obs Z (fun c => c) Z.succ (fun _ => false) Z.succ Z.succ true StateHeld tr (init 10) with
  | Some (s, o) => rs s = Stopped 12 /\ cp s = 12 /\ o = [OResp RConfigDone; OResp RPause; OEvent EvStoppedBreakpoint; OStack (Stopped 12)]
  | None => False
  end.
Proof. vm_compute. repeat split; reflexivity. Qed.

(* the racing pause is not a schedule of the repaired protocol: pause cannot publish while the machine thread is
   between its state check and its execute *)
Example C19_example_race_disabled :
  run Z (fun c => c) Z.succ (fun _ => false) Z.succ Z.succ true StateHeld
      [S_req RConfigDone; S_start; M_read_state; M_check_bp; S_req RPause; S_pause_read_pc] (init 10) = None.
Proof. vm_compute. reflexivity. Qed.

(* the breakpoint monitor is not vacuous: it accepts a loop with a breakpoint that stops in every iteration ... *)
Example C19_example_bp_every_iteration :
  let pcf := fun c : Z => c mod 3 in          (* a three-instruction loop at addresses 0,1,2 *)
  let tr := [S_req (RSetBps [(1, 2)]); S_set_bps; S_req RConfigDone; S_start;
             M_read_state; M_check_bp; M_execute; M_read_state; M_check_bp; S_event; S_req RContinue; S_resume;
             M_read_state; M_check_bp; M_execute; M_read_state; M_check_bp; M_execute; M_read_state; M_check_bp; M_execute;
             M_read_state; M_check_bp] in
  match run_obs Z pcf Z.succ (fun _ => false) Z.succ Z.succ true StateHeld tr (init 0) with
  | Some (s, o) => rs s = Stopped 1 /\ cp s = 4 /\ o = [OResp (RSetBps [(1, 2)]); OResp RConfigDone; OEvent EvStoppedBreakpoint; OResp RContinue]
  | None => False
  end /\
  bp_ok Z pcf Z.succ (fun _ => false) Z.succ Z.succ true StateHeld tr (init 0) false = true.
Proof. vm_compute. repeat split; reflexivity. Qed.

(* the repaired adapter on the one-instruction loop: the second arrival at the breakpoint stops again *)
Example C19_example_self_loop_repaired :
  let tr := [S_req (RSetBps [(7, 8)]); S_set_bps; S_req RConfigDone; S_start;
             M_read_state; M_check_bp; S_event; S_req RContinue; S_resume;
             M_read_state; M_check_bp; M_execute; M_read_state; M_check_bp] in
  match run Z (fun _ => 7) Z.succ (fun _ => false) Z.succ Z.succ true StateHeld tr (init 0) with
  | Some s => rs s = Stopped 7 /\ cp s = 1
  | None => False
  end /\
  bp_ok Z (fun _ => 7) Z.succ (fun _ => false) Z.succ Z.succ true StateHeld tr (init 0) false = true.
Proof. vm_compute. repeat split; reflexivity. Qed.

(* the 6502 theorems are not vacuous: corpus/C19/stepout_after_pha.asm on the specified CPU (proofs/DapCpuProofs.v) *)
Example C19_example_disciplined_call :
  returns_at (op6502 w_cpu) 2 7 /\ disciplined_call w_cpu 2 7 /\ frame_call (op6502 w_cpu) 2 4 /\
  pc6502 w_cpu 7 = pc6502 w_cpu 2 + 3 /\ step_over (op6502 w_cpu) 100 2 = Some 7 /\ step_out (op6502 w_cpu) 100 4 = Some 7.
Proof. exact disciplined_witness. Qed.

(* run control before configurationDone is answered with an error and changes nothing *)
Example C19_example_refused_while_launching :
  match run_obs Z (fun c => c) Z.succ (fun _ => false) Z.succ Z.succ true StateHeld
          [S_req RPause; S_req (RStep KOver); S_req RContinue; S_req RConfigDone; S_start] (init 10) with
  | Some (s, o) => rs s = Running /\ chan s = [] /\ o = [OError RPause; OError (RStep KOver); OError RContinue; OResp RConfigDone]
  | None => False
  end.
Proof. vm_compute. repeat split; reflexivity. Qed.

(* a breakpoint acknowledged during a free run stops the machine at its next arrival there; the instruction whose check
   had already passed when the response was sent is the only one the monitor exempts, and a machine that kept running
   past the new breakpoint (what a thread-local copy of the list would do) is not a schedule the monitor accepts *)
Example C19_example_setbps_during_free_run :
  let pcf := fun c : Z => c mod 3 in          (* a three-instruction loop at addresses 0,1,2 *)
  let tr := [S_req RConfigDone; S_start; M_read_state; M_check_bp; M_execute; M_read_state; M_check_bp;
             S_req (RSetBps [(1, 2)]); S_set_bps;                 (* acknowledged while instruction 1 is in flight *)
             M_execute; M_read_state; M_check_bp; M_execute; M_read_state; M_check_bp; M_execute;
             M_read_state; M_check_bp] in               (* next arrival at address 1: stops *)
  match run Z pcf Z.succ (fun _ => false) Z.succ Z.succ true StateHeld tr (init 0) with
  | Some s => rs s = Stopped 1 /\ cp s = 4
  | None => False
  end /\
  bp_ok_live Z pcf Z.succ (fun _ => false) Z.succ Z.succ true StateHeld tr (init 0) false false = true.
Proof. vm_compute. repeat split; reflexivity. Qed.

(* C09 -- output files lay out banks and segments exactly as configured. *)
From Coq Require Import List NArith ZArith Bool.
Import ListNotations.
From Mos Require Import model.Output spec.Layout proofs.OutputProofs.
From Mos Require model.Encode model.Segment proofs.OutputRange.
Open Scope Z_scope.

(* A bank's image: spans min start .. max end of its segments; the byte at every address is the data of the
   last-defined segment covering it, else the fill value; no bound on number, size or placement of segments. *)
Theorem C09_merge_pointwise : forall fill segs,
  segs <> [] -> Forall nonempty segs ->
  let b := fold_left (merge fill) segs empty_bank in
  k_lo b = spec_lo segs /\ k_hi b = spec_hi segs /\
  Z.of_nat (length (k_data b)) = k_hi b - k_lo b /\
  forall a, k_lo b <= a < k_hi b -> nth (Z.to_nat (a - k_lo b)) (k_data b) 0%N = spec_byte fill segs a.
Proof. exact merge_pointwise. Qed.
Print Assumptions C09_merge_pointwise.

(* Sized banks: exact size is kept, larger is an error, shorter is padded with fill to exactly `size`
   (prefix unchanged, padding = fill) or an error without fill. *)
Theorem C09_size_fill : forall o b,
  match b_size o with
  | None => finish_bank o b = (b, [])
  | Some size =>
      let len := Z.of_nat (length (k_data b)) in
      (len = size -> finish_bank o b = (b, [])) /\
      (len > size -> finish_bank o b = (b, [BankTooLarge (b_name o) size len])) /\
      (len < size -> match b_fill o with
                     | None => finish_bank o b = (b, [BankTooShortNoFill (b_name o) size len])
                     | Some f => exists b', finish_bank o b = (b', []) /\
                                 Z.of_nat (length (k_data b')) = size /\
                                 k_lo b' = k_lo b /\
                                 firstn (length (k_data b)) (k_data b') = k_data b /\
                                 (forall i, (length (k_data b) <= i < length (k_data b'))%nat -> nth i (k_data b') 0%N = f)
                     end)
  end.
Proof. exact finish_bank_spec. Qed.
Print Assumptions C09_size_fill.

(* merge_segments succeeds iff no segment names an unknown bank and every sized bank fits:
   an error, never a truncated or shifted image. *)
Theorem C09_errors_exact : forall banks segs first rest,
  banks = first :: rest ->
  let default_bank := b_name first in
  (exists merged, merge_segments banks segs = inl merged) <->
  (forallb (fun s => negb (seg_unknown default_bank (map b_name banks) s)) segs = true /\
   forallb (fun o => bank_size_ok o (Z.of_nat (length (k_data
       (fold_left (merge (fill_of (b_fill o))) (bank_segments default_bank segs (b_name o)) empty_bank))))) banks = true).
Proof. exact merge_errors_exact. Qed.
Print Assumptions C09_errors_exact.

(* every file is the concatenation, in bank order, of the images of the banks with that filename *)
Theorem C09_files_concat : forall banks f, file_of (write_banks banks) f = spec_file banks f.
Proof. exact files_concat. Qed.
Print Assumptions C09_files_concat.

Theorem C09_prg_header : forall pc, 0 <= pc -> prg_header pc = spec_prg_header pc.
Proof. exact prg_header_spec. Qed.
Print Assumptions C09_prg_header.

Theorem C09_write_false_invisible : forall default_bank segs name,
  bank_segments default_bank segs name = bank_segments default_bank (filter s_write segs) name.
Proof. exact write_false_invisible. Qed.
Print Assumptions C09_write_false_invisible.

(* The whole output stage refines the spec: for EVERY bank list and segment list (non-empty segments), the files
   computed by the model of merge_segments / write_banks / build_command are exactly the files the pointwise spec
   demands (same names, same order, same bytes, prg header included), and whenever the spec rejects the configuration
   the model does not produce files. *)
Theorem C09_build_output_refines_spec : forall configured banks segs, banks <> [] -> Forall nonempty segs ->
  match spec_build configured banks segs with
  | Some files => build_output configured banks segs = BuildFiles files
  | None => rejected (build_output configured banks segs)
  end.
Proof. exact build_output_refines. Qed.
Print Assumptions C09_build_output_refines_spec.

(* ... and from the DECLARED configuration, through CodegenContext::finalize (default bank, the single-segment
   convenience, segments left without a bank). *)
Theorem C09_build_project_refines_spec : forall default_name configured banks segs, Forall nonempty segs ->
  match spec_project default_name configured banks segs with
  | Some files => build_project default_name configured banks segs = ProjectBuilt (BuildFiles files)
  | None => project_rejected (build_project default_name configured banks segs)
  end.
Proof. exact build_project_refines. Qed.
Print Assumptions C09_build_project_refines_spec.

(* Data outside $0000-$FFFF is an error, never a truncated or shifted image: Segment::emit (model/Segment.v, limits
   translated from segment.rs) refuses exactly the writes that start above $FFFF or end above $10000, and an accepted
   write is recorded at its own address with all its bytes. *)
Theorem C09_data_outside_64k_is_error : forall (s : Segment.segment) (bytes : list N),
  let e := Segment.g_pc s + Z.of_nat (length bytes) in
  e < Encode.two64 ->
  (Segment.seg_emit s bytes = Segment.EmitOutOfRange <-> (65535 < Segment.g_pc s \/ 65536 < e)) /\
  (forall s', Segment.seg_emit s bytes = Segment.EmitOk s' ->
     Segment.g_pc s <= 65535 /\ e <= 65536 /\ Segment.g_pc s' = e /\
     Segment.g_writes s' = (Segment.g_pc s, bytes) :: Segment.g_writes s).
Proof. exact OutputRange.emit_range_exact. Qed.
Print Assumptions C09_data_outside_64k_is_error.

(* non-vacuity: two overlapping segments, the later one wins, gap filled *)
Example C09_example :
  let segs := [mkSeg 4100 [1;2;3;4]%N None true; mkSeg 4096 [9;9;9;9;9;9]%N None true; mkSeg 4110 [7]%N None true] in
  k_data (fold_left (merge 255%N) segs empty_bank) = [9;9;9;9;9;9;3;4;255;255;255;255;255;255;7]%N.
Proof. vm_compute. reflexivity. Qed.

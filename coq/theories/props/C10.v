(* C10 -- builds are reproducible: the output of `mos build` does not depend on the iteration order of any hash
   collection.  `sites` (Gen/ReproSites.v) is re-read from the Rust source on every run: collection types and sort keys
   at the modelled sites.  An oracle names each call, so equal collections may be iterated in different orders. *)
From Coq Require Import List NArith ZArith Bool Permutation.
Import ListNotations.
From Mos Require Import model.Repro Gen.ReproSites proofs.ReproProofs.

(* the general facts: a (stable) sort by a total order on the whole element forgets the input order ... *)
Theorem C10_sort_whole_element_invariant : forall (A : Type) (leb : A -> A -> bool),
  (forall a b, leb a b = true \/ leb b a = true) ->
  (forall a b c, leb a b = true -> leb b c = true -> leb a c = true) ->
  (forall a b, leb a b = true -> leb b a = true -> a = b) ->
  forall l l', Permutation l l' -> sort leb l = sort leb l'.
Proof. exact (@sort_perm_invariant). Qed.
Print Assumptions C10_sort_whole_element_invariant.

(* ... and a stable sort by a key does so when the key order is total and the key is injective on the elements *)
Theorem C10_sort_by_injective_key_invariant : forall (A K : Type) (key : A -> K) (lek : K -> K -> bool),
  (forall a b, lek a b = true \/ lek b a = true) ->
  (forall a b c, lek a b = true -> lek b c = true -> lek a c = true) ->
  (forall a b, lek a b = true -> lek b a = true -> a = b) ->
  forall l l', Permutation l l' ->
  (forall a b, In a l -> In b l -> key a = key b -> a = b) ->
  sort (by_key key lek) l = sort (by_key key lek) l'.
Proof. exact (@sort_by_injective_key_invariant). Qed.
Print Assumptions C10_sort_by_injective_key_invariant.

(* VICE symbol file: symbols are collected through nested hash maps (children, all) and sorted as whole lines *)
Theorem C10_vice_sort_invariant : forall pi pi', valid pi -> valid pi' ->
  forall root, to_vice_symbols (sc_vice_sorted sites) pi root = to_vice_symbols (sc_vice_sorted sites) pi' root.
Proof. exact vice_sort_invariant. Qed.
Print Assumptions C10_vice_sort_invariant.

(* listing files: the resulting file system (names and contents) is the same, also when two sources share a stem *)
Theorem C10_listing_invariant : forall stem pi pi', valid pi -> valid pi' ->
  forall listing, write_listings (sc_listing sites) stem pi listing = write_listings (sc_listing sites) stem pi' listing.
Proof. exact listing_invariant. Qed.
Print Assumptions C10_listing_invariant.

(* diagnostics for undefined symbols: same list in the same order, for every set of undefined symbols
   (repeated names, equal spans in different scopes included) *)
Theorem C10_undefined_order_invariant : forall pi pi', valid pi -> valid pi' ->
  forall und, report_undefined (sc_undef_key sites) pi und = report_undefined (sc_undef_key sites) pi' und.
Proof. exact report_undefined_invariant. Qed.
Print Assumptions C10_undefined_order_invariant.

(* the import work list: order of parsing, hence `$scope_N` numbering, code-map positions, order of parse and
   file-not-found diagnostics -- for every project, any number of imports per file *)
Theorem C10_import_order_invariant : forall pi pi' p main,
  parse (sc_to_import sites) pi p main = parse (sc_to_import sites) pi' p main.
Proof. exact parse_ordered_invariant. Qed.
Print Assumptions C10_import_order_invariant.

(* `.import * from`: the symbols are exported in the same order, so the same clash is reported *)
Theorem C10_import_all_invariant : forall pi pi', valid pi -> valid pi' ->
  forall call call' children existing sp,
  import_all (sc_import_all sites) pi call children existing sp = import_all (sc_import_all sites) pi' call' children existing sp.
Proof. exact import_all_invariant. Qed.
Print Assumptions C10_import_all_invariant.

Theorem C10_missing_required_invariant : forall pi pi', valid pi -> valid pi' ->
  forall req, missing_required pi req = missing_required pi' req.
Proof. exact missing_required_invariant. Qed.
Print Assumptions C10_missing_required_invariant.

(* the whole command: binary, symbol file, listing files, or the diagnostics in emitter order -- for every project and
   every (deterministic) code generator working on the parse tree that performs its one hash iteration (the children
   of an import scope) through the callback it is given *)
Theorem C10_binary_invariant : forall stem codegen, uses_callback_extensionally codegen ->
  forall pi pi', valid pi -> valid pi' ->
  forall p main, build sites stem codegen pi p main = build sites stem codegen pi' p main.
Proof. exact (build_invariant sites (conj eq_refl (conj eq_refl (conj eq_refl (conj eq_refl eq_refl))))). Qed.
Print Assumptions C10_binary_invariant.

(* the out-of-fuel results of the model are never produced: the work-list loop ends within 1 + (number of import
   statements) iterations, whatever the iteration order (so the theorems above are about real results) *)
Theorem C10_parse_never_out_of_fuel : forall k pi, valid pi -> forall p main, parse k pi p main <> ParseOutOfFuel.
Proof. exact parse_never_out_of_fuel. Qed.
Print Assumptions C10_parse_never_out_of_fuel.

Theorem C10_build_never_out_of_fuel : forall sc stem codegen pi, valid pi -> forall p main,
  build sc stem codegen pi p main <> BuildOutOfFuel.
Proof. exact build_never_out_of_fuel. Qed.
Print Assumptions C10_build_never_out_of_fuel.

(* ---- what each repaired site did before (the model's other variant): the defects, and the strongest guarded statements *)

(* F-C10a: a stable sort by name only keeps the hash order of two uses of the same undefined name *)
Theorem C10_undefined_order_refuted :
  exists pi pi' und, valid pi /\ valid pi' /\ report_undefined KeyName pi und <> report_undefined KeyName pi' und.
Proof. exact report_undefined_by_name_refuted. Qed.
Print Assumptions C10_undefined_order_refuted.

Theorem C10_undefined_order_guarded : forall pi pi', valid pi -> valid pi' ->
  forall und, no_repeated_undefined_name und -> report_undefined KeyName pi und = report_undefined KeyName pi' und.
Proof. exact report_undefined_by_name_guarded. Qed.
Print Assumptions C10_undefined_order_guarded.

(* F-C10b: pending imports in a hash map: three imports, `$scope_N` numbers and positions depend on the oracle *)
Theorem C10_import_order_refuted :
  exists pi pi' p main, valid pi /\ valid pi' /\ parse Hashed pi p main <> parse Hashed pi' p main.
Proof. exact parse_hashed_refuted. Qed.
Print Assumptions C10_import_order_refuted.

Theorem C10_import_order_guarded : forall pi pi', valid pi -> valid pi' ->
  forall p main, at_most_one_import_per_file p = true -> parse Hashed pi p main = parse Hashed pi' p main.
Proof. exact parse_hashed_guarded. Qed.
Print Assumptions C10_import_order_guarded.

Theorem C10_vice_unsorted_refuted :
  exists pi pi' root, valid pi /\ valid pi' /\ to_vice_symbols false pi root <> to_vice_symbols false pi' root.
Proof. exact vice_unsorted_refuted. Qed.
Print Assumptions C10_vice_unsorted_refuted.

Theorem C10_listing_hashed_refuted :
  exists pi pi' l, valid pi /\ valid pi' /\
    fs_lookup (write_listings IterHashed last_component pi l) [109%N] <>
    fs_lookup (write_listings IterHashed last_component pi' l) [109%N].
Proof. exact listing_hashed_refuted. Qed.
Print Assumptions C10_listing_hashed_refuted.

Theorem C10_import_all_hashed_refuted :
  exists pi pi' children existing sp, valid pi /\ valid pi' /\
    import_all IterHashed pi 0 children existing sp <> import_all IterHashed pi' 0 children existing sp.
Proof. exact import_all_hashed_refuted. Qed.
Print Assumptions C10_import_all_hashed_refuted.

(* non-vacuity: two valid oracles that really differ; the guard of the hashed import theorem is met by a project with imports *)
Example C10_oracles_differ : valid ident_oracle /\ valid rev_oracle /\ ident_oracle nat [] [1; 2] <> rev_oracle nat [] [1; 2].
Proof. split; [apply valid_ident|]. split; [apply valid_rev|]. discriminate. Qed.
Example C10_guard_satisfiable :
  at_most_one_import_per_file [(f_main, mkSource 30 [EImport f_a (15, 22)%N; EScope]); (f_a, mkSource 10 [EScope; EImport f_b (1, 2)%N]);
                               (f_b, mkSource 5 [])] = true.
Proof. reflexivity. Qed.
(* the repaired parse of the three-import project: files in stack order c, b, a with scopes 4, 5, 6 *)
Example C10_parse_example :
  match parse (sc_to_import sites) rev_oracle import_witness f_main with
  | Parsed st => map pf_scopes (ps_files st) = [[1; 2; 3]; [4]; [5]; [6]] /\ map pf_path (ps_files st) = [f_main; f_c; f_b; f_a]
  | ParseOutOfFuel => False
  end.
Proof. vm_compute. split; reflexivity. Qed.
(* a code generator that really uses its callback (it reports the first clash of an `import *` with two defined names)
   meets the hypothesis of C10_binary_invariant *)
Example C10_callback_codegen_example :
  uses_callback_extensionally
    (fun f st => mkCg (match export_loop [[97]%N; [98]%N] (f 0%nat [([97]%N, 3%nat); ([98]%N, 4%nat)]) (1, 2)%N [] with
                       | inl _ => [] | inr d => [d] end) [] [] (Node 0 None []) []).
Proof. intros f f' H st. rewrite H. reflexivity. Qed.

(* C11 -- source map and listings are exact.
   Model: model/SourceMap.v (source_map.rs + the used part of code_map.rs), model/Listing.v (listing.rs to_listing),
   model/Emit.v (Segment::emit + CodegenContext::emit + macro re-attribution).  Spec: spec/ListingSpec.v. *)
From Coq Require Import List NArith ZArith Bool Permutation Lia.
Import ListNotations.
From Mos Require Import model.SourceMap model.Listing model.Emit spec.ListingSpec proofs.ListingProofs proofs.EmitProofs model.ListingFiles proofs.ListingFilesProofs.
Open Scope Z_scope.

(* For ALL code maps, segment tables and source maps that are well formed emissions (every entry records the target
   address range of exactly the bytes its statement emitted, and the segment it names holds them at the corresponding
   emit addresses -- relocated and overlapping segments included), for every bytes-per-line n > 0 and every file:
   the model of to_listing does not panic and produces exactly the rows of the spec: per source line in order, the bytes
   emitted for the statements beginning on that line, in emission order, in maximal rows of at most n bytes at
   consecutive addresses, the first row of a line carrying the source text. *)
Theorem C11_listing_rows : forall cm segs es n f,
  wf_emission segs es -> spans_ok cm es -> (0 < n)%nat ->
  to_listing_file cm (map fst es) segs n f = Ok (spec_rows n (num_lines f) (f_name f) (emissions cm es)).
Proof. exact listing_rows. Qed.
Print Assumptions C11_listing_rows.

(* Every byte emitted by a statement of the file appears in the file's listing exactly once (as an (address, byte) pair;
   multiset equality), and nothing else appears. *)
Theorem C11_every_byte_once : forall cm segs es n f rows,
  wf_emission segs es -> spans_ok cm es -> (0 < n)%nat -> find_file cm (f_name f) = Ok f ->
  to_listing_file cm (map fst es) segs n f = Ok rows ->
  Permutation (flat_map row_cells rows)
              (flat_map em_cells (filter (fun e => N.eqb (em_file e) (f_name f)) (emissions cm es))).
Proof. exact every_byte_once. Qed.
Print Assumptions C11_every_byte_once.

(* ... and over all files of the code map together (distinct names): every emitted byte appears in the listings exactly
   once. *)
Theorem C11_all_bytes_once : forall cm segs es n l,
  wf_emission segs es -> spans_ok cm es -> (0 < n)%nat -> NoDup (map f_name cm) ->
  to_listing cm (map fst es) segs n = Ok l ->
  Permutation (flat_map (fun fr => flat_map row_cells (snd fr)) l) (flat_map em_cells (emissions cm es)).
Proof. exact all_bytes_once. Qed.
Print Assumptions C11_all_bytes_once.

(* Whatever the source map and the segments are: if to_listing does not panic, its rows are, for every source line of
   the file in order, a non-empty group of rows of that line, exactly the first of which carries the source text. *)
Theorem C11_lines_once_in_order : forall cm sm segs n f rows,
  to_listing_file cm sm segs n f = Ok rows ->
  exists groups, rows = concat groups /\ Forall2 line_group_ok (seq 0 (num_lines f)) groups.
Proof. exact lines_once_in_order. Qed.
Print Assumptions C11_lines_once_in_order.

(* Macro re-attribution (listing mode) touches exactly the entries emitted since the invocation began -- whatever scope
   they were emitted in (nested blocks, loops, labelled blocks of the macro body included) -- and changes only their
   scope and span: addresses and segment stay. *)
Theorem C11_move_offsets : forall sm appended scope sp,
  move_offsets (sm ++ appended) (length sm) scope sp = sm ++ map (retarget scope sp) appended.
Proof. exact move_offsets_exact. Qed.
Print Assumptions C11_move_offsets.

(* The line the code map reports for the beginning of a span (binary search in the table of line starts) is the number
   of line feeds before it; the reported file is the span's file. *)
Theorem C11_begin_line : forall cm s, span_ok cm s ->
  exists sl, look_up_span cm s = Ok sl /\ sl_file sl = sp_file s /\
             lc_line (sl_begin sl) = spec_line (src_of cm (sp_file s)) (sp_lo s).
Proof. exact look_up_span_ok. Qed.
Print Assumptions C11_begin_line.

(* address_to_offset returns the first entry (in emission order) whose target range contains the address, and None
   exactly when no entry does. *)
Theorem C11_address_to_offset : forall sm pc,
  match address_to_offset sm pc with
  | Some o => exists before after, sm = before ++ o :: after /\ covers pc o /\ Forall (fun o' => ~ covers pc o') before
  | None => Forall (fun o' => ~ covers pc o') sm
  end.
Proof. exact address_to_offset_spec. Qed.
Print Assumptions C11_address_to_offset.

(* wf_emission is what the emitter establishes: for ALL operation sequences of a pass (emissions into any segments,
   relocated or not, `* =`, scope changes, nested macro invocations in either attribution mode) that end without
   "segment out of range" and never overwrite bytes emitted earlier in the pass, the source map has one entry per
   emission and, paired with the emitted bytes, is a well-formed emission over the final segments. *)
Theorem C11_wf_emission : forall ops c0 c,
  c_sm c0 = [] -> run ops c0 = Done c -> no_overwrite ops c0 = true ->
  length (c_sm c) = length (emitted ops c0) /\
  wf_emission (view_segments c) (combine (c_sm c) (emitted ops c0)).
Proof. exact wf_emission_of_run. Qed.
Print Assumptions C11_wf_emission.

(* ... hence the listing of what the emission model produced is the spec's listing of its emissions. *)
Theorem C11_listing_of_emission : forall ops c0 c cm n f,
  c_sm c0 = [] -> run ops c0 = Done c -> no_overwrite ops c0 = true ->
  spans_ok cm (combine (c_sm c) (emitted ops c0)) -> (0 < n)%nat ->
  to_listing_file cm (c_sm c) (view_segments c) n f =
  Ok (spec_rows n (num_lines f) (f_name f) (emissions cm (combine (c_sm c) (emitted ops c0)))).
Proof. exact listing_of_emission. Qed.
Print Assumptions C11_listing_of_emission.

(* The .lst files of `mos build`: "<file stem>.lst" in the target directory, created one after the other.
   KNOWN FINDING (Known_listing_name_collision, recorded in known_findings.txt): two source files with the same stem in
   different directories are written to the same .lst file; the earlier listing is lost, so its bytes appear in no
   listing file. *)
Theorem C11_lst_files_refuted :
  exists (ls : list (source_path * N)) p c, In (p, c) ls /\ lookup (listing_name p) (write_listings ls []) <> Some c.
Proof. exact lst_files_refuted. Qed.
Print Assumptions C11_lst_files_refuted.

(* Outside that class every file's listing is in the target directory, whatever was there before. *)
Theorem C11_lst_files : forall (C : Type) (ls : list (source_path * C)) t,
  Known_listing_name_collision (map fst ls) = false ->
  forall p c, In (p, c) ls -> lookup (listing_name p) (write_listings ls t) = Some c.
Proof. exact @lst_files_guarded. Qed.
Print Assumptions C11_lst_files.

(* ---- non-vacuity and the former defects (F-C11a, F-C11b), now positive on the repaired code ------------------- *)
Definition ex_file : file := mkFile 0 [110;111;112;10;46;98;10]%N.          (* "nop\n.b\n": 3 lines *)
(* relocated segment 7: emitted at $1000.., target $8000..; a second segment 8 whose emit range overlaps it *)
Definition ex_segs : segments := [(7%N, mkLseg 4096 4098 [234;96]%N 28672); (8%N, mkLseg 4097 4098 [238]%N 0)].
Definition ex_es : list (offset * list N) :=
  [(mkOffset 0 (mkSpan 0 0 3) 32768 32769 7, [234]%N);
   (mkOffset 0 (mkSpan 0 4 6) 32769 32770 7, [96]%N);
   (mkOffset 0 (mkSpan 0 4 6) 4097 4098 8, [238]%N)].

Ltac entry seg := split; [reflexivity|intros _; exists seg; split; [reflexivity|split; [cbn; lia|split; [cbn; lia|reflexivity]]]].
Example C11_example_wf : wf_emission ex_segs ex_es /\ spans_ok [ex_file] ex_es.
Proof.
  split.
  - constructor; [entry (mkLseg 4096 4098 [234;96]%N 28672)|].
    constructor; [entry (mkLseg 4096 4098 [234;96]%N 28672)|].
    constructor; [entry (mkLseg 4097 4098 [238]%N 0)|constructor].
  - repeat (constructor; [exists ex_file; split; [reflexivity|cbn; lia]|]). constructor.
Qed.

(* F-C11a: the relocated segment's bytes are listed at their target addresses; F-C11b: the overlapping segment lists its
   own byte $EE, not $60 of the other segment *)
Example C11_example_relocated_overlap :
  to_listing_file [ex_file] (map fst ex_es) ex_segs 8 ex_file =
  Ok [mkRow 0 (Some 32768) [234]%N true; mkRow 1 (Some 32769) [96]%N true; mkRow 1 (Some 4097) [238]%N false; mkRow 2 None [] true].
Proof. vm_compute. reflexivity. Qed.

(* a pass over two segments (7 relocated: emitted at $1000, target $8000; 8 at $1001), a macro invoked in listing mode
   whose body emits inside a nested scope: no overwrite, run completes, entries re-attributed to the invocation *)
Definition ex_ops : list op :=
  [OSegment 7; OEmit (mkSpan 0 0 3) [234]%N; OMacroBegin 5 (mkSpan 0 4 6); OScope 6; OEmit (mkSpan 0 0 3) [96]%N; OScope 5; OMacroEnd;
   OSegment 8; OSetPc 4097; OEmit (mkSpan 0 4 6) [238]%N].
Definition ex_c0 : ctx := mkCtx [(7%N, seg_new 4096 32768); (8%N, seg_new 4096 4096)] None 0 [] [] true.
Example C11_example_run :
  no_overwrite ex_ops ex_c0 = true /\
  match run ex_ops ex_c0 with
  | Done c => c_sm c = map fst ex_es /\ emitted ex_ops ex_c0 = map snd ex_es /\ view_segments c = ex_segs
  | _ => False
  end.
Proof. vm_compute. repeat split. Qed.

(* C11 -- source map and listings are exact. *)
From Coq Require Import List NArith ZArith Bool.
Import ListNotations.
From Mos Require Import model.SourceMap model.Listing spec.ListingSpec proofs.ListingProofs.
Open Scope Z_scope.

(* Macro re-attribution (listing mode) touches exactly the entries emitted since the invocation began -- whatever scope
   they were emitted in -- and changes only their scope and span: addresses and segment stay. *)
Theorem C11_move_offsets : forall sm appended scope sp,
  move_offsets (sm ++ appended) (length sm) scope sp = sm ++ map (retarget scope sp) appended.
Proof. exact move_offsets_exact. Qed.
Print Assumptions C11_move_offsets.

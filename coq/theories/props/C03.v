(* C03 -- expressions evaluate as documented. *)
From Coq Require Import List NArith ZArith Bool.
Import ListNotations.
From Mos Require Import model.I64 Gen.BinOps model.Expr spec.ExprSem proofs.ExprProofs.
Open Scope Z_scope.

(* For every expression tree of the numeric language -- any depth, any operand values -- inside the property's
   domain (no 64-bit overflow, divisors non-zero, shift counts 0..31) the evaluator model, running the operator
   table translated from evaluator.rs, computes ordinary integer arithmetic: truncating / and %, comparisons and
   && || to 0/1, < > as low/high byte, !-x as NOT (NEG x), literals as sum of digit * radix^i. *)
Theorem C03_eval_sem : forall num pc en e,
  (forall p, lookup en p = Some (DNum (num p))) -> cur_pc en = Some pc ->
  in_domain num pc e ->
  eval en e = EVal (Some (SNum (sem num pc e))).
Proof. exact eval_sem. Qed.
Print Assumptions C03_eval_sem.

Theorem C03_operators : forall op a b,
  (match op with
   | Div | Mod => b <> 0 /\ in_i64 (Z.quot a b) = true
   | Shl | Shr => 0 <= b <= 31
   | _ => True
   end) ->
  in_i64 a = true -> in_i64 b = true -> in_i64 (sem_binop op a b) = true ->
  apply_i64 op a b = Val (sem_binop op a b).
Proof. exact apply_i64_sem. Qed.
Print Assumptions C03_operators.

Theorem C03_literals : forall radix digits,
  valid_literal radix digits -> in_i64 (spec_lit radix digits) = true ->
  number_value radix digits = Val (spec_lit radix digits).
Proof. exact literal_value. Qed.
Print Assumptions C03_literals.

Theorem C03_not_neg : forall fnot fneg v,
  in_i64 (- v) = true -> apply_flags flag_order fnot fneg v = Val (sem_flags fnot fneg v).
Proof. exact apply_flags_sem. Qed.
Print Assumptions C03_not_neg.

(* .byte/.word/.dword: byte i of the output is byte i of the value (low 8/16/32 bits, little endian) *)
Theorem C03_data_le : forall k v i, (i < k)%nat ->
  nth i (emit_data k v) 0%N = Z.to_N ((v / 2 ^ (8 * Z.of_nat i)) mod 256).
Proof. exact emit_data_bytes. Qed.
Print Assumptions C03_data_le.

(* non-vacuity and documented corners *)
Example C03_example_domain :
  let e := EBin Add (ENum 10 [50%N] false false) (EBin Mul (ENum 16 [102%N; 102%N] false false) (EId [[99%N]] (Some HighByte) false true)) in
  in_domain (fun _ => 70000) 4096 e /\ sem (fun _ => 70000) 4096 e = 2 + 255 * - 17.
Proof.
  cbn [in_domain sem]. unfold valid_literal.
  repeat split; try (vm_compute; reflexivity); try (vm_compute; discriminate); auto.
  - right. right. split; [discriminate | repeat constructor; vm_compute; discriminate].
  - right. right. split; [discriminate | repeat constructor; vm_compute; discriminate].
Qed.

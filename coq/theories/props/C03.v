(* C03 -- expressions evaluate as documented. *)
From Coq Require Import List NArith ZArith Bool.
Import ListNotations.
From Mos Require Import model.I64 Gen.BinOps Gen.ExprGrammar model.Expr model.ExprParse spec.ExprSem spec.ExprPrint proofs.ExprProofs proofs.ExprParseProofs Gen.TextEnc model.TextEnc spec.TextEncSpec proofs.TextEncProofs.
Open Scope Z_scope.

(* For every expression tree of the numeric language -- any depth, any operand values -- inside the property's
   domain (no 64-bit overflow, divisors non-zero, shift counts 0..31) the evaluator model, running the operator
   table translated from evaluator.rs, computes ordinary integer arithmetic: truncating / and %, comparisons and
   && || to 0/1, < > as low/high byte, !-x as NOT (NEG x), literals as sum of digit * radix^i. *)
Theorem C03_eval_sem : forall num pc en e,
  (forall p, lookup en p = Some (DNum (num p))) -> cur_pc en = Some pc ->
  in_domain num pc e ->
  eval en e = EVal (Some (SNum (sem num pc e))).
Proof. exact eval_sem. Qed.
Print Assumptions C03_eval_sem.

Theorem C03_operators : forall op a b,
  (match op with
   | Div | Mod => b <> 0 /\ in_i64 (Z.quot a b) = true
   | Shl | Shr => 0 <= b <= 31
   | _ => True
   end) ->
  in_i64 a = true -> in_i64 b = true -> in_i64 (sem_binop op a b) = true ->
  apply_i64 op a b = Val (sem_binop op a b).
Proof. exact apply_i64_sem. Qed.
Print Assumptions C03_operators.

Theorem C03_literals : forall radix digits,
  valid_literal radix digits -> in_i64 (spec_lit radix digits) = true ->
  number_value radix digits = Val (spec_lit radix digits).
Proof. exact literal_value. Qed.
Print Assumptions C03_literals.

Theorem C03_not_neg : forall fnot fneg v,
  in_i64 (- v) = true -> apply_flags flag_order fnot fneg v = Val (sem_flags fnot fneg v).
Proof. exact apply_flags_sem. Qed.
Print Assumptions C03_not_neg.

(* .byte/.word/.dword: byte i of the output is byte i of the value (low 8/16/32 bits, little endian) *)
Theorem C03_data_le : forall k v i, (i < k)%nat ->
  nth i (emit_data k v) 0%N = Z.to_N ((v / 2 ^ (8 * Z.of_nat i)) mod 256).
Proof. exact emit_data_bytes. Qed.
Print Assumptions C03_data_le.

(* Parser/printer round trip over the character-level model of the expression grammar (operator tables translated
   from parser/mod.rs): EVERY canonical concrete syntax tree of the numeric language -- two precedence levels, both
   left-nested to any length, parentheses nested to any depth, literals of the three radixes, identifiers -- printed
   with single spaces around operators and followed by end of input, ')', ',', '}' or a line end, is parsed back to
   exactly the tree it denotes, and the follow text is left untouched.  Consequently `* / % << >> ^` bind tighter
   than `+ - == != >= <= > < && ||`, both classes associate to the left and parentheses override. *)
Theorem C03_parse_print : forall l R, wf_loose l = true -> follow_ok R = true ->
  parse_expression (pr_loose l ++ R) = Some (expr_of_loose l, R).
Proof. exact parse_print_roundtrip. Qed.
Print Assumptions C03_parse_print.

Theorem C03_mul_binds_tighter : forall lop top a b c R,
  in_table loose_ops lop = true -> in_table tight_ops top = true ->
  wf_factor a = true -> wf_factor b = true -> wf_factor c = true -> follow_ok R = true ->
  parse_expression (pr_loose (LBin (L1 (T1 a)) lop (TBin (T1 b) top c)) ++ R)
  = Some (EBin lop (expr_of_factor a) (EBin top (expr_of_factor b) (expr_of_factor c)), R).
Proof. exact mul_binds_tighter. Qed.
Print Assumptions C03_mul_binds_tighter.

Theorem C03_left_assoc : forall a b c R,
  wf_factor a = true -> wf_factor b = true -> wf_factor c = true -> follow_ok R = true ->
  (forall op1 op2, in_table loose_ops op1 = true -> in_table loose_ops op2 = true ->
     parse_expression (pr_loose (LBin (LBin (L1 (T1 a)) op1 (T1 b)) op2 (T1 c)) ++ R)
     = Some (EBin op2 (EBin op1 (expr_of_factor a) (expr_of_factor b)) (expr_of_factor c), R)) /\
  (forall op1 op2, in_table tight_ops op1 = true -> in_table tight_ops op2 = true ->
     parse_expression (pr_loose (L1 (TBin (TBin (T1 a) op1 b) op2 c)) ++ R)
     = Some (EBin op2 (EBin op1 (expr_of_factor a) (expr_of_factor b)) (expr_of_factor c), R)).
Proof. exact left_assoc. Qed.
Print Assumptions C03_left_assoc.

Theorem C03_parens_override : forall lop top a b c R,
  in_table loose_ops lop = true -> in_table tight_ops top = true ->
  wf_factor a = true -> wf_factor b = true -> wf_factor c = true -> follow_ok R = true ->
  parse_expression (pr_loose (L1 (TBin (T1 (FParens (LBin (L1 (T1 a)) lop (T1 b)))) top c)) ++ R)
  = Some (EBin top (EParens (EBin lop (expr_of_factor a) (expr_of_factor b)) false false) (expr_of_factor c), R).
Proof. exact parens_override. Qed.
Print Assumptions C03_parens_override.

(* non-vacuity: `1 + $0f * (x - %10) / 3 == y` is a canonical tree, and its text is what one expects *)
Example C03_example_print :
  let x := FId [120%N] in let y := FId [121%N] in
  let l := LBin (LBin (L1 (T1 (FNum 10 [49%N]))) Add
                      (TBin (TBin (T1 (FNum 16 [48%N; 102%N])) Mul (FParens (LBin (L1 (T1 x)) Sub (T1 (FNum 2 [49%N; 48%N])))))
                            Div (FNum 10 [51%N])))
                Eq (T1 y) in
  wf_loose l = true /\
  pr_loose l = [49;32;43;32;36;48;102;32;42;32;40;120;32;45;32;37;49;48;41;32;47;32;51;32;61;61;32;121]%N.
Proof. split; vm_compute; reflexivity. Qed.

(* `.text`: the bytes of the string in the selected encoding.  The PETSCII table and the screen-code arms are translated
   from cbm/petscii.rs / text_encoding.rs on every run; the spec is written from the layout of the Commodore character
   sets.  For every string of printable ASCII characters (any length): ascii stores the characters themselves, petscii
   and petscreen store spec_petscii / spec_screen of each character; every character of ANY string becomes exactly one
   byte in the two Commodore encodings, and the screen-code match is exhaustive over u8. *)
Theorem C03_text_ascii : forall s, Forall (fun c => (c < 128)%N) s -> encode_text EncAscii s = s.
Proof. exact text_ascii. Qed.
Print Assumptions C03_text_ascii.

Theorem C03_text_petscii : forall s, Forall printable s -> encode_text EncPetscii s = map spec_petscii s.
Proof. exact text_petscii. Qed.
Print Assumptions C03_text_petscii.

Theorem C03_text_petscreen : forall s, Forall printable s -> encode_text EncPetscreen s = map spec_screen s.
Proof. exact text_petscreen. Qed.
Print Assumptions C03_text_petscreen.

Theorem C03_text_one_byte_per_char : forall enc s, enc <> EncAscii ->
  length (encode_text enc s) = length s /\ Forall (fun b => (b < 256)%N) (encode_text enc s).
Proof. exact text_one_byte_per_char. Qed.
Print Assumptions C03_text_one_byte_per_char.

(* the documented example: .text petscreen "abc" emits 1, 2, 3 *)
Example C03_example_petscreen : encode_text EncPetscreen [97; 98; 99]%N = [1; 2; 3]%N /\
                                encode_text EncPetscii [97; 98; 99]%N = [65; 66; 67]%N.
Proof. split; vm_compute; reflexivity. Qed.

(* non-vacuity and documented corners *)
Example C03_example_domain :
  let e := EBin Add (ENum 10 [50%N] false false) (EBin Mul (ENum 16 [102%N; 102%N] false false) (EId [[99%N]] (Some HighByte) false true)) in
  in_domain (fun _ => 70000) 4096 e /\ sem (fun _ => 70000) 4096 e = 2 + 255 * - 17.
Proof.
  cbn [in_domain sem]. unfold valid_literal.
  repeat split; try (vm_compute; reflexivity); try (vm_compute; discriminate); auto.
  - right. right. split; [discriminate | repeat constructor; vm_compute; discriminate].
  - right. right. split; [discriminate | repeat constructor; vm_compute; discriminate].
Qed.

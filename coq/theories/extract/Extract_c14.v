(* Extraction of the C14 model (model/Lsp.v) and of the LSP decoder of the spec, for the correspondence check.
   Directives: those of ExtrOcamlBasic only; numbers stay Coq datatypes. *)
From Coq Require Import List NArith ZArith.
Require Extraction.
Require Import ExtrOcamlBasic.
From Mos Require Import model.Utf model.Lsp spec.LspSpec.

Extraction "../extract/gen/c14.ml"
  Z.add Z.mul Z.sub Z.opp Z.div Z.modulo Z.of_N Z.to_N N.add N.mul Z.of_nat Z.to_nat
  byte_len str_slice_to str_split_at lines num_lines source_line find_line_col look_up_span
  prepare_rename_range completion_scope to_deltas pieces decode
  run shown_for final_buffers overlay spec_diags.

(* Extraction of the C18 runner model (model/TestRun.v), the machine (spec/Cpu6502.v) and the verdict spec
   (spec/TestSpec.v) for the correspondence check and the oracle.  Directives: those of ExtrOcamlBasic only. *)
From Coq Require Import List NArith ZArith.
Require Extraction.
Require Import ExtrOcamlBasic.
From Mos Require Import model.I64 Gen.BinOps Gen.ExprGrammar model.Expr model.ExprParse
  spec.Cpu6502 Gen.CpuSyms model.TestRun spec.TestSpec.

Extraction "../extract/gen/c18.ml"
  Z.add Z.mul Z.sub Z.opp Z.div Z.modulo Z.of_N Z.to_N Z.ltb Z.eqb
  parse_expression
  cpu_init load_program ram_read status_byte exec step decode at_brk in_subset
  execute_instruction run new_runner run_test step_over step_out
  spec_run spec_test view visits asserts_at check_assertion
  test_command process_exit_status is_final.

(* Extraction of the C20 lifecycle model (model/Life.v) and of the variant read from the Rust source.
   Directives: those of ExtrOcamlBasic only. *)
From Coq Require Import List NArith ZArith.
Require Extraction.
Require Import ExtrOcamlBasic.
From Mos Require Import model.Life Gen.LifeSites.

Extraction "../extract/gen/c20.ml"
  Z.add Z.mul Z.sub Z.opp Z.div Z.modulo Z.ltb Z.eqb Z.of_N Z.to_N Z.of_nat Z.to_nat N.add N.mul
  life_variant v_pinned v_take_only v_take_drop v_take_drop_wake v_first_repair v_repaired v_rendezvous step initial initial_dead initial_launch spec_exit_code clean_exit exited all_scripts.

(* Extraction of the assembler model (SymTab, Segment, Asm) for the correspondence checks and oracles of C02 / C07.
   Directives: those of ExtrOcamlBasic only; numbers stay Coq datatypes. *)
From Coq Require Import List NArith ZArith.
Require Extraction.
Require Import ExtrOcamlBasic.
From Mos Require Import Gen.OpcodeTable spec.Isa model.Encode model.I64 Gen.BinOps model.Expr
  model.SymTab Gen.CodegenConsts model.Segment model.Asm spec.Relayout spec.Expand.

Extraction "../extract/gen/asm.ml"
  Z.add Z.mul Z.sub Z.opp Z.div Z.modulo Z.pow Z.ltb Z.eqb Z.of_N Z.to_N N.add N.mul Z.of_nat Z.to_nat
  all_mnemonics all_binops
  codegen default_options segment_image vice_symbols all emit_instruction eval emit_data env_of lookup_in
  try_index query z_to_text max_iterations Z.min Z.max bytes_from relayout expand print_tokens.

(* Extraction of the executable model and spec for the correspondence check and the oracle.
   Directives: those of ExtrOcamlBasic only; numbers stay Coq datatypes. *)
From Coq Require Import List NArith ZArith.
Require Extraction.
Require Import ExtrOcamlBasic.
From Mos Require Import Gen.OpcodeTable spec.Isa model.Encode model.Output spec.Layout
  model.I64 Gen.BinOps Gen.ExprGrammar model.Expr model.ExprParse spec.ExprSem spec.ExprPrint Gen.TextEnc model.TextEnc spec.TextEncSpec.

Extraction "../extract/gen/model.ml"
  Z.add Z.mul Z.sub Z.opp Z.div Z.modulo Z.pow Z.ltb Z.eqb Z.of_N Z.to_N N.add N.mul Z.of_nat Z.to_nat
  all_mnemonics all_forms
  emit_instruction spec_encode spec_branch is_branch isa all_modes
  encode_text spec_petscii spec_screen parse_expression ws pr_loose expr_of_loose wf_loose eval emit_data sem spec_le_bytes number_value apply_i64 all_binops
  merge_segments build_output build_project spec_project write_banks finalize spec_build spec_byte spec_lo spec_hi spec_file spec_prg_header bank_segments bank_of fill_of.

(* Extraction of the debug-adapter protocol model (C19).  Directives: those of ExtrOcamlBasic only. *)
From Coq Require Import List NArith ZArith.
Require Extraction.
Require Import ExtrOcamlBasic.
From Mos Require Import model.Dap model.DapStep.

Extraction "../extract/gen/c19.ml"
  Z.add Z.mul Z.sub Z.opp Z.div Z.modulo Z.ltb Z.leb Z.eqb Z.of_nat Z.to_nat Z.of_N Z.to_N N.add N.mul
  Dap.step_act Dap.run_obs Dap.init Dap.hit DapStep.step_over DapStep.step_out DapStep.step_over_pinned DapStep.step_out_pinned DapStep.exec_in
  DapStep.Known_stepout_stack_dirty DapStep.Known_breakpoint_self_loop DapStep.Known_next_reenters_call_site.

(* Extraction of the C17 model (get_text_edits over a chunk list) and spec (apply_edits) for the correspondence
   check and the oracle.  Directives: those of ExtrOcamlBasic only; numbers stay Coq datatypes. *)
From Coq Require Import List NArith ZArith.
Require Extraction.
Require Import ExtrOcamlBasic.
From Mos Require Import spec.LspEdits model.Utf Gen.EditsConsts model.Edits.

Extraction "../extract/gen/c17.ml"
  Z.add Z.mul Z.sub Z.opp Z.div Z.modulo Z.of_N Z.to_N
  get_text_edits gte rk_new push old_of new_of do_formatting handle_formatting handle_on_type_formatting
  apply_edits resolve_all offset_of has_cr.

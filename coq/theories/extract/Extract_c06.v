(* Extraction of the C06 model (pass loop replay, panic sites, Known_* classes) for the correspondence check.
   Directives: those of ExtrOcamlBasic only; numbers stay Coq datatypes. *)
From Coq Require Import List NArith ZArith.
Require Extraction.
Require Import ExtrOcamlBasic.
From Mos Require Import model.I64 Gen.BinOps model.Expr model.ExprParse Gen.PassLoop model.PassLoop Gen.C06Sites model.Sites.

Extraction "../extract/gen/c06.ml"
  Z.add Z.mul Z.sub Z.opp Z.div Z.modulo Z.pow Z.ltb Z.eqb Z.of_N Z.to_N Z.of_nat Z.to_nat
  all_binops apply_i64 number_value eval parse_expression ws
  replay_trace max_iterations cap_reports_diagnostic clean_needs_no_new_symbols clean_needs_no_changed_symbols
  stmt_align stmt_data stmt_pc_then_byte stmt_segment_then_byte align_padding name_from_string identifier_new loop_iterations loop_enter
  segment_emit target_pc source_map_add branch_base branch_offset pc_from_i64 import_depth macro_depth nesting_depth
  codegen_enter parser_enter prg_header spanless_clash bank_padding nested_call_of_same_function nesting_depth_limit parser_nesting_limit loop_count_limit bank_size_limit.

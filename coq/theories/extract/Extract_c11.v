(* Extraction of the C11 model (source map, listing, emission) and spec (listing rows) for the correspondence
   check and the oracle.  Directives: those of ExtrOcamlBasic only; numbers stay Coq datatypes. *)
From Coq Require Import List NArith ZArith.
Require Extraction.
Require Import ExtrOcamlBasic.
From Mos Require Import model.SourceMap model.Listing model.Emit spec.ListingSpec model.ListingFiles.

Extraction "../extract/gen/c11.ml"
  Z.add Z.mul Z.sub Z.opp Z.div Z.modulo Z.of_N Z.to_N Z.of_nat Z.to_nat N.add N.mul
  to_listing to_listing_checked width_accepted to_listing_text render_listing to_listing_file address_to_offset line_col_to_offsets move_offsets look_up_span num_lines
  run view_segments seg_new
  spec_rows spec_line row_cells Known_listing_name_collision.

(* Extraction of the formatter model (C12, C13) for the correspondence check and the oracle.
   Directives: those of ExtrOcamlBasic only; numbers stay Coq datatypes. *)
From Coq Require Import List NArith ZArith.
Require Extraction.
Require Import ExtrOcamlBasic.
From Mos Require Import model.Format Gen.FmtRules model.FormatTokens spec.FormatSpec proofs.FormatProofs.

Extraction "../extract/gen/fmt.ml"
  Z.add Z.mul Z.sub Z.opp Z.div Z.modulo Z.of_N Z.to_N Z.of_nat Z.to_nat
  join_chunks join_lines nows format_chunks format default_options
  all_comments emitted_comments tokens_comments Known_lbrace_trivia import_arg_trivia Known_same_line_statements wf_tokens
  Known_multiline_comment rechunk stable_chunks.

(* Extraction of the whole pipeline parse (model/Parser.v) -> project (model/FormatParse.v) -> format (model/FormatTokens.v,
   model/Format.v) for the correspondence check of C12/C13.  Directives: those of ExtrOcamlBasic only. *)
From Coq Require Import List NArith ZArith.
Require Extraction.
Require Import ExtrOcamlBasic.
From Mos Require Import model.Format Gen.FmtRules model.FormatParse spec.FormatSource.

Extraction "../extract/gen/fmtsrc.ml"
  Z.add Z.mul Z.sub Z.opp Z.div Z.modulo Z.of_N Z.to_N Z.of_nat Z.to_nat
  format_source source_shaped default_options.

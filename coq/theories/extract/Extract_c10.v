(* Extraction of the C10 model (model/Repro.v) and the site description read from the Rust source.
   Directives: those of ExtrOcamlBasic only. *)
From Coq Require Import List NArith ZArith.
Require Extraction.
Require Import ExtrOcamlBasic.
From Mos Require Import model.Repro Gen.ReproSites.

Extraction "../extract/gen/c10.ml"
  Z.add Z.mul Z.sub Z.opp Z.div Z.modulo Z.ltb Z.eqb Z.of_N Z.to_N Z.of_nat Z.to_nat N.add N.mul
  sites parse report_undefined to_vice_symbols write_listings import_all missing_required
  at_most_one_import_per_file ident_oracle rev_oracle rev_at_oracle fs_lookup.

(* Extraction of the parser model (C05 / C08).  Directives: those of ExtrOcamlBasic only. *)
From Coq Require Import List NArith ZArith.
Require Extraction.
Require Import ExtrOcamlBasic.
From Mos Require Import model.Utf model.Nom Gen.ParserTables model.Parser model.Display spec.LayoutEquiv.

Extraction "../extract/gen/c05.ml"
  Z.add Z.mul Z.sub Z.opp Z.div Z.modulo Z.ltb Z.eqb Z.of_N Z.to_N Z.of_nat Z.to_nat N.add N.leb
  parse render show eof_rest skeleton max_nesting_depth blen disp_BinaryOp disp_NumberType disp_AddressModifier disp_IndexRegister
  disp_DataSize disp_VariableType disp_TextEncoding.

(* Extraction of the symbol-table / analysis / rename model for the correspondence checks of C15 and C16.
   Directives: those of ExtrOcamlBasic only; numbers stay Coq datatypes. *)
From Coq Require Import List NArith ZArith Arith.
Require Extraction.
Require Import ExtrOcamlBasic.
From Mos Require Import model.SymGraph model.Analysis model.Rename spec.NavSpec spec.RenameSpec.

Extraction "../extract/gen/nav.ml"
  Z.add Z.mul Z.sub Z.opp Z.div Z.modulo Z.ltb Z.eqb Z.of_N Z.to_N N.add N.mul Z.of_nat Z.to_nat
  query_traversal_steps query last_symbol query_steps_to_path rename child parent try_index
  add_symbol_usage use_pairs run_pass find_ go_to_definition find_references document_highlight
  rename_handler rename_symbol prepare_rename Known_greedy_untaken_definition.

(* C07, whole programs, runs WITH diagnostics: expanding `.if`s with a closed condition (at any nesting depth) preserves
   every outcome of every statement -- value, diagnostics in order, context -- so the two programs run through the same
   passes also when passes report (transient) diagnostics, and end in the same result, success or failure.
   (`.loop` is excluded here on purpose: a diagnostic in an iteration ends the loop, but not a sequence of blocks.) *)
From Coq Require Import List NArith ZArith Bool PeanoNat Lia.
Import ListNotations.
From Mos Require Import model.I64 Gen.BinOps model.Expr Gen.OpcodeTable spec.Isa model.Encode.
From Mos Require Import model.SymTab Gen.CodegenConsts model.Segment model.Asm proofs.AsmProofs proofs.AsmSim proofs.AsmFuel
  proofs.ExpandProofs proofs.ExpandWhole.
Open Scope Z_scope.

(* whenever m ends without aborting, m' ends the same way (same value or same diagnostics) in a related context *)
Definition SimNA {A} (m m' : M A) : Prop :=
  forall c c', E c c' ->
  match m c with
  | Ret a d => exists d', m' c' = Ret a d' /\ E d d'
  | Err ds d => exists d', m' c' = Err ds d' /\ E d d'
  | Abort _ => True
  end.

Lemma SimNA_of_SimM {A} (m m' : M A) : SimM m m' -> SimNA m m'.
Proof.
  intros H c c' HE. specialize (H c c' HE). destruct (m c), (m' c'); cbn in H; try contradiction; auto;
  destruct H as [-> He]; eauto.
Qed.
Lemma SimNA_of_Le {A} (m m' : M A) : Le m m' -> SimM m' m' -> SimNA m m'.
Proof.
  intros HL HS c c' HE. specialize (HL c). pose proof (SimNA_of_SimM _ _ HS c c' HE) as H.
  destruct (m c) as [a d|ds d|f]; auto; rewrite HL in H; exact H.
Qed.
Lemma SimNA_bind {A B} (m m' : M A) (k k' : A -> M B) : SimNA m m' -> (forall a, SimNA (k a) (k' a)) -> SimNA (bind m k) (bind m' k').
Proof.
  intros Hm Hk c c' HE. unfold bind. specialize (Hm c c' HE). destruct (m c) as [a e|ds e|f]; auto.
  - destruct Hm as (e' & -> & He). apply Hk. exact He.
  - destruct Hm as (e' & -> & He). eauto.
Qed.
Lemma SimNA_get_bind {B} (k k' : ctx -> M B) : (forall c c', E c c' -> SimNA (k c) (k' c')) -> SimNA (bind get k) (bind get k').
Proof. intros Hk c c' HE. unfold bind, get. apply Hk; exact HE. Qed.
Lemma SimNA_finally {A} (m m' : M A) cl cl' : SimNA m m' -> SimNA cl cl' -> SimNA (finally m cl) (finally m' cl').
Proof.
  intros Hm Hc c c' HE. unfold finally. specialize (Hm c c' HE). destruct (m c) as [a e|ds e|f]; auto;
  destruct Hm as (e' & -> & He); specialize (Hc e e' He); destruct (cl e) as [u g|ds2 g|f]; auto;
  destruct Hc as (g' & -> & Hg); eauto.
Qed.
Lemma SimNA_with_scope {A} s b b' (f f' : M A) :
  match b, b' with
  | Some x, Some y => blk_lparen x = blk_lparen y /\ blk_rparen x = blk_rparen y
  | None, None => True
  | _, _ => False
  end -> SimNA f f' -> SimNA (with_scope s b f) (with_scope s b' f').
Proof.
  intros Hb Hf. unfold with_scope. apply SimNA_get_bind; intros c c' H.
  assert (HS : current_scope c = current_scope c' /\ current_scope_nx c = current_scope_nx c' /\ next_macro_scope_id c = next_macro_scope_id c') by (unfold E, core in H; inversion H; auto).
  destruct HS as (H1 & H2 & H3). rewrite H1, H2, H3.
  apply SimNA_bind; [apply SimNA_of_SimM; apply sim_modify; intros; apply core_enter; assumption|intro].
  apply SimNA_bind; [apply SimNA_of_SimM; destruct b, b'; try contradiction; [destruct Hb as [-> _]; apply sim_scope_symbol|apply sim_ret]|intro].
  apply SimNA_finally; [exact Hf|].
  apply SimNA_of_SimM. apply sim_bind; [destruct b, b'; try contradiction; [destruct Hb as [_ ->]; apply sim_scope_symbol|apply sim_ret]|intro].
  apply sim_modify. intros; apply core_leave; assumption.
Qed.
Lemma SimNA_loop_iterations body body' : (forall i, SimNA (body i) (body' i)) ->
  forall fuel i n, SimNA (loop_iterations fuel i n body) (loop_iterations (S fuel) i n body').
Proof.
  intros Hb fuel. induction fuel as [|f IH]; intros i n; rewrite (loop_iterations_eq _ i n body), (loop_iterations_eq _ i n body');
  destruct (n <=? i); try (apply SimNA_of_SimM; apply sim_ret).
  - intros c c' HE. exact I.
  - apply SimNA_bind; [apply Hb|intro; apply IH].
Qed.

(* ------------------------------------------------------------------ statement lists with their accumulated diagnostics *)
Inductive racc := RAcc (acc : list diag) (c : ctx) | RAbort (f : fault).
Fixpoint run (et : token -> M unit) (ts : list token) (acc : list diag) (c : ctx) : racc :=
  match ts with
  | [] => RAcc acc c
  | t :: r => match et t c with
              | Ret _ c' => run et r acc c'
              | Err ds c' => run et r (acc ++ ds) c'
              | Abort f => RAbort f
              end
  end.

Lemma emit_tokens_with_run et ts : forall acc c,
  emit_tokens_with et ts acc c = match run et ts acc c with
                                 | RAcc [] d => Ret tt d
                                 | RAcc (x :: a) d => Err (x :: a) d
                                 | RAbort f => Abort f
                                 end.
Proof.
  induction ts as [|t r IH]; intros acc c; cbn [emit_tokens_with run].
  - destruct acc; reflexivity.
  - destruct (et t c); auto.
Qed.
Lemma run_app et ts us : forall acc c,
  run et (ts ++ us) acc c = match run et ts acc c with RAcc a d => run et us a d | RAbort f => RAbort f end.
Proof. induction ts as [|t r IH]; intros acc c; cbn [run app]; [reflexivity|]. destruct (et t c); auto. Qed.
Lemma run_acc et ts : forall acc c,
  run et ts acc c = match run et ts [] c with RAcc a d => RAcc (acc ++ a) d | RAbort f => RAbort f end.
Proof.
  induction ts as [|t r IH]; intros acc c; cbn [run]; [rewrite app_nil_r; reflexivity|].
  destruct (et t c) as [u d|ds d|f]; auto.
  - rewrite (IH (acc ++ ds) d), (IH ([] ++ ds) d). destruct (run et r [] d); auto. cbn [app]. rewrite app_assoc. reflexivity.
Qed.

Definition racc_na (x y : racc) : Prop :=
  match x with
  | RAcc a d => exists d', y = RAcc a d' /\ E d d'
  | RAbort _ => True
  end.
Definition LNA (F : nat) (ts ts' : list token) : Prop :=
  forall acc c c', E c c' -> racc_na (run (emit_token F) ts acc c) (run (emit_token (S F)) ts' acc c').

Lemma token_mono_na F t : SimNA (emit_token F t) (emit_token (S F) t).
Proof. apply SimNA_of_Le; [apply emit_token_fuel_mono|apply sim_emit_token]. Qed.

Lemma LNA_mono F ts : forall acc c c', E c c' -> racc_na (run (emit_token F) ts acc c) (run (emit_token (S F)) ts acc c').
Proof.
  induction ts as [|t r IH]; intros acc c c' HE; cbn [run]; [cbn; eauto|].
  pose proof (token_mono_na F t c c' HE) as H. destruct (emit_token F t c) as [u d|ds d|f]; [| |exact I].
  - destruct H as (d' & -> & Hd). apply IH. exact Hd.
  - destruct H as (d' & -> & Hd). apply IH. exact Hd.
Qed.
Lemma LNA_refl F ts : LNA F ts ts.
Proof. intros acc c c' HE. apply LNA_mono. exact HE. Qed.

Lemma LNA_app F ts ts' us us' : LNA F ts ts' -> LNA F us us' -> LNA F (ts ++ us) (ts' ++ us').
Proof.
  intros H1 H2 acc c c' HE. rewrite !run_app. specialize (H1 acc c c' HE).
  destruct (run (emit_token F) ts acc c) as [a d|f]; [|exact I]. destruct H1 as (d' & -> & Hd). apply H2. exact Hd.
Qed.
Lemma LNA_single F t t' : SimNA (emit_token F t) (emit_token (S F) t') -> LNA F [t] [t'].
Proof.
  intros H acc c c' HE. cbn [run]. specialize (H c c' HE). destruct (emit_token F t c) as [u d|ds d|f]; [| |exact I];
  destruct H as (d' & -> & Hd); cbn; eauto.
Qed.
Lemma LNA_cons F t t' ts ts' : SimNA (emit_token F t) (emit_token (S F) t') -> LNA F ts ts' -> LNA F (t :: ts) (t' :: ts').
Proof. intros H1 H2. apply (LNA_app F [t] [t'] ts ts'); [apply LNA_single; exact H1|exact H2]. Qed.

Lemma LNA_emit_tokens F ts ts' : LNA F ts ts' -> SimNA (emit_tokens (emit_token F) ts) (emit_tokens (emit_token (S F)) ts').
Proof.
  intros H c c' HE. unfold emit_tokens. rewrite !emit_tokens_with_run. specialize (H [] c c' HE).
  destruct (run (emit_token F) ts [] c) as [a d|f]; [|exact I]. destruct H as (d' & -> & Hd). destruct a; eauto.
Qed.

(* one more unit of fuel on the right *)
Lemma LNA_up F ts ts' : LNA F ts ts' -> forall acc c c', E c c' ->
  racc_na (run (emit_token F) ts acc c) (run (emit_token (S (S F))) ts' acc c').
Proof.
  intros H acc c c' HE. specialize (H acc c c' HE). destruct (run (emit_token F) ts acc c) as [a d|f]; [|exact I].
  destruct H as (d1 & H1 & E1). pose proof (LNA_mono (S F) ts' acc c' c' (E_refl c')) as H2. rewrite H1 in H2.
  destruct H2 as (d2 & H2 & E2). exists d2. split; [exact H2|eapply E_trans; eauto].
Qed.

(* ------------------------------------------------------------------ expansion of closed `.if`s *)
Inductive XpI : list token -> list token -> Prop :=
  | XpI_nil : XpI [] []
  | XpI_keep t ts ts' : XpI ts ts' -> XpI (t :: ts) (t :: ts')
  | XpI_if v x a b br' ts ts' :
      closed_value v x -> XpI (selected x a b) br' -> XpI ts ts' -> XpI (TIf v a b :: ts) (br' ++ ts')
  | XpI_braces sc lp rp body body' ts ts' :
      XpI body body' -> XpI ts ts' -> XpI (TBraces sc (Blk lp rp body) :: ts) (TBraces sc (Blk lp rp body') :: ts')
  | XpI_label id isp lp rp body body' ts ts' :
      XpI body body' -> XpI ts ts' -> XpI (TLabel id isp (Some (Blk lp rp body)) :: ts) (TLabel id isp (Some (Blk lp rp body')) :: ts')
  | XpI_loop_kept e lsc lp rp body body' ts ts' :
      XpI body body' -> XpI ts ts' -> XpI (TLoop e lsc (Blk lp rp body) :: ts) (TLoop e lsc (Blk lp rp body') :: ts')
  | XpI_segment id lp rp body body' ts ts' :
      XpI body body' -> XpI ts ts' -> XpI (TSegment id (Some (Blk lp rp body)) :: ts) (TSegment id (Some (Blk lp rp body')) :: ts').

Theorem xpi_na ts ts' : XpI ts ts' -> forall F, LNA F ts ts'.
Proof.
  induction 1 as [ |t ts ts' X IH
                   |v x a b br' ts ts' CV Xb IHb X IH
                   |sc lp rp body body' ts ts' Xb IHb X IH
                   |id isp lp rp body body' ts ts' Xb IHb X IH
                   |e lsc lp rp body body' ts ts' Xb IHb X IH
                   |id lp rp body body' ts ts' Xb IHb X IH]; intro F.
  - apply LNA_refl.
  - apply LNA_cons; [apply token_mono_na|apply IH].
  - (* .if with a closed condition: the token's outcome is the outcome of the selected statements *)
    intros acc c c' HE. cbn [run]. destruct F as [|f]; [exact I|]. rewrite if_meaning.
    destruct (eval_closed_i64 v x c CV) as [[ev Ev]|Ev]; rewrite Ev; [|exact I].
    unfold emit_tokens. rewrite emit_tokens_with_run.
    pose proof (LNA_up f _ _ (IHb f) acc (log c ev) c' (E_log _ _ ev HE)) as HB.
    rewrite (run_acc (emit_token f) (selected x a b) acc) in HB. rewrite run_app.
    destruct (run (emit_token f) (selected x a b) [] (log c ev)) as [a0 d|fl]; [|exact I].
    destruct HB as (d' & -> & Hd). destruct a0 as [|y a0].
    + rewrite app_nil_r. apply (IH (S f)). exact Hd.
    + apply (IH (S f)). exact Hd.
  - apply LNA_cons; [|apply IH]. destruct F as [|f]; [intros c0 c0' HE0; exact I|].
    cbn [emit_token emit_token_body blk_inner].
    change (fun t : token => emit_token_body (emit_token f) f t) with (emit_token (S f)).
    apply SimNA_with_scope; [cbn; auto|]. apply LNA_emit_tokens. apply IHb.
  - apply LNA_cons; [|apply IH]. destruct F as [|f]; [intros c0 c0' HE0; exact I|].
    cbn [emit_token emit_token_body blk_inner].
    change (fun t : token => emit_token_body (emit_token f) f t) with (emit_token (S f)).
    apply SimNA_bind; [apply SimNA_of_SimM; apply sim_current_target_pc|intros pc].
    apply SimNA_bind.
    + apply SimNA_of_SimM. destruct pc; [|apply sim_ret]. apply sim_get_bind; intros x x' HX. rewrite (symbol_core _ _ _ _ _ HX).
      apply sim_bind; [apply sim_add_symbol|intro; apply sim_ret].
    + intro. apply SimNA_with_scope; [cbn; auto|]. apply LNA_emit_tokens. apply IHb.
  - apply LNA_cons; [|apply IH]. destruct F as [|f]; [intros c0 c0' HE0; exact I|].
    cbn [emit_token emit_token_body blk_inner blk_lparen blk_rparen].
    change (fun t : token => emit_token_body (emit_token f) f t) with (emit_token (S f)).
    apply SimNA_bind; [apply SimNA_of_SimM; apply sim_eval_i64|intros x]. destruct x; [|apply SimNA_of_SimM; apply sim_ret].
    destruct (loop_iteration_limit <? z); [apply SimNA_of_SimM; apply sim_abort|].
    apply SimNA_loop_iterations. intro i. apply SimNA_with_scope; [cbn; auto|].
    apply SimNA_get_bind; intros x x' HX. rewrite (symbol_core _ _ _ _ _ HX).
    apply SimNA_bind; [apply SimNA_of_SimM; apply sim_add_symbol|intro]. apply LNA_emit_tokens. apply IHb.
  - apply LNA_cons; [|apply IH]. destruct F as [|f]; [intros c0 c0' HE0; exact I|].
    cbn [emit_token emit_token_body blk_inner].
    change (fun t : token => emit_token_body (emit_token f) f t) with (emit_token (S f)).
    apply SimNA_bind; [apply SimNA_of_SimM; apply sim_eval_string|intros s]. destruct s; [|apply SimNA_of_SimM; apply sim_ret].
    destruct (existsb (N.eqb 46) t); [apply SimNA_of_SimM; apply sim_fail|].
    apply SimNA_get_bind; intros x x' HX.
    assert (HS : segments x = segments x' /\ current_segment x = current_segment x') by (unfold E, core in HX; inversion HX; auto).
    destruct HS as [H1 H2]. rewrite H1, H2.
    destruct (seg_get (segments x') t); [|apply SimNA_of_SimM; apply sim_fail].
    apply SimNA_bind; [apply SimNA_of_SimM; apply sim_modify; intros; apply core_select; assumption|intro].
    apply SimNA_finally; [apply LNA_emit_tokens; apply IHb|].
    apply SimNA_of_SimM. apply sim_modify. intros; apply core_select; assumption.
Qed.

(* ------------------------------------------------------------------ passes and the complete pass loop *)
Definition pass_na (x y : pass_out) : Prop :=
  match x with
  | PassOk e c => exists c', y = PassOk e c' /\ E c c'
  | PassAbort _ => True
  end.

Lemma run_pass_na F p p' : LNA F p p' -> forall c c', E c c' -> pass_na (run_pass F p c) (run_pass (S F) p' c').
Proof.
  intros H c c' HE. unfold run_pass.
  pose proof (LNA_emit_tokens F p p' H c c' HE) as H1. unfold emit_tokens in *.
  destruct (emit_tokens_with (emit_token F) p [] c) as [u d|ds d|f]; [| |exact I]; destruct H1 as (d' & -> & Hd);
  pose proof (SimNA_of_SimM _ _ sim_after_pass d d' Hd) as H2; destruct (after_pass d) as [u2 g|ds2 g|f2]; try exact I;
  destruct H2 as (g' & -> & Hg); exists g'; (split; [reflexivity|exact Hg]).
Qed.

Definition result_na (x y : result) : Prop :=
  match x with
  | Done c => exists c', y = Done c' /\ E c c'
  | Failed e c => exists c', y = Failed e c' /\ E c c'
  | Aborted _ => True
  end.

Lemma pass_loop_na F p p' : LNA F p p' -> forall passes o c c' pu pe, E c c' ->
  result_na (pass_loop passes F o p c pu pe) (pass_loop passes (S F) o p' c' pu pe).
Proof.
  intros HL passes. induction passes as [|n IH]; intros o c c' pu pe HE; cbn [pass_loop].
  - cbn. eauto.
  - pose proof (run_pass_na F p p' HL c c' HE) as HP. destruct (run_pass F p c) as [errors c1|f]; [|exact I].
    destruct HP as (c1' & -> & E1).
    assert (HC : node_count (symbols c1) = node_count (symbols c1') /\ node_count (symbols c) = node_count (symbols c') /\
                 segments c1 = segments c1' /\ undefined c1 = undefined c1' /\ changed c1 = changed c1').
    { unfold E, core in *. inversion HE. inversion E1. repeat split; congruence. }
    destruct HC as (N1 & N0 & SG & UN & CH). rewrite <- N1, <- N0, <- SG, <- UN, <- CH.
    destruct (segments c1) as [|sg sgs].
    + apply IH. apply E_next_pass. apply E_set_segments. exact E1.
    + destruct ((match errors with [] => false | _ :: _ => true end) && diags_eqb errors pe); [cbn; eauto|].
      destruct errors as [|e0 es].
      * destruct ((match undefined c1 with [] => true | _ :: _ => false end) && (match changed c1 with [] => true | _ :: _ => false end)
                  && (negb stop_needs_no_new_symbols || negb (negb (Nat.eqb (node_count (symbols c1)) (node_count (symbols c)))))); [cbn; eauto|].
        destruct ((negb unknown_needs_nonempty || negb (match undefined c1 with [] => true | _ :: _ => false end)) && set_eqb (undefined c1) pu); [cbn; eauto|].
        apply IH. apply E_next_pass. apply E_set_undefined. exact E1.
      * apply IH. apply E_next_pass. exact E1.
Qed.

(* C07, whole programs with diagnostics: whatever the original program's assembly ends in -- success or a list of
   diagnostics, after any number of passes with or without transient diagnostics -- the program with its closed `.if`s
   expanded ends in the same, with the same symbol table and segment images *)
Theorem whole_program_if p p' passes F o :
  XpI p p' -> result_na (codegen passes F o p) (codegen passes (S F) o p').
Proof. intro X. unfold codegen. apply pass_loop_na; [apply xpi_na; exact X|apply E_refl]. Qed.

Corollary whole_program_if_done p p' passes F o cf :
  XpI p p' -> codegen passes F o p = Done cf ->
  exists cf', codegen passes (S F) o p' = Done cf' /\ segment_image cf = segment_image cf' /\ symbols cf = symbols cf'.
Proof.
  intros X H. pose proof (whole_program_if p p' passes F o X) as R. rewrite H in R. destruct R as (cf' & H' & HE).
  exists cf'. split; [exact H'|]. unfold E, core in HE. inversion HE. unfold segment_image. split; congruence.
Qed.

Theorem whole_program_if_result : forall p p' passes F o,
  XpI p p' ->
  match codegen passes F o p with
  | Done cf => exists cf', codegen passes (S F) o p' = Done cf' /\ E cf cf' /\ segment_image cf = segment_image cf' /\ symbols cf = symbols cf'
  | Failed errs cf => exists cf', codegen passes (S F) o p' = Failed errs cf' /\ E cf cf'
  | Aborted _ => True
  end.
Proof.
  intros p p' passes F o X. pose proof (whole_program_if p p' passes F o X) as R.
  destruct (codegen passes F o p) as [cf|errs cf|f]; [|exact R|exact I].
  destruct R as (cf' & H' & HE). exists cf'. split; [exact H'|]. split; [exact HE|].
  unfold E, core in HE. inversion HE. unfold segment_image. split; congruence.
Qed.

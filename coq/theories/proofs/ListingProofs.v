(* Proofs for C11 (source map, listing). *)
From Coq Require Import List NArith ZArith Bool Arith Lia Permutation.
Import ListNotations.
From Mos Require Import model.SourceMap model.Listing spec.ListingSpec.
Open Scope Z_scope.

(* ------------------------------------------------------------------ move_offsets *)
Lemma move_offsets_exact : forall sm appended scope sp,
  move_offsets (sm ++ appended) (length sm) scope sp = sm ++ map (retarget scope sp) appended.
Proof.
  intros. unfold move_offsets.
  rewrite firstn_app, Nat.sub_diag, firstn_all. cbn [firstn]. rewrite app_nil_r.
  rewrite skipn_app, Nat.sub_diag, skipn_all. reflexivity.
Qed.

Lemma retarget_keeps_bytes : forall scope sp o,
  o_pc0 (retarget scope sp o) = o_pc0 o /\ o_pc1 (retarget scope sp o) = o_pc1 o /\
  o_segment (retarget scope sp o) = o_segment o /\
  o_scope (retarget scope sp o) = scope /\ o_span (retarget scope sp o) = sp.
Proof. intros. cbn. repeat split. Qed.

(* Proofs for C11 (source map, listing). *)
From Coq Require Import List NArith ZArith Bool Arith Lia Permutation.
Import ListNotations.
From Mos Require Import model.SourceMap model.Listing spec.ListingSpec.
Open Scope Z_scope.

(* ------------------------------------------------------------------ move_offsets *)
Lemma move_offsets_exact : forall sm appended scope sp,
  move_offsets (sm ++ appended) (length sm) scope sp = sm ++ map (retarget scope sp) appended.
Proof.
  intros. unfold move_offsets.
  rewrite firstn_app, Nat.sub_diag, firstn_all. cbn [firstn]. rewrite app_nil_r.
  rewrite skipn_app, Nat.sub_diag, skipn_all. reflexivity.
Qed.

Lemma retarget_keeps_bytes : forall scope sp o,
  o_pc0 (retarget scope sp o) = o_pc0 o /\ o_pc1 (retarget scope sp o) = o_pc1 o /\
  o_segment (retarget scope sp o) = o_segment o /\
  o_scope (retarget scope sp o) = scope /\ o_span (retarget scope sp o) = sp.
Proof. intros. cbn. repeat split. Qed.

(* ------------------------------------------------------------------ monadic helpers *)
Lemma filterM_ok : forall {A} (p : A -> res bool) (q : A -> bool) l,
  (forall x, In x l -> p x = Ok (q x)) -> filterM p l = Ok (filter q l).
Proof.
  induction l as [|x r IH]; intros H; cbn [filterM filter]; [reflexivity|].
  rewrite (H x (or_introl eq_refl)). cbn [bind]. rewrite IH by (intros; apply H; right; assumption).
  cbn [bind]. destruct (q x); reflexivity.
Qed.

Lemma mapM_ok : forall {A B} (f : A -> res B) (g : A -> B) l,
  (forall x, In x l -> f x = Ok (g x)) -> mapM f l = Ok (map g l).
Proof.
  induction l as [|x r IH]; intros H; cbn [mapM map]; [reflexivity|].
  rewrite (H x (or_introl eq_refl)). cbn [bind]. rewrite IH by (intros; apply H; right; assumption).
  reflexivity.
Qed.

(* ------------------------------------------------------------------ runs: recursive characterisation *)
Fixpoint span_run (a : Z) (cs : list cell) : list cell * list cell :=
  match cs with
  | c :: r => if fst c =? a then let (p, q) := span_run (a + 1) r in (c :: p, q) else ([], cs)
  | [] => ([], [])
  end.

Lemma span_run_app : forall cs a p q, span_run a cs = (p, q) -> cs = p ++ q.
Proof.
  induction cs as [|c r IH]; intros a p q H; cbn [span_run] in H.
  - inversion H. reflexivity.
  - destruct (fst c =? a).
    + destruct (span_run (a + 1) r) as [p' q'] eqn:E. inversion H; subst. cbn. f_equal. eapply IH; eauto.
    + inversion H. reflexivity.
Qed.

Fixpoint runs_rec (fuel : nat) (cs : list cell) : list (list cell) :=
  match fuel with
  | O => []
  | S f => match cs with
           | [] => []
           | c :: r => let (p, q) := span_run (fst c + 1) r in (c :: p) :: runs_rec f q
           end
  end.

Lemma runs_rec_fuel : forall f1 f2 cs, (length cs <= f1)%nat -> (length cs <= f2)%nat -> runs_rec f1 cs = runs_rec f2 cs.
Proof.
  induction f1 as [|f1 IH]; intros f2 cs H1 H2.
  - destruct cs; [|cbn in H1; lia]. destruct f2; reflexivity.
  - destruct cs as [|c r]; [destruct f2; reflexivity|].
    destruct f2 as [|f2]; [cbn in H2; lia|].
    cbn [runs_rec]. destruct (span_run (fst c + 1) r) as [p q] eqn:E.
    apply span_run_app in E. f_equal. apply IH; subst r; cbn in *; rewrite app_length in *; lia.
Qed.

Lemma last_opt_snoc : forall {A} (l : list A) x, last_opt (l ++ [x]) = Some x.
Proof. intros. unfold last_opt. rewrite rev_app_distr. reflexivity. Qed.

Lemma fold_push : forall cs rs run c0,
  fold_left push_cell cs (rs ++ [run ++ [c0]]) =
  let (p, q) := span_run (fst c0 + 1) cs in (rs ++ [run ++ [c0] ++ p]) ++ runs_rec (length q) q.
Proof.
  induction cs as [|c r IH]; intros rs run c0.
  - cbn. rewrite !app_nil_r. reflexivity.
  - cbn [fold_left span_run].
    unfold push_cell at 2. rewrite last_opt_snoc, last_opt_snoc. destruct c0 as [la lb]. cbn [fst].
    rewrite Z.eqb_sym. destruct (fst c =? la + 1) eqn:E.
    + rewrite removelast_last. specialize (IH rs (run ++ [(la, lb)]) c).
      apply Z.eqb_eq in E. rewrite E in IH.
      etransitivity; [exact IH|]. destruct (span_run (la + 1 + 1) r) as [p q].
      rewrite <- !app_assoc. reflexivity.
    + specialize (IH (rs ++ [run ++ [(la, lb)]]) [] c). cbn [app] in IH. etransitivity; [exact IH|].
      destruct (span_run (fst c + 1) r) as [p q] eqn:E2.
      rewrite app_nil_r. rewrite <- app_assoc. f_equal. cbn [length runs_rec app]. rewrite E2.
      cbn [app]. f_equal. apply runs_rec_fuel; [lia|].
      apply span_run_app in E2. subst r. rewrite app_length. lia.
Qed.

Lemma runs_eq : forall cs, runs cs = runs_rec (length cs) cs.
Proof.
  intros [|c r]; [reflexivity|].
  unfold runs. cbn [fold_left]. unfold push_cell at 2. cbn [last_opt rev].
  pose proof (fold_push r [] [] c) as H. cbn [app] in H. cbn [app]. etransitivity; [exact H|].
  cbn [length runs_rec]. destruct (span_run (fst c + 1) r) as [p q] eqn:E.
  cbn [app]. f_equal. apply runs_rec_fuel; [lia|]. apply span_run_app in E. subst r. rewrite app_length. lia.
Qed.
(* ------------------------------------------------------------------ pack = chunks of runs *)
Fixpoint consec (a : Z) (cs : list cell) : Prop :=
  match cs with [] => True | c :: r => fst c = a /\ consec (a + 1) r end.
Definition stops (a : Z) (q : list cell) : Prop := match q with [] => True | c :: _ => fst c <> a end.

Lemma span_run_spec : forall cs a p q, span_run a cs = (p, q) -> consec a p /\ stops (a + Z.of_nat (length p)) q.
Proof.
  induction cs as [|c r IH]; intros a p q H; cbn [span_run] in H.
  - inversion H. cbn. auto.
  - destruct (fst c =? a) eqn:E.
    + destruct (span_run (a + 1) r) as [p' q'] eqn:E2. inversion H; subst. apply IH in E2. destruct E2 as [C St].
      apply Z.eqb_eq in E. split; [cbn; auto|]. cbn [length]. replace (a + Z.of_nat (S (length p'))) with (a + 1 + Z.of_nat (length p')) by lia. exact St.
    + inversion H; subst. apply Z.eqb_neq in E. cbn. split; [auto|]. rewrite Z.add_0_r. exact E.
Qed.

Lemma take_run_consec : forall k R a q, consec a R -> stops (a + Z.of_nat (length R)) q ->
  take_run k a (R ++ q) = (firstn k R, skipn k R ++ q).
Proof.
  induction k as [|k IH]; intros R a q C St.
  - cbn [firstn skipn]. destruct (R ++ q); reflexivity.
  - destruct R as [|c R'].
    + cbn [app firstn skipn]. destruct q as [|[a' b] q']; [reflexivity|].
      cbn in St. rewrite Z.add_0_r in St. cbn [take_run]. apply Z.eqb_neq in St. cbn [fst] in St. rewrite St. reflexivity.
    + destruct c as [a' b]. cbn in C. destruct C as [E C]. subst a'. cbn [app take_run]. rewrite Z.eqb_refl.
      rewrite (IH R' (a + 1) q C); [reflexivity|].
      cbn [length] in St. replace (a + 1 + Z.of_nat (length R')) with (a + Z.of_nat (S (length R'))) by lia. exact St.
Qed.

Lemma take_run_app : forall k cs a p q, take_run k a cs = (p, q) -> cs = p ++ q.
Proof.
  induction k as [|k IH]; intros cs a p q H.
  - destruct cs; inversion H; reflexivity.
  - destruct cs as [|[a' b] r]; [inversion H; reflexivity|]. cbn [take_run] in H.
    destruct (a' =? a).
    + destruct (take_run k (a + 1) r) as [p' q'] eqn:E. inversion H; subst. cbn. f_equal. eapply IH; eauto.
    + inversion H; reflexivity.
Qed.

Lemma pack_fuel : forall n f1 f2 cs, (0 < n)%nat -> (length cs <= f1)%nat -> (length cs <= f2)%nat -> pack f1 n cs = pack f2 n cs.
Proof.
  intros n f1. induction f1 as [|f1 IH]; intros f2 cs Hn H1 H2.
  - destruct cs; [|cbn in H1; lia]. destruct f2; reflexivity.
  - destruct cs as [|[a b] r]; [destruct f2; reflexivity|].
    destruct f2 as [|f2]; [cbn in H2; lia|].
    cbn [pack]. destruct n as [|n']; [lia|]. cbn [take_run]. rewrite Z.eqb_refl.
    destruct (take_run n' (a + 1) r) as [p q] eqn:E. f_equal.
    apply take_run_app in E. apply IH; [lia| |]; subst r; cbn in *; rewrite app_length in *; lia.
Qed.

Lemma chunks_fuel_irrel : forall {A} n f1 f2 (l : list A), (0 < n)%nat -> (length l <= f1)%nat -> (length l <= f2)%nat ->
  chunks_fuel f1 n l = chunks_fuel f2 n l.
Proof.
  intros A n f1. induction f1 as [|f1 IH]; intros f2 l Hn H1 H2.
  - destruct l; [|cbn in H1; lia]. destruct f2; reflexivity.
  - destruct l as [|x r]; [destruct f2; reflexivity|].
    destruct f2 as [|f2]; [cbn in H2; lia|].
    cbn [chunks_fuel]. f_equal. pose proof (skipn_length n (x :: r)) as L. cbn [length] in *.
    apply IH; [assumption| |]; lia.
Qed.

Lemma chunks_cons : forall {A} n (l : list A), (0 < n)%nat -> l <> [] -> chunks n l = firstn n l :: chunks n (skipn n l).
Proof.
  intros A n l Hn Hl. unfold chunks. destruct l as [|x r]; [congruence|].
  cbn [length chunks_fuel]. f_equal. pose proof (skipn_length n (x :: r)) as L. cbn [length] in L.
  apply chunks_fuel_irrel; [assumption| |]; lia.
Qed.

Lemma consec_skipn : forall k R a, consec a R -> consec (a + Z.of_nat k) (skipn k R).
Proof.
  induction k as [|k IH]; intros R a C.
  - cbn. rewrite Z.add_0_r. exact C.
  - destruct R as [|c R']; [exact I|]. cbn [skipn]. destruct C as [_ C]. apply (IH R' (a + 1)) in C.
    replace (a + Z.of_nat (S k)) with (a + 1 + Z.of_nat k) by lia. exact C.
Qed.

Lemma pack_step : forall f n R a q, R <> [] -> consec a R ->
  pack (S f) n (R ++ q) = (let (p, q0) := take_run n a (R ++ q) in p :: pack f n q0).
Proof.
  intros f n R a q HR C. destruct R as [|[a0 b] R']; [congruence|]. destruct C as [E _]. cbn in E. subst a0. reflexivity.
Qed.

Lemma pack_run : forall n m R a q fuel, (0 < n)%nat -> (length R <= m)%nat -> R <> [] -> consec a R ->
  stops (a + Z.of_nat (length R)) q -> (length (R ++ q) <= fuel)%nat ->
  pack fuel n (R ++ q) = chunks n R ++ pack (length q) n q.
Proof.
  intros n m. induction m as [|m IH]; intros R a q fuel Hn Hm HR C St Hf.
  - destruct R; [congruence|cbn in Hm; lia].
  - destruct fuel as [|f]; [destruct R; [congruence|cbn in Hf; lia]|].
    rewrite (pack_step f n R a q HR C), (take_run_consec n R a q C St).
    rewrite chunks_cons by assumption. cbn [app]. f_equal.
    assert (HRl : (0 < length R)%nat) by (destruct R; [congruence|cbn; lia]).
    rewrite app_length in Hf.
    destruct (skipn n R) as [|c' R2] eqn:ES.
    + cbn [app]. unfold chunks. cbn. apply pack_fuel; [assumption|lia|lia].
    + rewrite <- ES. pose proof (skipn_length n R) as L. rewrite ES in L. cbn [length] in L.
      apply (IH (skipn n R) (a + Z.of_nat n) q f); try assumption.
      * rewrite ES. cbn [length]. lia.
      * rewrite ES. congruence.
      * apply consec_skipn. exact C.
      * rewrite skipn_length. replace (a + Z.of_nat n + Z.of_nat (length R - n)) with (a + Z.of_nat (length R)) by lia. exact St.
      * rewrite app_length, skipn_length. lia.
Qed.

Lemma runs_pack : forall n fuel cs, (0 < n)%nat -> (length cs <= fuel)%nat ->
  flat_map (chunks n) (runs_rec fuel cs) = pack fuel n cs.
Proof.
  intros n fuel. induction fuel as [|f IH]; intros cs Hn Hl.
  - reflexivity.
  - destruct cs as [|c r]; [reflexivity|].
    cbn [runs_rec]. destruct (span_run (fst c + 1) r) as [p q] eqn:E.
    pose proof (span_run_app _ _ _ _ E) as Er. pose proof (span_run_spec _ _ _ _ E) as [C St].
    cbn [flat_map]. subst r.
    assert (Hq : (length q <= f)%nat) by (cbn [length] in Hl; rewrite app_length in Hl; lia).
    rewrite IH by assumption.
    change (c :: p ++ q) with ((c :: p) ++ q).
    rewrite (pack_run n (length (c :: p)) (c :: p) (fst c) q (S f)); try assumption; try congruence; try lia.
    + f_equal. apply pack_fuel; [assumption|lia|lia].
    + cbn. auto.
    + cbn [length]. replace (fst c + Z.of_nat (S (length p))) with (fst c + 1 + Z.of_nat (length p)) by lia. exact St.
Qed.

Lemma model_rows_pack : forall n cs, (0 < n)%nat -> flat_map (chunks n) (runs cs) = pack (length cs) n cs.
Proof. intros. rewrite runs_eq. apply runs_pack; [assumption|lia]. Qed.
(* ------------------------------------------------------------------ line table: find_line = number of line feeds before the position *)
Lemma line_starts_gt : forall src b l, In l (line_starts src b) -> b < l.
Proof.
  induction src as [|c r IH]; intros b l H; cbn [line_starts] in H; [contradiction|].
  destruct (N.eqb c 10).
  - destruct H as [H|H]; [lia|]. apply IH in H. lia.
  - apply IH in H. lia.
Qed.

Lemma filter_none : forall {A} (p : A -> bool) l, (forall x, In x l -> p x = false) -> filter p l = [].
Proof.
  induction l as [|x r IH]; intros H; [reflexivity|]. cbn. rewrite (H x (or_introl eq_refl)). apply IH. intros; apply H; right; assumption.
Qed.

Lemma line_count : forall src base pos, base <= pos ->
  length (filter (fun l => l <=? pos) (line_starts src base)) =
  length (filter (N.eqb 10) (firstn (Z.to_nat (pos - base)) src)).
Proof.
  induction src as [|c r IH]; intros base pos H.
  - rewrite firstn_nil. reflexivity.
  - destruct (Z.eq_dec pos base) as [E|E].
    + subst pos. rewrite Z.sub_diag. cbn [Z.to_nat firstn filter length].
      rewrite filter_none; [reflexivity|]. intros l Hl. apply line_starts_gt in Hl. apply Z.leb_gt. exact Hl.
    + assert (Hk : Z.to_nat (pos - base) = S (Z.to_nat (pos - (base + 1)))) by lia.
      rewrite Hk. cbn [firstn line_starts filter]. rewrite (N.eqb_sym 10 c).
      destruct (N.eqb c 10).
      * cbn [filter]. replace (base + 1 <=? pos) with true by (symmetry; apply Z.leb_le; lia).
        cbn [length]. f_equal. apply IH. lia.
      * apply IH. lia.
Qed.

Lemma find_line_spec : forall f pos, 0 <= pos -> find_line_tbl (lines f) pos = spec_line (f_src f) pos.
Proof.
  intros f pos H. unfold find_line_tbl, lines, spec_line. cbn [filter].
  replace (0 <=? pos) with true by (symmetry; apply Z.leb_le; lia). cbn [length Nat.pred].
  rewrite line_count by lia. rewrite Z.sub_0_r. reflexivity.
Qed.

Lemma find_file_name : forall cm n f, find_file cm n = Ok f -> f_name f = n.
Proof.
  induction cm as [|g r IH]; intros n f H; cbn [find_file] in H; [discriminate|].
  destruct (N.eqb (f_name g) n) eqn:E; [inversion H; subst; apply N.eqb_eq; exact E|apply IH; exact H].
Qed.

(* look_up_span of a span inside a file of the code map *)
Lemma look_up_span_ok : forall cm s, span_ok cm s ->
  exists sl, look_up_span cm s = Ok sl /\ sl_file sl = sp_file s /\
             lc_line (sl_begin sl) = spec_line (src_of cm (sp_file s)) (sp_lo s).
Proof.
  intros cm s [f [Hf [Hlo Hhi]]]. unfold look_up_span. rewrite Hf. cbn [bind].
  unfold find_line_col, find_line.
  replace ((0 <=? sp_lo s) && (sp_lo s <=? file_len f)) with true by (symmetry; apply andb_true_iff; split; apply Z.leb_le; lia).
  replace ((0 <=? sp_hi s) && (sp_hi s <=? file_len f)) with true by (symmetry; apply andb_true_iff; split; apply Z.leb_le; lia).
  cbn [bind]. eexists. split; [reflexivity|]. cbn [sl_file sl_begin lc_line]. split.
  - apply find_file_name in Hf. exact Hf.
  - unfold src_of. rewrite Hf. apply find_line_spec. lia.
Qed.

(* ------------------------------------------------------------------ bytes of an entry *)
Lemma skipn_cons_nth : forall {A} n (l : list A) x t, skipn n l = x :: t -> nth_error l n = Some x /\ skipn (S n) l = t.
Proof.
  induction n as [|n IH]; intros l x t H.
  - destruct l; cbn in H; [discriminate|]. inversion H; subst. split; reflexivity.
  - destruct l as [|y r]; [cbn in H; discriminate|]. cbn [skipn] in H. apply IH in H. exact H.
Qed.

Lemma read_cells_slice : forall bs data start pc,
  slice data start (length bs) = bs -> read_cells data start pc (length bs) = Ok (cells_from pc bs).
Proof.
  induction bs as [|b r IH]; intros data start pc H; [reflexivity|].
  unfold slice in H. cbn [length] in H.
  destruct (skipn start data) as [|x t] eqn:E; [cbn in H; discriminate|].
  cbn [firstn] in H. injection H as Hx Ht. subst x. apply skipn_cons_nth in E. destruct E as [E1 E2].
  cbn [length read_cells cells_from]. rewrite E1.
  rewrite (IH data (S start) (pc + 1)); [reflexivity|]. unfold slice. rewrite E2. assumption.
Qed.

Lemma offset_cells_ok : forall segs o bs, entry_ok segs o bs -> offset_cells segs o = Ok (cells_from (o_pc0 o) bs).
Proof.
  intros segs o bs [Hpc Hseg]. unfold offset_cells.
  destruct bs as [|b r].
  - cbn [length Z.of_nat] in Hpc. rewrite Z.add_0_r in Hpc. rewrite Hpc, Z.sub_diag. cbn [Z.to_nat cells_from].
    destruct (get_segment segs (o_segment o)); [|reflexivity].
    destruct ((ls_lo l <=? o_pc0 o - ls_toff l) && (ls_hi l >=? o_pc0 o - ls_toff l)); reflexivity.
  - destruct Hseg as [seg [Hg [Hlo [Hhi Hs]]]]; [discriminate|]. rewrite Hg.
    replace ((ls_lo seg <=? o_pc0 o - ls_toff seg) && (ls_hi seg >=? o_pc1 o - ls_toff seg)) with true
      by (symmetry; apply andb_true_iff; split; [apply Z.leb_le|apply Z.geb_le]; lia).
    replace (Z.to_nat (o_pc1 o - o_pc0 o)) with (length (b :: r)) by lia.
    replace (o_pc0 o - ls_toff seg - ls_lo seg) with (o_pc0 o - ls_toff seg - ls_lo seg) in Hs by reflexivity.
    apply read_cells_slice. exact Hs.
Qed.

(* ------------------------------------------------------------------ one line *)
Definition sel (cm : code_map) (name : N) (line : nat) (e : offset * list N) : bool :=
  on_line name line (emission_of cm e).

Lemma mapM_cells : forall segs (q : offset -> bool) es, wf_emission segs es ->
  mapM (offset_cells segs) (filter q (map fst es)) =
  Ok (map (fun e => cells_from (o_pc0 (fst e)) (snd e)) (filter (fun e => q (fst e)) es)).
Proof.
  induction es as [|e r IH]; intros W; [reflexivity|].
  inversion W as [|? ? He Wr]; subst. cbn [map filter]. destruct (q (fst e)).
  - cbn [mapM map]. rewrite (offset_cells_ok _ _ _ He). cbn [bind]. rewrite IH by assumption. reflexivity.
  - apply IH. assumption.
Qed.

Lemma filter_filter : forall {A} (p q : A -> bool) l, filter p (filter q l) = filter (fun x => q x && p x) l.
Proof.
  induction l as [|x r IH]; [reflexivity|]. cbn [filter]. destruct (q x); cbn [filter andb]; [destruct (p x)|]; rewrite IH; reflexivity.
Qed.

Lemma cells_emissions : forall cm name line es,
  concat (map (fun e => cells_from (o_pc0 (fst e)) (snd e)) (filter (fun e => on_line name line (emission_of cm e)) es)) =
  flat_map em_cells (filter (on_line name line) (map (emission_of cm) es)).
Proof.
  induction es as [|e r IH]; [reflexivity|].
  cbn [filter map]. destruct (on_line name line (emission_of cm e)).
  - cbn [map concat flat_map]. rewrite IH. reflexivity.
  - exact IH.
Qed.

Lemma line_data_ok : forall cm segs es name line, wf_emission segs es -> spans_ok cm es ->
  line_data cm (map fst es) segs name line = Ok (line_cells (emissions cm es) name line).
Proof.
  intros cm segs es name line W S. unfold line_data, line_col_to_offsets.
  set (bl := fun o : offset => spec_line (src_of cm (sp_file (o_span o))) (sp_lo (o_span o))).
  set (q1 := fun o : offset => match look_up_span cm (o_span o) with
                               | Ok sl => N.eqb (sp_file (o_span o)) name &&
                                          (((bl o <? line)%nat && (line <? lc_line (sl_end sl))%nat) || (line =? bl o)%nat)
                               | Panic => false end).
  assert (Hin : forall o, In o (map fst es) -> span_ok cm (o_span o)).
  { intros o Ho. apply in_map_iff in Ho. destruct Ho as [e [He Hi]]. subst o.
    unfold spans_ok in S. rewrite Forall_forall in S. apply S. exact Hi. }
  rewrite (filterM_ok _ q1).
  2:{ intros o Ho. destruct (look_up_span_ok cm (o_span o) (Hin o Ho)) as [sl [Hl [Hf Hb]]].
      unfold matches_line_col, q1. rewrite Hl. cbn [bind]. rewrite Hf, Hb. fold (bl o).
      destruct (N.eqb (sp_file (o_span o)) name); cbn [negb andb]; [|reflexivity].
      destruct ((bl o <? line)%nat && (line <? lc_line (sl_end sl))%nat); reflexivity. }
  cbn [bind].
  rewrite (filterM_ok _ (fun o => (bl o =? line)%nat)).
  2:{ intros o Ho. apply filter_In in Ho. destruct Ho as [Ho _].
      destruct (look_up_span_ok cm (o_span o) (Hin o Ho)) as [sl [Hl [Hf Hb]]].
      unfold begins_on. rewrite Hl. cbn [bind]. rewrite Hb. reflexivity. }
  cbn [bind]. rewrite filter_filter.
  rewrite (filter_ext_in _ (fun o => N.eqb (sp_file (o_span o)) name && (bl o =? line)%nat)).
  2:{ intros o Ho. destruct (look_up_span_ok cm (o_span o) (Hin o Ho)) as [sl [Hl _]]. unfold q1. rewrite Hl.
      destruct (N.eqb (sp_file (o_span o)) name); cbn [andb]; [|reflexivity].
      destruct (Nat.eqb_spec (bl o) line) as [E|E].
      - rewrite E, Nat.eqb_refl, orb_true_r. reflexivity.
      - rewrite andb_false_r. reflexivity. }
  rewrite (mapM_cells segs _ es W). cbn [bind]. f_equal.
  unfold line_cells, emissions. rewrite <- cells_emissions. reflexivity.
Qed.

(* ------------------------------------------------------------------ rows *)
Lemma chunk_rows_number : forall line first gs, chunk_rows line first gs = number_rows line first gs.
Proof.
  intros line first gs. revert first. induction gs as [|g r IH]; intros first; [reflexivity|].
  cbn [chunk_rows number_rows]. rewrite IH. f_equal. unfold chunk_row. f_equal. destruct g as [|[pc b] t]; reflexivity.
Qed.

Lemma rows_of_data_ok : forall n line data, (0 < n)%nat -> rows_of_data n line data = Ok (spec_line_rows n line data).
Proof.
  intros n line data Hn. unfold rows_of_data, spec_line_rows. destruct data as [|c r]; [reflexivity|].
  destruct n; [lia|]. cbn [Nat.eqb]. rewrite chunk_rows_number, model_rows_pack by lia. reflexivity.
Qed.

Theorem listing_rows : forall cm segs es n f,
  wf_emission segs es -> spans_ok cm es -> (0 < n)%nat ->
  to_listing_file cm (map fst es) segs n f = Ok (spec_rows n (num_lines f) (f_name f) (emissions cm es)).
Proof.
  intros cm segs es n f W S Hn. unfold to_listing_file, spec_rows.
  rewrite (mapM_ok _ (fun line => spec_line_rows n line (line_cells (emissions cm es) (f_name f) line))).
  - cbn [bind]. rewrite flat_map_concat_map. reflexivity.
  - intros line _. unfold line_rows. rewrite line_data_ok by assumption. cbn [bind]. apply rows_of_data_ok. exact Hn.
Qed.
(* ------------------------------------------------------------------ every source line once, in order *)
Definition line_group_ok (line : nat) (g : list row) : Prop :=
  g <> [] /\ Forall (fun r => r_line r = line) g /\ map r_src g = true :: repeat false (length g - 1).

Lemma mapM_inv : forall {A B} (f : A -> res B) l ys, mapM f l = Ok ys -> Forall2 (fun x y => f x = Ok y) l ys.
Proof.
  induction l as [|x r IH]; intros ys H; cbn [mapM] in H.
  - inversion H. constructor.
  - destruct (f x) as [y|] eqn:E; [|discriminate]. cbn [bind] in H.
    destruct (mapM f r) as [ys'|] eqn:E2; [|discriminate]. cbn [bind] in H. inversion H; subst.
    constructor; [assumption|apply IH; reflexivity].
Qed.

Lemma number_rows_group : forall line gs, gs <> [] -> line_group_ok line (number_rows line true gs).
Proof.
  intros line gs H. destruct gs as [|g r]; [congruence|]. cbn [number_rows].
  assert (G : forall gs', Forall (fun r => r_line r = line) (number_rows line false gs') /\
                          map r_src (number_rows line false gs') = repeat false (length (number_rows line false gs'))).
  { induction gs' as [|g' r' IH]; [split; constructor|]. cbn [number_rows]. destruct IH as [I1 I2]. split.
    - constructor; [reflexivity|assumption].
    - cbn [map length repeat r_src]. f_equal. exact I2. }
  destruct (G r) as [G1 G2]. split; [discriminate|]. split.
  - constructor; [reflexivity|exact G1].
  - cbn [map length r_src Nat.sub]. rewrite Nat.sub_0_r. f_equal. exact G2.
Qed.

Lemma pack_nonempty : forall n cs, cs <> [] -> pack (length cs) n cs <> [].
Proof. intros n [|[a b] r] H; [congruence|]. cbn [length pack]. destruct (take_run _ _ _) as [p q]. intro H0. inversion H0. Qed.

Lemma rows_of_data_group : forall n line data rs, rows_of_data n line data = Ok rs -> line_group_ok line rs.
Proof.
  intros n line data rs H. unfold rows_of_data in H. destruct data as [|c r].
  - inversion H; subst. split; [discriminate|]. split; [repeat constructor|reflexivity].
  - destruct n as [|n']; [discriminate|]. cbn [Nat.eqb] in H. inversion H; subst.
    rewrite chunk_rows_number, model_rows_pack by lia. apply number_rows_group. apply pack_nonempty. discriminate.
Qed.

Theorem lines_once_in_order : forall cm sm segs n f rows,
  to_listing_file cm sm segs n f = Ok rows ->
  exists groups, rows = concat groups /\ Forall2 line_group_ok (seq 0 (num_lines f)) groups.
Proof.
  intros cm sm segs n f rows H. unfold to_listing_file in H.
  destruct (mapM (line_rows cm sm segs n (f_name f)) (seq 0 (num_lines f))) as [gs|] eqn:E; [|discriminate].
  cbn [bind] in H. inversion H; subst. clear H. exists gs. split; [reflexivity|].
  apply mapM_inv in E. revert E. generalize (seq 0 (num_lines f)). intros l E.
  induction E as [|line g l' gs' Hg E IH]; [constructor|]. constructor; [|exact IH].
  unfold line_rows in Hg. destruct (line_data cm sm segs (f_name f) line) as [d|]; [|discriminate].
  cbn [bind] in Hg. eapply rows_of_data_group. exact Hg.
Qed.

(* ------------------------------------------------------------------ every byte of the file's statements exactly once *)
Lemma cells_from_consec : forall g a, consec a g -> cells_from a (map snd g) = g.
Proof.
  induction g as [|[a' b] r IH]; intros a C; [reflexivity|]. destruct C as [E C]. cbn in E. subst a'.
  cbn [map snd cells_from]. f_equal. apply IH. exact C.
Qed.

Lemma take_run_out_consec : forall k cs a p q, take_run k a cs = (p, q) -> consec a p.
Proof.
  induction k as [|k IH]; intros cs a p q H.
  - destruct cs; inversion H; exact I.
  - destruct cs as [|[a' b] r]; [inversion H; exact I|]. cbn [take_run] in H. destruct (a' =? a) eqn:E.
    + destruct (take_run k (a + 1) r) as [p' q'] eqn:E2. inversion H; subst. apply Z.eqb_eq in E. split; [exact E|]. eapply IH; eauto.
    + inversion H; exact I.
Qed.

Lemma number_rows_cells : forall line first gs,
  Forall (fun g => match g with [] => True | c :: _ => consec (fst c) g end) gs ->
  flat_map row_cells (number_rows line first gs) = concat gs.
Proof.
  intros line first gs. revert first. induction gs as [|g r IH]; intros first F; [reflexivity|].
  inversion F as [|? ? Hg Fr]; subst. cbn [number_rows flat_map concat]. rewrite IH by assumption. f_equal.
  unfold row_cells. cbn [r_addr r_bytes]. destruct g as [|c t]; [reflexivity|]. cbn [hd_error option_map].
  apply cells_from_consec. exact Hg.
Qed.

Lemma pack_props : forall n fuel cs, (0 < n)%nat -> (length cs <= fuel)%nat ->
  concat (pack fuel n cs) = cs /\ Forall (fun g => match g with [] => True | c :: _ => consec (fst c) g end) (pack fuel n cs).
Proof.
  intros n fuel. induction fuel as [|f IH]; intros cs Hn Hl.
  - destruct cs; [split; [reflexivity|constructor]|cbn in Hl; lia].
  - destruct cs as [|[a b] r]; [split; [reflexivity|constructor]|].
    cbn [pack]. destruct (take_run _ _ _) as [p q] eqn:E.
    pose proof (take_run_app _ _ _ _ _ E) as Ea. pose proof (take_run_out_consec _ _ _ _ _ E) as Ec.
    assert (Hp : p <> []).
    { destruct n as [|n']; [lia|]. cbn [take_run] in E. rewrite Z.eqb_refl in E. destruct (take_run n' (a + 1) r). inversion E. discriminate. }
    assert (Hq : (length q <= f)%nat).
    { pose proof (f_equal (@length _) Ea) as L. rewrite app_length in L. cbn [length] in *.
      destruct p; [congruence|cbn [length] in L; lia]. }
    destruct (IH q Hn Hq) as [I1 I2]. split.
    + cbn [concat]. rewrite I1. symmetry. exact Ea.
    + constructor; [|exact I2]. destruct p as [|c t]; [exact I|].
      destruct c as [a0 b0]. destruct Ec as [E0 _]. cbn in E0. cbn [fst]. subst a0. split; [reflexivity|].
      pose proof (take_run_out_consec _ _ _ _ _ E) as [_ C2]. exact C2.
Qed.

Lemma spec_line_rows_cells : forall n line cs, (0 < n)%nat -> flat_map row_cells (spec_line_rows n line cs) = cs.
Proof.
  intros n line cs Hn. unfold spec_line_rows. destruct cs as [|c r]; [reflexivity|].
  destruct (pack_props n (length (c :: r)) (c :: r) Hn (le_n _)) as [P1 P2].
  rewrite number_rows_cells by exact P2. exact P1.
Qed.

Lemma filter_split_perm : forall {A} (p q : A -> bool) l,
  (forall x, p x = true -> q x = true -> False) ->
  Permutation (filter (fun x => p x || q x) l) (filter p l ++ filter q l).
Proof.
  intros A p q l D. induction l as [|x r IH]; [constructor|]. cbn [filter].
  destruct (p x) eqn:Ep, (q x) eqn:Eq; cbn [orb app].
  - exfalso. eapply D; eauto.
  - constructor. exact IH.
  - apply Permutation_cons_app. exact IH.
  - exact IH.
Qed.

Lemma group_by_line_perm : forall (l : list emission) nl,
  Permutation (flat_map (fun line => filter (fun e => (em_line e =? line)%nat) l) (seq 0 nl))
              (filter (fun e => (em_line e <? nl)%nat) l).
Proof.
  intros l nl. induction nl as [|k IH].
  - cbn. rewrite filter_none; [constructor|]. intros; reflexivity.
  - rewrite seq_S, flat_map_app. cbn [flat_map Nat.add]. rewrite app_nil_r.
    rewrite (filter_ext (fun e => (em_line e <? S k)%nat) (fun e => (em_line e <? k)%nat || (em_line e =? k)%nat)).
    + etransitivity; [|symmetry; apply filter_split_perm].
      * apply Permutation_app_tail. exact IH.
      * intros x H1 H2. apply Nat.ltb_lt in H1. apply Nat.eqb_eq in H2. lia.
    + intros e. destruct (Nat.ltb_spec (em_line e) (S k)), (Nat.ltb_spec (em_line e) k), (Nat.eqb_spec (em_line e) k); cbn; try reflexivity; lia.
Qed.

Lemma flat_map_perm : forall {A B} (f g : A -> list B) l, (forall x, Permutation (f x) (g x)) -> Permutation (flat_map f l) (flat_map g l).
Proof. intros A B f g l H. induction l; [constructor|]. cbn. apply Permutation_app; [apply H|assumption]. Qed.

Lemma flat_map_flat_map_filter : forall (p : emission -> bool) l,
  flat_map em_cells (filter p l) = flat_map (fun e => if p e then em_cells e else []) l.
Proof. induction l as [|x r IH]; [reflexivity|]. cbn [filter flat_map]. destruct (p x); cbn [flat_map]; rewrite IH; reflexivity. Qed.

Lemma flat_map_flat_map : forall {A B C} (f : B -> list C) (g : A -> list B) l,
  flat_map f (flat_map g l) = flat_map (fun x => flat_map f (g x)) l.
Proof. induction l as [|x r IH]; [reflexivity|]. cbn [flat_map]. rewrite flat_map_app, IH. reflexivity. Qed.

(* the rows of a file show, as a multiset, exactly the cells of the emissions of the statements that begin in that file *)
Theorem spec_rows_cells : forall n nl name ems, (0 < n)%nat ->
  Forall (fun e => em_file e = name -> (em_line e < nl)%nat) ems ->
  Permutation (flat_map row_cells (spec_rows n nl name ems))
              (flat_map em_cells (filter (fun e => N.eqb (em_file e) name) ems)).
Proof.
  intros n nl name ems Hn Hl. unfold spec_rows.
  rewrite flat_map_flat_map.
  rewrite (flat_map_ext _ (fun line => line_cells ems name line)) by (intros; apply spec_line_rows_cells; exact Hn).
  unfold line_cells.
  set (l := filter (fun e => N.eqb (em_file e) name) ems).
  rewrite (flat_map_ext _ (fun line => flat_map em_cells (filter (fun e => (em_line e =? line)%nat) l))).
  2:{ intros line. unfold l. rewrite filter_filter. f_equal. }
  assert (E : filter (fun e => (em_line e <? nl)%nat) l = l).
  { unfold l. clear l. induction ems as [|e r IH]; [reflexivity|]. inversion Hl as [|? ? He Hr]; subst. cbn [filter].
    destruct (N.eqb (em_file e) name) eqn:En; [|apply IH; assumption].
    cbn [filter]. apply N.eqb_eq in En. apply He in En. apply Nat.ltb_lt in En. rewrite En. f_equal. apply IH. assumption. }
  replace (flat_map em_cells l) with (flat_map em_cells (filter (fun e => (em_line e <? nl)%nat) l)) by (rewrite E; reflexivity).
  clear E. clearbody l. clear Hl.
  induction nl as [|k IH].
  - cbn. rewrite filter_none; [constructor|reflexivity].
  - rewrite seq_S, flat_map_app. cbn [flat_map Nat.add]. rewrite app_nil_r.
    rewrite (filter_ext (fun e => (em_line e <? S k)%nat) (fun e => (em_line e <? k)%nat || (em_line e =? k)%nat)).
    + etransitivity; [apply Permutation_app_tail; exact IH|].
      rewrite <- flat_map_app. apply Permutation_flat_map.
      symmetry. apply filter_split_perm.
      intros x H1 H2. apply Nat.ltb_lt in H1. apply Nat.eqb_eq in H2. lia.
    + intros e. destruct (Nat.ltb_spec (em_line e) (S k)), (Nat.ltb_spec (em_line e) k), (Nat.eqb_spec (em_line e) k); cbn; try reflexivity; lia.
Qed.
(* ------------------------------------------------------------------ every byte once, on the model's output *)
Lemma filter_firstn_le : forall {A} (p : A -> bool) k l, (length (filter p (firstn k l)) <= length (filter p l))%nat.
Proof.
  induction k as [|k IH]; intros l; [cbn; lia|]. destruct l as [|x r]; [cbn; lia|].
  cbn [firstn filter]. specialize (IH r). destruct (p x); cbn [length]; lia.
Qed.

Lemma line_starts_length : forall src b, length (line_starts src b) = length (filter (N.eqb 10) src).
Proof.
  induction src as [|c r IH]; intros b; [reflexivity|]. cbn [line_starts filter]. rewrite (N.eqb_sym 10 c).
  destruct (N.eqb c 10); cbn [length]; rewrite IH; reflexivity.
Qed.

Lemma spec_line_lt_num_lines : forall f pos, (spec_line (f_src f) pos < num_lines f)%nat.
Proof.
  intros f pos. unfold spec_line, num_lines, lines. cbn [length]. rewrite line_starts_length.
  pose proof (filter_firstn_le (N.eqb 10) (Z.to_nat pos) (f_src f)). lia.
Qed.

Theorem every_byte_once : forall cm segs es n f rows,
  wf_emission segs es -> spans_ok cm es -> (0 < n)%nat -> find_file cm (f_name f) = Ok f ->
  to_listing_file cm (map fst es) segs n f = Ok rows ->
  Permutation (flat_map row_cells rows)
              (flat_map em_cells (filter (fun e => N.eqb (em_file e) (f_name f)) (emissions cm es))).
Proof.
  intros cm segs es n f rows W S Hn Hf H. rewrite (listing_rows cm segs es n f W S Hn) in H. inversion H; subst. clear H.
  apply spec_rows_cells; [exact Hn|].
  unfold emissions. rewrite Forall_map. apply Forall_forall. intros e _ He.
  unfold emission_of in *. cbn [em_file em_line] in *. rewrite He. unfold src_of. rewrite Hf. apply spec_line_lt_num_lines.
Qed.

(* ------------------------------------------------------------------ address_to_offset *)
Definition covers (pc : Z) (o : offset) : Prop := o_pc0 o <= pc < o_pc1 o.

Theorem address_to_offset_spec : forall sm pc,
  match address_to_offset sm pc with
  | Some o => exists before after, sm = before ++ o :: after /\ covers pc o /\ Forall (fun o' => ~ covers pc o') before
  | None => Forall (fun o' => ~ covers pc o') sm
  end.
Proof.
  intros sm pc. unfold address_to_offset. induction sm as [|o r IH]; cbn [find]; [constructor|].
  destruct ((o_pc0 o <=? pc) && (pc <? o_pc1 o)) eqn:E.
  - exists [], r. split; [reflexivity|]. split; [|constructor]. apply andb_true_iff in E. destruct E as [E1 E2].
    apply Z.leb_le in E1. apply Z.ltb_lt in E2. split; assumption.
  - assert (N : ~ covers pc o).
    { intros [C1 C2]. apply Z.leb_le in C1. apply Z.ltb_lt in C2. rewrite C1, C2 in E. discriminate. }
    destruct (find _ r) as [o'|].
    + destruct IH as [b [a [E1 [E2 E3]]]]. exists (o :: b), a. subst r. split; [reflexivity|]. split; [exact E2|]. constructor; assumption.
    + constructor; assumption.
Qed.

(* ------------------------------------------------------------------ all files together *)
Lemma find_file_nodup : forall cm f, NoDup (map f_name cm) -> In f cm -> find_file cm (f_name f) = Ok f.
Proof.
  induction cm as [|g r IH]; intros f N H; [contradiction|]. cbn [find_file]. cbn [map] in N. inversion N as [|? ? Hn Nr]; subst.
  destruct H as [H|H].
  - subst g. rewrite N.eqb_refl. reflexivity.
  - destruct (N.eqb (f_name g) (f_name f)) eqn:E; [|apply IH; assumption].
    apply N.eqb_eq in E. exfalso. apply Hn. rewrite E. apply in_map. exact H.
Qed.

Lemma find_file_in : forall cm n f, find_file cm n = Ok f -> In f cm.
Proof.
  induction cm as [|g r IH]; intros n f H; cbn [find_file] in H; [discriminate|].
  destruct (N.eqb (f_name g) n); [inversion H; left; reflexivity|right; eapply IH; exact H].
Qed.

Lemma flat_map_ext_in' : forall {A B} (f g : A -> list B) l, (forall x, In x l -> f x = g x) -> flat_map f l = flat_map g l.
Proof.
  induction l as [|x r IH]; intros H; [reflexivity|]. cbn [flat_map]. rewrite (H x (or_introl eq_refl)), IH; [reflexivity|].
  intros; apply H; right; assumption.
Qed.

Lemma partition_by_key : forall (names : list N) (X : list emission),
  NoDup names -> (forall e, In e X -> In (em_file e) names) ->
  Permutation (flat_map (fun n => filter (fun e => N.eqb (em_file e) n) X) names) X.
Proof.
  induction names as [|n r IH]; intros X N H.
  - destruct X as [|e X']; [constructor|]. exfalso. apply (H e). left. reflexivity.
  - inversion N as [|? ? Hn Nr]; subst. cbn [flat_map].
    set (X' := filter (fun e => negb (N.eqb (em_file e) n)) X).
    assert (E : flat_map (fun n0 => filter (fun e => N.eqb (em_file e) n0) X) r =
                flat_map (fun n0 => filter (fun e => N.eqb (em_file e) n0) X') r).
    { apply flat_map_ext_in'. intros n0 Hn0. unfold X'. rewrite filter_filter. apply filter_ext. intros e.
      destruct (N.eqb_spec (em_file e) n0) as [E0|E0]; [|rewrite andb_false_r; reflexivity].
      rewrite andb_true_r. destruct (N.eqb_spec (em_file e) n) as [E1|E1]; [|reflexivity].
      exfalso. apply Hn. rewrite <- E1, E0. exact Hn0. }
    assert (P1 : Permutation (flat_map (fun n0 => filter (fun e => N.eqb (em_file e) n0) X') r) X').
    { apply IH; [exact Nr|]. intros e He. unfold X' in He. apply filter_In in He. destruct He as [He Hk].
      destruct (H e He) as [Hd|Hd]; [|exact Hd]. subst n. rewrite N.eqb_refl in Hk. discriminate. }
    rewrite E. etransitivity; [apply Permutation_app_head; exact P1|].
    unfold X'. clear. induction X as [|e X IHX]; [constructor|]. cbn [filter].
    destruct (N.eqb (em_file e) n); cbn [negb app].
    + constructor. exact IHX.
    + symmetry. apply Permutation_cons_app. symmetry. exact IHX.
Qed.

Lemma flat_map_perm' : forall {A B} (f g : A -> list B) l, (forall x, In x l -> Permutation (f x) (g x)) -> Permutation (flat_map f l) (flat_map g l).
Proof.
  induction l as [|x r IH]; intros H; [constructor|]. cbn [flat_map]. apply Permutation_app; [apply H; left; reflexivity|].
  apply IH. intros; apply H; right; assumption.
Qed.

Lemma flat_map_names : forall (X : list emission) (cm : code_map),
  flat_map (fun f => filter (fun e => N.eqb (em_file e) (f_name f)) X) cm =
  flat_map (fun n0 => filter (fun e => N.eqb (em_file e) n0) X) (map f_name cm).
Proof. intros X cm. induction cm as [|g r IH]; [reflexivity|]. cbn [map flat_map]. rewrite IH. reflexivity. Qed.

Lemma per_file_perm : forall cm segs es n cm0 l,
  wf_emission segs es -> spans_ok cm es -> (0 < n)%nat ->
  (forall f, In f cm0 -> find_file cm (f_name f) = Ok f) ->
  Forall2 (fun f fr => bind (to_listing_file cm (map fst es) segs n f) (fun rows => Ok (f_name f, rows)) = Ok fr) cm0 l ->
  Permutation (flat_map (fun fr => flat_map row_cells (snd fr)) l)
              (flat_map (fun f => flat_map em_cells (filter (fun e => N.eqb (em_file e) (f_name f)) (emissions cm es))) cm0).
Proof.
  intros cm segs es n cm0 l W S Hn Hall H0. induction H0 as [|f fr cm' l' Hf H0 IH]; [constructor|].
  cbn [flat_map]. apply Permutation_app.
  - destruct (to_listing_file cm (map fst es) segs n f) as [rows|] eqn:E; [|discriminate]. cbn [bind] in Hf. inversion Hf; subst fr. cbn [snd].
    eapply every_byte_once; try eassumption. apply Hall. left. reflexivity.
  - apply IH. intros g Hg. apply Hall. right. exact Hg.
Qed.

(* every emitted byte appears in the listings (all files together) exactly once *)
Theorem all_bytes_once : forall cm segs es n l,
  wf_emission segs es -> spans_ok cm es -> (0 < n)%nat -> NoDup (map f_name cm) ->
  to_listing cm (map fst es) segs n = Ok l ->
  Permutation (flat_map (fun fr => flat_map row_cells (snd fr)) l) (flat_map em_cells (emissions cm es)).
Proof.
  intros cm segs es n l W S Hn N H. unfold to_listing in H. apply mapM_inv in H.
  etransitivity.
  { apply (per_file_perm cm segs es n cm l W S Hn); [intros; apply find_file_nodup; assumption|exact H]. }
  rewrite <- (flat_map_flat_map em_cells (fun f => filter (fun e => N.eqb (em_file e) (f_name f)) (emissions cm es)) cm).
  apply Permutation_flat_map.
  rewrite flat_map_names.
  apply partition_by_key; [exact N|].
  intros e He. unfold emissions in He. apply in_map_iff in He. destruct He as [x [Hx Hi]]. subst e. cbn [emission_of em_file].
  unfold spans_ok in S. rewrite Forall_forall in S. destruct (S x Hi) as [f [Hf _]].
  pose proof (find_file_name _ _ _ Hf) as En. rewrite <- En. apply in_map. eapply find_file_in. exact Hf.
Qed.

From Coq Require Import List NArith ZArith Bool Lia.
Import ListNotations.
From Mos Require Import model.I64 Gen.BinOps model.Expr Gen.C06Sites model.Sites.
Open Scope Z_scope.

(* the variants the current source has (re-translated on every run) *)
Lemma sites_now :
  align_guard_positive = true /\ align_rem_euclid = true /\ align_cap = Some 65537 /\
  names_checked_for_period = true /\ import_cycle_detected = true /\ dummy_segment_restored = true.
Proof. repeat split; reflexivity. Qed.

Lemma segment_limit_now : segment_address_limit = 65535.
Proof. reflexivity. Qed.

Lemma pc_sites_now :
  pc_values_checked = true /\ pc_limit = 65536 /\ relocated_pc_checked = true /\ pc_add_checked = true /\ branch_sub_checked = true.
Proof. repeat split; reflexivity. Qed.

Lemma evaluator_now : neg_checked = true /\ literal_overflow_is_error = true.
Proof. split; reflexivity. Qed.

(* ------------------------------------------------------------------ evaluator *)
Lemma cchk_not_panic z : cchk z <> Panic.
Proof. unfold cchk. destruct (in_i64 z); discriminate. Qed.

Lemma apply_i64_total op a b : apply_i64 op a b <> Panic.
Proof.
  destruct op; cbn [apply_i64];
    unfold i64_checked_add, i64_checked_sub, i64_checked_mul, i64_checked_div, i64_checked_rem,
           i64_checked_shl, i64_checked_shr, i64_xor;
    try apply cchk_not_panic; try discriminate.
  - destruct (b =? 0); [discriminate|]. cbn [orb]. destruct ((a =? i64_min) && (b =? -1)); discriminate.
  - destruct (b =? 0); [discriminate|]. cbn [orb]. destruct ((a =? i64_min) && (b =? -1)); discriminate.
  - destruct ((0 <=? b) && (b <? 64)); discriminate.
  - destruct ((0 <=? b) && (b <? 64)); discriminate.
Qed.

(* exactly when an operator reports a diagnostic: the mathematical result does not fit / is undefined *)
Definition overflows (op : binop) (a b : Z) : Prop :=
  match op with
  | Add => in_i64 (a + b) = false
  | Sub => in_i64 (a - b) = false
  | Mul => in_i64 (a * b) = false
  | Div | Mod => a = i64_min /\ b = -1
  | Shl | Shr => ~ (0 <= b < 64)
  | _ => False
  end.

Lemma apply_i64_diag_iff op a b : apply_i64 op a b = Ovf <-> overflows op a b.
Proof.
  destruct op; cbn [apply_i64 overflows];
    unfold i64_checked_add, i64_checked_sub, i64_checked_mul, i64_checked_div, i64_checked_rem,
           i64_checked_shl, i64_checked_shr, i64_xor, cchk.
  - destruct (in_i64 (a + b)); split; congruence.
  - destruct (in_i64 (a - b)); split; congruence.
  - destruct (in_i64 (a * b)); split; congruence.
  - destruct (b =? 0) eqn:Z0.
    + split; [discriminate|]. intros [_ ->]. discriminate.
    + cbn [orb]. destruct ((a =? i64_min) && (b =? -1)) eqn:M; split; try congruence.
      * intros _. apply andb_prop in M as [M1 M2]. apply Z.eqb_eq in M1, M2. auto.
      * intros [-> ->]. discriminate.
  - destruct (b =? 0) eqn:Z0.
    + split; [discriminate|]. intros [_ ->]. discriminate.
    + cbn [orb]. destruct ((a =? i64_min) && (b =? -1)) eqn:M; split; try congruence.
      * intros _. apply andb_prop in M as [M1 M2]. apply Z.eqb_eq in M1, M2. auto.
      * intros [-> ->]. discriminate.
  - destruct ((0 <=? b) && (b <? 64)) eqn:R; split; try congruence; try lia.
  - destruct ((0 <=? b) && (b <? 64)) eqn:R; split; try congruence; try lia.
  - split; [discriminate|tauto].
  - split; [discriminate|tauto].
  - split; [discriminate|tauto].
  - split; [discriminate|tauto].
  - split; [discriminate|tauto].
  - split; [discriminate|tauto].
  - split; [discriminate|tauto].
  - split; [discriminate|tauto].
  - split; [discriminate|tauto].
Qed.

(* the unchecked operators (the shape before the repair, and what a regression would bring back): exact guards *)
Lemma unchecked_add_panics_iff a b : i64_add a b = Panic <-> in_i64 (a + b) = false.
Proof. unfold i64_add, chk. destruct (in_i64 (a + b)); split; congruence. Qed.
Lemma unchecked_sub_panics_iff a b : i64_sub a b = Panic <-> in_i64 (a - b) = false.
Proof. unfold i64_sub, chk. destruct (in_i64 (a - b)); split; congruence. Qed.
Lemma unchecked_mul_panics_iff a b : i64_mul a b = Panic <-> in_i64 (a * b) = false.
Proof. unfold i64_mul, chk. destruct (in_i64 (a * b)); split; congruence. Qed.
Lemma unchecked_shl_panics_iff a b : i64_shl a b = Panic <-> ~ (0 <= b < 64).
Proof. unfold i64_shl. destruct ((0 <=? b) && (b <? 64)) eqn:R; split; try congruence; lia. Qed.
Lemma unchecked_shr_panics_iff a b : i64_shr a b = Panic <-> ~ (0 <= b < 64).
Proof. unfold i64_shr. destruct ((0 <=? b) && (b <? 64)) eqn:R; split; try congruence; lia. Qed.
Lemma unchecked_div_panics_iff a b : i64_div a b = Panic <-> a = i64_min /\ b = -1.
Proof.
  unfold i64_div. destruct ((a =? i64_min) && (b =? -1)) eqn:M; split; try congruence.
  - intros _. apply andb_prop in M as [M1 M2]. apply Z.eqb_eq in M1, M2. auto.
  - intros [-> ->]. discriminate.
Qed.

Lemma apply_flags_total fnot fneg n : apply_flags flag_order fnot fneg n <> Panic.
Proof.
  destruct evaluator_now as [NC _].
  assert (F : forall f k, apply_flag f fnot fneg k <> Panic).
  { intros f k. destruct f; cbn [apply_flag]; [discriminate|]. rewrite NC. destruct fneg; [|discriminate].
    unfold i64_checked_neg. apply cchk_not_panic. }
  generalize flag_order. intros order. revert n. induction order as [|f r IH]; intros n; cbn [apply_flags]; [discriminate|].
  destruct (apply_flag f fnot fneg n) eqn:A; [apply IH | exfalso; eapply F; exact A | discriminate].
Qed.

Lemma number_value_total radix digits : number_value radix digits <> Panic.
Proof.
  destruct evaluator_now as [_ LE]. unfold number_value, literal_failure. rewrite LE.
  destruct (text_eqb (keyword_text digits) t_true); [discriminate|].
  destruct (text_eqb (keyword_text digits) t_false); [discriminate|].
  destruct digits; [discriminate|]. destruct (digits_value radix 0 (n :: digits)); [|discriminate].
  destruct (z <=? i64_max); discriminate.
Qed.

Lemma with_flags_no_panic fnot fneg r : r <> EPanic -> with_flags fnot fneg r <> EPanic.
Proof.
  intros H. unfold with_flags. destruct r as [[[n|s]|]|e|]; try assumption; try discriminate.
  destruct (apply_flags flag_order fnot fneg n) eqn:A; try discriminate.
  exfalso. eapply apply_flags_total. exact A.
Qed.

(* induction over expression trees (arguments of a call are a nested list) *)
Fixpoint expr_size (e : expr) : nat :=
  match e with
  | EBin _ l r => S (expr_size l + expr_size r)
  | EParens i _ _ => S (expr_size i)
  | ECall _ args _ _ => S (fold_right (fun a n => (expr_size a + n)%nat) O args)
  | _ => 1%nat
  end.

Lemma eval_no_panic en e : eval en e <> EPanic.
Proof.
  remember (expr_size e) as n eqn:Hn. revert e Hn.
  induction n as [n IH] using lt_wf_ind. intros e Hn.
  destruct e as [op l r|radix digits fnot fneg|path m fnot fneg|fnot fneg|i fnot fneg|name args fnot fneg|items fnot fneg];
    cbn [eval].
  - cbn [expr_size] in Hn.
    assert (Hl : eval en l <> EPanic) by (eapply IH; [|reflexivity]; lia).
    assert (Hr : eval en r <> EPanic) by (eapply IH; [|reflexivity]; lia).
    destruct (eval en l) as [lv|x|]; [|discriminate|congruence].
    destruct (eval en r) as [rv|x|]; [|discriminate|congruence].
    destruct lv as [[a|a]|]; destruct rv as [[b|b]|]; try discriminate.
    + destruct (apply_i64 op a b) eqn:A; try discriminate. exfalso. eapply apply_i64_total. exact A.
    + destruct (try_apply_str op a b); discriminate.
  - destruct (number_value radix digits) eqn:V.
    + apply with_flags_no_panic. discriminate.
    + exfalso. eapply number_value_total. exact V.
    + discriminate.
  - apply with_flags_no_panic. destruct (lookup en path) as [[v|s| |]|]; discriminate.
  - apply with_flags_no_panic. discriminate.
  - apply with_flags_no_panic. eapply IH; [|reflexivity]. cbn [expr_size] in Hn. lia.
  - apply with_flags_no_panic. destruct (text_eqb name t_defined); [|discriminate].
    destruct args as [|a [|b rest]]; try discriminate.
    assert (Ha : eval en a <> EPanic) by (eapply IH; [|reflexivity]; cbn [expr_size fold_right] in Hn; lia).
    destruct (eval en a) as [[v|]|x|]; try discriminate. congruence.
  - apply with_flags_no_panic. destruct (interpolate en items); discriminate.
Qed.

(* ------------------------------------------------------------------ .align *)
Lemma wrap64_small pc : 0 <= pc < two64 -> in_i64 (wrap64 pc) = true.
Proof.
  unfold wrap64, in_i64, i64_min, i64_max, two64. intros H.
  pose proof (Z.mod_pos_bound (pc + 9223372036854775808) 18446744073709551616 ltac:(lia)). lia.
Qed.

Lemma align_padding_spec pc align : 0 <= pc < two64 -> in_i64 align = true ->
  (align <= 0 -> align_padding pc align = SDiag diag_align_not_positive) /\
  (0 < align -> exists n, align_padding pc align = SOk n /\ 1 <= n <= 65537 /\ n <= align).
Proof.
  intros Hpc Ha. destruct sites_now as (G & Eu & Cap & _). unfold align_padding. rewrite G, Eu, Cap.
  unfold align_padding_with. cbn [andb]. split.
  - intros Hle. assert (E : (align <=? 0) = true) by lia. rewrite E. reflexivity.
  - intros Hpos. assert (E : (align <=? 0) = false) by lia. rewrite E.
    assert (E0 : (align =? 0) = false) by lia. rewrite E0.
    assert (E1 : (align =? -1) = false) by lia. rewrite E1, andb_false_r.
    rewrite Z.abs_eq by lia.
    pose proof (Z.mod_pos_bound (usize_as_i64 pc) align Hpos) as Hr.
    set (r := usize_as_i64 pc mod align) in *.
    assert (I : in_i64 (align - r) = true) by (unfold in_i64, i64_min, i64_max in *; lia).
    rewrite I. cbn [negb].
    set (p := Z.min (align - r) 65537).
    assert (Hp : 1 <= p <= 65537 /\ p <= align) by (unfold p; lia).
    assert (U : as_usize p = p) by (unfold as_usize, two64; apply Z.mod_small; lia).
    rewrite U. assert (L : (isize_max <? p) = false) by (unfold isize_max, i64_max; lia). rewrite L.
    exists p. repeat split; lia.
Qed.

Lemma align_total pc align : 0 <= pc < two64 -> in_i64 align = true -> align_padding pc align <> SPanic.
Proof.
  intros Hpc Ha. destruct (align_padding_spec pc align Hpc Ha) as [Hn Hp].
  destruct (Z_le_gt_dec align 0) as [L|G].
  - rewrite Hn by lia. discriminate.
  - destruct (Hp ltac:(lia)) as (n & -> & _). discriminate.
Qed.

(* the arithmetic before the repair (no guard, truncating %, no cap): panics exactly for align <= 0 *)
Lemma legacy_align_panics_iff pc align : 0 <= pc < 9223372036854775808 -> in_i64 align = true ->
  (align_padding_with false false None pc align = SPanic <-> align <= 0).
Proof.
  intros Hpc Ha. unfold align_padding_with. cbn [andb].
  assert (W : usize_as_i64 pc = pc).
  { unfold usize_as_i64, wrap64, two64. rewrite Z.mod_small by lia. lia. }
  rewrite W.
  destruct (align =? 0) eqn:E0; [split; [lia | reflexivity]|].
  assert (M : (pc =? i64_min) = false) by (unfold i64_min; lia). rewrite M. cbn [andb].
  assert (An0 : align <> 0) by lia.
  pose proof (Z.rem_bound_pos pc align ltac:(lia)) as RB.
  assert (R0 : 0 <= Z.rem pc align) by (apply Z.rem_nonneg; lia).
  assert (RA : Z.rem pc align < Z.abs align) by (destruct (Z_lt_ge_dec 0 align); [rewrite Z.abs_eq by lia; apply RB; lia | pose proof (Z.rem_bound_neg_pos pc align); pose proof (Z.rem_opp_r pc align An0); rewrite <- Z.abs_opp; rewrite Z.abs_eq by lia; rewrite <- H0; apply Z.rem_bound_pos; lia]).
  unfold in_i64, i64_min, i64_max in Ha.
  destruct (in_i64 (align - Z.rem pc align)) eqn:I; cbn [negb].
  - unfold in_i64, i64_min, i64_max in I. unfold as_usize, isize_max, i64_max, two64.
    destruct (Z_lt_ge_dec 0 align) as [P|N].
    + rewrite Z.abs_eq in RA by lia. rewrite Z.mod_small by lia.
      assert (L : (9223372036854775807 <? align - Z.rem pc align) = false) by lia. rewrite L. split; [discriminate|lia].
    + assert (Neg : align - Z.rem pc align < 0) by lia.
      assert (Q : (align - Z.rem pc align) mod 18446744073709551616 = align - Z.rem pc align + 18446744073709551616).
      { symmetry. apply Z.mod_unique with (q := -1); lia. }
      rewrite Q. assert (L : (9223372036854775807 <? align - Z.rem pc align + 18446744073709551616) = true) by lia.
      rewrite L. split; [lia|reflexivity].
  - split; [|reflexivity]. intros _. unfold in_i64, i64_min, i64_max in I.
    destruct (Z_lt_ge_dec 0 align) as [P|N]; [|lia]. rewrite Z.abs_eq in RA by lia. lia.
Qed.

(* ------------------------------------------------------------------ names *)
Lemma identifier_new_panics_iff s : identifier_new s = SPanic <-> has_period s = true.
Proof. unfold identifier_new. change identifier_new_asserts with true. cbn [andb]. destruct (has_period s); split; congruence. Qed.

Lemma name_from_string_total s : name_from_string s <> SPanic.
Proof.
  destruct sites_now as (_ & _ & _ & N & _). unfold name_from_string. rewrite N. cbn [andb].
  destruct (has_period s) eqn:P; [discriminate|]. unfold identifier_new. rewrite P, andb_false_r. discriminate.
Qed.

Lemma name_from_string_diag_iff s : name_from_string s = SDiag diag_name_with_period <-> has_period s = true.
Proof.
  destruct sites_now as (_ & _ & _ & N & _). unfold name_from_string. rewrite N. cbn [andb].
  destruct (has_period s) eqn:P; [split; auto|]. unfold identifier_new. rewrite P, andb_false_r. split; discriminate.
Qed.

(* ------------------------------------------------------------------ program counter arithmetic *)
Lemma segment_emit_panics_iff pc len : segment_emit pc len = SPanic <-> two64 <= pc + len.
Proof.
  unfold segment_emit. change emit_end_checked with false. cbn [negb andb].
  destruct (two64 <=? pc + len) eqn:E; [split; [lia|reflexivity]|].
  destruct ((65535 <? pc) || (65536 <? pc + len)); split; try discriminate; lia.
Qed.

Lemma target_pc_panics_iff pc initial target :
  target_pc pc initial target = SPanic <->
  in_i64 (usize_as_i64 target - usize_as_i64 initial) = false \/
  in_i64 (usize_as_i64 pc + (usize_as_i64 target - usize_as_i64 initial)) = false.
Proof.
  unfold target_pc. change target_pc_checked with false. cbv iota.
  destruct (in_i64 (usize_as_i64 target - usize_as_i64 initial)) eqn:A; cbn [negb].
  - destruct (in_i64 (usize_as_i64 pc + (usize_as_i64 target - usize_as_i64 initial))) eqn:B; cbn [negb]; split; try discriminate; auto.
    intros [H|H]; discriminate.
  - split; auto.
Qed.

Lemma source_map_add_panics_iff tpc len : source_map_add tpc len = SPanic <-> two64 <= tpc + len.
Proof. unfold source_map_add. destruct (two64 <=? tpc + len) eqn:E; split; try discriminate; try lia; reflexivity. Qed.

Lemma small_usize_as_i64 z : 0 <= z < 4611686018427387904 -> usize_as_i64 z = z.
Proof. intros H. unfold usize_as_i64, wrap64, two64. rewrite Z.mod_small by lia. lia. Qed.

(* what the range checks accept *)
Lemma address_check_spec v :
  (0 <= v <= 65535 -> address_check v = SOk v) /\ (~ 0 <= v <= 65535 -> address_check v = SDiag diag_pc_out_of_range).
Proof.
  destruct pc_sites_now as (C & _). unfold address_check. rewrite C, segment_limit_now. cbn [andb]. split; intros H.
  - assert (E : (0 <=? v) && (v <=? 65535) = true) by lia. rewrite E. cbn [negb].
    unfold pc_from_i64, as_usize, two64. rewrite Z.mod_small by lia. reflexivity.
  - assert (E : (0 <=? v) && (v <=? 65535) = false) by lia. rewrite E. reflexivity.
Qed.
Lemma pc_value_check_spec v :
  (0 <= v <= 65536 -> pc_value_check v = SOk v) /\ (~ 0 <= v <= 65536 -> pc_value_check v = SDiag diag_pc_out_of_range).
Proof.
  destruct pc_sites_now as (C & L & _). unfold pc_value_check. rewrite C, L. cbn [andb]. split; intros H.
  - assert (E : (0 <=? v) && (v <=? 65536) = true) by lia. rewrite E. cbn [negb].
    unfold pc_from_i64, as_usize, two64. rewrite Z.mod_small by lia. reflexivity.
  - assert (E : (0 <=? v) && (v <=? 65536) = false) by lia. rewrite E. reflexivity.
Qed.

Lemma address_check_total v : address_check v <> SPanic.
Proof. unfold address_check. destruct (pc_values_checked && negb ((0 <=? v) && (v <=? segment_address_limit))); discriminate. Qed.

(* the start address of an accepted segment always has a .prg header; with $10000 accepted (before 4adc08f) it did not *)
Lemma prg_header_of_accepted_start v s : address_check v = SOk s -> prg_header s <> SPanic.
Proof.
  intros H. destruct (address_check_spec v) as [A B]. destruct (Z_le_gt_dec 0 v) as [P|P]; [destruct (Z_le_gt_dec v 65535) as [Q|Q]|].
  - rewrite A in H by lia. injection H as <-. unfold prg_header. assert (E : (v <? 65536) = true) by lia. rewrite E. discriminate.
  - rewrite B in H by lia. discriminate.
  - rewrite B in H by lia. discriminate.
Qed.
Lemma prg_header_panics_iff s : prg_header s = SPanic <-> 65536 <= s.
Proof. unfold prg_header. destruct (s <? 65536) eqn:E; split; try discriminate; try lia; reflexivity. Qed.

Lemma spanless_clash_is_diagnostic : spanless_clash = SDiag diag_redefine.
Proof. reflexivity. Qed.

(* `* = v`: a diagnostic exactly when v is outside 0..$10000 or (with a current segment) the relocated pc is negative;
   otherwise the pc that is set satisfies the invariant *)
Lemma set_pc_site_spec v initial target :
  0 <= initial <= 65536 -> 0 <= target <= 65536 ->
  (0 <= v <= 65536 /\ 0 <= v + (target - initial) ->
     set_pc_site v (Some (seg_offset initial target)) = SOk (Some v) /\ pc_ok v initial target) /\
  (~ (0 <= v <= 65536 /\ 0 <= v + (target - initial)) ->
     set_pc_site v (Some (seg_offset initial target)) = SDiag diag_pc_out_of_range).
Proof.
  intros Hi Ht. destruct pc_sites_now as (C & L & R & _). destruct (pc_value_check_spec v) as [A1 A2].
  unfold set_pc_site, seg_offset. rewrite !small_usize_as_i64 by lia. rewrite R. cbn [andb]. split.
  - intros [Hv Hr]. rewrite A1 by lia. assert (E : (v + (target - initial) <? 0) = false) by lia. rewrite E.
    split; [reflexivity|]. unfold pc_ok. rewrite L. lia.
  - intros N. destruct (Z_le_gt_dec 0 v) as [P|P]; [destruct (Z_le_gt_dec v 65536) as [Q|Q]|].
    + rewrite A1 by lia. assert (E : (v + (target - initial) <? 0) = true) by lia. rewrite E. reflexivity.
    + rewrite A2 by lia. reflexivity.
    + rewrite A2 by lia. reflexivity.
Qed.

(* under the invariant nothing in the emission path panics, for any number of bytes an address space can hold, and the
   invariant is preserved by a successful emit *)
Lemma pc_arithmetic_total pc initial target len :
  pc_ok pc initial target -> 0 <= len < 4611686018427387904 ->
  (exists t, target_pc pc initial target = SOk t /\ 0 <= t <= 131072 /\ source_map_add t len <> SPanic) /\
  segment_emit pc len <> SPanic /\
  (forall p, segment_emit pc len = SOk p -> pc_ok p initial target).
Proof.
  destruct pc_sites_now as (_ & L & _). unfold pc_ok. rewrite L. intros (Hp & Hi & Ht & Hr) Hl. repeat split.
  - unfold target_pc. change target_pc_checked with false. cbv iota. rewrite !small_usize_as_i64 by lia.
    assert (I1 : in_i64 (target - initial) = true) by (unfold in_i64, i64_min, i64_max; lia).
    assert (I2 : in_i64 (pc + (target - initial)) = true) by (unfold in_i64, i64_min, i64_max; lia).
    rewrite I1, I2. cbn [negb]. eexists. split; [reflexivity|].
    unfold as_usize, two64. rewrite Z.mod_small by lia. split; [lia|].
    intros H. apply source_map_add_panics_iff in H. unfold two64 in H. lia.
  - intros H. apply segment_emit_panics_iff in H. unfold two64 in H. lia.
  - unfold segment_emit in H. change emit_end_checked with false in H. cbn [negb andb] in H.
    destruct (two64 <=? pc + len); [discriminate|]. destruct ((65535 <? pc) || (65536 <? pc + len)) eqn:E; [discriminate|].
    injection H as <-. lia.
  - unfold segment_emit in H. change emit_end_checked with false in H. cbn [negb andb] in H.
    destruct (two64 <=? pc + len); [discriminate|]. destruct ((65535 <? pc) || (65536 <? pc + len)) eqn:E; [discriminate|].
    injection H as <-. lia.
  - lia.
  - lia.
  - lia.
  - lia.
  - unfold segment_emit in H. change emit_end_checked with false in H. cbn [negb andb] in H.
    destruct (two64 <=? pc + len); [discriminate|]. destruct ((65535 <? pc) || (65536 <? pc + len)) eqn:E; [discriminate|].
    injection H as <-. lia.
Qed.

(* the arithmetic without the range checks (the source before the fix): exact panic conditions, and the three witnesses *)
Lemma unchecked_pc_witnesses :
  segment_emit (pc_from_i64 (-1)) 1 = SPanic /\ target_pc (pc_from_i64 i64_max) 0 1 = SPanic /\
  (exists t, target_pc 4096 8192 0 = SOk t /\ source_map_add t 8192 = SPanic).
Proof. repeat split; try (vm_compute; reflexivity). eexists. split; vm_compute; reflexivity. Qed.

(* ------------------------------------------------------------------ whole statements *)
Lemma eval_i64_total en e : eval_i64 en e <> SPanic.
Proof.
  unfold eval_i64. pose proof (eval_no_panic en e) as H.
  destruct (eval en e) as [[[z|s]|]|x|]; try discriminate. congruence.
Qed.

(* the evaluator yields 64-bit values (a property of the Rust type; the model computes in Z) *)
Definition evaluates_in_i64 (en : env) (e : expr) : Prop := forall z, eval en e = EVal (Some (SNum z)) -> in_i64 z = true.

Lemma stmt_align_total en pc e : 0 <= pc <= 65536 -> evaluates_in_i64 en e -> stmt_align en pc e <> RPanic.
Proof.
  intros Hpc Hr. unfold stmt_align. pose proof (eval_i64_total en e) as H.
  destruct (eval_i64 en e) as [[align|]|d|] eqn:Ev; try discriminate; [|congruence].
  assert (Ha : in_i64 align = true).
  { apply Hr. unfold eval_i64 in Ev. destruct (eval en e) as [[[z|s]|]|x|]; try discriminate. congruence. }
  assert (Hpc' : 0 <= pc < two64) by (unfold two64; lia).
  destruct (align_padding_spec pc align Hpc' Ha) as [Hn Hp].
  destruct (Z_le_gt_dec align 0) as [L|G].
  - rewrite Hn by lia. discriminate.
  - destruct (Hp ltac:(lia)) as (n & -> & Hb & _).
    destruct (segment_emit pc n) eqn:S; try discriminate.
    apply segment_emit_panics_iff in S. unfold two64 in S. lia.
Qed.

Lemma stmt_data_total en pc size e : 0 <= pc <= 65536 -> 0 <= size <= 4 -> stmt_data en pc size e <> RPanic.
Proof.
  intros Hpc Hs. unfold stmt_data. pose proof (eval_i64_total en e) as H.
  destruct (eval_i64 en e) as [[v|]|d|] eqn:Ev; try discriminate; [| |congruence].
  - destruct (segment_emit pc size) eqn:S; try discriminate. apply segment_emit_panics_iff in S. unfold two64 in S. lia.
  - destruct (segment_emit pc 0) eqn:S; try discriminate. apply segment_emit_panics_iff in S. unfold two64 in S. lia.
Qed.

Lemma emit_one_total pc initial target : pc_ok pc initial target -> emit_one pc initial target <> RPanic.
Proof.
  intros K. destruct (pc_arithmetic_total pc initial target 1 K ltac:(lia)) as ((t & T & _ & S) & E & _).
  unfold emit_one. rewrite T. destruct (source_map_add t 1); try discriminate; [|congruence].
  destruct (segment_emit pc 1); try discriminate. congruence.
Qed.

(* `* = <any expression>` followed by a byte, in any segment whose options were accepted: never a panic *)
Lemma stmt_pc_total en initial target e :
  0 <= initial <= 65536 -> 0 <= target <= 65536 -> stmt_pc_then_byte en initial target e <> RPanic.
Proof.
  intros Hi Ht. unfold stmt_pc_then_byte. pose proof (eval_i64_total en e) as H.
  destruct (eval_i64 en e) as [[v|]|d|]; try discriminate; [|congruence].
  destruct (set_pc_site_spec v initial target Hi Ht) as [Ok Bad].
  destruct (Z_le_gt_dec 0 v) as [A|A]; [destruct (Z_le_gt_dec v 65536) as [B|B]; [destruct (Z_le_gt_dec 0 (v + (target - initial))) as [D|D]|]|].
  - destruct (Ok ltac:(lia)) as [-> K]. apply emit_one_total. exact K.
  - rewrite Bad by lia. discriminate.
  - rewrite Bad by lia. discriminate.
  - rewrite Bad by lia. discriminate.
Qed.

(* `.define segment { start = s pc = t }` followed by a byte: never a panic, for all option values *)
Lemma stmt_segment_total s t : stmt_segment_then_byte s t <> RPanic.
Proof.
  unfold stmt_segment_then_byte. destruct (address_check_spec s) as [S1 S2]. destruct (address_check_spec t) as [T1 T2].
  destruct (Z_le_gt_dec 0 s) as [A|A]; [destruct (Z_le_gt_dec s 65535) as [B|B]|]; try (rewrite S2 by lia; discriminate).
  rewrite S1 by lia.
  destruct (Z_le_gt_dec 0 t) as [D|D]; [destruct (Z_le_gt_dec t 65535) as [F|F]|]; try (rewrite T2 by lia; discriminate).
  rewrite T1 by lia. apply emit_one_total. destruct pc_sites_now as (_ & L & _). unfold pc_ok. rewrite L. lia.
Qed.

Lemma stmt_pc_examples :
  stmt_pc_then_byte (mkEnv (fun _ => None) None) 49152 49152 (ENum 10 [49%N] false true) = RDiag diag_pc_out_of_range /\
  stmt_segment_then_byte 1 i64_max = RDiag diag_pc_out_of_range /\ stmt_segment_then_byte 4096 8192 = REmitted 4097.
Proof. repeat split; vm_compute; reflexivity. Qed.

(* ------------------------------------------------------------------ loops, recursion, dummy segments *)
Lemma guards_now :
  loop_count_limit = Some 65536 /\ nesting_depth_limit = Some 64%nat /\ parser_nesting_limit = Some 64%nat /\
  bank_size_limit = Some 16777216 /\ factor_retry_guarded = true /\ arg_list_items_parsed_once = true /\
  function_callbacks_locked = false.
Proof. repeat split; reflexivity. Qed.

(* the loops of one pass: the count of started iterations never exceeds the budget, whatever the loop counts are *)
Lemma loop_charge_now : loop_charge_clamped = true.
Proof. reflexivity. Qed.

Lemma loop_enter_spec used count : 0 <= used <= 65536 ->
  (count <= 65536 - used -> loop_enter used count = SOk (used + loop_iterations count) /\ 0 <= used + loop_iterations count <= 65536) /\
  (65536 - used < count -> loop_enter used count = SDiag diag_loop_budget).
Proof.
  intros H. destruct guards_now as (L & _). unfold loop_enter, loop_charge, loop_iterations. rewrite L, loop_charge_now.
  assert (I1 : in_i64 (65536 - used) = true) by (unfold in_i64, i64_min, i64_max; lia). rewrite I1. cbn [negb]. split; intros C.
  - assert (E : (65536 - used <? count) = false) by lia. rewrite E.
    assert (I2 : in_i64 (used + Z.max 0 count) = true) by (unfold in_i64, i64_min, i64_max; lia). rewrite I2. cbn [negb]. split; [reflexivity|lia].
  - assert (E : (65536 - used <? count) = true) by lia. rewrite E. reflexivity.
Qed.

Lemma loop_enter_total used count : 0 <= used <= 65536 -> loop_enter used count <> SPanic.
Proof.
  intros H. destruct (loop_enter_spec used count H) as [A B]. destruct (Z_le_gt_dec count (65536 - used)) as [L|G].
  - destruct (A L) as [-> _]. discriminate.
  - rewrite (B ltac:(lia)). discriminate.
Qed.

(* the counter never decreases: a negative count refunds nothing to the loops that follow *)
Lemma loop_enter_monotone used count u : 0 <= used <= 65536 -> loop_enter used count = SOk u -> used <= u.
Proof.
  intros H E. destruct (loop_enter_spec used count H) as [A B]. destruct (Z_le_gt_dec count (65536 - used)) as [L|G].
  - destruct (A L) as [E' _]. rewrite E' in E. injection E as <-. unfold loop_iterations. lia.
  - rewrite (B ltac:(lia)) in E. discriminate.
Qed.

(* what an unclamped charge would do (the shape a regression brings back): a negative loop refunds budget, and the guard of
   the next loop overflows after a count near -2^63 *)
Lemma unclamped_charge_refunds :
  0 + (-4000000000000) < 0 /\ (65536 - (0 + (-4000000000000)) <? 4000000000000) = false /\
  in_i64 (65536 - (0 + i64_min)) = false.
Proof. repeat split; vm_compute; reflexivity. Qed.

(* a whole pass: any sequence of loop counts (nested or not, in the order the loops are entered) starts at most
   65536 iterations before a diagnostic ends it *)
Fixpoint run_loops (used : Z) (counts : list Z) : Z :=
  match counts with
  | [] => used
  | c :: r => match loop_enter used c with SOk u => run_loops u r | _ => used end
  end.
Lemma run_loops_bounded counts : forall used, 0 <= used <= 65536 -> 0 <= run_loops used counts <= 65536.
Proof.
  induction counts as [|c r IH]; intros used H; cbn [run_loops]; [exact H|].
  destruct (loop_enter_spec used c H) as [A B]. destruct (Z_le_gt_dec c (65536 - used)) as [L|G].
  - destruct (A L) as [-> R]. apply IH. exact R.
  - rewrite (B ltac:(lia)). exact H.
Qed.

Lemma import_depth_bounded g : import_depth g <> Unbounded.
Proof.
  unfold import_depth. destruct sites_now as (_ & _ & _ & _ & I & _). rewrite I.
  destruct (cyclic_from g 0%nat); discriminate.
Qed.

(* every macro invocation graph, cyclic or not: the expansion is bounded or reported *)
Lemma macro_depth_bounded g : macro_depth g <> Unbounded.
Proof.
  unfold macro_depth. destruct guards_now as (_ & N & _). rewrite N. destruct (cyclic_from g 0%nat); discriminate.
Qed.

(* the guards: a container at depth d is entered iff d < 64; so no token / text is ever processed deeper than 64 *)
Lemma guard_enter_spec d :
  (codegen_enter d = SOk (S d) <-> (d < 64)%nat) /\ (codegen_enter d = SDiag diag_nested_too_deep <-> (64 <= d)%nat) /\
  (parser_enter d = SOk (S d) <-> (d < 64)%nat) /\ (parser_enter d = SDiag diag_nested_too_deep <-> (64 <= d)%nat).
Proof.
  destruct guards_now as (_ & N & P & _). unfold codegen_enter, parser_enter, guard_enter. rewrite N, P.
  destruct (Nat.leb 64 d) eqn:E; [apply Nat.leb_le in E | apply Nat.leb_gt in E]; repeat split; intros H; try discriminate; try lia; reflexivity.
Qed.

(* the guarded walk over ANY tree of containers (any depth, any branching, any fuel): never deeper than 64 levels, at
   most 65536 containers entered in a pass, at most one diagnostic *)
Lemma budget_now : container_budget = Some 65536.
Proof. reflexivity. Qed.

Definition ginv (st : gstate) : Prop :=
  0 <= g_entered st <= 65536 /\ (g_max_depth st <= 64)%nat /\ (g_reported st <= 1)%nat /\ (g_reported st = 1%nat -> g_exhausted st = true).

Lemma walk_inv fuel : forall d t st, (d <= 64)%nat -> ginv st -> ginv (walk fuel d t st).
Proof.
  destruct guards_now as (_ & N & _). pose proof budget_now as B.
  induction fuel as [|f IH]; intros d t st Hd I; cbn [walk]; [exact I|].
  destruct t as [cs]. rewrite B. destruct (g_exhausted st) eqn:EX; cbn [andb]; [exact I|].
  unfold over_depth, over_budget. rewrite N, B.
  destruct I as (I1 & I2 & I3 & I4).
  destruct (Nat.leb 64 d || (65536 <=? g_entered st)) eqn:O.
  - unfold ginv. cbn [g_entered g_exhausted g_max_depth g_reported]. repeat split; try lia.
    + destruct (g_reported st) as [|[|k]]; try lia. specialize (I4 eq_refl). congruence.
  - apply orb_false_iff in O as [O1 O2]. apply Nat.leb_gt in O1.
    assert (I' : ginv (mkG (g_entered st + 1) false (Nat.max (g_max_depth st) (S d)) (g_reported st))).
    { unfold ginv. cbn [g_entered g_exhausted g_max_depth g_reported]. repeat split; try lia.
      intros R. specialize (I4 R). congruence. }
    rewrite EX in *. revert I'. generalize (mkG (g_entered st + 1) false (Nat.max (g_max_depth st) (S d)) (g_reported st)).
    induction cs as [|c r IHr]; intros st0 I0; cbn [fold_left]; [exact I0|].
    apply IHr. apply IH; [lia|exact I0].
Qed.

Lemma walk_pass_bounded fuel t :
  0 <= g_entered (walk_pass fuel t) <= 65536 /\ (g_max_depth (walk_pass fuel t) <= 64)%nat /\ (g_reported (walk_pass fuel t) <= 1)%nat.
Proof.
  assert (I : ginv (mkG 0 false 0 0)) by (unfold ginv; cbn; repeat split; try lia; discriminate).
  destruct (walk_inv fuel 0 t _ ltac:(lia) I) as (A & B & C & _). unfold walk_pass. auto.
Qed.

(* the failing parse of n nested parentheses / argument lists is attempted once, not 2^n times *)
Lemma parse_attempts_linear n : parse_attempts factor_attempts_per_level n = 1%nat /\ parse_attempts arg_list_attempts_per_level n = 1%nat.
Proof.
  destruct guards_now as (_ & _ & _ & _ & F & A & _). unfold factor_attempts_per_level, arg_list_attempts_per_level. rewrite F, A.
  induction n as [|k [I1 I2]]; cbn [parse_attempts]; [split; reflexivity|]. rewrite I1. split; reflexivity.
Qed.
Lemma parse_attempts_unguarded n : parse_attempts 2 n = (2 ^ n)%nat.
Proof. induction n as [|k IH]; cbn [parse_attempts Nat.pow]; [reflexivity|]. rewrite IH. lia. Qed.

Lemma nested_call_returns : nested_call_of_same_function = CallReturns.
Proof. reflexivity. Qed.

Lemma nested_dummy_segment_ok : emit_after_nested_dummy = SOk tt.
Proof. reflexivity. Qed.

Lemma bank_padding_total size len fill : bank_padding size len fill <> SPanic.
Proof.
  unfold bank_padding. destruct ((size <? 0) || _); [discriminate|]. destruct (len <? size); [destruct fill; discriminate|].
  destruct (size <? len); discriminate.
Qed.

(* whatever the configured size: the padding built in memory is at most 16 MiB, or the size is rejected *)
Lemma bank_padding_bounded size len fill n : 0 <= len -> bank_padding size len fill = SOk n -> 0 <= n <= 16777216.
Proof.
  destruct guards_now as (_ & _ & _ & B & _). unfold bank_padding. rewrite B. intros L.
  destruct ((size <? 0) || (16777216 <? size)) eqn:A; [discriminate|]. apply orb_false_iff in A as [A1 A2].
  destruct (len <? size) eqn:C.
  - destruct fill; [|discriminate]. intros [= <-]. lia.
  - destruct (size <? len); [discriminate|]. intros [= <-]. lia.
Qed.

Lemma bank_padding_examples :
  bank_padding 1099511627776 1 true = SDiag diag_bank_size_negative /\ bank_padding (-1) 1 true = SDiag diag_bank_size_negative /\
  bank_padding 16 1 true = SOk 15.
Proof. repeat split; vm_compute; reflexivity. Qed.

(* the branch arm: `base + 2` wraps, `target_pc - cur_pc` wraps: no panic for any target and any current pc *)
Lemma branch_offset_total cur target : branch_offset cur target <> SPanic.
Proof.
  destruct pc_sites_now as (_ & _ & _ & A & B). unfold branch_offset, branch_base, pc_add. rewrite A, B.
  destruct (in_i64 _); discriminate.
Qed.

(* the unchecked arithmetic (before the fix): in the segment-less first pass exactly the targets -1 and -2 overflowed `+ 2` *)
Lemma unchecked_branch_base_panics_iff target : in_i64 target = true ->
  (two64 <= pc_from_i64 target + 2 <-> target = -1 \/ target = -2).
Proof.
  intros H. unfold pc_from_i64, as_usize, two64. unfold in_i64, i64_min, i64_max in H.
  destruct (Z_lt_ge_dec target 0) as [N|P].
  - assert (Q : target mod 18446744073709551616 = target + 18446744073709551616) by (symmetry; apply Z.mod_unique with (q := -1); lia).
    rewrite Q. lia.
  - rewrite Z.mod_small by lia. lia.
Qed.

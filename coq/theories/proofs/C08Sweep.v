(* C08: a statement-level layout theorem proved by exhaustive evaluation over a stated finite domain:
   for every template (one per statement form of the grammar, plus one instruction per mnemonic of the translated
   tables), every replacement of ONE slot by each sample trivia string, every re-casing of ONE keyword, and every
   sample applied to ALL slots at once parses without diagnostics to the same skeleton as the canonical layout. *)
From Coq Require Import List NArith Bool.
From Coq Require Import Strings.String Strings.Ascii.
Import ListNotations.
From Mos Require Import model.Utf model.Nom Gen.ParserTables model.Parser model.Display spec.LayoutEquiv proofs.C08Proofs.
Open Scope N_scope.

Definition T (s : String.string) : text := map (fun a => Ascii.N_of_ascii a) (String.list_ascii_of_string s).
Arguments T s%string.

Inductive item :=
| L (t : text)            (* a lexeme, verbatim *)
| K (t : text)            (* a lexeme whose letter case is not significant *)
| SW (need : bool)        (* a ws(..) slot: single-line trivia; need: a separator is required *)
| SM (need : bool).       (* a mws(..) slot: multi-line trivia *)

Definition canon_item (it : item) : text :=
  match it with L t => t | K t => t | SW n => if n then [32] else [] | SM n => if n then [32] else [] end.
Definition canon (tpl : list item) : text := List.concat (map canon_item tpl).

(* sample trivia: spaces/tabs, empty and nested block comments, comments containing code and delimiters,
   a block comment with a line end inside; for multi-line slots also LF, CRLF, line comments (empty and not) *)
Definition sl_samples : list text :=
  [ T " "; T "   "; [9; 32]; T "/**/"; T " /* a /* b */ c */ "; T "/* lda #1 } */"; [47; 42; 10; 42; 47; 32] ].
Definition ml_samples : list text :=
  [ [10]; [13; 10]; [32; 10; 9]; T " // c" ++ [10]; T "//" ++ [10]; T "// lda #1 {" ++ [13; 10; 32]; T "/* x */" ++ [10; 10] ].

Definition alt_case (t : text) : text :=
  (fix go (up : bool) (s : text) : text :=
     match s with [] => [] | c :: r => (if up then ascii_upper c else ascii_lower c) :: go (negb up) r end) true t.
Definition item_variants (it : item) : list text :=
  match it with
  | L _ => []
  | K t => [upper t; alt_case t]
  | SW _ => sl_samples
  | SM _ => ml_samples ++ sl_samples
  end.
Fixpoint one_slot_variants (pre : text) (tpl : list item) : list text :=
  match tpl with
  | [] => []
  | it :: r => map (fun v => pre ++ v ++ canon r) (item_variants it) ++ one_slot_variants (pre ++ canon_item it) r
  end.
Definition all_slots (sl ml : text) (tpl : list item) : text :=
  List.concat (map (fun it => match it with SW _ => sl | SM _ => ml | K t => upper t | L t => t end) tpl).
Definition variants (tpl : list item) : list text :=
  one_slot_variants [] tpl ++ map (fun sl => all_slots sl sl tpl) sl_samples ++ map (fun ml => all_slots [32] ml tpl) ml_samples.

Definition skel_parse (s : text) : option (list sx) :=
  match parse s with Parsed toks [] => Some (skeleton toks) | _ => None end.
Definition check_template (tpl : list item) : bool :=
  match skel_parse (canon tpl) with
  | Some k => forallb (fun v => match skel_parse v with Some k' => sxl_eqb k' k | None => false end) (variants tpl)
  | None => false
  end.

(* ---------------------------------------------------------------- the templates *)
Definition s0 := SW false.  Definition s1 := SW true.  Definition m0 := SM false.  Definition m1 := SM true.

Definition instr_imm (mn : text) : list item := [m0; K mn; s0; L (T "#"); s0; L (T "$"); K (T "1f")].
Definition instr_abs_x (mn : text) : list item := [m0; K mn; s1; L (T "foo"); s0; L (T "+"); s0; L (T "1"); s0; L (T ","); s0; K (T "x")].
Definition instr_implied (mn : text) : list item := [m0; K mn].

Definition statement_templates : list (list item) :=
  [ (* addressing modes *)
    [m0; K (T "lda"); s0; L (T "("); s0; L (T "$10"); s0; L (T ")"); s0; L (T ","); s0; K (T "y")];
    [m0; K (T "lda"); s0; L (T "("); s0; L (T "$10"); s0; L (T ","); s0; K (T "x"); s0; L (T ")")];
    [m0; K (T "jmp"); s0; L (T "("); s0; L (T "vec"); s0; L (T ")")];
    [m0; K (T "sta"); s1; L (T "base.inner"); s0; L (T ","); s0; K (T "y")];
    (* expressions: every operator of both classes, flags, modifiers, parentheses, calls, literals of three radixes *)
    [m0; K (T ".word"); s1; L (T "1"); s0; L (T "+"); s0; L (T "2"); s0; L (T "*"); s0; L (T "3"); s0; L (T "-"); s0; L (T "("); s0;
     L (T "4"); s0; L (T "<<"); s0; L (T "2"); s0; L (T ")"); s0; L (T ","); s0; L (T "%"); L (T "101"); s0; L (T "^"); s0; L (T "$"); K (T "ff")];
    [m0; K (T ".byte"); s1; L (T "a"); s0; L (T "=="); s0; L (T "b"); s0; L (T "&&"); s0; L (T "c"); s0; L (T "!="); s0; L (T "d"); s0; L (T "||"); s0;
     L (T "e"); s0; L (T ">="); s0; L (T "f"); s0; L (T ","); s0; L (T "g"); s0; L (T "<="); s0; L (T "h"); s0; L (T ">>"); s0; L (T "1")];
    [m0; K (T ".byte"); s0; L (T "<"); s0; L (T "addr"); s0; L (T ","); s0; L (T ">"); s0; L (T "addr"); s0; L (T ","); s0; L (T "!"); s0; L (T "x1");
     s0; L (T ","); s0; L (T "-"); L (T "y1"); s0; L (T ","); s0; L (T "defined"); s0; L (T "("); s0; L (T "z1"); s0; L (T ")"); s0; L (T ",");
     s0; L (T "*"); s0; L (T ","); s0; K (T "true"); s0; L (T ","); s0; K (T "false")];
    (* data, text, strings with interpolation *)
    [m0; K (T ".dword"); s1; L (T "1"); s0; L (T ","); s0; L (T "2")];
    [m0; K (T ".text"); s1; K (T "petscii"); s0; L (T """a b{"); s0; L (T "foo.bar}"""); s0; L (T "+"); s0; L (T """c""")];
    [m0; K (T ".text"); s0; L (T """x // not a comment /* nor this */""")];
    [m0; K (T ".text"); s1; K (T "ascii"); s1; L (T "name")];
    [m0; K (T ".text"); s1; K (T "petscreen"); s0; L (T """q""")];
    (* definitions *)
    [m0; K (T ".const"); s1; L (T "foo"); s0; L (T "="); s0; L (T "1")];
    [m0; K (T ".var"); s1; L (T "foo"); s0; L (T "="); s0; L (T "$"); K (T "c000")];
    [m0; L (T "*"); s0; L (T "="); s0; L (T "$1000")];
    [m0; K (T ".align"); s1; L (T "16")];
    [m0; K (T ".file"); s0; L (T """a.bin""")];
    (* labels, braces, blocks *)
    [m0; L (T "foo"); L (T ":"); m0; K (T "nop")];
    [m0; L (T "foo"); L (T ":"); m0; L (T "{"); m0; K (T "nop"); m1; K (T "rts"); m0; L (T "}")];
    [m0; L (T "{"); m0; L (T "{"); m0; K (T "inx"); m0; L (T "}"); m0; L (T "}"); m0; K (T "brk")];
    [m0; K (T ".if"); s1; L (T "foo"); m0; L (T "{"); m0; K (T "nop"); m0; L (T "}"); m0; K (T "else"); m0; L (T "{"); m0; K (T "brk"); m0; L (T "}")];
    [m0; K (T ".if"); s0; L (T "!"); s0; L (T "defined"); s0; L (T "("); s0; L (T "foo"); s0; L (T ")"); m0; L (T "{"); m0; L (T "}")];
    [m0; K (T ".loop"); s1; L (T "3"); m0; L (T "{"); m0; K (T "dex"); m0; L (T "}")];
    [m0; K (T ".segment"); s0; L (T """code"""); m0; L (T "{"); m0; K (T "nop"); m0; L (T "}")];
    [m0; K (T ".segment"); s1; L (T "code")];
    (* macros *)
    [m0; K (T ".macro"); s1; L (T "mm"); s0; L (T "("); s0; L (T "a"); s0; L (T ","); s0; L (T "b"); s0; L (T ")"); m0; L (T "{"); m0;
     K (T "lda"); s0; L (T "#"); s0; L (T "a"); m0; L (T "}")];
    [m0; K (T ".macro"); s1; L (T "mm"); s0; L (T "("); s0; L (T ")"); m0; L (T "{"); m0; L (T "}")];
    [m0; L (T "mm"); s0; L (T "("); s0; L (T "1"); s0; L (T ","); s0; L (T "foo"); s0; L (T ")")];
    [m0; L (T "mm"); s0; L (T "("); s0; L (T ")")];
    (* config maps: every terminal is multi-line *)
    [m0; K (T ".define"); s1; L (T "segment"); m0; L (T "{"); m0; L (T "name"); m0; L (T "="); m0; L (T """a"""); m1; L (T "start"); m0; L (T "=");
     m0; L (T "$"); K (T "2000"); m1; L (T "nested-key"); m0; L (T "="); m0; L (T "{"); m0; L (T "k"); m0; L (T "="); m0; L (T "v"); m0; L (T "}"); m0; L (T "}")];
    (* imports *)
    [m0; K (T ".import"); s0; L (T "*"); m0; K (T "from"); s0; L (T """lib.asm""")];
    [m0; K (T ".import"); s0; L (T "*"); s0; K (T "as"); s1; L (T "ns"); m1; K (T "from"); s0; L (T """lib.asm""")];
    [m0; K (T ".import"); s1; L (T "foo"); s0; L (T ","); s0; L (T "bar.baz"); s1; K (T "as"); s1; L (T "qux"); m1; K (T "from"); s0; L (T """lib.asm""");
     m0; L (T "{"); m0; K (T ".const"); s1; L (T "p"); s0; L (T "="); s0; L (T "1"); m0; L (T "}")];
    (* tests *)
    [m0; K (T ".test"); s0; L (T """t1"""); m0; L (T "{"); m0; K (T ".assert"); s1; L (T "1"); s0; L (T "=="); s0; L (T "1"); s0; L (T """msg""");
     m1; K (T ".trace"); s0; L (T "("); s0; L (T "a"); s0; L (T ","); s0; L (T "b"); s0; L (T ")"); m1; K (T ".trace"); m0; L (T "}")];
    (* several statements *)
    [m0; K (T "lda"); s0; L (T "#"); L (T "1"); m1; K (T "sta"); s1; L (T "$d020"); m1; K (T "rts"); m0]
  ].

Definition templates : list (list item) :=
  statement_templates
  ++ map (fun e => instr_imm (fst e)) mnemonic_table
  ++ map (fun e => instr_abs_x (fst e)) mnemonic_table
  ++ map (fun e => instr_implied (fst e)) implied_mnemonic_table.

Lemma templates_check : forallb check_template templates = true.
Proof. vm_compute. reflexivity. Qed.

Theorem layout_bounded : forall tpl, In tpl templates ->
  exists k, skel_parse (canon tpl) = Some k /\ forall v, In v (variants tpl) -> skel_parse v = Some k.
Proof.
  intros tpl Hin. pose proof templates_check as H. rewrite forallb_forall in H. specialize (H tpl Hin).
  unfold check_template in H. destruct (skel_parse (canon tpl)) as [k|]; [|discriminate].
  exists k. split; [reflexivity|]. intros v Hv. rewrite forallb_forall in H. specialize (H v Hv).
  destruct (skel_parse v) as [k'|]; [|discriminate]. f_equal. apply sxl_eqb_eq. assumption.
Qed.

Definition n_templates : nat := List.length templates.
Definition n_variants : nat := List.length (List.concat (map variants templates)).

From Coq Require Import List NArith ZArith Bool Lia.
Import ListNotations.
From Mos Require Import Gen.OpcodeTable spec.Isa model.Encode.
Open Scope Z_scope.

(* ---- the translated table, read per syntactic form, is the ISA matrix ---- *)
Definition c (len : nat) (o : option N) : list (N * nat) := match o with Some x => [(x, len)] | None => [] end.

Definition spec_cands (m : mnemonic) (f : form) : list (N * nat) :=
  match f with
  | FImplied => c 0 (isa m MImp)
  | FImm => c 1 (isa m MImm)
  | FAbs => c 1 (isa m MZp) ++ c 1 (isa m MRel) ++ c 2 (isa m MAbs)
  | FAbsX => c 1 (isa m MZpX) ++ c 2 (isa m MAbsX)
  | FAbsY => c 1 (isa m MZpY) ++ c 2 (isa m MAbsY)
  | FIndX => c 1 (isa m MIndX)
  | FIndY => c 1 (isa m MIndY)
  | FInd => c 2 (isa m MInd)
  | FIndYinner | FIndXouter => []
  end.

Definition code_cands (m : mnemonic) (f : form) : list (N * nat) :=
  let k := match form_operand f with Some (a, s) => (m, a, s) | None => (m, Implied, None) end in
  match lookup_row rows k with Some cs => cs | None => [] end.

Definition pairs_eqb (l1 l2 : list (N * nat)) : bool :=
  Nat.eqb (length l1) (length l2) &&
  forallb (fun p => N.eqb (fst (fst p)) (fst (snd p)) && Nat.eqb (snd (fst p)) (snd (snd p))) (combine l1 l2).

Lemma pairs_eqb_eq l1 l2 : pairs_eqb l1 l2 = true -> l1 = l2.
Proof.
  revert l2; induction l1 as [|[a n] l1 IH]; intros [|[b k] l2]; unfold pairs_eqb; cbn; try discriminate; auto.
  intros H. apply andb_prop in H as [Hl H]. apply andb_prop in H as [Hh Ht].
  apply andb_prop in Hh as [Ha Hn]. apply N.eqb_eq in Ha. apply Nat.eqb_eq in Hn. subst.
  f_equal. apply IH. unfold pairs_eqb. rewrite Hl, Ht. reflexivity.
Qed.

Definition all_keys : list (mnemonic * form) := list_prod all_mnemonics all_forms.

Definition mismatches : list (mnemonic * form) :=
  filter (fun k => negb (pairs_eqb (code_cands (fst k) (snd k)) (spec_cands (fst k) (snd k)))) all_keys.

(* keys of the translated table that no syntactic form reaches must not exist either:
   every row's (am, suffix) is the image of some form *)
Definition row_reachable (r : mnemonic * am * option reg * list (N * nat)) : bool :=
  let '(m, a, s, _) := r in
  existsb (fun f => match form_operand f with
                    | Some (a', s') => am_beq a a' && match s, s' with None, None => true | Some x, Some y => reg_beq x y | _, _ => false end
                    | None => am_beq a Implied && match s with None => true | _ => false end
                    end) all_forms.

Lemma all_mnemonics_complete : forall m, In m all_mnemonics.
Proof. destruct m; vm_compute; tauto. Qed.
Lemma all_forms_complete : forall f, In f all_forms.
Proof. destruct f; vm_compute; tauto. Qed.

Lemma table_is_isa_comp : mismatches = [].
Proof. vm_compute. reflexivity. Qed.

Lemma table_is_isa : forall m f, code_cands m f = spec_cands m f.
Proof.
  intros m f.
  assert (Hin : In (m, f) all_keys) by (apply in_prod; [apply all_mnemonics_complete | apply all_forms_complete]).
  destruct (pairs_eqb (code_cands m f) (spec_cands m f)) eqn:E.
  - apply pairs_eqb_eq; exact E.
  - exfalso. assert (In (m, f) mismatches).
    { unfold mismatches. apply filter_In. split; [exact Hin|]. cbn [fst snd]. rewrite E. reflexivity. }
    rewrite table_is_isa_comp in H. exact H.
Qed.

Lemma rows_all_reachable : forallb row_reachable rows = true.
Proof. vm_compute. reflexivity. Qed.

(* number of documented opcodes and their distinctness *)
Definition isa_opcodes : list N :=
  flat_map (fun x => match isa (fst x) (snd x) with Some o => [o] | None => [] end) (list_prod all_mnemonics all_modes).
Lemma isa_has_151_distinct_opcodes : length isa_opcodes = 151%nat /\ NoDup isa_opcodes.
Proof.
  split; [vm_compute; reflexivity|].
  assert (H : nodup N.eq_dec isa_opcodes = isa_opcodes) by (vm_compute; reflexivity).
  rewrite <- H. apply NoDup_nodup.
Qed.

(* ---- candidate selection ---- *)
Lemma zp_rule : zp_cmp = CLt /\ zp_limit = 256.
Proof. split; reflexivity. Qed.

Lemma cmp_zp v : cmp_holds zp_cmp v zp_limit = (v <=? 255).
Proof.
  destruct zp_rule as [-> ->]. unfold cmp_holds.
  destruct (v <? 256) eqn:A; destruct (v <=? 255) eqn:B; try reflexivity; lia.
Qed.

Lemma u16_lo v : 0 <= v <= 65535 -> as_u16_lo v = lo v.
Proof. intros H. unfold as_u16_lo, lo. rewrite (Z.mod_small v 65536) by lia. reflexivity. Qed.
Lemma u16_hi v : 0 <= v <= 65535 -> as_u16_hi v = hi v.
Proof.
  intros H. unfold as_u16_hi, hi. rewrite (Z.mod_small v 65536) by lia.
  rewrite (Z.mod_small (v / 256) 256); [reflexivity|].
  split; [apply Z.div_pos; lia | apply Z.div_lt_upper_bound; lia].
Qed.

Lemma select_c0 o v : select (c 0 o) v = match o with Some x => Some [x] | None => None end.
Proof. destruct o; reflexivity. Qed.
Lemma select_c1 o v : select (c 1 o) v = one_byte o v.
Proof. destruct o; cbn [c select one_byte]; [rewrite cmp_zp; reflexivity | reflexivity]. Qed.
Lemma select_c2 o v : 0 <= v <= 65535 -> select (c 2 o) v = two_byte o v.
Proof. intros H. destruct o; cbn [c select two_byte]; [rewrite u16_lo, u16_hi by exact H|]; reflexivity. Qed.
Lemma select_c1_c2 a b v : 0 <= v <= 65535 -> select (c 1 a ++ c 2 b) v = zp_abs a b v.
Proof.
  intros H. destruct a as [a|]; cbn [c app select zp_abs].
  - rewrite cmp_zp. destruct (v <=? 255); [reflexivity|]. apply (select_c2 b v H).
  - apply (select_c2 b v H).
Qed.

Lemma is_branch_code_spec m : is_branch_code m = is_branch m.
Proof. destruct m; reflexivity. Qed.

Lemma nonbranch_rel m : is_branch m = false -> isa m MRel = None.
Proof. destruct m; cbn; intros H; try reflexivity; discriminate. Qed.
Lemma branch_modes m : is_branch m = true ->
  isa m MZp = None /\ isa m MAbs = None /\ exists o, isa m MRel = Some o.
Proof. destruct m; cbn; intros H; try discriminate; repeat split; eexists; reflexivity. Qed.

Lemma get_opcode_bytes_cands m f v :
  match form_operand f with
  | Some (a, s) => get_opcode_bytes m a s v
  | None => get_opcode_bytes m Implied None v
  end = select (code_cands m f) v.
Proof.
  unfold code_cands, get_opcode_bytes.
  destruct (form_operand f) as [[a s]|]; destruct (lookup_row rows _); reflexivity.
Qed.

Lemma code_encode_nonbranch m f v cur :
  is_branch m = false ->
  code_encode m f v cur = select (code_cands m f) (match form_operand f with Some _ => v | None => 0 end).
Proof.
  intros Hb. unfold code_encode, emit_instruction. rewrite is_branch_code_spec, Hb.
  pose proof (get_opcode_bytes_cands m f) as G.
  destruct (form_operand f) as [[a s]|]; rewrite G; destruct (select _ _); reflexivity.
Qed.

Lemma encode_legal m f v cur :
  is_branch m = false -> 0 <= v <= 65535 ->
  code_encode m f v cur = spec_encode m f v.
Proof.
  intros Hb Hv. rewrite (code_encode_nonbranch m f v cur Hb), table_is_isa.
  destruct f; cbn [form_operand spec_cands spec_encode]; rewrite ?(nonbranch_rel m Hb); cbn [c app];
    rewrite ?select_c1_c2, ?select_c1, ?select_c2, ?select_c0 by exact Hv; reflexivity.
Qed.

(* every combination the ISA does not define is rejected for EVERY value (no guard on v) *)
Definition isa_undefined (m : mnemonic) (f : form) : Prop := spec_cands m f = [].
Lemma encode_undefined_rejected m f v cur :
  isa_undefined m f -> code_encode m f v cur = None.
Proof.
  intros Hu. unfold code_encode, emit_instruction.
  assert (Hs : forall w, match form_operand f with
                   | Some (a, s) => get_opcode_bytes m a s w
                   | None => get_opcode_bytes m Implied None w end = None).
  { intros w. rewrite get_opcode_bytes_cands, table_is_isa, Hu. reflexivity. }
  destruct (form_operand f) as [[a s]|];
  repeat match goal with
         | |- context [if ?b then _ else _] => destruct b
         end; rewrite ?Hs; reflexivity.
Qed.

(* immediate operands above 255 are rejected, whatever the mnemonic *)
Lemma immediate_above_255_rejected m v cur : 255 < v -> is_branch m = false -> code_encode m FImm v cur = None.
Proof.
  intros Hv Hb. unfold code_encode, emit_instruction. rewrite is_branch_code_spec, Hb.
  pose proof (get_opcode_bytes_cands m FImm v) as G. cbn [form_operand] in *. rewrite G, table_is_isa.
  cbn [spec_cands]. rewrite select_c1. unfold one_byte.
  destruct (isa m MImm); [|reflexivity]. destruct (v <=? 255) eqn:E; [lia | reflexivity].
Qed.

(* ---- branches ---- *)
Lemma branch_consts : branch_plus = 2 /\ branch_lo = -128 /\ branch_hi = 127 /\ branch_fix = 256 /\ branch_escape = None.
Proof. repeat split; reflexivity. Qed.

Lemma branch_encode m pc target :
  is_branch m = true -> 0 <= pc <= 65535 -> - 2 ^ 62 <= target <= 2 ^ 62 ->
  code_encode m FAbs target (Some pc) = spec_branch m pc target.
Proof.
  intros Hb Hpc Htg. unfold code_encode, emit_instruction, spec_branch. cbn [form_operand].
  rewrite is_branch_code_spec, Hb.
  destruct branch_consts as (-> & -> & -> & -> & ->).
  destruct (branch_modes m Hb) as (Hzp & Hab & o & Hrel). rewrite Hrel.
  assert (E1 : (two64 <=? pc + 2) = false) by (unfold two64; lia). rewrite E1. cbn [andb].
  assert (E2 : usize_as_i64 (pc + 2) = pc + 2) by (unfold usize_as_i64, i64_max; destruct (pc + 2 <=? _) eqn:?; lia).
  rewrite E2.
  set (d := target - (pc + 2)).
  assert (E3 : in_i64 d = true) by (unfold in_i64, i64_min, i64_max, d; lia). rewrite E3. cbn [negb andb].
  destruct ((-128 <=? d) && (d <=? 127)) eqn:R.
  - pose proof (get_opcode_bytes_cands m FAbs (if d <? 0 then d + 256 else d)) as G. cbn [form_operand] in G.
    rewrite G, table_is_isa. cbn [spec_cands]. rewrite Hzp, Hab, Hrel. cbn [c app select].
    rewrite cmp_zp.
    apply andb_prop in R as [R1 R2].
    destruct (d <? 0) eqn:N.
    + replace (d + 256 <=? 255) with true by lia.
      unfold as_u8, byte. replace ((d + 256) mod 256) with (d mod 256); [reflexivity|].
      rewrite <- (Z.mod_add d 1 256) by lia. f_equal; lia.
    + replace (d <=? 255) with true by lia. reflexivity.
  - reflexivity.
Qed.

(* a negative branch operand -1 / -2 in the pass that has no current pc: `target as usize + 2` wraps around (it panicked
   before the program-counter range fix), the pretended offset is -2 *)
Lemma branch_negative_target_wraps :
  emit_instruction Bne FAbs (-1) None = ([208%N; 254%N], None) /\ emit_instruction Bne FAbs (-2) None = ([208%N; 254%N], None).
Proof. vm_compute. split; reflexivity. Qed.

(* the branch arm never panics, whatever the operand and the current pc *)
Lemma emit_instruction_no_panic m f v cur : 0 <= match cur with Some p => p | None => 0 end < two64 ->
  snd (emit_instruction m f v cur) <> Some InstrPanic.
Proof.
  intros Hc. unfold emit_instruction.
  destruct (form_operand f) as [[a sfx]|]; destruct (is_branch_code m);
    change branch_add_wraps with true; change branch_sub_wraps with true; rewrite ?andb_false_r; cbv zeta;
    repeat match goal with
           | |- context [if ?b then _ else _] => destruct b
           | |- context [match ?x with Some _ => _ | None => _ end] => destruct x
           end; cbn [snd]; discriminate.
Qed.

(* a branch to address 0 is a branch like any other (the `target_pc == 0` escape is gone): out of range => rejected *)
Lemma branch_to_zero_rejected :
  spec_branch Bne 8192 0 = None /\ code_encode Bne FAbs 0 (Some 8192) = None /\
  code_encode Bne FAbs 0 (Some 100) = Some [208%N; 154%N].
Proof. vm_compute. repeat split; reflexivity. Qed.

(* outside 0..65535 the model truncates (documented behaviour, not demanded rejected) *)
Lemma out_of_range_documented :
  code_encode Lda FAbs (-1) None = Some [165%N; 255%N] /\
  code_encode Lda FAbs 74565 None = Some [173%N; 69%N; 35%N].
Proof. vm_compute. split; reflexivity. Qed.

(* Bookkeeping of the language server (model/Lsp.v Part E) against spec/LspSpec.v Part 2. *)
From Coq Require Import List NArith Arith Bool Lia.
From Mos Require Import model.Lsp spec.LspSpec proofs.LspStrProofs.
Import ListNotations.

Section BookProofs.
  Variables path analysis diag request response : Type.
  Variable path_eqb : path -> path -> bool.
  Hypothesis path_eqb_spec : forall a b, path_eqb a b = true <-> a = b.
  Variable analyze : (path -> option text) -> analysis.
  (* the analysis reads files only through the parsing source *)
  Hypothesis analyze_ext : forall f g, (forall p, f p = g p) -> analyze f = analyze g.
  Variable disk : path -> option text.
  Variable tree_files : analysis -> list path.
  Variable diags_of : analysis -> path -> list diag.
  Variable tree_text : analysis -> path -> option text.
  Variable answer : analysis -> request -> response.
  Variable null : response.
  Variable rename_answer : analysis -> request -> option response.
  Variable codelens : (path -> option text) -> request -> response.
  Hypothesis codelens_ext : forall f g r, (forall p, f p = g p) -> codelens f r = codelens g r.
  Variable prepare_answer : analysis -> request -> nat * nat -> response.
  Variable completion_answer : analysis -> request -> option text -> response.
  Variable is_alnum_non_ascii : N -> bool.

  Notation State := (state path analysis diag response).
  Notation Event := (event path request).
  Notation src := (source path_eqb disk).
  Notation lk := (lookup path_eqb).
  Notation memp := (mem path_eqb).
  Notation pub := (publish path_eqb tree_files diags_of).
  Notation pcg := (perform_codegen path_eqb analyze disk).
  Notation hreq := (handle_request path analysis diag request response path_eqb disk tree_text answer null
                                   rename_answer codelens prepare_answer completion_answer is_alnum_non_ascii).
  Notation stp := (step path analysis diag request response path_eqb analyze disk tree_files diags_of tree_text answer null
                        rename_answer codelens prepare_answer completion_answer is_alnum_non_ascii).
  Notation runf := (run_from path analysis diag request response path_eqb analyze disk tree_files diags_of tree_text answer
                             null rename_answer codelens prepare_answer completion_answer is_alnum_non_ascii).
  Notation rn := (run path analysis diag request response path_eqb analyze disk tree_files diags_of tree_text answer null
                      rename_answer codelens prepare_answer completion_answer is_alnum_non_ascii).
  Notation ini := (init (diag:=diag) (response:=response) path_eqb analyze disk).
  Notation fbuf := (final_buffers path request path_eqb).
  Notation apev := (apply_event path request path_eqb).
  Notation shf := (shown_for path_eqb).
  Notation isreq := (is_request path request).
  Notation isnote := (is_file_notification path request).

  Lemma eqb_refl : forall a, path_eqb a a = true.
  Proof. intro. apply path_eqb_spec. reflexivity. Qed.

  (* ------------------------------------------------------------ association lists *)
  Lemma lookup_remove : forall A (m : list (path * A)) p q,
    lk p (remove path_eqb q m) = if path_eqb p q then None else lk p m.
  Proof.
    induction m as [|[k v] r IH]; intros p q; simpl.
    - destruct (path_eqb p q); reflexivity.
    - destruct (path_eqb q k) eqn:E.
      + apply path_eqb_spec in E. subst. rewrite IH. destruct (path_eqb p k); reflexivity.
      + simpl. rewrite IH. destruct (path_eqb p k) eqn:E2; auto.
        apply path_eqb_spec in E2. subst.
        destruct (path_eqb k q) eqn:E3; auto. apply path_eqb_spec in E3. subst. rewrite eqb_refl in E. discriminate.
  Qed.
  Lemma lookup_insert : forall A (m : list (path * A)) p q v,
    lk p (insert path_eqb q v m) = if path_eqb p q then Some v else lk p m.
  Proof.
    intros. unfold insert. simpl. destruct (path_eqb p q) eqn:E; auto. rewrite lookup_remove, E. reflexivity.
  Qed.

  Lemma fold_insert_lookup : forall (g : path -> list diag) l sh p,
    lk p (fold_left (fun sh f => insert path_eqb f (g f) sh) l sh) = if memp p l then Some (g p) else lk p sh.
  Proof.
    induction l as [|a l IH]; intros sh p; cbn [fold_left mem existsb]; auto.
    rewrite IH. fold (memp p l). destruct (memp p l); [rewrite orb_true_r; reflexivity|]. rewrite orb_false_r.
    rewrite lookup_insert. destruct (path_eqb p a) eqn:E; auto. apply path_eqb_spec in E. subst. reflexivity.
  Qed.
  Lemma fold_clear_lookup : forall F l (sh : list (path * list diag)) p,
    lk p (fold_left (fun sh f => if memp f F then sh else insert path_eqb f [] sh) l sh)
    = if memp p l && negb (memp p F) then Some [] else lk p sh.
  Proof.
    induction l as [|a l IH]; intros sh p; cbn [fold_left mem existsb]; auto.
    rewrite IH. fold (memp p l). destruct (memp p l && negb (memp p F)) eqn:E.
    - apply andb_true_iff in E. destruct E as [E1 E2]. rewrite E1, orb_true_r, E2. reflexivity.
    - destruct (path_eqb p a) eqn:Ea; cbn [orb andb].
      + apply path_eqb_spec in Ea. subst. destruct (memp a F) eqn:EF; simpl; auto.
        rewrite eqb_refl. reflexivity.
      + rewrite E. destruct (memp a F); auto. rewrite lookup_insert, Ea. reflexivity.
  Qed.

  (* ------------------------------------------------------------ what publish_diagnostics leaves on the client *)
  Notation current_diags := (spec_diags path_eqb tree_files diags_of).

  Lemma publish_shown : forall (s : State) p,
    shf (pub s) p = if memp p (tree_files (ana s)) then diags_of (ana s) p
                    else if memp p (published_files s) then [] else shf s p.
  Proof.
    intros s p. unfold shown_for, publish. cbn [shown].
    rewrite fold_insert_lookup. destruct (memp p (tree_files (ana s))) eqn:E; auto.
    rewrite fold_clear_lookup, E. simpl. rewrite andb_true_r. destruct (memp p (published_files s)); auto.
  Qed.

  (* ------------------------------------------------------------ the invariant *)
  Definition Core (b : path -> option text) (k : nat) (s : State) : Prop :=
    (forall p, lk p (files s) = b p) /\
    ana s = analyze (src (files s)) /\
    length (log s) = k /\ Forall (fun r => r <> None) (log s).
  (* nothing is shown for files outside the set published last *)
  Definition Quiet (s : State) : Prop := forall p, memp p (published_files s) = false -> shf s p = [].
  Definition Inv (b : path -> option text) (n : bool) (k : nat) (s : State) : Prop :=
    Core b k s /\
    (if n then published_files s = tree_files (ana s) /\ (forall p, shf s p = current_diags (ana s) p)
     else published_files s = [] /\ shown s = []).

  Lemma inv_quiet : forall b n k s, Inv b n k s -> Quiet s.
  Proof.
    intros b n k s [_ H] p Hp. destruct n; destruct H as [H1 H2].
    - rewrite H2. unfold spec_diags. fold (memp p (tree_files (ana s))). rewrite <- H1, Hp. reflexivity.
    - unfold shown_for. rewrite H2. reflexivity.
  Qed.

  Lemma publish_inv : forall b k s, Core b k s -> Quiet s -> Inv b true k (pub s).
  Proof.
    intros b k s HC HQ. split; [exact HC|]. cbn [publish published_files ana]. split; auto.
    intro p. rewrite publish_shown. unfold spec_diags; fold (memp p (tree_files (ana s))).
    destruct (memp p (tree_files (ana s))) eqn:E; auto.
    destruct (memp p (published_files s)) eqn:E2; auto.
  Qed.

  Lemma respond_inv : forall b n k s r, Inv b n k s -> Inv b n (S k) (respond s r).
  Proof.
    intros b n k s r [(Hf & Ha & Hk & Hl) Hn]. split; [|exact Hn].
    unfold Core, respond. cbn [files ana log]. repeat split; auto. simpl; lia. constructor; auto. discriminate.
  Qed.

  Lemma pcg_same : forall b n k s, Inv b n k s -> pcg s = s.
  Proof. intros b n k s [(Hf & Ha & _) _]. unfold perform_codegen. rewrite <- Ha. destruct s; reflexivity. Qed.

  Lemma hreq_ok : forall b n k s kind p line col r, Inv b n k s ->
    exists s', hreq s kind p line col r = Ok s' /\ Inv b n (S k) s'.
  Proof.
    intros b n k s kind p line col r HI. destruct kind; cbn [handle_request].
    - destruct (tree_text (ana s) p) as [t|]; [|eexists; split; [reflexivity|apply respond_inv; auto]].
      pose proof (prepare_rename_range_total is_alnum_non_ascii t line col) as T.
      destruct (prepare_rename_range is_alnum_non_ascii t line col) as [[rg|]|]; [| |congruence];
        cbn [bind]; eexists; (split; [reflexivity|apply respond_inv; auto]).
    - destruct (tree_text (ana s) p) as [t|]; [|eexists; split; [reflexivity|apply respond_inv; auto]].
      pose proof (completion_scope_total is_alnum_non_ascii t line col) as T.
      destruct (completion_scope is_alnum_non_ascii t line col) as [sc|]; [|congruence].
      cbn [bind]. eexists. split; [reflexivity|apply respond_inv; auto].
    - destruct (rename_answer (ana s) r); eexists; (split; [reflexivity|]); apply respond_inv; auto.
    - eexists. split; [reflexivity|apply respond_inv; auto].
    - eexists. split; [reflexivity|apply respond_inv; auto].
  Qed.

  Lemma notify_inv : forall b b' n k s fs,
    Inv b n k s -> (forall p, lk p fs = b' p) ->
    Inv b' true k (pub (pcg (mkState fs (ana s) (published_files s) (shown s) (log s)))).
  Proof.
    intros b b' n k s fs HI Hfs. pose proof (inv_quiet _ _ _ _ HI) as HQ.
    destruct HI as [(Hf & Ha & Hk & Hl) Hn].
    apply publish_inv.
    - unfold Core, perform_codegen. cbn [files ana log]. repeat split; auto.
    - intros p Hp. apply HQ. exact Hp.
  Qed.

  Lemma step_inv : forall b n k s e, Inv b n k s ->
    exists s', stp s e = Ok s' /\
               Inv (apev b e) (n || isnote e) (k + (if isreq e then 1 else 0)) s'.
  Proof.
    intros b n k s e HI. pose proof HI as [(Hf & Ha & Hk & Hl) Hn].
    destruct e as [[p|] t | [p|] t | [p|] | kind [p|] line col r]; cbn [step apply_event is_file_notification is_request];
      rewrite ?orb_true_r, ?orb_false_r, ?Nat.add_0_r, ?Nat.add_1_r.
    - eexists. split; [reflexivity|]. unfold register_document. apply notify_inv with (b := b) (n := n); auto.
      intro q. rewrite lookup_insert, Hf. reflexivity.
    - eexists. split; [reflexivity|]. exact HI.
    - eexists. split; [reflexivity|]. unfold register_document. apply notify_inv with (b := b) (n := n); auto.
      intro q. rewrite lookup_insert, Hf. reflexivity.
    - eexists. split; [reflexivity|]. exact HI.
    - eexists. split; [reflexivity|]. apply notify_inv with (b := b) (n := n); auto.
      intro q. rewrite lookup_remove, Hf. reflexivity.
    - eexists. split; [reflexivity|]. exact HI.
    - apply hreq_ok. exact HI.
    - eexists. split; [reflexivity|]. apply respond_inv. exact HI.
  Qed.

  Lemma run_from_inv : forall h b n k s, Inv b n k s ->
    exists s', runf s h = Ok s' /\
               Inv (fold_left apev h b) (n || existsb isnote h) (k + length (filter isreq h)) s'.
  Proof.
    induction h as [|e h IH]; intros b n k s HI; simpl.
    - exists s. rewrite orb_false_r, Nat.add_0_r. auto.
    - destruct (step_inv _ _ _ _ e HI) as [s1 [E1 I1]]. rewrite E1. cbn [bind].
      destruct (IH _ _ _ _ I1) as [s2 [E2 I2]]. exists s2. split; auto.
      rewrite orb_assoc. destruct (isreq e); simpl; rewrite ?Nat.add_0_r in *; auto.
      replace (k + S (length (filter isreq h))) with (k + 1 + length (filter isreq h)) by lia. auto.
  Qed.

  Lemma init_inv : Inv (fun _ => None) false 0 ini.
  Proof. unfold Inv, Core, init. cbn [files ana published_files shown log]. repeat split; auto. Qed.

  (* ------------------------------------------------------------ the theorems *)
  Theorem run_inv : forall h, exists s, rn h = Ok s /\
    Inv (fbuf h) (notified path request h) (length (filter isreq h)) s.
  Proof.
    intro h. destruct (run_from_inv h _ _ _ _ init_inv) as [s [E I]]. exists s. split; auto.
  Qed.

  Notation overlay := (overlay disk).

  Theorem state_is_function : forall h s, rn h = Ok s ->
    (forall p, lk p (files s) = fbuf h p) /\ ana s = analyze (overlay (fbuf h)).
  Proof.
    intros h s E. destruct (run_inv h) as [s' [E' [(Hf & Ha & _) _]]]. rewrite E in E'. inversion E'; subst s'.
    split; auto. rewrite Ha. apply analyze_ext. intro p. unfold source, LspSpec.overlay. rewrite Hf. reflexivity.
  Qed.

  Theorem published_current : forall h s, rn h = Ok s -> notified path request h = true ->
    forall p, shf s p = current_diags (analyze (overlay (fbuf h))) p.
  Proof.
    intros h s E N p. destruct (state_is_function h s E) as [_ Ha].
    destruct (run_inv h) as [s' [E' [_ Hn]]]. rewrite E in E'. inversion E'; subst s'.
    rewrite N in Hn. destruct Hn as [_ Hs]. rewrite Hs, Ha. reflexivity.
  Qed.

  Theorem nothing_published_before_first_notification : forall h s, rn h = Ok s -> notified path request h = false ->
    forall p, shf s p = [].
  Proof.
    intros h s E N p. destruct (run_inv h) as [s' [E' [_ Hn]]]. rewrite E in E'. inversion E'; subst s'.
    rewrite N in Hn. destruct Hn as [_ Hs]. unfold shown_for. rewrite Hs. reflexivity.
  Qed.

  Theorem survives : survives_any_request path request response State rn (@log path analysis diag response).
  Proof.
    intro h. destruct (run_inv h) as [s [E [(_ & _ & Hk & Hl) _]]]. exists s. auto.
  Qed.

  (* the answer to a request is a function of the analysis and of the parsing source *)
  Definition resp_of (a : analysis) (sf : path -> option text) (e : Event) : option response :=
    match e with
    | Req kind (FileUri p) line col r =>
        match kind with
        | RPrepareRename =>
            match tree_text a p with
            | None => Some null
            | Some t => match prepare_rename_range is_alnum_non_ascii t line col with
                        | Ok (Some rg) => Some (prepare_answer a r rg)
                        | _ => Some null
                        end
            end
        | RCompletion =>
            match tree_text a p with
            | None => Some (completion_answer a r None)
            | Some t => match completion_scope is_alnum_non_ascii t line col with
                        | Ok sc => Some (completion_answer a r sc)
                        | Panic => None
                        end
            end
        | RRename => match rename_answer a r with Some x => Some x | None => Some null end
        | RCodeLens => Some (codelens sf r)
        | ROther => Some (answer a r)
        end
    | Req _ OtherUri _ _ _ => Some null
    | _ => None
    end.

  Lemma step_response : forall s e s', isreq e = true -> stp s e = Ok s' ->
    hd None (log s') = resp_of (ana s) (src (files s)) e.
  Proof.
    intros s e s' R E. destruct e as [? ?|? ?|?|kind [p|] line col r]; try discriminate; cbn [step] in E.
    - destruct kind; cbn [handle_request resp_of] in *.
      + destruct (tree_text (ana s) p); [|inversion E; reflexivity].
        destruct (prepare_rename_range _ _ _ _) as [[rg|]|]; cbn [bind] in E; inversion E; reflexivity.
      + destruct (tree_text (ana s) p); [|inversion E; reflexivity].
        destruct (completion_scope _ _ _ _); cbn [bind] in E; inversion E; reflexivity.
      + destruct (rename_answer (ana s) r); inversion E; reflexivity.
      + inversion E; reflexivity.
      + inversion E; reflexivity.
    - inversion E; reflexivity.
  Qed.

  Lemma run_snoc : forall h e, rn (h ++ [e]) = bind (rn h) (fun s => stp s e).
  Proof.
    intros h e. unfold run. generalize ini. induction h as [|a h IH]; intro s; simpl.
    - destruct (stp s e); reflexivity.
    - destruct (stp s a); cbn [bind]; auto.
  Qed.

  Theorem depends_only_on_buffers :
    depends_only_on_current_buffers path diag request response State path_eqb rn shf (@log path analysis diag response).
  Proof.
    intros h h' o o' E E' SB.
    assert (A : analyze (overlay (fbuf h)) = analyze (overlay (fbuf h'))).
    { apply analyze_ext. intro p. unfold LspSpec.overlay. rewrite (SB p). reflexivity. }
    split.
    - intros N N' p. rewrite (published_current h o E N), (published_current h' o' E' N'), A. reflexivity.
    - intros e o1 o1' R E1 E1'. rewrite run_snoc, E in E1. rewrite run_snoc, E' in E1'. cbn [bind] in *.
      rewrite (step_response _ _ _ R E1), (step_response _ _ _ R E1').
      destruct (state_is_function h o E) as [F Ha]. destruct (state_is_function h' o' E') as [F' Ha'].
      rewrite Ha, Ha', A.
      assert (S : forall p, src (files o) p = src (files o') p).
      { intro p. unfold source. rewrite F, F', (SB p). reflexivity. }
      destruct e as [? ?|? ?|?|kind [p|] line col r]; try discriminate; cbn [resp_of]; auto.
      destruct kind; auto. rewrite (codelens_ext _ _ r S). reflexivity.
  Qed.
End BookProofs.

(* ---------------------------------------------------------------- the same, over a `world` *)
Section WorldProofs.
  Variable w : world.
  Hypothesis ok : world_ok w.
  Let Hp := proj1 ok.
  Let Ha := proj1 (proj2 ok).
  Let Hc := proj2 (proj2 ok).

  Theorem w_state_is_function : forall h s, run_w w h = Ok s ->
    (forall p, lookup (w_path_eqb w) p (files s) = final_buffers _ _ (w_path_eqb w) h p) /\
    ana s = w_analyze w (overlay (w_disk w) (final_buffers _ _ (w_path_eqb w) h)).
  Proof. intros h s. apply state_is_function; auto. Qed.

  Theorem w_published_current : forall h s, run_w w h = Ok s -> notified _ _ h = true ->
    forall p, shown_for (w_path_eqb w) s p =
              spec_diags (w_path_eqb w) (w_tree_files w) (w_diags_of w)
                         (w_analyze w (overlay (w_disk w) (final_buffers _ _ (w_path_eqb w) h))) p.
  Proof. intros h s. apply published_current; auto. Qed.

  Theorem w_nothing_published_before : forall h s, run_w w h = Ok s -> notified _ _ h = false ->
    forall p, shown_for (w_path_eqb w) s p = [].
  Proof. intros h s. apply nothing_published_before_first_notification; auto. Qed.

  Theorem w_survives : survives_any_request _ _ _ _ (run_w w) (fun s : w_state w => log s).
  Proof. apply survives; auto. Qed.

  Theorem w_depends_only_on_buffers :
    depends_only_on_current_buffers _ _ _ _ _ (w_path_eqb w) (run_w w) (fun s : w_state w => shown_for (w_path_eqb w) s)
                                    (fun s : w_state w => log s).
  Proof. apply depends_only_on_buffers; auto. Qed.
End WorldProofs.

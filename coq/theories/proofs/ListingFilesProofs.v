(* Proofs for C11: the .lst files written by `mos build`. *)
From Coq Require Import List NArith Bool Lia.
Import ListNotations.
From Mos Require Import model.ListingFiles.

Lemma lookup_create_same : forall {C} name (c : C) t, lookup name (create name c t) = Some c.
Proof. intros. unfold create. cbn [lookup]. rewrite N.eqb_refl. reflexivity. Qed.

Lemma lookup_filter_other : forall {C} name n2 (t : target_files C), n2 <> name ->
  lookup n2 (filter (fun e => negb (N.eqb (fst e) name)) t) = lookup n2 t.
Proof.
  induction t as [|[k c] r IH]; intros H; [reflexivity|]. cbn [filter fst lookup].
  destruct (N.eqb_spec k name) as [E|E]; cbn [negb].
  - subst k. destruct (N.eqb_spec name n2); [congruence|]. apply IH. exact H.
  - cbn [lookup]. destruct (N.eqb k n2); [reflexivity|apply IH; exact H].
Qed.

Lemma lookup_create_other : forall {C} name n2 (c : C) t, n2 <> name -> lookup n2 (create name c t) = lookup n2 t.
Proof.
  intros. unfold create. cbn [lookup]. destruct (N.eqb_spec name n2); [congruence|]. apply lookup_filter_other. assumption.
Qed.

Lemma lookup_write_other : forall {C} (ls : list (source_path * C)) t n,
  (forall e, In e ls -> listing_name (fst e) <> n) -> lookup n (write_listings ls t) = lookup n t.
Proof.
  induction ls as [|[p c] r IH]; intros t n H; [reflexivity|]. cbn [write_listings].
  rewrite IH by (intros; apply H; right; assumption).
  apply lookup_create_other. intro E. apply (H (p, c)); [left; reflexivity|]. cbn. congruence.
Qed.

Lemma collision_false : forall p r, Known_listing_name_collision (p :: r) = false ->
  (forall q, In q r -> snd q <> snd p) /\ Known_listing_name_collision r = false.
Proof.
  intros p r H. cbn [Known_listing_name_collision] in H. apply orb_false_iff in H. destruct H as [H1 H2]. split; [|exact H2].
  intros q Hq E. assert (X : existsb (fun q0 => N.eqb (snd q0) (snd p)) r = true).
  { apply existsb_exists. exists q. split; [exact Hq|]. apply N.eqb_eq. exact E. }
  congruence.
Qed.

(* without a name collision every file's listing can be read back from the target directory *)
Theorem lst_files_guarded : forall {C} (ls : list (source_path * C)) t,
  Known_listing_name_collision (map fst ls) = false ->
  forall p c, In (p, c) ls -> lookup (listing_name p) (write_listings ls t) = Some c.
Proof.
  induction ls as [|[p0 c0] r IH]; intros t H p c Hin; [contradiction|]. cbn [map fst] in H.
  apply collision_false in H. destruct H as [Hd Hr]. cbn [write_listings]. destruct Hin as [Hin|Hin].
  - inversion Hin; subst. rewrite lookup_write_other.
    + apply lookup_create_same.
    + intros e He. unfold listing_name. apply Hd. apply in_map. exact He.
  - apply IH; assumption.
Qed.

(* F-C11e: two source files with the same stem in different directories -- the first listing is lost *)
Theorem lst_files_refuted :
  exists (ls : list (source_path * N)) p c, In (p, c) ls /\ lookup (listing_name p) (write_listings ls []) <> Some c.
Proof.
  exists [((1, 7), 100); ((2, 7), 200)]%N, (1, 7)%N, 100%N. split; [left; reflexivity|]. vm_compute. discriminate.
Qed.

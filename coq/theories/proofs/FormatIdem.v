(* Proofs for C13 on the chunk layer of the formatter model. *)
From Coq Require Import List NArith Bool Arith Lia.
Import ListNotations.
From Mos Require Import model.Utf model.Format Gen.FmtRules model.FormatTokens spec.FormatSpec proofs.FormatProofs proofs.FormatTokensProofs.
Open Scope nat_scope.

(* ---------------------------------------------------------------- F-C13a *)
Definition t_nop : text := [110; 111; 112]%N.
(* "/* x" NL " y */" *)
Definition c_two_lines : text := [47; 42; 32; 120; 10; 32; 121; 32; 42; 47]%N.
(* the same comment as laid out by the first run: the continuation line starts at the code column *)
Definition c_two_lines_laid_out : text := [47; 42; 32; 120; 10]%N ++ spaces 20 ++ [32; 121; 32; 42; 47]%N.

Lemma multiline_comment_refuted : exists o c1 c2 rest,
  let cs c := [mkChunk (Some Comment) 0 c; mkChunk None 0 [NL]; mkChunk None 0 rest] in
  join_chunks (cs c1) o = spaces 20 ++ c2 ++ NL :: spaces 20 ++ rest /\
  join_chunks (cs c2) o <> join_chunks (cs c1) o.
Proof.
  exists default_options, c_two_lines, c_two_lines_laid_out, t_nop. split.
  - vm_compute. reflexivity.
  - vm_compute. discriminate.
Qed.

(* ---------------------------------------------------------------- bounded sweep: re-chunking is a fixed point *)
Definition sweep_alphabet : list chunk :=
  [ mkChunk (Some Label) 0 [97; 58]%N;                               (* a: *)
    mkChunk (Some Label) 2 [97; 98; 99; 100; 101; 102; 58]%N;        (* abcdef:  (wider than the small margins) *)
    mkChunk None 0 [120]%N;                                          (* x *)
    mkChunk None 2 [121; 32; 122]%N;                                 (* y z, indent 2 *)
    mkChunk None 0 [32]%N;                                           (* a blank *)
    mkChunk None 0 [NL];
    mkChunk None 2 [NL];
    mkChunk None 0 [32; 10]%N;                                       (* " \n": a newline behind a pending space *)
    mkChunk (Some Comment) 0 [47; 42; 99; 42; 47]%N;                 (* /*c*/ *)
    mkChunk (Some Comment) 2 [47; 47; 100]%N ].                      (* //d *)

Definition sweep_options : list options :=
  map (fun p : nat * nat * alignment => mkOptions Lowercase Lowercase SameLine 4 (fst (fst p)) (snd p) (snd (fst p)))
      [ (0, 0, ALeft); (0, 4, ARight); (3, 0, ALeft); (3, 0, ARight); (3, 4, ALeft); (3, 4, ARight); (9, 0, ARight); (9, 4, ALeft) ].

(* all lists of length <= n *)
Fixpoint lists_of (n : nat) (alphabet : list chunk) : list (list chunk) :=
  match n with
  | 0 => [[]]
  | S m => [] :: flat_map (fun c => map (cons c) (lists_of m alphabet)) alphabet
  end.

Definition fixed_at (o : options) (cs : list chunk) : bool :=
  implb (stable_chunks cs) (text_eqb (join_chunks (rechunk cs o) o) (join_chunks cs o)).

Lemma sweep_4 : forallb (fun o => forallb (fixed_at o) (lists_of 4 sweep_alphabet)) sweep_options = true.
Proof. vm_cast_no_check (eq_refl true). Qed.

Lemma join_fixed_bounded : forall cs o,
  In o sweep_options -> In cs (lists_of 4 sweep_alphabet) -> stable_chunks cs = true ->
  join_chunks (rechunk cs o) o = join_chunks cs o.
Proof.
  intros cs o Ho Hcs Hst.
  pose proof (proj1 (forallb_forall _ _) sweep_4 o Ho) as H1. cbv beta in H1.
  pose proof (proj1 (forallb_forall _ _) H1 cs Hcs) as H2.
  unfold fixed_at in H2. rewrite Hst in H2. apply text_eqb_eq. exact H2.
Qed.

(* the guard is needed: a label chunk that contains its own line break ends its line in the first run, while a label
   followed by a newline chunk keeps its statement on the same line *)
Lemma join_fixed_needs_stable : exists cs o, stable_chunks cs = false /\ join_chunks (rechunk cs o) o <> join_chunks cs o.
Proof.
  exists [mkChunk (Some Label) 0 [97; 58; 10]%N; mkChunk None 0 [120]%N], default_options.
  split; [reflexivity|]. vm_compute. discriminate.
Qed.

(* Proofs for C13 on the chunk layer of the formatter model. *)
From Coq Require Import List NArith Bool Arith Lia.
Import ListNotations.
From Mos Require Import model.Utf model.Format Gen.FmtRules model.FormatTokens spec.FormatSpec proofs.FormatProofs proofs.FormatTokensProofs.
Open Scope nat_scope.

(* ---------------------------------------------------------------- F-C13a *)
Definition t_nop : text := [110; 111; 112]%N.
(* "/* x" NL " y */" *)
Definition c_two_lines : text := [47; 42; 32; 120; 10; 32; 121; 32; 42; 47]%N.
(* the same comment as laid out by the first run: the continuation line starts at the code column *)
Definition c_two_lines_laid_out : text := [47; 42; 32; 120; 10]%N ++ spaces 20 ++ [121; 32; 42; 47]%N.

(* the repaired F-C13a on the model: the laid-out comment (its continuation line now starts at the code column) is laid
   out in exactly the same way again -- the blanks a continuation line starts with are dropped before it is placed *)
Lemma multiline_comment_fixed : exists o c1 c2 rest,
  let cs c := [mkChunk (Some Comment) 0 c; mkChunk None 0 [NL]; mkChunk None 0 rest] in
  contains_nl c1 = true /\ c2 <> c1 /\
  join_chunks (cs c1) o = spaces 20 ++ c2 ++ NL :: spaces 20 ++ rest /\
  join_chunks (cs c2) o = join_chunks (cs c1) o.
Proof.
  exists default_options, c_two_lines, c_two_lines_laid_out, t_nop. split; [reflexivity|]. split; [discriminate|]. split.
  - vm_compute. reflexivity.
  - vm_compute. reflexivity.
Qed.

(* ---------------------------------------------------------------- the guard of the re-chunking fixed point *)
(* the guard is needed: a label chunk that contains its own line break ends its line in the first run, while a label
   followed by a newline chunk keeps its statement on the same line *)
Lemma join_fixed_needs_stable : exists cs o, stable_chunks cs = false /\ join_chunks (rechunk cs o) o <> join_chunks cs o.
Proof.
  exists [mkChunk (Some Label) 0 [97; 58; 10]%N; mkChunk None 0 [120]%N], default_options.
  split; [reflexivity|]. vm_compute. discriminate.
Qed.

(* Proofs for C18: the runner model (model/TestRun.v) against the verdict spec (spec/TestSpec.v). *)
From Coq Require Import List NArith ZArith Bool Lia Arith PeanoNat.
Import ListNotations.
From Mos Require Import model.I64 Gen.BinOps model.Expr spec.Cpu6502 Gen.CpuSyms model.TestRun spec.TestSpec.
Open Scope Z_scope.

Arguments exec : simpl never.
Arguments check_assertion : simpl never.
Arguments spec_check : simpl never.

(* ---- the translated tables say what the documentation says ---- *)
Lemma cpu_entries_doc : forall c, cpu_entries c = doc_cpu_entries c.
Proof.
  intro c. unfold cpu_entries, doc_cpu_entries. cbn [map app cpu_reg_syms cpu_flag_syms fst snd reg_value].
  destruct (rP c) as [n v d i z cy]. cbn [fN fV fD fI fZ fC].
  destruct n, v, d, i, z, cy; reflexivity.
Qed.

Lemma ram_fn_doc : forall m w r, ram_fn m w r = doc_ram_fn m w r.
Proof.
  intros m w r. unfold ram_fn, doc_ram_fn. destruct r as [[[z|s]|]|e|]; try reflexivity.
  unfold ram_address_space. set (a := z mod 65536).
  assert (0 <= a < 65536) as R by (apply Z.mod_pos_bound; lia).
  unfold accessor_read, ram_size, ram_word_len, ram_byte_len, ram16_combine.
  destruct w.
  - destruct (a =? 65535) eqn:E.
    + apply Z.eqb_eq in E. rewrite E. change (Z.to_nat (Z.min (65535 + 2) 65536 - 65535)) with 1%nat. reflexivity.
    + apply Z.eqb_neq in E. replace (Z.min (a + 2) 65536) with (a + 2) by lia.
      replace (a + 2 - a) with 2 by lia. change (Z.to_nat 2) with 2%nat. cbn [read_cells].
      do 3 f_equal. apply Z.add_comm.
  - replace (Z.min (a + 1) 65536) with (a + 1) by lia. replace (a + 1 - a) with 1 by lia.
    change (Z.to_nat 1) with 1%nat. reflexivity.
Qed.

Lemma eval_g_ext : forall rf rf' m en, (forall m w r, rf m w r = rf' m w r) ->
  forall e, eval_g rf m en e = eval_g rf' m en e.
Proof.
  intros rf rf' m en H. fix IH 1. intro e. destruct e; cbn [eval_g]; try reflexivity.
  - rewrite (IH e1), (IH e2). reflexivity.
  - rewrite (IH e). reflexivity.
  - destruct args as [|a [|b r]]; try reflexivity. rewrite H, (IH a). reflexivity.
Qed.

Lemma check_assertion_spec : forall c a, check_assertion c a = spec_check c a.
Proof.
  intros c a. unfold check_assertion, spec_check, assertion_value, eval_t, env_of, assertion_fail_value.
  rewrite cpu_entries_doc. rewrite (eval_g_ext ram_fn doc_ram_fn _ _ ram_fn_doc). reflexivity.
Qed.
Arguments format_trace : simpl never.
Arguments failure_message : simpl never.

(* ---- the second loop of execute_instruction is "first violation among the assertions attached to pc" ---- *)
Lemma fire_assertions_spec : forall c pc els,
  fire_assertions c pc els = first_violation c (asserts_at els pc).
Proof.
  induction els as [|e r IH]; cbn [fire_assertions asserts_at first_violation]; [reflexivity|].
  destruct e as [a|t]; [|exact IH].
  destruct (s_pc16 (a_snap a) =? pc); [|exact IH].
  cbn [first_violation]. rewrite <- check_assertion_spec. destruct (check_assertion c a); [exact IH|reflexivity|reflexivity].
Qed.

Lemma at_brk_end : forall c, (rd (rM c) (rPC c) =? end_of_test_opcode) = at_brk c.
Proof. reflexivity. Qed.

(* ---- runner = executable spec, for every element list, machine state, trace history and run length ---- *)
Lemma run_spec_run : forall n els c d traces,
  run n (mkRunner els c d traces) <> VPanic ->
  view (run n (mkRunner els c d traces)) = spec_run n els c.
Proof.
  induction n as [|n IH]; intros els c d traces H; [reflexivity|].
  cbn [run spec_run] in *. unfold execute_instruction in *. cbn [r_cpu test_elements formatted_traces call_depth] in *.
  destruct (fire_traces c (rPC c) els) as [nt|]; [|congruence].
  rewrite fire_assertions_spec in *.
  destruct (first_violation c (asserts_at els (rPC c))) as [|a|]; [|reflexivity|congruence].
  rewrite at_brk_end in *.
  destruct (at_brk c); [reflexivity|].
  destruct (exec c) as [c'|]; [|reflexivity].
  apply IH. exact H.
Qed.

(* a panic of the runner that the spec does not report comes from a trace expression only *)
Lemma spec_abort_run_panic : forall n els c d traces,
  spec_run n els c = SAbort -> run n (mkRunner els c d traces) = VPanic.
Proof.
  induction n as [|n IH]; intros els c d traces H; [discriminate|].
  cbn [run spec_run] in *. unfold execute_instruction. cbn [r_cpu test_elements formatted_traces call_depth].
  destruct (fire_traces c (rPC c) els) as [nt|]; [|reflexivity].
  rewrite fire_assertions_spec.
  destruct (first_violation c (asserts_at els (rPC c))) as [|a|]; [|discriminate|reflexivity].
  rewrite at_brk_end.
  destruct (at_brk c); [discriminate|].
  destruct (exec c) as [c'|]; [|discriminate].
  apply IH. exact H.
Qed.

(* traces never influence the verdict, except by aborting *)
Definition no_traces (els : list test_element) : list test_element :=
  filter (fun e => match e with Assertion _ => true | Trace _ => false end) els.
Lemma asserts_at_no_traces : forall els pc, asserts_at (no_traces els) pc = asserts_at els pc.
Proof.
  induction els as [|e r IH]; intro pc; [reflexivity|].
  destruct e as [a|t]; cbn [no_traces filter asserts_at]; fold (no_traces r); rewrite ?IH; reflexivity.
Qed.
Lemma spec_run_no_traces : forall n els c, spec_run n (no_traces els) c = spec_run n els c.
Proof.
  induction n as [|n IH]; intros els c; [reflexivity|].
  cbn [spec_run]. rewrite asserts_at_no_traces.
  destruct (first_violation c (asserts_at els (rPC c))); try reflexivity.
  destruct (at_brk c); [reflexivity|]. destruct (exec c); [apply IH|reflexivity].
Qed.

(* ---- executable spec <-> declarative spec ---- *)
Lemma first_violation_none : forall c l, first_violation c l = FNone <-> Forall (holds c) l.
Proof.
  induction l as [|a r IH]; cbn [first_violation]; [split; [constructor|reflexivity]|].
  unfold holds in *. destruct (spec_check c a) eqn:E.
  - rewrite IH. split; [intro; constructor; assumption|intro F; inversion F; assumption].
  - split; [discriminate|intro F; inversion F; congruence].
  - split; [discriminate|intro F; inversion F; congruence].
Qed.

Lemma first_violation_fail : forall c l a, first_violation c l = FFail a <-> first_failing c l a.
Proof.
  induction l as [|b r IH]; intro a; cbn [first_violation].
  - split; [discriminate|]. intros (l1 & l2 & E & _). destruct l1; discriminate.
  - unfold first_failing, holds, fails in *. destruct (spec_check c b) eqn:E.
    + rewrite IH. split.
      * intros (l1 & l2 & -> & F & Fa). exists (b :: l1), l2. repeat split; [constructor; assumption|assumption].
      * intros (l1 & l2 & El & F & Fa). destruct l1 as [|x l1]; cbn in El; inversion El; subst.
        -- congruence.
        -- inversion F; subst. exists l1, l2. repeat split; assumption.
    + split.
      * intro H; inversion H; subst. exists [], r. repeat split; [constructor|assumption].
      * intros (l1 & l2 & El & F & Fa). destruct l1 as [|x l1]; cbn in El; inversion El; subst; [reflexivity|].
        inversion F; subst. congruence.
    + split; [discriminate|].
      intros (l1 & l2 & El & F & Fa). destruct l1 as [|x l1]; cbn in El; inversion El; subst; [congruence|].
      inversion F; subst. congruence.
Qed.

Lemma state_after_S : forall c k, state_after c (S k) = state_after (step c) k.
Proof.
  intros c k. unfold state_after. induction k as [|k IH]; [reflexivity|].
  change (Nat.iter (S (S k)) step c) with (step (Nat.iter (S k) step c)). rewrite IH. reflexivity.
Qed.

Lemma step_exec : forall c c', exec c = Some c' -> step c = c'.
Proof. intros c c' H. unfold step. rewrite H. reflexivity. Qed.

Lemma runs_to_S : forall els c k,
  runs_to els c (S k) <->
  clean els c /\ at_brk c = false /\ in_subset c = true /\ runs_to els (step c) k.
Proof.
  intros. unfold runs_to. split.
  - intro H. destruct (H O) as (A & B & C); [lia|]. split; [exact A|split; [exact B|split; [exact C|]]].
    intros j Hj. rewrite <- state_after_S. apply H. lia.
  - intros (A & B & C & D) i Hi. destruct i as [|j]; [repeat split; assumption|].
    rewrite state_after_S. apply D. lia.
Qed.

Lemma runs_to_O : forall els c, runs_to els c O.
Proof. intros els c j Hj. lia. Qed.
Global Opaque runs_to.

Lemma spec_run_pass : forall n els c,
  spec_run n els c = SPass <->
  exists k, (k < n)%nat /\ runs_to els c k /\ clean els (state_after c k) /\ at_brk (state_after c k) = true.
Proof.
  induction n as [|n IH]; intros els c.
  - split; [discriminate|intros (k & Hk & _); lia].
  - cbn [spec_run]. destruct (first_violation c (asserts_at els (rPC c))) as [|a|] eqn:FV.
    + apply first_violation_none in FV.
      destruct (at_brk c) eqn:B.
      * split; [|reflexivity]. intros _. exists O. repeat split; [lia|apply runs_to_O|exact FV|exact B].
      * destruct (exec c) as [c'|] eqn:X.
        -- rewrite IH. pose proof (step_exec _ _ X) as Hs. split.
           ++ intros (k & Hk & R & Cl & Bk). exists (S k). rewrite state_after_S, Hs.
              repeat split; try assumption; [lia|].
              apply runs_to_S. repeat split; try assumption; [unfold in_subset; rewrite X; reflexivity|rewrite Hs; exact R].
           ++ intros (k & Hk & R & Cl & Bk). destruct k as [|k].
              ** cbn in Bk. congruence.
              ** apply runs_to_S in R. destruct R as (_ & _ & _ & R). rewrite state_after_S in *. rewrite Hs in *.
                 exists k. repeat split; try assumption. lia.
        -- split; [discriminate|]. intros (k & Hk & R & Cl & Bk). destruct k as [|k].
           ++ cbn in Bk. congruence.
           ++ apply runs_to_S in R. destruct R as (_ & _ & S & _). unfold in_subset in S. rewrite X in S. discriminate.
    + split; [discriminate|]. intros (k & Hk & R & Cl & Bk).
      assert (Forall (holds c) (asserts_at els (rPC c))) as F.
      { destruct k as [|k]; [exact Cl|]. apply runs_to_S in R. apply R. }
      apply first_violation_none in F. congruence.
    + split; [discriminate|]. intros (k & Hk & R & Cl & Bk).
      assert (Forall (holds c) (asserts_at els (rPC c))) as F.
      { destruct k as [|k]; [exact Cl|]. apply runs_to_S in R. apply R. }
      apply first_violation_none in F. congruence.
Qed.

Lemma spec_run_fail : forall n els c l m cf,
  spec_run n els c = SFail l m cf <->
  exists k a, (k < n)%nat /\ runs_to els c k /\ cf = state_after c k /\
              first_failing cf (asserts_at els (rPC cf)) a /\ l = a_loc a /\ m = failure_message a.
Proof.
  induction n as [|n IH]; intros els c l m cf.
  - split; [discriminate|intros (k & a & Hk & _); lia].
  - cbn [spec_run]. destruct (first_violation c (asserts_at els (rPC c))) as [|a|] eqn:FV.
    + pose proof FV as FN. apply first_violation_none in FN.
      assert (forall a', ~ first_failing c (asserts_at els (rPC c)) a') as NF.
      { intros a' H. apply first_violation_fail in H. congruence. }
      destruct (at_brk c) eqn:B.
      * split; [discriminate|]. intros (k & a' & Hk & R & -> & FF & _). destruct k as [|k].
        -- cbn in FF. exfalso. exact (NF _ FF).
        -- apply runs_to_S in R. destruct R as (_ & B' & _). congruence.
      * destruct (exec c) as [c'|] eqn:X.
        -- rewrite IH. pose proof (step_exec _ _ X) as Hs. split.
           ++ intros (k & a' & Hk & R & -> & FF & -> & ->). exists (S k), a'. rewrite state_after_S, Hs.
              repeat split; try assumption; [lia|].
              apply runs_to_S. repeat split; try assumption; [unfold in_subset; rewrite X; reflexivity|rewrite Hs; exact R].
           ++ intros (k & a' & Hk & R & -> & FF & -> & ->). destruct k as [|k].
              ** cbn in FF. exfalso. exact (NF _ FF).
              ** apply runs_to_S in R. destruct R as (_ & _ & _ & R). rewrite state_after_S in *. rewrite Hs in *.
                 exists k, a'. repeat split; try assumption. lia.
        -- split; [discriminate|]. intros (k & a' & Hk & R & -> & FF & _). destruct k as [|k].
           ++ cbn in FF. exfalso. exact (NF _ FF).
           ++ apply runs_to_S in R. destruct R as (_ & _ & S & _). unfold in_subset in S. rewrite X in S. discriminate.
    + split.
      * intro H. inversion H; subst. exists O, a. apply first_violation_fail in FV.
        repeat split; [lia|apply runs_to_O|exact FV].
      * intros (k & a' & Hk & R & -> & FF & -> & ->). destruct k as [|k].
        -- change (state_after c 0) with c in *. apply first_violation_fail in FF. rewrite FV in FF. inversion FF; subst. reflexivity.
        -- apply runs_to_S in R. destruct R as (Cl & _). apply first_violation_none in Cl. congruence.
    + split; [discriminate|]. intros (k & a' & Hk & R & -> & FF & _). destruct k as [|k].
      * change (state_after c 0) with c in *. apply first_violation_fail in FF. congruence.
      * apply runs_to_S in R. destruct R as (Cl & _). apply first_violation_none in Cl. congruence.
Qed.

(* more fuel does not change a final verdict *)
Lemma spec_run_mono : forall n els c v,
  spec_run n els c = v -> v <> SOutOfFuel -> forall m, (n <= m)%nat -> spec_run m els c = v.
Proof.
  induction n as [|n IH]; intros els c v H NF m Hm; [cbn in H; congruence|].
  destruct m as [|m]; [lia|]. cbn [spec_run] in *.
  destruct (first_violation c (asserts_at els (rPC c))); try exact H.
  destruct (at_brk c); [exact H|]. destruct (exec c); [|exact H].
  apply IH with (m := m) in H; [exact H|exact NF|lia].
Qed.

(* ---- the statements of props/C18.v ---- *)
Definition runner0 (els : list test_element) (c0 : cpu) : runner := mkRunner els c0 0 [].

Theorem runner_spec : forall n els c0,
  run n (runner0 els c0) <> VPanic -> view (run n (runner0 els c0)) = spec_run n els c0.
Proof. intros. apply run_spec_run. assumption. Qed.

Theorem pass_meaning : forall els c0,
  (forall n, run n (runner0 els c0) <> VPanic) ->
  ((exists n, run n (runner0 els c0) = Passed) <-> spec_passes els c0).
Proof.
  intros els c0 NP. unfold spec_passes. split.
  - intros (n & H). pose proof (runner_spec n els c0 (NP n)) as V. rewrite H in V. cbn in V. symmetry in V.
    apply spec_run_pass in V. destruct V as (k & _ & R). exists k. exact R.
  - intros (k & R). assert (spec_run (S k) els c0 = SPass) as V by (apply spec_run_pass; exists k; split; [lia|exact R]).
    exists (S k). pose proof (runner_spec (S k) els c0 (NP _)) as W. rewrite V in W.
    destruct (run (S k) (runner0 els c0)); cbn in W; try discriminate. reflexivity.
Qed.

Theorem fail_meaning : forall els c0 l m cf,
  (forall n, run n (runner0 els c0) <> VPanic) ->
  ((exists n f, run n (runner0 els c0) = Failed f /\ f_loc f = l /\ f_message f = m /\ f_cpu f = cf) <->
   exists a, spec_fails els c0 a cf /\ l = a_loc a /\ m = failure_message a).
Proof.
  intros els c0 l m cf NP. unfold spec_fails. split.
  - intros (n & f & H & <- & <- & <-). pose proof (runner_spec n els c0 (NP n)) as V. rewrite H in V. cbn in V. symmetry in V.
    apply spec_run_fail in V. destruct V as (k & a & _ & R & E & FF & L & M). exists a. repeat split; try assumption.
    exists k. repeat split; assumption.
  - intros (a & (k & R & E & FF) & L & M).
    assert (spec_run (S k) els c0 = SFail l m cf) as V.
    { apply spec_run_fail. exists k, a. repeat split; try assumption. lia. }
    pose proof (runner_spec (S k) els c0 (NP _)) as W. rewrite V in W.
    destruct (run (S k) (runner0 els c0)) as [|f| | |] eqn:E'; cbn in W; try discriminate.
    inversion W; subst. exists (S k), f. repeat split; assumption.
Qed.

(* the reported location and message are those of the first failing assertion at the first boundary where one fails *)
Theorem failure_location : forall n els c0 f,
  run n (runner0 els c0) = Failed f ->
  exists k a, (k < n)%nat /\ runs_to els c0 k /\ f_cpu f = state_after c0 k /\
              first_failing (f_cpu f) (asserts_at els (rPC (f_cpu f))) a /\
              f_loc f = a_loc a /\ f_message f = failure_message a.
Proof.
  intros n els c0 f H.
  assert (run n (runner0 els c0) <> VPanic) as NP by congruence.
  pose proof (runner_spec n els c0 NP) as V. rewrite H in V. cbn in V. symmetry in V.
  apply spec_run_fail in V. exact V.
Qed.

(* ---- bank isolation ---- *)
Theorem run_test_spec : forall n banks t,
  run_test n banks t <> VPanic -> view (run_test n banks t) = spec_test n banks t.
Proof.
  intros n banks t. unfold run_test, spec_test, new_runner.
  destruct (find_bank banks (tc_bank t)) as [b|]; [|congruence].
  apply run_spec_run.
Qed.

(* the verdict of a test depends on the project's banks only through the image of the test's own bank *)
Theorem bank_isolation : forall n banks banks' t,
  find_bank banks (tc_bank t) = find_bank banks' (tc_bank t) ->
  run_test n banks t = run_test n banks' t.
Proof. intros n banks banks' t H. unfold run_test, new_runner. rewrite H. reflexivity. Qed.

(* and the machine starts with exactly that image: the byte the bank holds at a, 0 outside the bank *)
Theorem initial_ram : forall banks t b r a,
  find_bank banks (tc_bank t) = Some b -> new_runner banks t = Some r ->
  ram_read (rM (r_cpu r)) a = bank_byte b a /\ rPC (r_cpu r) = tc_pc t mod 65536.
Proof.
  intros banks t b r a Hb Hr. unfold new_runner in Hr. rewrite Hb in Hr. inversion Hr; subst. cbn.
  split; [reflexivity|]. unfold word16. rewrite Z.mod_mod; [reflexivity|lia].
Qed.

(* ---- exit status ---- *)
Lemma collect_failed : forall results name f,
  In (name, f) (snd (fst (collect results))) <-> In (name, Failed f) results.
Proof.
  induction results as [|[nm v] r IH]; intros name f; cbn [collect].
  - cbn. tauto.
  - specialize (IH name f). destruct (collect r) as [[ls fs] np]. cbn [fst snd] in *.
    destruct v; cbn [fst snd In]; rewrite IH;
      try (split; [intro I; right; exact I | intros [E|I]; [inversion E | exact I]]).
    split; intros [E|I]; [left; inversion E; reflexivity | right; exact I | left; inversion E; reflexivity | right; exact I].
Qed.

Lemma collect_counts : forall results,
  let '(ls, fs, np) := collect results in
  np + Z.of_nat (List.length fs) = Z.of_nat (List.length results) /\ 0 <= np.
Proof.
  induction results as [|[nm v] r IH]; cbn [collect]; [cbn; lia|].
  destruct (collect r) as [[ls fs] np]. destruct v; cbn [List.length]; lia.
Qed.

Theorem exit_status : forall results,
  process_exit_status (test_command results) <> 0 <-> exists name f, In (name, Failed f) results.
Proof.
  intro results. unfold test_command, process_exit_status.
  pose proof (collect_failed results) as C.
  destruct (collect results) as [[ls fs] np]. cbn [fst snd rp_exit_code] in *.
  destruct fs as [|[n0 f0] fs].
  - split; [intro H; exfalso; apply H; reflexivity|].
    intros (n & f & I). apply C in I. destruct I.
  - split; [|intros _; cbn; discriminate].
    intros _. exists n0, f0. apply C. left. reflexivity.
Qed.

(* the summary line counts every test exactly once *)
Theorem report_counts : forall results,
  let rp := test_command results in
  rp_num_passed rp + rp_num_failed rp = Z.of_nat (List.length results) /\
  (rp_num_failed rp = 0 <-> process_exit_status rp = 0).
Proof.
  intro results. unfold test_command, process_exit_status.
  pose proof (collect_counts results) as C.
  destruct (collect results) as [[ls fs] np]. cbn [rp_num_passed rp_num_failed rp_exit_code].
  destruct C as (C & _). split; [exact C|].
  destruct fs; cbn; split; intro; try reflexivity; try lia; discriminate.
Qed.

(* more fuel does not change a final verdict of the runner either *)
Lemma run_mono : forall n r v, run n r = v -> v <> VOutOfFuel -> forall m, (n <= m)%nat -> run m r = v.
Proof.
  induction n as [|n IH]; intros r v H NF m Hm; [cbn in H; congruence|].
  destruct m as [|m]; [lia|]. cbn [run] in *.
  destruct (execute_instruction r); try exact H.
  apply IH with (m := m) in H; [exact H|exact NF|lia].
Qed.

(* ---- the runner before fix 900f3f8: an element is removed from the list when it fires (F-C18a) ---- *)
Definition execute_instruction_removing (r : runner) : execute_result :=
  let c := r_cpu r in
  let pc := rPC c in
  let active := filter (fun e => element_pc16 e =? pc) (test_elements r) in
  let rest := filter (fun e => negb (element_pc16 e =? pc)) (test_elements r) in
  match fire_traces c pc active with
  | None => ExecPanic
  | Some new_traces =>
      let traces := formatted_traces r ++ new_traces in
      match fire_assertions c pc active with
      | FPanic => ExecPanic
      | FFail a => TestFailed (mkFailure (failure_message a) (a_loc a) c traces)
      | FNone =>
          if rd (rM c) pc =? end_of_test_opcode then TestSuccess (mkRunner rest c (call_depth r) traces)
          else match exec c with
               | Some c' => Running (mkRunner rest c' (call_depth r) traces)
               | None => OutOfSubset
               end
      end
  end.
Fixpoint run_removing (fuel : nat) (r : runner) : verdict :=
  match fuel with
  | O => VOutOfFuel
  | S f =>
      match execute_instruction_removing r with
      | Running r' => run_removing f r'
      | TestFailed fl => Failed fl
      | TestSuccess _ => Passed
      | ExecPanic => VPanic
      | OutOfSubset => VOutOfSubset
      end
  end.

(* witness 1 (corpus/C18/loop_assert.asm): ldx #0 / l: inx / .assert cpu.x < 2 / cpx #3 / bne l / brk *)
Definition t_x : text := [120]%N.
Definition cpu_x_lt_2 : expr :=
  EBin Lt (EId [[99; 112; 117]%N; t_x] None false false) (ENum 10 [50]%N false false).
Definition w1_image : list N := [162; 0; 232; 224; 3; 208; 251; 0]%N.
Definition w1_elements : list test_element :=
  [Assertion (mkAssertion cpu_x_lt_2 [] (mkSnap 49155 [] []) None (mkLoc 4 13))].
Definition w1_cpu : cpu := cpu_init 49152 (load_program 49152 w1_image).

(* witness 2 (corpus/C18/sub_twice.asm): lda #1 / jsr f / lda #0 / jsr f / brk / f: .assert cpu.a == 1 / rts *)
Definition cpu_a_eq_1 : expr :=
  EBin Eq (EId [[99; 112; 117]%N; [97]%N] None false false) (ENum 10 [49]%N false false).
Definition w2_image : list N := [169; 1; 32; 11; 192; 169; 0; 32; 11; 192; 0; 96]%N.
Definition w2_elements : list test_element :=
  [Assertion (mkAssertion cpu_a_eq_1 [] (mkSnap 49163 [] []) None (mkLoc 7 13))].
Definition w2_cpu : cpu := cpu_init 49152 (load_program 49152 w2_image).

Lemma remove_on_fire_refuted :
  (run_removing 20 (runner0 w1_elements w1_cpu) = Passed /\
   exists m cf, spec_run 20 w1_elements w1_cpu = SFail (mkLoc 4 13) m cf /\ rX cf = 2) /\
  (run_removing 20 (runner0 w2_elements w2_cpu) = Passed /\
   exists m cf, spec_run 20 w2_elements w2_cpu = SFail (mkLoc 7 13) m cf /\ rA cf = 0).
Proof.
  split; (split; [vm_compute; reflexivity|]); eexists; eexists; (split; [vm_compute; reflexivity|reflexivity]).
Qed.

(* and the repaired runner reports both *)
Lemma witnesses_now_fail :
  (exists f, run 20 (runner0 w1_elements w1_cpu) = Failed f /\ f_loc f = mkLoc 4 13 /\ rX (f_cpu f) = 2) /\
  (exists f, run 20 (runner0 w2_elements w2_cpu) = Failed f /\ f_loc f = mkLoc 7 13 /\ rA (f_cpu f) = 0).
Proof. split; eexists; (split; [vm_compute; reflexivity|split; reflexivity]). Qed.

(* C06: the evaluator model computes in Z; every number it returns fits i64, given an environment whose numbers do
   (the Rust type of a symbol's value and of the program counter).  Each operator of the evaluator is either checked
   (a result outside i64 is `EErr (ErrOverflow _)`, not a value) or cannot leave the range. *)
From Coq Require Import List NArith ZArith Bool Lia PeanoNat Wf_nat.
Import ListNotations.
From Mos Require Import model.I64 Gen.BinOps model.Expr model.Sites proofs.ExprProofs proofs.SitesProofs.
Open Scope Z_scope.

Definition env_i64 (en : env) : Prop :=
  (forall p z, lookup en p = Some (DNum z) -> in_i64 z = true) /\
  (forall p, cur_pc en = Some p -> in_i64 p = true).

Lemma in_i64_iff z : in_i64 z = true <-> i64_min <= z <= i64_max.
Proof. unfold in_i64. rewrite andb_true_iff, !Z.leb_le. tauto. Qed.

Lemma cchk_val z r : cchk z = Val r -> in_i64 r = true.
Proof. unfold cchk. destruct (in_i64 z) eqn:E; [|discriminate]. intros H. injection H as <-. exact E. Qed.

Lemma wrap64_in z : in_i64 (wrap64 z) = true.
Proof.
  apply in_i64_iff. unfold wrap64, i64_min, i64_max, two64.
  pose proof (Z.mod_pos_bound (z + 9223372036854775808) 18446744073709551616 ltac:(lia)). lia.
Qed.

Lemma b2z_in b : in_i64 (b2z b) = true.
Proof. destruct b; reflexivity. Qed.

(* the sign word: a value fits i64 iff everything above bit 62 is the sign *)
Lemma sign_word z : in_i64 z = true <-> (Z.shiftr z 63 = 0 \/ Z.shiftr z 63 = -1).
Proof.
  rewrite in_i64_iff, Z.shiftr_div_pow2 by lia. unfold i64_min, i64_max.
  change (2 ^ 63) with 9223372036854775808.
  pose proof (Z.div_mod z 9223372036854775808 ltac:(lia)) as D.
  pose proof (Z.mod_pos_bound z 9223372036854775808 ltac:(lia)) as B. lia.
Qed.

Lemma lxor_in a b : in_i64 a = true -> in_i64 b = true -> in_i64 (Z.lxor a b) = true.
Proof.
  rewrite !sign_word, Z.shiftr_lxor. intros [-> | ->] [-> | ->]; cbn; auto.
Qed.

Lemma quot_in a b : in_i64 a = true -> b <> 0 -> ~ (a = i64_min /\ b = -1) -> in_i64 (Z.quot a b) = true.
Proof.
  rewrite !in_i64_iff. unfold i64_min, i64_max. intros Ha Hb Hm.
  assert (Hq : Z.abs (Z.quot a b) <= Z.abs a).
  { rewrite <- Z.quot_abs by exact Hb. rewrite Z.quot_div_nonneg by lia.
    apply Z.div_le_upper_bound; [lia|]. nia. }
  destruct (Z.eq_dec b (-1)) as [->|Hb1].
  - replace (Z.quot a (-1)) with (- a); [lia|]. change (Z.quot a (-1)) with (Z.quot a (Z.opp 1)). rewrite Z.quot_opp_r by lia. rewrite Z.quot_1_r. reflexivity.
  - destruct (Z.eq_dec b 1) as [->|Hb2]; [rewrite Z.quot_1_r; lia|].
    assert (Hq2 : Z.abs (Z.quot a b) * 2 <= Z.abs a).
    { rewrite <- Z.quot_abs by exact Hb. rewrite Z.quot_div_nonneg by lia.
      pose proof (Z.mul_div_le (Z.abs a) (Z.abs b) ltac:(lia)) as M.
      assert (0 <= Z.abs a / Z.abs b) by (apply Z.div_pos; lia). nia. }
    lia.
Qed.

Lemma rem_in a b : in_i64 b = true -> b <> 0 -> in_i64 (Z.rem a b) = true.
Proof.
  rewrite !in_i64_iff. unfold i64_min, i64_max. intros Hb Hn.
  pose proof (Z.rem_bound_abs a b Hn). lia.
Qed.

Lemma shiftr_in a b : in_i64 a = true -> 0 <= b -> in_i64 (Z.shiftr a b) = true.
Proof.
  rewrite !in_i64_iff. unfold i64_min, i64_max. intros Ha Hb. rewrite Z.shiftr_div_pow2 by exact Hb.
  assert (P : 1 <= 2 ^ b) by (pose proof (Z.pow_pos_nonneg 2 b ltac:(lia) Hb); lia).
  pose proof (Z.div_mod a (2 ^ b) ltac:(lia)) as D.
  pose proof (Z.mod_pos_bound a (2 ^ b) ltac:(lia)) as B. nia.
Qed.

Lemma apply_i64_in op a b z : in_i64 a = true -> in_i64 b = true -> apply_i64 op a b = Val z -> in_i64 z = true.
Proof.
  intros Ha Hb. destruct op; cbn [apply_i64];
    unfold i64_checked_add, i64_checked_sub, i64_checked_mul, i64_checked_div, i64_checked_rem,
           i64_checked_shl, i64_checked_shr, i64_xor;
    try (intros H; injection H as <-; apply b2z_in); try apply cchk_val.
  - (* Div *) destruct (b =? 0) eqn:Z0; [intros H; injection H as <-; reflexivity|]. cbn [orb].
    destruct ((a =? i64_min) && (b =? -1)) eqn:M; [discriminate|]. intros H. injection H as <-.
    apply quot_in; [exact Ha|lia|]. intros [-> ->]. discriminate.
  - (* Mod *) destruct (b =? 0) eqn:Z0; [intros H; injection H as <-; reflexivity|]. cbn [orb].
    destruct ((a =? i64_min) && (b =? -1)) eqn:M; [discriminate|]. intros H. injection H as <-.
    apply rem_in; [exact Hb|lia].
  - (* Shl *) destruct ((0 <=? b) && (b <? 64)); [|discriminate]. intros H. injection H as <-. apply wrap64_in.
  - (* Shr *) destruct ((0 <=? b) && (b <? 64)) eqn:E; [|discriminate]. intros H. injection H as <-.
    apply shiftr_in; [exact Ha|lia].
  - (* Xor *) intros H. injection H as <-. apply lxor_in; assumption.
Qed.

Lemma with_flags_in fnot fneg r z :
  (forall n, r = EVal (Some (SNum n)) -> in_i64 n = true) ->
  with_flags fnot fneg r = EVal (Some (SNum z)) -> in_i64 z = true.
Proof.
  intros Hr. unfold with_flags. destruct r as [[[n|s]|]|x|]; try discriminate.
  specialize (Hr n eq_refl). rewrite flag_order_is. cbn [apply_flags apply_flag].
  assert (NC : neg_checked = true) by reflexivity. rewrite NC.
  destruct fneg.
  - unfold i64_checked_neg. destruct (cchk (- n)) as [m| |] eqn:C; try discriminate.
    apply cchk_val in C. destruct fnot; intros H; injection H as <-; [destruct (m =? 0); reflexivity|exact C].
  - destruct fnot; intros H; injection H as <-; [destruct (n =? 0); reflexivity|exact Hr].
Qed.

Lemma digit_value_bound radix c d : digit_value radix c = Some d -> 0 <= d < radix.
Proof.
  unfold digit_value. set (x := Z.of_N c).
  destruct ((48 <=? x) && (x <=? 57)) eqn:A.
  - destruct (x - 48 <? radix) eqn:L; [|discriminate]. intros H. injection H as <-. lia.
  - destruct ((97 <=? x) && (x <=? 122)) eqn:B.
    + destruct (x - 97 + 10 <? radix) eqn:L; [|discriminate]. intros H. injection H as <-. lia.
    + destruct ((65 <=? x) && (x <=? 90)) eqn:C; [|discriminate].
      destruct (x - 65 + 10 <? radix) eqn:L; [|discriminate]. intros H. injection H as <-. lia.
Qed.

Lemma digits_value_nonneg radix ds : forall acc v, 0 <= acc -> digits_value radix acc ds = Some v -> 0 <= v.
Proof.
  induction ds as [|c r IH]; intros acc v Hacc; cbn [digits_value].
  - intros H. injection H as <-. exact Hacc.
  - destruct (digit_value radix c) as [d|] eqn:D; [|discriminate]. apply digit_value_bound in D.
    apply IH. nia.
Qed.

Lemma number_value_in radix digits z : number_value radix digits = Val z -> in_i64 z = true.
Proof.
  unfold number_value.
  destruct (text_eqb (keyword_text digits) t_true); [intros H; injection H as <-; reflexivity|].
  destruct (text_eqb (keyword_text digits) t_false); [intros H; injection H as <-; reflexivity|].
  unfold literal_failure. destruct literal_overflow_is_error; destruct digits as [|c ds]; try discriminate;
  (destruct (digits_value radix 0 (c :: ds)) as [v|] eqn:D; [|discriminate];
   destruct (v <=? i64_max) eqn:L; [|discriminate]; intros H; injection H as <-;
   apply digits_value_nonneg in D; [|lia]; apply in_i64_iff; unfold i64_min; lia).
Qed.

Lemma modifier_in m v : in_i64 v = true ->
  in_i64 (match m with
          | Some LowByte => Z.land v low_byte_mask
          | Some HighByte => Z.land (Z.shiftr v high_byte_shift) high_byte_mask
          | None => v
          end) = true.
Proof.
  intros Hv. destruct m as [[|]|]; [| |exact Hv].
  - change low_byte_mask with (Z.ones 8). rewrite Z.land_ones by lia.
    pose proof (Z.mod_pos_bound v (2 ^ 8) ltac:(lia)). apply in_i64_iff. unfold i64_min, i64_max. lia.
  - change high_byte_mask with (Z.ones 8). rewrite Z.land_ones by lia.
    pose proof (Z.mod_pos_bound (Z.shiftr v high_byte_shift) (2 ^ 8) ltac:(lia)). apply in_i64_iff. unfold i64_min, i64_max. lia.
Qed.

(* every number the evaluator returns fits i64 *)
Theorem eval_in_i64 en e : env_i64 en -> forall z, eval en e = EVal (Some (SNum z)) -> in_i64 z = true.
Proof.
  intros [Hl Hp]. remember (expr_size e) as n eqn:Hn. revert e Hn.
  induction n as [n IH] using lt_wf_ind. intros e Hn z.
  destruct e as [op l r|radix digits fnot fneg|path m fnot fneg|fnot fneg|i fnot fneg|name args fnot fneg|items fnot fneg];
    cbn [eval].
  - cbn [expr_size] in Hn.
    assert (Il : forall a, eval en l = EVal (Some (SNum a)) -> in_i64 a = true) by (eapply IH; [|reflexivity]; lia).
    assert (Ir : forall a, eval en r = EVal (Some (SNum a)) -> in_i64 a = true) by (eapply IH; [|reflexivity]; lia).
    destruct (eval en l) as [lv|x|]; try discriminate.
    destruct (eval en r) as [rv|x|]; try discriminate.
    destruct lv as [[a|a]|]; destruct rv as [[b|b]|]; try discriminate.
    + destruct (apply_i64 op a b) eqn:A; try discriminate. intros H. injection H as <-.
      eapply apply_i64_in; [apply Il; reflexivity|apply Ir; reflexivity|exact A].
    + destruct op; cbn [try_apply_str]; try discriminate; intros H; injection H as <-; apply b2z_in.
  - destruct (number_value radix digits) eqn:V; try discriminate.
    apply with_flags_in. intros k H. injection H as <-. eapply number_value_in. exact V.
  - apply with_flags_in. intros k. destruct (lookup en path) as [[v|s| |]|] eqn:L; try discriminate.
    intros H. injection H as <-. apply modifier_in. eapply Hl. exact L.
  - apply with_flags_in. intros k H. injection H as <-. destruct (cur_pc en) eqn:P; [apply Hp; reflexivity|reflexivity].
  - apply with_flags_in. eapply IH; [|reflexivity]. cbn [expr_size] in Hn. lia.
  - apply with_flags_in. intros k. destruct (text_eqb name t_defined); [|discriminate].
    destruct args as [|a [|b rest]]; try discriminate.
    destruct (eval en a) as [[v|]|x|]; try discriminate; intros H; injection H as <-; reflexivity.
  - apply with_flags_in. intros k. destruct (interpolate en items); discriminate.
Qed.

(* `.align <any expression>`: never a panic; no hypothesis about the expression *)
Theorem stmt_align_never_panics en pc e : env_i64 en -> 0 <= pc <= 65536 -> stmt_align en pc e <> RPanic.
Proof.
  intros He Hpc. apply stmt_align_total; [exact Hpc|]. unfold evaluates_in_i64. apply eval_in_i64. exact He.
Qed.

(* C01 (neighbour independence on the assembler model): a sequence of position-independent statements -- instructions
   other than branches and data directives whose operands are closed expressions (literals, no identifier, no `*`) --
   assembles to the concatenation of the bytes each statement has on its own; the bytes of a statement depend on
   neither the program counter, the symbol table nor its neighbours.  Exported: position_independent, stmt_bytes,
   concat_emit (C01_concat) and concat_alone. *)
From Coq Require Import List NArith ZArith Bool PeanoNat Lia.
Import ListNotations.
From Mos Require Import model.I64 Gen.BinOps model.Expr Gen.OpcodeTable spec.Isa model.Encode.
From Mos Require Import model.SymTab Gen.CodegenConsts model.Segment model.Asm proofs.AsmProofs proofs.SegmentProofs.
Open Scope Z_scope.

(* closed expression: numbers, parentheses and operators only *)
Fixpoint closed (e : expr) : bool :=
  match e with
  | EBin _ l r => closed l && closed r
  | ENum _ _ _ _ => true
  | EParens i _ _ => closed i
  | _ => false
  end.

Definition position_independent (t : token) : bool :=
  match t with
  | TInstr m _ None => negb (is_branch_code m)
  | TInstr m _ (Some (e, _)) => negb (is_branch_code m) && closed (le_expr e)
  | TData _ vs => forallb (fun e => closed (le_expr e)) vs
  | _ => false
  end.

Definition no_env : env := mkEnv (fun _ => None) None.

(* the bytes of one statement, a function of the statement alone; None when it is an error (invalid instruction,
   overflow in the expression, a string operand) *)
Definition value_of (e : lexpr) : option Z :=
  match eval no_env (le_expr e) with EVal (Some (SNum v)) => Some v | _ => None end.
Fixpoint data_bytes (size : nat) (vs : list lexpr) : option (list N) :=
  match vs with
  | [] => Some []
  | e :: r => match value_of e, data_bytes size r with
              | Some v, Some bs => Some (emit_data size v ++ bs)
              | _, _ => None
              end
  end.
Definition stmt_bytes (t : token) : option (list N) :=
  match t with
  | TInstr m _ None => match emit_instruction m FImplied 0 None with (b, None) => Some b | _ => None end
  | TInstr m _ (Some (e, f)) =>
      match value_of e with
      | Some v => match emit_instruction m f v None with (b, None) => Some b | _ => None end
      | None => None
      end
  | TData size vs => data_bytes size vs
  | _ => None
  end.
Fixpoint all_bytes (ts : list token) : option (list N) :=
  match ts with
  | [] => Some []
  | t :: r => match stmt_bytes t, all_bytes r with Some b, Some bs => Some (b ++ bs) | _, _ => None end
  end.

(* ------------------------------------------------------------------ closed expressions ignore the environment *)
Lemma eval_closed_env e : closed e = true -> forall en en', eval en e = eval en' e.
Proof.
  induction e using expr_ind2; cbn [closed]; intro C; try discriminate; intros en en'; cbn [eval].
  - apply andb_true_iff in C as [C1 C2]. rewrite (IHe1 C1 en en'), (IHe2 C2 en en'). reflexivity.
  - reflexivity.
  - rewrite (IHe C en en'). reflexivity.
Qed.

Lemma usages_closed e : closed e = true -> usages e = [] /\ all_paths e = [].
Proof.
  induction e using expr_ind2; cbn [closed usages all_paths]; intro C; try discriminate; auto.
  - apply andb_true_iff in C as [C1 C2]. destruct (IHe1 C1) as [-> ->]. destruct (IHe2 C2) as [-> ->]. auto.
Qed.

Lemma nonbranch_pc m f v cur cur' : is_branch_code m = false -> emit_instruction m f v cur = emit_instruction m f v cur'.
Proof. intro B. unfold emit_instruction. rewrite B. reflexivity. Qed.

(* ------------------------------------------------------------------ contiguous writes *)
(* ws (newest first) covers [p, q) contiguously with content bytes, on top of older writes ws0 that lie outside *)
Inductive contig (ws0 : list (Z * list N)) : list (Z * list N) -> Z -> Z -> list N -> Prop :=
  | contig_nil p : contig ws0 ws0 p p []
  | contig_cons ws p q bytes b : contig ws0 ws p q bytes -> contig ws0 ((q, b) :: ws) p (q + Z.of_nat (length b)) (bytes ++ b).

Lemma contig_len ws0 ws p q bytes : contig ws0 ws p q bytes -> q = p + Z.of_nat (length bytes).
Proof. induction 1; [cbn; lia|]. rewrite app_length. lia. Qed.

Lemma contig_byte ws0 ws p q bytes : contig ws0 ws p q bytes ->
  forall a, p <= a < q -> byte_at ws a = nth (Z.to_nat (a - p)) bytes 0%N.
Proof.
  induction 1 as [|ws p q bytes b H IH]; intros a Ha; [lia|].
  pose proof (contig_len _ _ _ _ _ H) as L. cbn [byte_at].
  destruct ((q <=? a) && (a <? q + Z.of_nat (length b))) eqn:E.
  - apply andb_true_iff in E as [E1 E2]. apply Z.leb_le in E1. rewrite app_nth2 by lia. f_equal. lia.
  - assert (a < q) by (apply andb_false_iff in E as [E|E]; [apply Z.leb_gt in E; lia|apply Z.ltb_ge in E; lia]).
    rewrite app_nth1 by lia. apply IH. lia.
Qed.

Lemma bytes_from_contig ws0 ws p q bytes : contig ws0 ws p q bytes -> bytes_from ws p (length bytes) = bytes.
Proof.
  intro H. pose proof (contig_len _ _ _ _ _ H) as L.
  apply nth_ext with (d := 0%N) (d' := 0%N).
  - clear. generalize p. induction (length bytes); intro; cbn; auto.
  - intros i Hi.
    assert (Hlen : length (bytes_from ws p (length bytes)) = length bytes) by (clear; generalize p; induction (length bytes); intro; cbn; auto).
    rewrite Hlen in Hi. rewrite bytes_from_nth by exact Hi.
    rewrite (contig_byte _ _ _ _ _ H) by lia. f_equal. lia.
Qed.

(* ------------------------------------------------------------------ the current segment while a sequence is emitted *)
(* the current segment `name` is not relocated, started at p0, its program counter is q and what was emitted so far is acc *)
Definition Inv (name : ident) (p0 : Z) (c : ctx) (q : Z) (acc : list N) : Prop :=
  exists seg, current_segment c = Some name /\ seg_get (segments c) name = Some seg /\
    so_target_address (g_options seg) = so_initial_pc (g_options seg) /\ 0 <= so_initial_pc (g_options seg) <= 65535 /\
    g_pc seg = q /\ 0 <= p0 /\ contig [] (g_writes seg) p0 q acc /\
    (g_writes seg = [] -> g_has_data seg = false) /\
    (g_writes seg <> [] -> g_has_data seg = true /\ g_range seg = (p0, q)).

Definition same_rest (c c' : ctx) : Prop :=
  symbols c' = symbols c /\ undefined c' = undefined c /\ changed c' = changed c /\ current_scope_nx c' = current_scope_nx c /\
  current_scope c' = current_scope c /\ pass_idx c' = pass_idx c /\ next_macro_scope_id c' = next_macro_scope_id c.
Lemma same_rest_refl c : same_rest c c. Proof. unfold same_rest; repeat split. Qed.
Lemma same_rest_trans a b c : same_rest a b -> same_rest b c -> same_rest a c.
Proof. unfold same_rest. intuition congruence. Qed.

Lemma target_plain seg : so_target_address (g_options seg) = so_initial_pc (g_options seg) -> 0 <= so_initial_pc (g_options seg) <= 65535 ->
  0 <= g_pc seg <= 65535 -> target_pc seg = Some (g_pc seg).
Proof.
  intros T I P. unfold target_pc, target_offset. rewrite T.
  assert (Z0 : usize_as_i64 (so_initial_pc (g_options seg)) - usize_as_i64 (so_initial_pc (g_options seg)) = 0) by lia.
  rewrite Z0. cbn [in_i64]. change (in_i64 0) with true. cbv iota.
  assert (U : usize_as_i64 (g_pc seg) = g_pc seg).
  { unfold usize_as_i64. destruct (g_pc seg <=? i64_max) eqn:E; [reflexivity|]. apply Z.leb_gt in E. unfold i64_max in E. lia. }
  rewrite U, Z.add_0_r.
  assert (IN : in_i64 (g_pc seg) = true).
  { unfold in_i64, i64_min, i64_max. apply andb_true_iff. split; apply Z.leb_le; lia. }
  rewrite IN. f_equal. unfold as_usize, two64. apply Z.mod_small. lia.
Qed.

Lemma emit_step name p0 c q acc sp b :
  Inv name p0 c q acc -> p0 <= q -> q + Z.of_nat (length b) <= 65535 ->
  exists c', emit sp b c = Ret tt c' /\ Inv name p0 c' (q + Z.of_nat (length b)) (acc ++ b) /\ same_rest c c'.
Proof.
  intros (seg & CS & SG & TA & IP & PC & P0 & CT & W0 & W1) Hq Hb.
  unfold emit. rewrite CS, SG.
  rewrite (target_plain seg TA IP) by lia.
  assert (E1 : (two64 <=? g_pc seg + Z.of_nat (length b)) = false) by (apply Z.leb_gt; unfold two64; lia).
  rewrite E1. unfold seg_emit. rewrite E1.
  assert (E2 : (emit_start_limit <? g_pc seg) || (emit_end_limit <? g_pc seg + Z.of_nat (length b)) = false).
  { apply orb_false_iff. split; apply Z.ltb_ge; unfold emit_start_limit, emit_end_limit; lia. }
  rewrite E2. eexists. split; [reflexivity|]. split.
  - eexists. split; [reflexivity|]. split; [cbn [segments set_segments log]; apply seg_get_put_same|].
    cbn [g_options g_pc g_writes g_has_data g_range]. repeat split; auto; try lia.
    + subst q. constructor. exact CT.
    + discriminate.
    + subst q.
      destruct (g_writes seg) as [|w ws] eqn:EW.
      * rewrite (W0 eq_refl). cbn [negb]. rewrite !orb_true_r. inversion CT; subst. reflexivity.
      * destruct W1 as [HD RG]; [discriminate|]. rewrite HD, RG. cbn [negb fst snd]. rewrite !orb_false_r.
        f_equal.
        -- destruct (g_pc seg <? p0) eqn:E; [apply Z.ltb_lt in E; lia|reflexivity].
        -- destruct (g_pc seg <? g_pc seg + Z.of_nat (length b)) eqn:E; [reflexivity|apply Z.ltb_ge in E; lia].
  - unfold same_rest. repeat split.
Qed.

Lemma Inv_log name p0 c q acc ev : Inv name p0 c q acc -> Inv name p0 (log c ev) q acc.
Proof. intros (seg & H). exists seg. exact H. Qed.

Lemma Inv_pc name p0 c q acc : Inv name p0 c q acc -> p0 <= q <= 65535 -> try_current_target_pc c = PcSome q.
Proof.
  intros (seg & CS & SG & TA & IP & PC & P0 & _) Hq. unfold try_current_target_pc, try_current_segment. rewrite CS, SG.
  rewrite (target_plain seg TA IP) by lia. rewrite PC. reflexivity.
Qed.

Lemma eval_closed_step name p0 c q acc e v :
  Inv name p0 c q acc -> p0 <= q <= 65535 -> closed (le_expr e) = true -> value_of e = Some v ->
  exists ev, evaluate_expression_as_i64 e c = Ret (Some v) (log c ev).
Proof.
  intros I Hq C V. unfold evaluate_expression_as_i64, bind, evaluate_expression.
  rewrite (Inv_pc _ _ _ _ _ I Hq). destruct (usages_closed _ C) as [U A].
  assert (D : diverges c (le_expr e) = false) by (unfold diverges; rewrite A; reflexivity).
  rewrite D. unfold value_of in V.
  rewrite (eval_closed_env _ C (env_of (symbols c) (current_scope_nx c) (Some (usize_as_i64 q))) no_env).
  destruct (eval no_env (le_expr e)) as [[[z|s]|]|x|]; try discriminate. inversion V; subst z.
  rewrite U. cbn [combine flag_usages]. eexists. reflexivity.
Qed.

Lemma data_step name p0 size : forall vs c q acc bs,
  Inv name p0 c q acc -> p0 <= q -> forallb (fun e => closed (le_expr e)) vs = true -> data_bytes size vs = Some bs ->
  q + Z.of_nat (length bs) <= 65535 ->
  exists c', emit_data_values size vs c = Ret tt c' /\ Inv name p0 c' (q + Z.of_nat (length bs)) (acc ++ bs) /\ same_rest c c'.
Proof.
  induction vs as [|e r IH]; intros c q acc bs I Hq C D L; cbn [emit_data_values data_bytes forallb] in *.
  - inversion D; subst bs. cbn [length]. rewrite Z.add_0_r, app_nil_r. exists c. repeat split; auto using same_rest_refl.
  - apply andb_true_iff in C as [C1 C2].
    destruct (value_of e) as [v|] eqn:V; [|discriminate]. destruct (data_bytes size r) as [bs'|] eqn:D'; [|discriminate].
    inversion D; subst bs. rewrite app_length in L.
    destruct (eval_closed_step _ _ _ _ _ _ _ I ltac:(lia) C1 V) as [ev Ev].
    unfold bind at 1. rewrite Ev.
    destruct (emit_step name p0 (log c ev) q acc (le_span e) (emit_data size v) (Inv_log _ _ _ _ _ ev I) Hq ltac:(lia)) as (c1 & E1 & I1 & R1).
    unfold bind at 1. rewrite E1.
    destruct (IH c1 (q + Z.of_nat (length (emit_data size v))) (acc ++ emit_data size v) bs' I1 ltac:(lia) C2 eq_refl ltac:(lia)) as (c2 & E2 & I2 & R2).
    exists c2. split; [exact E2|]. split.
    + rewrite app_length. rewrite Nat2Z.inj_add, Z.add_assoc, app_assoc. exact I2.
    + eapply same_rest_trans; [|exact R2]. destruct R1 as (A & B & C & D0 & E & F & G). unfold same_rest. cbn in *. repeat split; auto.
Qed.

Lemma stmt_step name p0 fuel t c q acc b :
  Inv name p0 c q acc -> p0 <= q -> position_independent t = true -> stmt_bytes t = Some b ->
  q + Z.of_nat (length b) <= 65535 ->
  exists c', emit_token (S fuel) t c = Ret tt c' /\ Inv name p0 c' (q + Z.of_nat (length b)) (acc ++ b) /\ same_rest c c'.
Proof.
  intros I Hq PI SB L. destruct t; cbn [position_independent] in PI; try discriminate; cbn [emit_token emit_token_body].
  - (* data *) apply data_step; auto.
  - (* instruction *)
    destruct operand as [[e f]|]; cbn [stmt_bytes] in SB.
    + apply andb_true_iff in PI as [NB C]. apply negb_true_iff in NB.
      destruct (value_of e) as [v|] eqn:V; [|discriminate].
      destruct (eval_closed_step _ _ _ _ _ _ _ I ltac:(lia) C V) as [ev Ev].
      unfold bind at 1. unfold bind at 1. rewrite Ev. cbn [ret option_map].
      unfold bind at 1. unfold current_target_pc. rewrite (Inv_pc _ _ _ _ _ (Inv_log _ _ _ _ _ ev I)) by lia.
      rewrite (nonbranch_pc m f v (Some q) None NB).
      destruct (emit_instruction m f v None) as [bytes [er|]]; [discriminate|]. inversion SB; subst bytes.
      destruct (emit_step name p0 (log c ev) q acc
                  (Z.min (fst (le_span e)) (fst mspan), Z.max (snd (le_span e)) (snd mspan)) b (Inv_log _ _ _ _ _ ev I) Hq L) as (c1 & E1 & I1 & R1).
      exists c1. split; [exact E1|]. split; [exact I1|].
      destruct R1 as (A & B & C0 & D0 & E & F & G). unfold same_rest. cbn in *. repeat split; auto.
    + apply negb_true_iff in PI. unfold bind at 1. cbn [ret]. unfold bind at 1. unfold current_target_pc.
      rewrite (Inv_pc _ _ _ _ _ I) by lia.
      rewrite (nonbranch_pc m FImplied 0 (Some q) None PI).
      destruct (emit_instruction m FImplied 0 None) as [bytes [er|]]; [discriminate|]. inversion SB; subst bytes.
      apply emit_step; auto.
Qed.

Lemma seq_step name p0 fuel : forall ts c q acc bs,
  Inv name p0 c q acc -> p0 <= q -> forallb position_independent ts = true -> all_bytes ts = Some bs ->
  q + Z.of_nat (length bs) <= 65535 ->
  exists c', emit_tokens (emit_token (S fuel)) ts c = Ret tt c' /\ Inv name p0 c' (q + Z.of_nat (length bs)) (acc ++ bs) /\ same_rest c c'.
Proof.
  unfold emit_tokens. induction ts as [|t r IH]; intros c q acc bs I Hq PI AB L; cbn [emit_tokens_with all_bytes forallb] in *.
  - inversion AB; subst bs. cbn [length]. rewrite Z.add_0_r, app_nil_r. exists c. repeat split; auto using same_rest_refl.
  - apply andb_true_iff in PI as [P1 P2].
    destruct (stmt_bytes t) as [b|] eqn:SB; [|discriminate]. destruct (all_bytes r) as [bs'|] eqn:AB'; [|discriminate].
    inversion AB; subst bs. rewrite app_length in L.
    destruct (stmt_step name p0 fuel t c q acc b I Hq P1 SB ltac:(lia)) as (c1 & E1 & I1 & R1). rewrite E1.
    destruct (IH c1 (q + Z.of_nat (length b)) (acc ++ b) bs' I1 ltac:(lia) P2 eq_refl ltac:(lia)) as (c2 & E2 & I2 & R2).
    exists c2. split; [exact E2|]. split; [|eapply same_rest_trans; eauto].
    rewrite app_length, Nat2Z.inj_add, Z.add_assoc, app_assoc. exact I2.
Qed.

(* C01_concat: from any context whose current segment is freshly reset (not relocated, room for the bytes), a sequence of
   position-independent statements is emitted without a diagnostic, leaves symbol table, undefined and changed sets
   alone, and the image of the segment is exactly the concatenation of the statements' own bytes *)
Theorem concat_emit fuel ts c name seg bs :
  current_segment c = Some name -> seg_get (segments c) name = Some seg ->
  so_target_address (g_options seg) = so_initial_pc (g_options seg) -> 0 <= so_initial_pc (g_options seg) ->
  g_pc seg = so_initial_pc (g_options seg) -> g_writes seg = [] -> g_has_data seg = false ->
  forallb position_independent ts = true -> all_bytes ts = Some bs ->
  g_pc seg + Z.of_nat (length bs) <= 65535 ->
  exists c' seg', emit_tokens (emit_token (S fuel)) ts c = Ret tt c' /\ same_rest c c' /\
                  seg_get (segments c') name = Some seg' /\ range_data seg' = bs /\
                  g_pc seg' = g_pc seg + Z.of_nat (length bs).
Proof.
  intros CS SG TA IP PC W HD PI AB L.
  assert (I : Inv name (g_pc seg) c (g_pc seg) []).
  { exists seg. split; [exact CS|]. split; [exact SG|]. split; [exact TA|]. split; [rewrite <- PC; lia|]. split; [reflexivity|].
    split; [rewrite PC; lia|]. split; [rewrite W; constructor|]. split; [intros _; exact HD|]. intro H. rewrite W in H. congruence. }
  destruct (seq_step name (g_pc seg) fuel ts c (g_pc seg) [] bs I ltac:(lia) PI AB L) as (c' & E & (seg' & CS' & SG' & _ & _ & PC' & _ & CT & W0 & W1) & R).
  exists c', seg'. split; [exact E|]. split; [exact R|]. split; [exact SG'|]. split; [|exact PC']. cbn [app] in CT.
  unfold range_data. destruct (g_writes seg') as [|w ws] eqn:EW.
  - rewrite (W0 eq_refl). inversion CT; subst. reflexivity.
  - destruct W1 as [HD' RG]; [discriminate|]. rewrite HD', RG. cbn [fst snd].
    pose proof (contig_len _ _ _ _ _ CT) as Len.
    replace (Z.to_nat (g_pc seg + Z.of_nat (length bs) - g_pc seg)) with (length bs) by lia.
    rewrite <- EW. eapply bytes_from_contig. rewrite EW. exact CT.
Qed.

(* the bytes of the sequence are the concatenation of the bytes each statement has when it is assembled alone *)
Theorem concat_alone ts bs : all_bytes ts = Some bs ->
  exists parts, Forall2 (fun t b => all_bytes [t] = Some b) ts parts /\ bs = concat parts.
Proof.
  revert bs. induction ts as [|t r IH]; intros bs H; cbn [all_bytes] in H.
  - inversion H. exists []. split; [constructor|reflexivity].
  - destruct (stmt_bytes t) as [b|] eqn:SB; [|discriminate]. destruct (all_bytes r) as [bs'|] eqn:AB; [|discriminate].
    inversion H; subst bs. destruct (IH bs' eq_refl) as (parts & F & ->).
    exists (b :: parts). split; [|reflexivity]. constructor; [|exact F]. cbn [all_bytes]. rewrite SB, app_nil_r. reflexivity.
Qed.

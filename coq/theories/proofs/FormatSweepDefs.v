(* C12 / C13 on the whole Gallina pipeline parse -> format -> parse -> format, by exhaustive evaluation over the layout
   domain of C08 (proofs/C08Sweep.v): every statement form of the grammar plus three instruction shapes per mnemonic, in its
   canonical layout and in every variant (one slot replaced by each sample trivia -- blanks, tabs, block comments incl.
   nested and multi-line ones, line comments, LF / CRLF --, one keyword re-cased, one sample in all slots). *)
From Coq Require Import List NArith Bool.
Import ListNotations.
From Mos Require Import model.Utf model.Nom Gen.ParserTables model.Parser model.Display spec.LayoutEquiv proofs.C08Proofs proofs.C08Sweep.
From Mos Require Import model.Format Gen.FmtRules model.FormatParse proofs.FormatTokensProofs.

(* format the text, parse the result: same skeleton (token tree without spans, trivia, keyword spelling); format the result
   again: the same text *)
Definition reparse_ok (o : options) (s : text) : bool :=
  match format_source o s, skel_parse s with
  | Some f, Some k =>
      match skel_parse f with Some k' => sxl_eqb k' k | None => false end &&
      match format_source o f with Some f2 => Format.text_eqb f2 f | None => false end
  | _, _ => false
  end.

Definition sweep_inputs : list text := List.concat (map (fun tpl => canon tpl :: variants tpl) templates).

Definition sweep_o1 : options := default_options.
Definition sweep_o2 : options := mkOptions Uppercase Uppercase NewLine 2 5 ALeft 4.
Definition sweep_o3 : options := mkOptions Lowercase Uppercase SameLine 0 0 ARight 0.

Lemma reparse_ok_sound : forall o s, reparse_ok o s = true ->
  exists f, format_source o s = Some f /\ skel_parse f = skel_parse s /\ skel_parse s <> None /\ format_source o f = Some f.
Proof.
  intros o s H. unfold reparse_ok in H.
  destruct (format_source o s) as [f|]; [|discriminate]. destruct (skel_parse s) as [k|]; [|discriminate].
  apply andb_prop in H as [H1 H2]. exists f. split; [reflexivity|].
  destruct (skel_parse f) as [k'|]; [|discriminate]. apply sxl_eqb_eq in H1. subst.
  destruct (format_source o f) as [f2|]; [|discriminate]. apply text_eqb_eq in H2. subst.
  split; [reflexivity|]. split; [discriminate | reflexivity].
Qed.

Lemma sweep_inputs_in : forall tpl s, In tpl templates -> In s (canon tpl :: variants tpl) -> In s sweep_inputs.
Proof.
  intros tpl s Ht Hs. unfold sweep_inputs. apply in_concat. exists (canon tpl :: variants tpl). split; [|exact Hs].
  apply in_map_iff. exists tpl. split; [reflexivity | exact Ht].
Qed.

(* Proofs about the chunk layer of the formatter model (model/Format.v). *)
From Coq Require Import List NArith Bool Arith Lia.
Import ListNotations.
From Mos Require Import model.Utf model.Format.
Open Scope nat_scope.

(* ---------------------------------------------------------------- spec-level notions *)
(* the non-whitespace characters of a text, in order *)
Definition nows (l : text) : text := filter (fun c => negb (is_ws c)) l.
Definition chunks_text (cs : list chunk) : text := concat (map c_str cs).

Lemma nows_app : forall a b, nows (a ++ b) = nows a ++ nows b.
Proof. intros; unfold nows; apply filter_app. Qed.

Lemma is_ws_SP : is_ws SP = true. Proof. reflexivity. Qed.
Lemma is_ws_NL : is_ws NL = true. Proof. reflexivity. Qed.

Lemma nows_spaces : forall n, nows (spaces n) = [].
Proof. induction n; simpl; auto. Qed.

Lemma nows_pad_right : forall s w, nows (pad_right s w) = nows s.
Proof. intros; unfold pad_right; rewrite nows_app, nows_spaces, app_nil_r; reflexivity. Qed.

Lemma nows_pad_left : forall s w, nows (pad_left s w) = nows s.
Proof. intros; unfold pad_left; rewrite nows_app, nows_spaces; reflexivity. Qed.

Lemma nows_trim_start : forall l, nows (trim_start l) = nows l.
Proof.
  induction l as [|c r IH]; simpl; auto.
  destruct (is_ws c) eqn:E; simpl; rewrite ?E; simpl; auto.
Qed.

Lemma nows_rev : forall l, nows (rev l) = rev (nows l).
Proof.
  induction l as [|c r IH]; simpl; auto.
  rewrite nows_app, IH. unfold nows at 2 3; simpl. destruct (is_ws c); simpl; [apply app_nil_r | reflexivity].
Qed.

Lemma nows_trim_end : forall l, nows (trim_end l) = nows l.
Proof. intros; unfold trim_end. rewrite nows_rev, nows_trim_start, nows_rev, rev_involutive; reflexivity. Qed.

Lemma all_ws_nows : forall l, all_ws l = true -> nows l = [].
Proof.
  induction l as [|c r IH]; simpl; auto. intros H; apply andb_prop in H as [H1 H2].
  rewrite H1; simpl; auto.
Qed.

Lemma split_floor_app : forall l n, fst (split_floor l n) ++ snd (split_floor l n) = l.
Proof.
  induction l as [|c r IH]; intros n; simpl; auto.
  destruct (width_utf8 c <=? n); simpl; auto.
  specialize (IH (n - width_utf8 c)). destruct (split_floor r (n - width_utf8 c)); simpl in *; congruence.
Qed.

Lemma concat_split_inclusive : forall l, concat (split_inclusive l) = l.
Proof.
  induction l as [|c r IH]; simpl; auto.
  destruct (c =? NL)%N; simpl; [congruence|].
  destruct (split_inclusive r) as [|p ps]; simpl in *; [subst; reflexivity|]. congruence.
Qed.

Lemma split_inclusive_nonempty : forall l, l <> [] -> split_inclusive l <> [].
Proof.
  destruct l as [|c r]; [congruence|]. intros _; simpl.
  destruct (c =? NL)%N; [congruence|]. destruct (split_inclusive r); congruence.
Qed.

Lemma nows_concat_join_nl : forall ls, nows (join_nl ls) = nows (concat ls).
Proof.
  induction ls as [|l rest IH]; simpl; auto.
  destruct rest as [|l2 rest'].
  - simpl; rewrite app_nil_r; reflexivity.
  - rewrite !nows_app. change (NL :: join_nl (l2 :: rest')) with ([NL] ++ join_nl (l2 :: rest')).
    rewrite nows_app, IH. reflexivity.
Qed.

(* ---------------------------------------------------------------- the accounting invariant of join_chunks *)
(* every non-whitespace character consumed so far is either in a finished line or in the pending line, in order *)
Definition acc (st : jstate) : text := nows (concat (rev (j_out st))) ++ nows (j_line st).

Lemma nows_push_line : forall out l ind,
  nows (concat (rev (trim_end (pad_right [] ind ++ l) :: out))) = nows (concat (rev out)) ++ nows l.
Proof.
  intros. simpl. rewrite concat_app, nows_app. simpl. rewrite app_nil_r, nows_trim_end, nows_app, nows_pad_right.
  reflexivity.
Qed.

Lemma acc_flush : forall o st, acc (flush_line o st) = acc st /\ j_line (flush_line o st) = [].
Proof.
  intros o st. unfold flush_line, acc.
  destruct (all_ws (j_line st)) eqn:Ews.
  - destruct (negb (j_had st) && negb (j_had_label st) && (j_prev st =? 0)); cbn [j_out j_line]; split; auto.
    + rewrite nows_push_line. cbn [nows filter]. rewrite app_nil_r; reflexivity.
    + rewrite (all_ws_nows _ Ews); reflexivity.
  - destruct (o_label_margin o + o_code_margin o <? byte_len (j_line st)).
    + pose proof (split_floor_app (j_line st) (o_label_margin o + o_code_margin o)) as Hs.
      destruct (split_floor (j_line st) (o_label_margin o + o_code_margin o)) as [lc cm]; cbn [fst snd] in Hs.
      destruct (all_ws lc) eqn:Elc; cbn [j_out j_line]; split; auto; rewrite nows_push_line; cbn [nows filter];
        rewrite app_nil_r; try reflexivity.
      fold (nows (pad_right [] (o_label_margin o) ++ cm)).
      rewrite nows_app, nows_pad_right. cbn [nows filter app].
      fold (nows cm). fold (nows (j_line st)). rewrite <- Hs, nows_app, (all_ws_nows _ Elc); reflexivity.
    + cbn [j_out j_line]; split; auto. rewrite nows_push_line. cbn [nows filter]. rewrite app_nil_r; reflexivity.
Qed.

Lemma nows_single_nl : forall s, text_eqb s [NL] = true -> nows s = [].
Proof.
  intros s H. destruct s as [|c [|d r]]; simpl in H; try discriminate.
  - apply andb_prop in H as [H _]. apply N.eqb_eq in H; subst; reflexivity.
  - rewrite andb_false_r in H; discriminate.
Qed.

Lemma acc_with_line : forall st l a b, acc (with_line st l a b) = nows (concat (rev (j_out st))) ++ nows l.
Proof. reflexivity. Qed.

Lemma acc_join_piece : forall o ty e last st s,
  acc (join_piece o ty e last st s) = acc st ++ nows s.
Proof.
  intros o ty e last st s. unfold join_piece.
  set (lm := o_label_margin o).
  assert (Hacc : forall line' a b, nows line' = nows (j_line st) ++ nows s ->
                 forall c : bool, acc (if c then flush_line o (with_line st line' a b) else with_line st line' a b) = acc st ++ nows s).
  { intros line' a b Hl c. destruct c.
    - rewrite (proj1 (acc_flush o _)), acc_with_line. unfold acc. rewrite Hl, app_assoc; reflexivity.
    - rewrite acc_with_line. unfold acc. rewrite Hl, app_assoc; reflexivity. }
  destruct ty as [[|]|].
  - (* Label *)
    destruct (lm <? byte_len (j_line st)).
    + apply Hacc. rewrite !nows_app; simpl; rewrite app_nil_r; reflexivity.
    + destruct (o_label_alignment o); apply Hacc;
        rewrite nows_app, ?nows_pad_right, ?nows_pad_left, nows_app; simpl; rewrite app_nil_r; reflexivity.
  - (* Comment *)
    destruct e; apply Hacc.
    + rewrite nows_app, nows_pad_right; reflexivity.
    + rewrite !nows_app, nows_pad_right; simpl; rewrite app_nil_r; reflexivity.
  - (* plain *)
    destruct (text_eqb s [NL] && negb match j_line st with [] => true | _ :: _ => false end && (byte_len (j_line st) <=? lm)) eqn:Eig.
    + apply andb_prop in Eig as [Eig _]; apply andb_prop in Eig as [Eig _].
      rewrite (nows_single_nl _ Eig), app_nil_r.
      destruct (negb true && contains_nl s || last); [apply acc_flush | reflexivity].
    + apply Hacc. rewrite nows_app, nows_pad_right; reflexivity.
Qed.

Lemma line_join_piece_last : forall o ty e st s, j_line (join_piece o ty e true st s) = [].
Proof.
  intros. unfold join_piece.
  repeat match goal with |- context [let '(_, _) := ?x in _] => destruct x end.
  rewrite orb_true_r. apply acc_flush.
Qed.

Lemma acc_fold_pieces : forall o ty e last ps st,
  acc (fold_left (join_piece o ty e last) ps st) = acc st ++ nows (concat ps).
Proof.
  induction ps as [|p ps IH]; intros st; simpl.
  - rewrite app_nil_r; reflexivity.
  - rewrite IH, acc_join_piece, nows_app, app_assoc; reflexivity.
Qed.

Lemma line_fold_pieces_last : forall o ty e ps st, ps <> [] ->
  j_line (fold_left (join_piece o ty e true) ps st) = [].
Proof.
  induction ps as [|p ps IH]; intros st H; [congruence|]. simpl.
  destruct ps as [|q qs]; simpl.
  - apply line_join_piece_last.
  - apply IH; congruence.
Qed.

Lemma acc_set_indent : forall st i, acc (set_indent st i) = acc st.
Proof. intros; unfold set_indent; destruct (j_indent st); reflexivity. Qed.

Lemma acc_join_chunk : forall o c e last st, acc (join_chunk o c e last st) = acc st ++ nows (c_str c).
Proof.
  intros; unfold join_chunk. rewrite acc_fold_pieces, acc_set_indent, concat_split_inclusive; reflexivity.
Qed.

(* the chunks never contain an empty text: invariant of push_type (`if str.is_empty() { return self; }`) *)
Definition nonempty_chunks (cs : list chunk) : Prop := Forall (fun c => c_str c <> []) cs.

Lemma acc_join_loop : forall o cs st,
  acc (join_loop o cs st) = acc st ++ nows (chunks_text cs).
Proof.
  induction cs as [|c rest IH]; intros st; simpl.
  - unfold chunks_text; simpl; rewrite app_nil_r; reflexivity.
  - rewrite IH, acc_join_chunk. unfold chunks_text; simpl. rewrite nows_app, app_assoc; reflexivity.
Qed.

Lemma line_join_loop : forall o cs st, cs <> [] -> nonempty_chunks cs -> j_line (join_loop o cs st) = [].
Proof.
  induction cs as [|c rest IH]; intros st Hne Hall; [congruence|]. simpl.
  inversion Hall as [|? ? Hc Hrest]; subst.
  destruct rest as [|d rest'].
  - simpl. unfold join_chunk. apply line_fold_pieces_last. apply split_inclusive_nonempty; assumption.
  - apply IH; [congruence | assumption].
Qed.

(* C12: line assembly neither loses nor reorders nor invents a non-whitespace character *)
Theorem join_preserves : forall cs o, nonempty_chunks cs ->
  nows (join_chunks cs o) = nows (chunks_text cs).
Proof.
  intros cs o Hall. unfold join_chunks, join_lines. rewrite nows_concat_join_nl.
  pose proof (acc_join_loop o cs j_init) as H. unfold acc at 1 in H.
  destruct cs as [|c rest].
  - reflexivity.
  - rewrite (line_join_loop o (c :: rest) j_init) in H by (congruence || assumption).
    simpl in H. rewrite app_nil_r in H. exact H.
Qed.

(* without the invariant a pending line is lost: the guard is exact at the level of the last chunk *)
Lemma join_preserves_needs_nonempty :
  exists cs o, nows (join_chunks cs o) <> nows (chunks_text cs).
Proof.
  exists [mkChunk None 0 [110%N; 111%N; 112%N]; mkChunk None 0 []], (mkOptions Lowercase Lowercase SameLine 4 20 ARight 30).
  vm_compute. discriminate.
Qed.

(* Proofs about the chunk layer of the formatter model (model/Format.v). *)
From Coq Require Import List NArith Bool Arith Lia.
Import ListNotations.
From Mos Require Import model.Utf model.Format.
Open Scope nat_scope.

(* ---------------------------------------------------------------- spec-level notions *)
(* the non-whitespace characters of a text, in order *)
Definition nows (l : text) : text := filter (fun c => negb (is_ws c)) l.
Definition chunks_text (cs : list chunk) : text := concat (map c_str cs).

Lemma nows_app : forall a b, nows (a ++ b) = nows a ++ nows b.
Proof. intros; unfold nows; apply filter_app. Qed.

Lemma is_ws_SP : is_ws SP = true. Proof. reflexivity. Qed.
Lemma is_ws_NL : is_ws NL = true. Proof. reflexivity. Qed.

Lemma nows_spaces : forall n, nows (spaces n) = [].
Proof. induction n; simpl; auto. Qed.

Lemma nows_pad_right : forall s w, nows (pad_right s w) = nows s.
Proof. intros; unfold pad_right; rewrite nows_app, nows_spaces, app_nil_r; reflexivity. Qed.

Lemma nows_pad_left : forall s w, nows (pad_left s w) = nows s.
Proof. intros; unfold pad_left; rewrite nows_app, nows_spaces; reflexivity. Qed.

Lemma nows_trim_start : forall l, nows (trim_start l) = nows l.
Proof.
  induction l as [|c r IH]; simpl; auto.
  destruct (is_ws c) eqn:E; simpl; rewrite ?E; simpl; auto.
Qed.

Lemma nows_rev : forall l, nows (rev l) = rev (nows l).
Proof.
  induction l as [|c r IH]; simpl; auto.
  rewrite nows_app, IH. unfold nows at 2 3; simpl. destruct (is_ws c); simpl; [apply app_nil_r | reflexivity].
Qed.

Lemma nows_trim_end : forall l, nows (trim_end l) = nows l.
Proof. intros; unfold trim_end. rewrite nows_rev, nows_trim_start, nows_rev, rev_involutive; reflexivity. Qed.

Lemma all_ws_nows : forall l, all_ws l = true -> nows l = [].
Proof.
  induction l as [|c r IH]; simpl; auto. intros H; apply andb_prop in H as [H1 H2].
  rewrite H1; simpl; auto.
Qed.

Lemma split_floor_app : forall l n, fst (split_floor l n) ++ snd (split_floor l n) = l.
Proof.
  induction l as [|c r IH]; intros n; simpl; auto.
  destruct (width_utf8 c <=? n); simpl; auto.
  specialize (IH (n - width_utf8 c)). destruct (split_floor r (n - width_utf8 c)); simpl in *; congruence.
Qed.

Lemma concat_split_inclusive : forall l, concat (split_inclusive l) = l.
Proof.
  induction l as [|c r IH]; simpl; auto.
  destruct (c =? NL)%N; simpl; [congruence|].
  destruct (split_inclusive r) as [|p ps]; simpl in *; [subst; reflexivity|]. congruence.
Qed.

Lemma split_inclusive_nonempty : forall l, l <> [] -> split_inclusive l <> [].
Proof.
  destruct l as [|c r]; [congruence|]. intros _; simpl.
  destruct (c =? NL)%N; [congruence|]. destruct (split_inclusive r); congruence.
Qed.

Lemma split_inclusive_cons : forall c r, split_inclusive (c :: r) =
  if (c =? NL)%N then [c] :: split_inclusive r
  else match split_inclusive r with [] => [[c]] | p :: ps => (c :: p) :: ps end.
Proof. reflexivity. Qed.

Lemma split_inclusive_no_nl : forall l, l <> [] -> contains_nl l = false -> split_inclusive l = [l].
Proof.
  induction l as [|c r IH]; intros Hne H; [congruence|].
  cbn [contains_nl existsb] in H. apply orb_false_elim in H as [Hc Hr].
  rewrite split_inclusive_cons, Hc. destruct r as [|d r']; [reflexivity|].
  rewrite IH; [reflexivity | congruence | exact Hr].
Qed.

Lemma chunk_pieces_single : forall c, split_inclusive (c_str c) = [c_str c] -> chunk_pieces c = [c_str c].
Proof. intros c H. unfold chunk_pieces. rewrite H. destruct (c_ty c) as [[|]|]; reflexivity. Qed.

Lemma nows_trim_blanks : forall s, nows (trim_blanks s) = nows s.
Proof.
  induction s as [|c r IH]; [reflexivity|]. cbn [trim_blanks].
  destruct ((c =? 32) || (c =? 9))%N eqn:E; [|reflexivity]. rewrite IH.
  unfold nows. cbn [filter]. assert (Hw : is_ws c = true).
  { apply orb_prop in E as [E|E]; apply N.eqb_eq in E; subst; reflexivity. }
  rewrite Hw. reflexivity.
Qed.

Lemma nows_concat_map_trim : forall ps, nows (concat (map trim_blanks ps)) = nows (concat ps).
Proof. induction ps as [|p r IH]; [reflexivity|]. cbn [map concat]. rewrite !nows_app, nows_trim_blanks, IH. reflexivity. Qed.

Lemma nows_chunk_pieces : forall c, nows (concat (chunk_pieces c)) = nows (c_str c).
Proof.
  intros c. unfold chunk_pieces. rewrite <- (concat_split_inclusive (c_str c)) at 2.
  destruct (split_inclusive (c_str c)) as [|p rest]; [reflexivity|].
  destruct (c_ty c) as [[|]|]; try reflexivity. cbn [concat]. rewrite !nows_app, nows_concat_map_trim. reflexivity.
Qed.

Lemma chunk_pieces_nonempty : forall c, c_str c <> [] -> chunk_pieces c <> [].
Proof.
  intros c H. unfold chunk_pieces. pose proof (split_inclusive_nonempty _ H).
  destruct (split_inclusive (c_str c)); [congruence | discriminate].
Qed.

Lemma nows_concat_join_nl : forall ls, nows (join_nl ls) = nows (concat ls).
Proof.
  induction ls as [|l rest IH]; simpl; auto.
  destruct rest as [|l2 rest'].
  - simpl; rewrite app_nil_r; reflexivity.
  - rewrite !nows_app. change (NL :: join_nl (l2 :: rest')) with ([NL] ++ join_nl (l2 :: rest')).
    rewrite nows_app, IH. reflexivity.
Qed.

(* ---------------------------------------------------------------- the accounting invariant of join_chunks *)
(* every non-whitespace character consumed so far is either in a finished line or in the pending line, in order *)
Definition acc (st : jstate) : text := nows (concat (rev (j_out st))) ++ nows (j_line st).

Lemma nows_push_line : forall out l ind,
  nows (concat (rev (trim_end (pad_right [] ind ++ l) :: out))) = nows (concat (rev out)) ++ nows l.
Proof.
  intros. simpl. rewrite concat_app, nows_app. simpl. rewrite app_nil_r, nows_trim_end, nows_app, nows_pad_right.
  reflexivity.
Qed.

Lemma acc_flush : forall o st, acc (flush_line o st) = acc st /\ j_line (flush_line o st) = [].
Proof.
  intros o st. unfold flush_line, acc.
  destruct (all_ws (j_line st)) eqn:Ews.
  - destruct (negb (j_had st) && negb (j_had_label st) && (j_prev st =? 0)); cbn [j_out j_line]; split; auto.
    + rewrite nows_push_line. cbn [nows filter]. rewrite app_nil_r; reflexivity.
    + rewrite (all_ws_nows _ Ews); reflexivity.
  - destruct (o_label_margin o + o_code_margin o <? byte_len (j_line st)).
    + pose proof (split_floor_app (j_line st) (o_label_margin o + o_code_margin o)) as Hs.
      destruct (split_floor (j_line st) (o_label_margin o + o_code_margin o)) as [lc cm]; cbn [fst snd] in Hs.
      destruct (all_ws lc) eqn:Elc; cbn [j_out j_line]; split; auto; rewrite nows_push_line; cbn [nows filter];
        rewrite app_nil_r; try reflexivity.
      fold (nows (pad_right [] (o_label_margin o) ++ cm)).
      rewrite nows_app, nows_pad_right. cbn [nows filter app].
      fold (nows cm). fold (nows (j_line st)). rewrite <- Hs, nows_app, (all_ws_nows _ Elc); reflexivity.
    + cbn [j_out j_line]; split; auto. rewrite nows_push_line. cbn [nows filter]. rewrite app_nil_r; reflexivity.
Qed.

Lemma nows_single_nl : forall s, text_eqb s [NL] = true -> nows s = [].
Proof.
  intros s H. destruct s as [|c [|d r]]; simpl in H; try discriminate.
  - apply andb_prop in H as [H _]. apply N.eqb_eq in H; subst; reflexivity.
  - rewrite andb_false_r in H; discriminate.
Qed.

Lemma acc_with_line : forall st l a b, acc (with_line st l a b) = nows (concat (rev (j_out st))) ++ nows l.
Proof. reflexivity. Qed.

Lemma acc_join_piece : forall o ty e last st s,
  acc (join_piece o ty e last st s) = acc st ++ nows s.
Proof.
  intros o ty e last st s. unfold join_piece.
  set (lm := o_label_margin o).
  assert (Hacc : forall line' a b, nows line' = nows (j_line st) ++ nows s ->
                 forall c : bool, acc (if c then flush_line o (with_line st line' a b) else with_line st line' a b) = acc st ++ nows s).
  { intros line' a b Hl c. destruct c.
    - rewrite (proj1 (acc_flush o _)), acc_with_line. unfold acc. rewrite Hl, app_assoc; reflexivity.
    - rewrite acc_with_line. unfold acc. rewrite Hl, app_assoc; reflexivity. }
  destruct ty as [[|]|].
  - (* Label *)
    destruct (lm <? byte_len (j_line st)).
    + apply Hacc. rewrite !nows_app; simpl; rewrite app_nil_r; reflexivity.
    + destruct (o_label_alignment o); apply Hacc;
        rewrite nows_app, ?nows_pad_right, ?nows_pad_left, nows_app; simpl; rewrite app_nil_r; reflexivity.
  - (* Comment *)
    destruct e; apply Hacc.
    + rewrite nows_app, nows_pad_right; reflexivity.
    + rewrite !nows_app, nows_pad_right; simpl; rewrite app_nil_r; reflexivity.
  - (* plain *)
    destruct (text_eqb s [NL] && negb match j_line st with [] => true | _ :: _ => false end && (byte_len (j_line st) <=? lm)) eqn:Eig.
    + apply andb_prop in Eig as [Eig _]; apply andb_prop in Eig as [Eig _].
      rewrite (nows_single_nl _ Eig), app_nil_r.
      destruct (negb true && contains_nl s || last); [apply acc_flush | reflexivity].
    + apply Hacc. rewrite nows_app, nows_pad_right; reflexivity.
Qed.

Lemma line_join_piece_last : forall o ty e st s, j_line (join_piece o ty e true st s) = [].
Proof.
  intros. unfold join_piece.
  repeat match goal with |- context [let '(_, _) := ?x in _] => destruct x end.
  rewrite orb_true_r. apply acc_flush.
Qed.

Lemma acc_fold_pieces : forall o ty e last ps st,
  acc (fold_left (join_piece o ty e last) ps st) = acc st ++ nows (concat ps).
Proof.
  induction ps as [|p ps IH]; intros st; simpl.
  - rewrite app_nil_r; reflexivity.
  - rewrite IH, acc_join_piece, nows_app, app_assoc; reflexivity.
Qed.

Lemma line_fold_pieces_last : forall o ty e ps st, ps <> [] ->
  j_line (fold_left (join_piece o ty e true) ps st) = [].
Proof.
  induction ps as [|p ps IH]; intros st H; [congruence|]. simpl.
  destruct ps as [|q qs]; simpl.
  - apply line_join_piece_last.
  - apply IH; congruence.
Qed.

Lemma acc_set_indent : forall st i, acc (set_indent st i) = acc st.
Proof. intros; unfold set_indent; destruct (j_indent st); reflexivity. Qed.

Lemma acc_join_chunk : forall o c e last st, acc (join_chunk o c e last st) = acc st ++ nows (c_str c).
Proof.
  intros; unfold join_chunk. rewrite acc_fold_pieces, acc_set_indent, nows_chunk_pieces; reflexivity.
Qed.

(* the chunks never contain an empty text: invariant of push_type (`if str.is_empty() { return self; }`) *)
Definition nonempty_chunks (cs : list chunk) : Prop := Forall (fun c => c_str c <> []) cs.

Lemma acc_join_loop : forall o cs st,
  acc (join_loop o cs st) = acc st ++ nows (chunks_text cs).
Proof.
  induction cs as [|c rest IH]; intros st; simpl.
  - unfold chunks_text; simpl; rewrite app_nil_r; reflexivity.
  - rewrite IH, acc_join_chunk. unfold chunks_text; simpl. rewrite nows_app, app_assoc; reflexivity.
Qed.

Lemma line_join_loop : forall o cs st, cs <> [] -> nonempty_chunks cs -> j_line (join_loop o cs st) = [].
Proof.
  induction cs as [|c rest IH]; intros st Hne Hall; [congruence|]. simpl.
  inversion Hall as [|? ? Hc Hrest]; subst.
  destruct rest as [|d rest'].
  - simpl. unfold join_chunk. apply line_fold_pieces_last. apply chunk_pieces_nonempty; assumption.
  - apply IH; [congruence | assumption].
Qed.

(* C12: line assembly neither loses nor reorders nor invents a non-whitespace character *)
Theorem join_preserves : forall cs o, nonempty_chunks cs ->
  nows (join_chunks cs o) = nows (chunks_text cs).
Proof.
  intros cs o Hall. unfold join_chunks, join_lines. rewrite nows_concat_join_nl.
  pose proof (acc_join_loop o cs j_init) as H. unfold acc at 1 in H.
  destruct cs as [|c rest].
  - reflexivity.
  - rewrite (line_join_loop o (c :: rest) j_init) in H by (congruence || assumption).
    simpl in H. rewrite app_nil_r in H. exact H.
Qed.

(* without the invariant a pending line is lost: the guard is exact at the level of the last chunk *)
Lemma join_preserves_needs_nonempty :
  exists cs o, nows (join_chunks cs o) <> nows (chunks_text cs).
Proof.
  exists [mkChunk None 0 [110%N; 111%N; 112%N]; mkChunk None 0 []], (mkOptions Lowercase Lowercase SameLine 4 20 ARight 30).
  vm_compute. discriminate.
Qed.

(* ---------------------------------------------------------------- processing a prefix of the chunk list *)
(* join_loop over `cs` when `after` follows (the loop looks one chunk ahead) *)
Fixpoint join_loop_ctx (o : options) (cs after : list chunk) (st : jstate) : jstate :=
  match cs with
  | [] => st
  | c :: rest => join_loop_ctx o rest after (join_chunk o c (next_is_nl (rest ++ after)) (is_last (rest ++ after)) st)
  end.

Lemma join_loop_split : forall o a b st, join_loop o (a ++ b) st = join_loop o b (join_loop_ctx o a b st).
Proof. induction a as [|c r IH]; intros b st; cbn [app join_loop join_loop_ctx]; [reflexivity | apply IH]. Qed.

Lemma join_loop_ctx_app : forall o a b after st,
  join_loop_ctx o (a ++ b) after st = join_loop_ctx o b after (join_loop_ctx o a (b ++ after) st).
Proof.
  induction a as [|c r IH]; intros b after st; cbn [app join_loop_ctx]; [reflexivity|].
  rewrite IH, <- app_assoc. reflexivity.
Qed.

Lemma acc_join_loop_ctx : forall o cs after st, acc (join_loop_ctx o cs after st) = acc st ++ nows (chunks_text cs).
Proof.
  induction cs as [|c rest IH]; intros after st; cbn [join_loop_ctx].
  - unfold chunks_text; simpl; rewrite app_nil_r; reflexivity.
  - rewrite IH, acc_join_chunk. unfold chunks_text; simpl. rewrite nows_app, app_assoc; reflexivity.
Qed.

(* finished lines are only ever added *)
Definition extends (st st' : jstate) : Prop := exists l, j_out st' = l ++ j_out st.
Lemma extends_refl : forall st, extends st st. Proof. intros; exists []; reflexivity. Qed.
Lemma extends_trans : forall a b c, extends a b -> extends b c -> extends a c.
Proof. intros a b c [l1 E1] [l2 E2]. exists (l2 ++ l1). rewrite E2, E1, app_assoc; reflexivity. Qed.

Lemma extends_flush : forall o st, extends st (flush_line o st).
Proof.
  intros o st. unfold flush_line, extends.
  destruct (all_ws (j_line st)).
  - destruct (negb (j_had st) && negb (j_had_label st) && (j_prev st =? 0)); cbn [j_out]; [eexists [_] | exists []]; reflexivity.
  - destruct (o_label_margin o + o_code_margin o <? byte_len (j_line st)).
    + destruct (split_floor (j_line st) (o_label_margin o + o_code_margin o)) as [lc cm].
      destruct (all_ws lc); cbn [j_out]; eexists [_]; reflexivity.
    + cbn [j_out]; eexists [_]; reflexivity.
Qed.

Lemma extends_join_piece : forall o ty e last st p, extends st (join_piece o ty e last st p).
Proof.
  intros. unfold join_piece.
  assert (H : forall l a b (c : bool), extends st (if c then flush_line o (with_line st l a b) else with_line st l a b)).
  { intros l a b c. destruct c; [| exists []; reflexivity].
    destruct (extends_flush o (with_line st l a b)) as [x E]. exists x. exact E. }
  destruct ty as [[|]|].
  - destruct (o_label_margin o <? byte_len (j_line st)); [apply H|]. destruct (o_label_alignment o); apply H.
  - destruct e; apply H.
  - destruct (text_eqb p [NL] && negb match j_line st with [] => true | _ :: _ => false end && (byte_len (j_line st) <=? o_label_margin o)).
    + destruct (negb true && contains_nl p || last); [apply extends_flush | apply extends_refl].
    + apply H.
Qed.

Lemma extends_fold : forall o ty e last ps st, extends st (fold_left (join_piece o ty e last) ps st).
Proof.
  induction ps as [|p ps IH]; intros st; cbn [fold_left]; [apply extends_refl|].
  eapply extends_trans; [apply extends_join_piece | apply IH].
Qed.

Lemma extends_join_chunk : forall o c e last st, extends st (join_chunk o c e last st).
Proof.
  intros. unfold join_chunk. eapply extends_trans; [|apply extends_fold].
  unfold set_indent. destruct (j_indent st); exists []; reflexivity.
Qed.

Lemma extends_join_loop : forall o cs st, extends st (join_loop o cs st).
Proof.
  induction cs as [|c r IH]; intros st; cbn [join_loop]; [apply extends_refl|].
  eapply extends_trans; [apply extends_join_chunk | apply IH].
Qed.

(* ---------------------------------------------------------------- a comment in front of a newline chunk ends its line *)
(* the pending line is empty or reaches beyond the label margin: a newline chunk is then never ignored *)
Definition wide (o : options) (st : jstate) : Prop := j_line st = [] \/ o_label_margin o < byte_len (j_line st).

Lemma byte_len_ge_length : forall l, List.length l <= byte_len l.
Proof.
  induction l as [|c r IH]; cbn [List.length byte_len]; [lia|].
  assert (1 <= width_utf8 c) by (unfold width_utf8; repeat destruct (_ <? _)%N; lia). lia.
Qed.

Lemma byte_len_app : forall a b, byte_len (a ++ b) = byte_len a + byte_len b.
Proof. induction a as [|c r IH]; intros b; cbn [app byte_len]; [reflexivity | rewrite IH; lia]. Qed.

Lemma pad_right_length : forall l w, w <= List.length (pad_right l w).
Proof. intros. unfold pad_right, spaces. rewrite app_length, repeat_length. lia. Qed.

Lemma wide_flush : forall o st, wide o (flush_line o st).
Proof. intros. left. apply acc_flush. Qed.

Lemma wide_comment_piece : forall o last st p, p <> [] -> wide o (join_piece o (Some Comment) true last st p).
Proof.
  intros o last st p Hp. unfold join_piece.
  destruct (negb false && contains_nl p || last); [apply wide_flush|].
  right. cbn [with_line j_line]. rewrite byte_len_app.
  pose proof (byte_len_ge_length (pad_right (j_line st) (o_label_margin o + o_code_margin o))).
  pose proof (pad_right_length (j_line st) (o_label_margin o + o_code_margin o)).
  pose proof (byte_len_ge_length p). destruct p; [congruence|]. cbn [List.length] in *. lia.
Qed.

Lemma split_inclusive_pieces_nonempty : forall l, Forall (fun p => p <> []) (split_inclusive l).
Proof.
  induction l as [|c r IH]; cbn [split_inclusive]; [constructor|].
  destruct (c =? NL)%N; [constructor; [congruence | exact IH]|].
  destruct (split_inclusive r) as [|p ps]; [repeat constructor; congruence|].
  inversion IH; subst. constructor; [congruence | assumption].
Qed.

Lemma wide_comment_fold : forall o last ps st, ps <> [] -> Forall (fun p => p <> []) ps ->
  wide o (fold_left (join_piece o (Some Comment) true last) ps st).
Proof.
  induction ps as [|p ps IH]; intros st Hne Hall; [congruence|]. inversion Hall; subst. cbn [fold_left].
  destruct ps as [|q qs]; [cbn [fold_left]; apply wide_comment_piece; assumption|].
  apply IH; [congruence | assumption].
Qed.

Lemma wide_set_indent : forall o st i, wide o st -> wide o (set_indent st i).
Proof. intros o st i H. unfold set_indent. destruct (j_indent st); exact H. Qed.

Lemma nl_piece_flushes : forall o e last st, wide o st -> j_line (join_piece o None e last st [NL]) = [].
Proof.
  intros o e last st Hw. unfold join_piece.
  assert (Hig : text_eqb [NL] [NL] && negb match j_line st with [] => true | _ :: _ => false end &&
                (byte_len (j_line st) <=? o_label_margin o) = false).
  { destruct Hw as [-> | Hlt]; [reflexivity|].
    apply andb_false_intro2. apply Nat.leb_gt. exact Hlt. }
  rewrite Hig. cbn [negb andb contains_nl existsb orb]. replace ((NL =? NL)%N) with true by reflexivity.
  cbn [orb]. apply acc_flush.
Qed.

(* C12: a comment chunk that is followed by a newline chunk -- every `//` comment is (format_tokens emits the newline
   trivia right behind it) -- is the last thing on its output line: the output splits, at a line boundary, into the
   lines that hold everything up to and including the comment and the lines that hold everything behind it.
   No later token is ever put behind a line comment. *)
Theorem line_comment_ends_line : forall pre c ind post o,
  c_ty c = Some Comment -> c_str c <> [] -> contains_nl (c_str c) = false -> nonempty_chunks post ->
  exists l1 l2, join_lines (pre ++ c :: mkChunk None ind [NL] :: post) o = l1 ++ l2 /\
    nows (concat l1) = nows (chunks_text (pre ++ [c])) /\ nows (concat l2) = nows (chunks_text post).
Proof.
  intros pre c ind post o Hty Hne Hnl Hpost.
  set (nl := mkChunk None ind [NL]).
  replace (pre ++ c :: nl :: post) with ((pre ++ [c; nl]) ++ post) by (rewrite <- app_assoc; reflexivity).
  unfold join_lines. rewrite join_loop_split.
  set (S1 := join_loop_ctx o (pre ++ [c; nl]) post j_init).
  assert (Hline1 : j_line S1 = []).
  { subst S1. rewrite join_loop_ctx_app. cbn [join_loop_ctx app].
    set (S0 := join_loop_ctx o pre ([c; nl] ++ post) j_init).
    unfold join_chunk at 1. replace (chunk_pieces nl) with [[NL]] by reflexivity.
    cbn [fold_left c_ty nl]. apply nl_piece_flushes.
    unfold join_chunk. rewrite Hty, (chunk_pieces_single c (split_inclusive_no_nl _ Hne Hnl)).
    cbn [next_is_nl is_nl_chunk c_str nl text_eqb].
    replace ((NL =? NL)%N) with true by reflexivity. cbn [andb fold_left].
    apply wide_set_indent. apply wide_comment_piece. exact Hne. }
  pose proof (acc_join_loop_ctx o (pre ++ [c; nl]) post j_init) as Hacc1. fold S1 in Hacc1.
  unfold acc at 1 in Hacc1. rewrite Hline1 in Hacc1. cbn [nows filter] in Hacc1. rewrite app_nil_r in Hacc1.
  change (acc j_init) with (@nil N) in Hacc1. cbn [app] in Hacc1.
  destruct (extends_join_loop o post S1) as [l2r E2].
  exists (rev (j_out S1)), (rev l2r). split; [rewrite E2, rev_app_distr; reflexivity|]. split.
  - rewrite Hacc1. unfold chunks_text. rewrite !map_app, !concat_app, !nows_app. subst nl. cbn [map concat c_str].
    rewrite !app_nil_r, nows_app. f_equal. change (nows [NL]) with (@nil N). apply app_nil_r.
  - pose proof (acc_join_loop o post S1) as HaccF. unfold acc in HaccF. rewrite Hline1 in HaccF.
    assert (HlineF : j_line (join_loop o post S1) = []).
    { destruct post as [|p ps]; [exact Hline1 | apply line_join_loop; [congruence | assumption]]. }
    rewrite HlineF, E2, rev_app_distr, concat_app, nows_app in HaccF. cbn [nows filter] in HaccF.
    rewrite !app_nil_r in HaccF. apply app_inv_head in HaccF. exact HaccF.
Qed.

(* ---------------------------------------------------------------- C13: blank lines are squeezed *)
Definition is_nil (l : text) : bool := match l with [] => true | _ => false end.
(* no two adjacent empty lines *)
Fixpoint nab (ls : list text) : bool :=
  match ls with
  | a :: ((b :: _) as r) => negb (is_nil a && is_nil b) && nab r
  | _ => true
  end.
Definition hd_nonblank (ls : list text) : Prop := match ls with [] => True | x :: _ => x <> [] end.

Lemma trim_start_all_ws : forall l, all_ws l = true -> trim_start l = [].
Proof.
  induction l as [|c r IH]; cbn [all_ws forallb trim_start]; intros H; [reflexivity|].
  apply andb_prop in H as [Hc Hr]. rewrite Hc. apply IH. exact Hr.
Qed.

Lemma all_ws_rev : forall l, all_ws (rev l) = all_ws l.
Proof.
  unfold all_ws. induction l as [|c r IH]; [reflexivity|]. cbn [rev forallb].
  rewrite forallb_app, IH. cbn [forallb]. rewrite andb_true_r. apply andb_comm.
Qed.

Lemma trim_end_all_ws : forall l, all_ws l = true -> trim_end l = [].
Proof. intros l H. unfold trim_end. rewrite trim_start_all_ws; [reflexivity | rewrite all_ws_rev; exact H]. Qed.

Lemma trim_start_nonempty : forall l, all_ws l = false -> trim_start l <> [].
Proof.
  induction l as [|c r IH]; cbn [all_ws forallb trim_start]; intros H; [discriminate|].
  destruct (is_ws c); [apply IH; exact H | discriminate].
Qed.

Lemma trim_end_nonempty : forall l, all_ws l = false -> trim_end l <> [].
Proof.
  intros l H. unfold trim_end. intros E.
  assert (E' : trim_start (rev l) = []) by (apply (f_equal (@rev N)) in E; rewrite rev_involutive in E; exact E).
  revert E'. apply trim_start_nonempty. rewrite all_ws_rev. exact H.
Qed.

Lemma all_ws_app : forall a b, all_ws (a ++ b) = all_ws a && all_ws b.
Proof. intros; unfold all_ws; apply forallb_app. Qed.

Lemma all_ws_spaces : forall n, all_ws (spaces n) = true.
Proof. induction n; [reflexivity | exact IHn]. Qed.

Lemma all_ws_pad_nil : forall w, all_ws (pad_right [] w) = true.
Proof. intros; unfold pad_right; cbn [app List.length]. apply all_ws_spaces. Qed.

(* the invariant of blank-line squeezing: no two adjacent empty lines so far, and an empty newest line is remembered *)
Definition squeezed (st : jstate) : Prop := nab (j_out st) = true /\ (j_prev st = 0 -> hd_nonblank (j_out st)).

Lemma nab_cons_nonblank : forall x l, x <> [] -> nab l = true -> nab (x :: l) = true.
Proof. intros x l Hx Hl. destruct l as [|b r]; [reflexivity|]. cbn [nab]. destruct x; [congruence|]. cbn. exact Hl. Qed.

Lemma squeezed_flush : forall o st, squeezed st -> squeezed (flush_line o st).
Proof.
  intros o st [Hnab Hprev]. unfold flush_line, squeezed.
  destruct (all_ws (j_line st)) eqn:Ews.
  - destruct (negb (j_had st) && negb (j_had_label st) && (j_prev st =? 0)) eqn:Eadd; cbn [j_out j_prev].
    + apply andb_prop in Eadd as [_ Ep]. apply Nat.eqb_eq in Ep. specialize (Hprev Ep).
      rewrite trim_end_all_ws by (rewrite all_ws_app, all_ws_pad_nil, Ews; reflexivity).
      split; [|discriminate]. destruct (j_out st) as [|b r]; [reflexivity|]. cbn [nab]. cbn in Hprev.
      destruct b; [congruence|]. cbn. exact Hnab.
    + split; assumption.
  - assert (Hadd : forall line', all_ws line' = false -> forall ind,
             nab (trim_end (pad_right [] ind ++ line') :: j_out st) = true /\
             (0 = 0 -> hd_nonblank (trim_end (pad_right [] ind ++ line') :: j_out st))).
    { intros line' Hl ind.
      assert (Hx : trim_end (pad_right [] ind ++ line') <> []).
      { apply trim_end_nonempty. rewrite all_ws_app, Hl. apply andb_false_r. }
      split; [apply nab_cons_nonblank; assumption | intros _; exact Hx]. }
    destruct (o_label_margin o + o_code_margin o <? byte_len (j_line st)).
    + pose proof (split_floor_app (j_line st) (o_label_margin o + o_code_margin o)) as Hs.
      destruct (split_floor (j_line st) (o_label_margin o + o_code_margin o)) as [lc cm]. cbn [fst snd] in Hs.
      destruct (all_ws lc) eqn:Elc; cbn [j_out j_prev]; apply Hadd; [|exact Ews].
      rewrite all_ws_app, all_ws_pad_nil. cbn [andb].
      rewrite <- Hs, all_ws_app, Elc in Ews. exact Ews.
    + cbn [j_out j_prev]. apply Hadd. exact Ews.
Qed.

Lemma squeezed_join_piece : forall o ty e last st p, squeezed st -> squeezed (join_piece o ty e last st p).
Proof.
  intros o ty e last st p H. unfold join_piece.
  assert (Hw : forall l a b (c : bool), squeezed (if c then flush_line o (with_line st l a b) else with_line st l a b)).
  { intros l a b c. destruct c; [apply squeezed_flush|]; exact H. }
  destruct ty as [[|]|].
  - destruct (o_label_margin o <? byte_len (j_line st)); [apply Hw|]. destruct (o_label_alignment o); apply Hw.
  - destruct e; apply Hw.
  - destruct (text_eqb p [NL] && negb match j_line st with [] => true | _ :: _ => false end && (byte_len (j_line st) <=? o_label_margin o)).
    + destruct (negb true && contains_nl p || last); [apply squeezed_flush|]; exact H.
    + apply Hw.
Qed.

Lemma squeezed_join_loop : forall o cs st, squeezed st -> squeezed (join_loop o cs st).
Proof.
  induction cs as [|c r IH]; intros st H; cbn [join_loop]; [exact H|]. apply IH. unfold join_chunk.
  assert (H0 : squeezed (set_indent st (c_indent c))) by (unfold set_indent; destruct (j_indent st); exact H).
  revert H0. generalize (set_indent st (c_indent c)). induction (chunk_pieces c) as [|p ps IHp]; intros s Hs; cbn [fold_left];
    [exact Hs | apply IHp; apply squeezed_join_piece; exact Hs].
Qed.

Lemma nab_pair_false : forall x y, nab (x ++ [] :: [] :: y) = false.
Proof.
  induction x as [|a r IH]; intros y; cbn [app]; [reflexivity|].
  cbn [nab]. destruct (r ++ [] :: [] :: y) eqn:E; [destruct r; discriminate|].
  rewrite <- E, IH. apply andb_false_r.
Qed.

(* C13: join_chunks never emits two adjacent empty lines, whatever the chunk list and the options: a second run finds at
   most single empty lines and keeps each of them *)
Theorem blank_lines_squeezed : forall cs o a b, join_lines cs o <> a ++ [] :: [] :: b.
Proof.
  intros cs o a b E. unfold join_lines in E.
  assert (H : squeezed (join_loop o cs j_init)) by (apply squeezed_join_loop; split; [reflexivity | intros _; exact I]).
  destruct H as [Hnab _].
  assert (E' : j_out (join_loop o cs j_init) = rev b ++ [] :: [] :: rev a).
  { rewrite <- (rev_involutive (j_out _)), E, rev_app_distr. cbn [rev]. rewrite <- !app_assoc. reflexivity. }
  rewrite E', nab_pair_false in Hnab. discriminate.
Qed.

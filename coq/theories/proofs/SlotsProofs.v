(* analyse_unassembled over the slot allocator (model/SymSlots.v): whatever slots the new symbols get -- recycled ones
   below older indices included -- the table is afterwards what it was; the high-water-mark variant is not. *)
From Coq Require Import List NArith Arith Bool Lia.
Import ListNotations.
From Mos Require Import model.SymGraph model.SymSlots proofs.UnassembledProofs.

Definition wf (t : table) : Prop :=
  (forall e, In e (t_edges t) -> In (e_src e) (t_live t) /\ In (e_dst e) (t_live t)) /\
  (forall n, In n (t_free t) -> ~ In n (t_live t)) /\ NoDup (t_free t) /\
  (forall n, In n (t_live t) -> n < t_next t) /\ (forall n, In n (t_free t) -> n < t_next t).

(* allocator state without the edges *)
Definition alloc_ok (live free : list node) (next : node) : Prop :=
  (forall n, In n free -> ~ In n live) /\ NoDup free /\ (forall n, In n live -> n < next) /\ (forall n, In n free -> n < next).

Lemma add_node_spec : forall t nx t',
  alloc_ok (t_live t) (t_free t) (t_next t) -> add_node t = (nx, t') ->
  ~ In nx (t_live t) /\ t_live t' = nx :: t_live t /\ t_edges t' = t_edges t /\
  alloc_ok (t_live t') (t_free t') (t_next t').
Proof.
  intros t nx t' (A & B & C & D) H. unfold add_node in H. destruct (t_free t) as [|f fs] eqn:F.
  - inversion H; subst; clear H. cbn. split; [|split; [reflexivity|split; [reflexivity|]]].
    + intro I. apply C in I. lia.
    + split; [intros n []|]. split; [constructor|]. split.
      * intros n [<-|I]; [lia|]. apply C in I. lia.
      * intros n [].
  - inversion H; subst; clear H. cbn. inversion B; subst. split; [|split; [reflexivity|split; [reflexivity|]]].
    + apply A. left. reflexivity.
    + split; [|split; [assumption|split]].
      * intros n I [<-|I2]; [contradiction|]. apply (A n); [right|]; assumption.
      * intros n [<-|I]; [apply D; left; reflexivity|apply C; assumption].
      * intros n I. apply D. right. assumption.
Qed.

Lemma run_region_spec : forall r t created t1 created1 live0 g0 extra,
  alloc_ok (t_live t) (t_free t) (t_next t) ->
  t_live t = created ++ live0 -> t_edges t = extra ++ g0 ->
  (forall e, In e extra -> In (e_dst e) created) ->
  (forall n, In n created -> ~ In n live0) -> NoDup created ->
  run_region t created r = (t1, created1) ->
  exists extra1, t_live t1 = created1 ++ live0 /\ t_edges t1 = extra1 ++ g0 /\
                 (forall e, In e extra1 -> In (e_dst e) created1) /\
                 (forall n, In n created1 -> ~ In n live0) /\ NoDup created1.
Proof.
  induction r as [|[p id] r IH]; intros t created t1 created1 live0 g0 extra OK L E X D ND H; cbn in H.
  - inversion H; subst. exists extra. auto.
  - unfold insert_symbol in H. destruct (add_node t) as [nx t'] eqn:A.
    destruct (add_node_spec _ _ _ OK A) as (Nin & L' & E' & OK').
    eapply IH in H; [exact H| | | | | |]; cbn.
    + exact OK'.
    + rewrite L', L. reflexivity.
    + unfold insert. rewrite E', E. instantiate (1 := mkEdge _ id nx :: extra). reflexivity.
    + intros e [<-|I]; [left; reflexivity|right; apply X; assumption].
    + intros n [<-|I]; [|apply D; assumption]. intro I0. apply Nin. rewrite L. apply in_or_app. right. assumption.
    + constructor; [|assumption]. intro I. apply Nin. rewrite L. apply in_or_app. left. assumption.
Qed.

Lemma fold_remove_symbol_edges : forall l t, t_edges (fold_left remove_symbol l t) = fold_left remove l (t_edges t).
Proof. induction l as [|n l IH]; intro t; cbn; [reflexivity|]. rewrite IH. reflexivity. Qed.

Lemma fold_remove_symbol_live : forall l t,
  t_live (fold_left remove_symbol l t) = filter (fun n => negb (existsb (Nat.eqb n) l)) (t_live t).
Proof.
  induction l as [|x l IH]; intro t; cbn.
  - induction (t_live t) as [|a L IHL]; [reflexivity|]. cbn. f_equal. exact IHL.
  - rewrite IH. cbn. induction (t_live t) as [|a L IHL]; cbn; [reflexivity|].
    destruct (Nat.eqb a x) eqn:E; cbn; [assumption|]. destruct (existsb (Nat.eqb a) l); cbn; [assumption|]. f_equal. assumption.
Qed.

Lemma filter_new : forall created live0,
  (forall n, In n created -> ~ In n live0) ->
  filter (fun n => negb (existsb (Nat.eqb n) live0)) (created ++ live0) = created.
Proof.
  intros created live0 D. rewrite filter_app.
  assert (A : filter (fun n => negb (existsb (Nat.eqb n) live0)) created = created).
  { induction created as [|c cs IH]; [reflexivity|]. cbn.
    assert (X : existsb (Nat.eqb c) live0 = false).
    { destruct (existsb (Nat.eqb c) live0) eqn:Ex; [|reflexivity]. apply existsb_exists in Ex as [y [I Eq]].
      apply Nat.eqb_eq in Eq. subst. exfalso. apply (D y); [left; reflexivity|assumption]. }
    rewrite X. cbn. f_equal. apply IH. intros n I. apply D. right. assumption. }
  assert (B : filter (fun n => negb (existsb (Nat.eqb n) live0)) live0 = []).
  { assert (G : forall l, (forall n, In n l -> In n live0) -> filter (fun n => negb (existsb (Nat.eqb n) live0)) l = []).
    { induction l as [|a l IH]; intro Hs; [reflexivity|]. cbn.
      assert (X : existsb (Nat.eqb a) live0 = true) by (apply existsb_exists; exists a; split; [apply Hs; left; reflexivity|apply Nat.eqb_refl]).
      rewrite X. cbn. apply IH. intros n I. apply Hs. right. assumption. }
    apply G. auto. }
  rewrite A, B. apply app_nil_r.
Qed.

Lemma filter_old : forall created live0,
  (forall n, In n created -> ~ In n live0) ->
  filter (fun n => negb (existsb (Nat.eqb n) created)) (created ++ live0) = live0.
Proof.
  intros created live0 D. rewrite filter_app.
  assert (A : forall l, (forall n, In n l -> In n created) -> filter (fun n => negb (existsb (Nat.eqb n) created)) l = []).
  { induction l as [|a l IH]; intro Hs; [reflexivity|]. cbn.
    assert (X : existsb (Nat.eqb a) created = true) by (apply existsb_exists; exists a; split; [apply Hs; left; reflexivity|apply Nat.eqb_refl]).
    rewrite X. cbn. apply IH. intros n I. apply Hs. right. assumption. }
  rewrite (A created) by auto. cbn.
  induction live0 as [|a l IH]; [reflexivity|]. cbn.
  assert (X : existsb (Nat.eqb a) created = false).
  { destruct (existsb (Nat.eqb a) created) eqn:Ex; [|reflexivity]. apply existsb_exists in Ex as [y [I Eq]].
    apply Nat.eqb_eq in Eq. subst. exfalso. apply (D y I). left. reflexivity. }
  rewrite X. cbn. f_equal. apply IH. intros n I J. apply (D n I). right. assumption.
Qed.

Theorem analyse_unassembled_leaves_no_trace : forall t r,
  wf t ->
  t_edges (analyse_unassembled t r) = t_edges t /\ t_live (analyse_unassembled t r) = t_live t.
Proof.
  intros t r (WE & A & B & C & D). unfold analyse_unassembled.
  destruct (run_region t [] r) as [t1 created1] eqn:R. cbv zeta.
  assert (S : exists extra1, t_live t1 = created1 ++ t_live t /\ t_edges t1 = extra1 ++ t_edges t /\
                 (forall e, In e extra1 -> In (e_dst e) created1) /\
                 (forall n, In n created1 -> ~ In n (t_live t)) /\ NoDup created1).
  { apply (run_region_spec r t [] t1 created1 (t_live t) (t_edges t) []).
    - repeat split; assumption.
    - reflexivity.
    - reflexivity.
    - intros e [].
    - intros n [].
    - constructor.
    - exact R. }
  destruct S as (extra1 & L1 & E1 & X1 & D1 & ND1).
  rewrite L1. replace (filter (fun n : nat => negb (existsb (Nat.eqb n) (t_live t))) (created1 ++ t_live t)) with created1
    by (symmetry; apply filter_new; assumption). split.
  - rewrite fold_remove_symbol_edges, E1. apply unassembled_region_leaves_no_trace.
    + intros e I. unfold touches. apply orb_true_iff. right. apply existsb_exists. exists (e_dst e). split; [apply X1; assumption|apply Nat.eqb_refl].
    + intros e I. destruct (WE e I) as [S1 S2]. unfold touches. apply orb_false_iff. split.
      * destruct (existsb (Nat.eqb (e_src e)) created1) eqn:Ex; [|reflexivity]. apply existsb_exists in Ex as [y [Iy Eq]].
        apply Nat.eqb_eq in Eq. subst. exfalso. apply (D1 _ Iy). assumption.
      * destruct (existsb (Nat.eqb (e_dst e)) created1) eqn:Ex; [|reflexivity]. apply existsb_exists in Ex as [y [Iy Eq]].
        apply Nat.eqb_eq in Eq. subst. exfalso. apply (D1 _ Iy). assumption.
  - rewrite fold_remove_symbol_live, L1. apply filter_old. assumption.
Qed.

(* The high-water-mark variant.  Slot 2 is vacant below the occupied slot 3 (something was removed earlier); the
   unassembled code defines `foo` and `tmp` below node 1: `foo` gets the recycled slot 2, `tmp` slot 4.  The mark is 4,
   so only `tmp` is removed: `foo` stays in the table and from then on captures the lookup of foo from scope 1. *)
Definition hw_foo : ident := [102; 111; 111]%N.
Definition hw_tmp : ident := [116; 109; 112]%N.
Definition hw_scope : ident := [36; 115]%N.
Definition hw_table : table :=
  mkTable [mkEdge 0 hw_foo 3; mkEdge 0 hw_scope 1] [3; 1; 0] [2] 4.
Definition hw_region : region := [(POld 1, hw_foo); (POld 1, hw_tmp)].

Lemma high_water_mark_refuted :
  wf hw_table /\
  t_edges (analyse_unassembled hw_table hw_region) = t_edges hw_table /\
  t_edges (analyse_unassembled_high_water hw_table hw_region) = mkEdge 1 hw_foo 2 :: t_edges hw_table /\
  query 5 (t_edges hw_table) 1 [hw_foo] = Some (Some 3) /\
  query 5 (t_edges (analyse_unassembled_high_water hw_table hw_region)) 1 [hw_foo] = Some (Some 2).
Proof.
  split.
  - unfold wf, hw_table. cbn. repeat split.
    + destruct H as [<-|[<-|[]]]; cbn; auto.
    + destruct H as [<-|[<-|[]]]; cbn; auto.
    + intros n [<-|[]] [H|[H|[H|[]]]]; discriminate.
    + constructor; [intros []|constructor].
    + intros n [<-|[<-|[<-|[]]]]; lia.
    + intros n [<-|[]]. lia.
  - vm_compute. repeat split; reflexivity.
Qed.

(* C13: line assembly is a fixed point of re-chunking -- the general proof (all chunk lists, all options).
   rechunk_loop2 runs the model's own join_piece and records, for every emitted line, the chunks that went into it together
   with the is_eol flag each was processed with.  Invariant (Inv): replaying the recorded lines (each followed by a newline
   chunk) and the current partial line from the initial state gives exactly the state of the first run; the recorded
   flags are the ones the second run's lookahead computes (wf_group). *)
From Coq Require Import List NArith Bool Arith Lia.
Import ListNotations.
From Mos Require Import model.Utf model.Format Gen.FmtRules spec.FormatSpec proofs.FormatProofs.
Open Scope nat_scope.

(* ================================================================ stable chunks have one piece *)
Lemma split_inclusive_nl_last : forall l, l <> [] -> nl_only_last l = true -> split_inclusive l = [l].
Proof.
  induction l as [|c r IH]; intros Hne H; [congruence|].
  destruct r as [|d r'].
  - rewrite split_inclusive_cons. destruct (c =? NL)%N; reflexivity.
  - cbn [nl_only_last] in H. apply andb_prop in H as [Hc Hr]. apply negb_true_iff in Hc.
    rewrite split_inclusive_cons, Hc. rewrite IH; [reflexivity | congruence | exact Hr].
Qed.

Lemma stable_single_split : forall c, stable_chunk c = true -> split_inclusive (c_str c) = [c_str c].
Proof.
  intros c H. unfold stable_chunk in H. apply andb_prop in H as [Hne H].
  assert (Hn : c_str c <> []) by (destruct (c_str c); [discriminate | congruence]).
  destruct (c_ty c); [apply split_inclusive_no_nl; [exact Hn | apply negb_true_iff; exact H]
                     | apply split_inclusive_nl_last; assumption].
Qed.

(* ================================================================ replay of the recorded lines *)
Definition jchunk (o : options) (c : chunk) (e l : bool) (st : jstate) : jstate :=
  join_piece o (c_ty c) e l (set_indent st (c_indent c)) (c_str c).

Lemma stable_single_piece : forall c, stable_chunk c = true -> chunk_pieces c = [c_str c].
Proof. intros c H. apply chunk_pieces_single. apply stable_single_split. exact H. Qed.

Lemma join_chunk_stable : forall o c e l st, stable_chunk c = true -> join_chunk o c e l st = jchunk o c e l st.
Proof. intros. unfold join_chunk, jchunk. rewrite stable_single_piece by assumption. reflexivity. Qed.

Definition run_cur (o : options) (g : list fchunk) (st : jstate) : jstate :=
  fold_left (fun s (x : fchunk) => join_chunk o (fst x) (snd x) false s) g st.
Definition run_groups (o : options) (gs : list (list fchunk)) (st : jstate) : jstate :=
  fold_left (fun s g => join_chunk o nlc true false (run_cur o g s)) gs st.
Definition replay (o : options) (r : rstate2) : jstate := run_cur o (q_cur r) (run_groups o (q_groups r) j_init).

Lemma run_cur_app : forall o a b st, run_cur o (a ++ b) st = run_cur o b (run_cur o a st).
Proof. intros; unfold run_cur; apply fold_left_app. Qed.
Lemma run_groups_app : forall o a b st, run_groups o (a ++ b) st = run_groups o b (run_groups o a st).
Proof. intros; unfold run_groups; apply fold_left_app. Qed.

(* ---------------------------------------------------------------- small facts about the state machine *)
Definition clean (st : jstate) : Prop :=
  j_line st = [] /\ j_indent st = None /\ j_has_label st = false /\ j_has_code st = false.
Definition tail_eq (a b : jstate) : Prop :=
  j_had a = j_had b /\ j_prev a = j_prev b /\ j_had_label a = j_had_label b /\ j_out a = j_out b.

Lemma tail_eq_refl : forall a, tail_eq a a. Proof. intros; repeat split. Qed.
Lemma tail_eq_trans : forall a b c, tail_eq a b -> tail_eq b c -> tail_eq a c.
Proof. intros a b c (A1&A2&A3&A4) (B1&B2&B3&B4). repeat split; congruence. Qed.
Lemma tail_eq_sym : forall a b, tail_eq a b -> tail_eq b a.
Proof. intros a b (A1&A2&A3&A4). repeat split; congruence. Qed.

Lemma clean_tail_eq : forall a b, clean a -> clean b -> tail_eq a b -> a = b.
Proof.
  intros [l1 i1 h1 p1 o1 a1 b1 c1] [l2 i2 h2 p2 o2 a2 b2 c2] (A1&A2&A3&A4) (B1&B2&B3&B4) (C1&C2&C3&C4).
  cbn in *. subst. reflexivity.
Qed.

Lemma tail_set_indent : forall st i, tail_eq st (set_indent st i).
Proof. intros; unfold set_indent; destruct (j_indent st); repeat split. Qed.
Lemma line_set_indent : forall st i, j_line (set_indent st i) = j_line st.
Proof. intros; unfold set_indent; destruct (j_indent st); reflexivity. Qed.
Lemma indent_set_indent : forall st i, j_indent (set_indent st i) <> None.
Proof. intros; unfold set_indent; destruct (j_indent st) eqn:E; cbn; congruence. Qed.
Lemma set_indent_some : forall st i, j_indent st <> None -> set_indent st i = st.
Proof. intros st i H; unfold set_indent; destruct (j_indent st); [reflexivity | congruence]. Qed.

Lemma clean_flush : forall o st, clean (flush_line o st).
Proof. intros; unfold flush_line. repeat match goal with |- context [let '(_, _) := ?x in _] => destruct x end. repeat split. Qed.

(* what a flush does to the finished lines *)
Lemma flush_cases : forall o st,
  (exists l, j_out (flush_line o st) = l :: j_out st) \/
  (tail_eq (flush_line o st) st /\ all_ws (j_line st) = true).
Proof.
  intros o st. unfold flush_line.
  destruct (all_ws (j_line st)) eqn:Ews.
  - destruct (negb (j_had st) && negb (j_had_label st) && (j_prev st =? 0)).
    + left. eexists. reflexivity.
    + right. split; [repeat split | reflexivity].
  - left. destruct (o_label_margin o + o_code_margin o <? byte_len (j_line st)).
    + destruct (split_floor (j_line st) (o_label_margin o + o_code_margin o)) as [lc cm].
      destruct (all_ws lc); eexists; reflexivity.
    + eexists; reflexivity.
Qed.

(* join_piece ignores the is_eol flag unless the chunk is a comment *)
Lemma join_piece_flag : forall o ty e e' l st p, ty <> Some Comment -> join_piece o ty e l st p = join_piece o ty e' l st p.
Proof. intros o ty e e' l st p H. unfold join_piece. destruct ty as [[|]|]; [reflexivity | congruence | reflexivity]. Qed.

Lemma text_eqb_nl_contains : forall p, text_eqb p [NL] = true -> contains_nl p = true.
Proof.
  intros p H. destruct p as [|c [|d r]]; cbn in H; try discriminate.
  - apply andb_prop in H as [H _]. cbn. rewrite H. reflexivity.
  - rewrite andb_false_r in H. discriminate.
Qed.

(* a piece without line break, not the last one: it is appended to the pending line, nothing else changes *)
Lemma jp_noflush : forall o ty e st p, contains_nl p = false ->
  exists line' hl hc, join_piece o ty e false st p = with_line st line' hl hc /\ (p <> [] -> line' <> []).
Proof.
  intros o ty e st p Hnl. unfold join_piece.
  assert (Hne : forall (a b : text), b <> [] -> a ++ b <> []) by (intros a b Hb E; apply app_eq_nil in E as [_ E]; congruence).
  destruct ty as [[|]|].
  - destruct (o_label_margin o <? byte_len (j_line st)).
    + rewrite Hnl. cbn [negb andb orb]. do 3 eexists. split; [reflexivity|]. intros _. apply Hne. apply Hne. congruence.
    + destruct (o_label_alignment o); rewrite Hnl; cbn [negb andb orb]; do 3 eexists; (split; [reflexivity|]); intros _; apply Hne.
      * unfold pad_right. intros E. apply app_eq_nil in E as [E _]. apply app_eq_nil in E as [_ E]. congruence.
      * unfold pad_left. intros E. apply app_eq_nil in E as [_ E]. apply app_eq_nil in E as [_ E]. congruence.
  - destruct e; rewrite Hnl; cbn [negb andb orb]; do 3 eexists; (split; [reflexivity|]); intros Hp; apply Hne.
    + exact Hp.
    + apply Hne. congruence.
  - assert (Hig : text_eqb p [NL] = false).
    { destruct (text_eqb p [NL]) eqn:E; [|reflexivity]. apply text_eqb_nl_contains in E. congruence. }
    rewrite Hig. cbn [andb]. rewrite Hnl. cbn [negb andb orb]. do 3 eexists. split; [reflexivity|]. intros Hp. apply Hne. exact Hp.
Qed.

Lemma tail_with_line : forall st l a b, tail_eq st (with_line st l a b).
Proof. intros; repeat split. Qed.

Lemma pad_right_noop : forall l w, w <= List.length l -> pad_right l w = l.
Proof. intros l w H. unfold pad_right. replace (w - List.length l) with 0 by lia. cbn. apply app_nil_r. Qed.

Lemma all_ws_nl : all_ws [NL] = true. Proof. reflexivity. Qed.

(* L1: a plain piece `q ++ "\n"` = the piece q followed by a newline piece *)
Lemma jp_split_nl : forall o e e' e'' l st q, q <> [] -> contains_nl q = false ->
  join_piece o None e l st (q ++ [NL]) = join_piece o None e' l (join_piece o None e'' false st q) [NL].
Proof.
  intros o e e' e'' l st q Hq Hnl.
  assert (Hig1 : text_eqb (q ++ [NL]) [NL] = false).
  { destruct q as [|c [|d r]]; [congruence| |]; cbn.
    - destruct (c =? NL)%N eqn:E; [|reflexivity]. cbn in Hnl. rewrite E in Hnl. discriminate.
    - rewrite andb_false_r. reflexivity. }
  assert (Hig2 : text_eqb q [NL] = false).
  { destruct (text_eqb q [NL]) eqn:E; [|reflexivity]. apply text_eqb_nl_contains in E. congruence. }
  unfold join_piece at 1. rewrite Hig1. cbn [andb].
  assert (Hc1 : contains_nl (q ++ [NL]) = true).
  { unfold contains_nl. rewrite existsb_app. cbn. rewrite orb_true_r. reflexivity. }
  rewrite Hc1. cbn [negb andb orb].
  unfold join_piece at 2. rewrite Hig2. cbn [andb]. rewrite Hnl. cbn [negb andb orb].
  set (la := pad_right (j_line st) (o_label_margin o) ++ q).
  assert (Hlen : o_label_margin o < List.length la).
  { subst la. rewrite app_length. pose proof (pad_right_length (j_line st) (o_label_margin o)).
    destruct q; [congruence|]. cbn [List.length]. lia. }
  unfold join_piece. cbn [with_line j_line j_has_label j_has_code].
  assert (Hnotig : text_eqb [NL] [NL] && negb match la with [] => true | _ :: _ => false end && (byte_len la <=? o_label_margin o) = false).
  { apply andb_false_intro2. apply Nat.leb_gt. pose proof (byte_len_ge_length la). lia. }
  rewrite Hnotig. cbn [contains_nl existsb negb andb orb]. replace ((NL =? NL)%N) with true by reflexivity. cbn [orb].
  rewrite (pad_right_noop la) by lia. subst la.
  unfold with_line. cbn [j_indent j_had j_prev j_out j_had_label j_has_label j_has_code].
  rewrite <- app_assoc, all_ws_app, all_ws_nl, andb_true_r, orb_false_r. reflexivity.
Qed.

(* a newline piece on an empty pending line *)
Lemma jp_nl_on_empty : forall o e l st, j_line st = [] ->
  join_piece o None e l st [NL] =
  flush_line o (with_line st (pad_right [] (o_label_margin o) ++ [NL]) (j_has_label st) (j_has_code st)).
Proof.
  intros o e l st Hl. unfold join_piece. rewrite Hl.
  replace (text_eqb [NL] [NL]) with true by reflexivity. cbn [negb andb].
  replace (contains_nl [NL]) with true by reflexivity. cbn [negb andb orb].
  replace (all_ws [NL]) with true by reflexivity. cbn [negb]. rewrite orb_false_r. reflexivity.
Qed.

(* flushing an all-whitespace line does not look at the indent *)
Lemma flush_blank_indent : forall o l i i' h p out a b c, all_ws l = true ->
  flush_line o (mkJ l i h p out a b c) = flush_line o (mkJ l i' h p out a b c).
Proof.
  intros. unfold flush_line. cbn [j_line j_had j_prev j_out j_had_label j_has_label j_has_code j_indent]. rewrite H.
  destruct (negb h && negb c && (p =? 0)); [|reflexivity].
  rewrite !trim_end_all_ws; [reflexivity | |]; unfold pad_right; cbn [app List.length]; rewrite ?all_ws_app, ?all_ws_spaces, ?H; reflexivity.
Qed.

(* ... so on an empty pending line the indent of the newline chunk does not matter *)
Lemma jp_nl_empty_line : forall o e e' l st i i', j_line st = [] ->
  join_piece o None e l (set_indent st i) [NL] = join_piece o None e' l (set_indent st i') [NL].
Proof.
  intros o e e' l st i i' Hl.
  rewrite !jp_nl_on_empty by (rewrite line_set_indent; exact Hl).
  unfold set_indent. destruct (j_indent st) eqn:E; [reflexivity|].
  destruct st as [l0 i0 h p out a b c]. cbn [j_line j_indent] in *. subst. unfold with_line.
  cbn [j_line j_indent j_had j_prev j_out j_has_label j_has_code j_had_label].
  apply flush_blank_indent. rewrite all_ws_app, all_ws_pad_nil. reflexivity.
Qed.

(* ================================================================ the invariant of rechunk_loop2 *)
Definition nlfree_stable (x : fchunk) : Prop := stable_chunk (fst x) = true /\ contains_nl (c_str (fst x)) = false.

(* the recorded is_eol flags: inside a line a comment is never followed by a newline chunk; at its end it always is *)
Definition is_comment (x : fchunk) : Prop := c_ty (fst x) = Some Comment.
Fixpoint wf_open (g : list fchunk) : Prop :=
  match g with
  | [] => True
  | x :: rest => match rest with [] => True | _ => (is_comment x -> snd x = false) end /\ wf_open rest
  end.
Definition last_opt (g : list fchunk) : option fchunk := match rev g with [] => None | x :: _ => Some x end.
Definition wf_group (g : list fchunk) : Prop :=
  wf_open g /\ (forall x, last_opt g = Some x -> is_comment x -> snd x = true) /\ Forall nlfree_stable g.

Record Inv (o : options) (r : rstate2) : Prop := mkInv {
  inv_replay : replay o r = q_st r;
  inv_clean : clean (run_groups o (q_groups r) j_init);
  inv_tail : tail_eq (run_groups o (q_groups r) j_init) (q_st r);
  inv_indent : j_line (q_st r) <> [] -> j_indent (q_st r) <> None;
  inv_cur : Forall nlfree_stable (q_cur r);
  inv_open : wf_open (q_cur r);
  inv_groups : Forall wf_group (q_groups r);
  inv_wide : forall x, last_opt (q_cur r) = Some x -> is_comment x -> o_label_margin o < byte_len (j_line (q_st r))
}.

Definition rstep (o : options) (c : chunk) (e l : bool) (r : rstate2) : rstate2 :=
  rechunk_piece2 o c e l (mkR2 (set_indent (q_st r) (c_indent c)) (q_cur r) (q_groups r)) (c_str c).

Lemma rechunk_loop2_cons : forall o c rest r, stable_chunk c = true ->
  rechunk_loop2 o (c :: rest) r = rechunk_loop2 o rest (rstep o c (next_is_nl rest) (is_last rest) r).
Proof. intros. cbn [rechunk_loop2]. rewrite stable_single_piece by assumption. reflexivity. Qed.

Lemma strip_nl_id : forall p, contains_nl p = false -> strip_nl p = p.
Proof.
  induction p as [|c r IH]; intros H; [reflexivity|]. cbn [contains_nl existsb] in H. apply orb_false_elim in H as [Hc Hr].
  cbn [strip_nl filter]. rewrite Hc. cbn [negb]. f_equal. apply IH. exact Hr.
Qed.

(* a plain stable piece with a line break is `q ++ "\n"` with q free of line breaks *)
Lemma nl_last_decompose : forall p, nl_only_last p = true -> contains_nl p = true ->
  p = strip_nl p ++ [NL] /\ contains_nl (strip_nl p) = false.
Proof.
  induction p as [|c r IH]; intros H Hc; [discriminate|].
  destruct r as [|d r'].
  - cbn in Hc. rewrite orb_false_r in Hc. cbn [strip_nl filter]. rewrite Hc. cbn. apply N.eqb_eq in Hc. subst. split; reflexivity.
  - cbn [nl_only_last] in H. apply andb_prop in H as [H1 H2]. apply negb_true_iff in H1.
    cbn [contains_nl existsb] in Hc. rewrite H1 in Hc. cbn [orb] in Hc.
    destruct (IH H2 Hc) as [E1 E2]. cbn [strip_nl filter]. rewrite H1. cbn [negb].
    split; [cbn [app]; f_equal; exact E1 | cbn [contains_nl existsb]; rewrite H1; exact E2].
Qed.

Lemma chunk_eta : forall c, mkChunk (c_ty c) (c_indent c) (c_str c) = c.
Proof. destruct c; reflexivity. Qed.

Lemma stable_parts : forall c, stable_chunk c = true ->
  c_str c <> [] /\ (c_ty c <> None -> contains_nl (c_str c) = false) /\ (c_ty c = None -> nl_only_last (c_str c) = true).
Proof.
  intros c H. unfold stable_chunk in H. apply andb_prop in H as [Hne H].
  split; [destruct (c_str c); [discriminate | congruence]|].
  destruct (c_ty c) as [t|].
  - split; [intros _; apply negb_true_iff; exact H | intros E; discriminate].
  - split; [intros E; congruence | intros _; exact H].
Qed.

Lemma derived_stable : forall ty i q, q <> [] -> contains_nl q = false -> nlfree_stable (mkChunk ty i q, true) /\ forall e, nlfree_stable (mkChunk ty i q, e).
Proof.
  intros ty i q Hq Hnl.
  assert (H : stable_chunk (mkChunk ty i q) = true).
  { unfold stable_chunk. cbn [c_str c_ty]. destruct q; [congruence|]. cbn [negb andb].
    destruct ty; [rewrite Hnl; reflexivity|].
    clear Hq. revert Hnl. generalize (n :: q). induction l as [|c r IH]; intros Hnl; [reflexivity|].
    destruct r; [reflexivity|]. cbn [nl_only_last]. cbn [contains_nl existsb] in Hnl. apply orb_false_elim in Hnl as [Hc Hr].
    rewrite Hc. cbn [negb andb]. apply IH. exact Hr. }
  split; [|intros e]; split; assumption.
Qed.

Lemma q_st_rstep : forall o c e l r, q_st (rstep o c e l r) = join_piece o (c_ty c) e l (set_indent (q_st r) (c_indent c)) (c_str c).
Proof. intros. unfold rstep, rechunk_piece2. cbn [q_st]. destruct (_ || l); reflexivity. Qed.

(* a plain piece with a line break that is not ignored: appended, then the line is flushed *)
Lemma jp_flush_form : forall o e l st p,
  (text_eqb p [NL] && negb (match j_line st with [] => true | _ => false end) && (byte_len (j_line st) <=? o_label_margin o)) = false ->
  contains_nl p = true ->
  join_piece o None e l st p =
  flush_line o (with_line st (pad_right (j_line st) (o_label_margin o) ++ p) (j_has_label st) (j_has_code st || negb (all_ws p))).
Proof. intros o e l st p Hig Hnl. unfold join_piece. rewrite Hig, Hnl. cbn [negb andb orb]. reflexivity. Qed.

Lemma nlc_stable : stable_chunk nlc = true. Proof. reflexivity. Qed.

Lemma join_chunk_nlc : forall o e l st, join_chunk o nlc e l st = join_piece o None e l (set_indent st 0) [NL].
Proof. intros. rewrite join_chunk_stable by apply nlc_stable. reflexivity. Qed.

Lemma last_opt_snoc : forall g y, last_opt (g ++ [y]) = Some y.
Proof. intros. unfold last_opt. rewrite rev_app_distr. reflexivity. Qed.

Lemma last_opt_cons : forall x y g, last_opt (x :: y :: g) = last_opt (y :: g).
Proof.
  intros. unfold last_opt. cbn [rev]. destruct (rev g ++ [y]) eqn:E; [destruct (rev g); discriminate|]. reflexivity.
Qed.

Lemma wf_open_snoc : forall g y, wf_open g ->
  (forall x, last_opt g = Some x -> is_comment x -> snd x = false) -> wf_open (g ++ [y]).
Proof.
  induction g as [|x rest IH]; intros y Hw Hl; [cbn; auto|].
  cbn [app wf_open]. destruct Hw as [Hx Hrest]. split.
  - destruct rest as [|z rest']; cbn [app].
    + intros Hc. apply Hl; [reflexivity | exact Hc].
    + exact Hx.
  - apply IH; [exact Hrest|]. intros x0 Hx0. destruct rest as [|z rest']; [discriminate|].
    apply Hl. rewrite last_opt_cons. exact Hx0.
Qed.

(* after a comment piece the pending line reaches beyond the label margin *)
Lemma jp_comment_wide : forall o e st p, contains_nl p = false -> p <> [] ->
  o_label_margin o < byte_len (j_line (join_piece o (Some Comment) e false st p)).
Proof.
  intros o e st p Hnl Hp. unfold join_piece. rewrite Hnl.
  pose proof (byte_len_ge_length p). destruct p as [|p0 p']; [congruence|]. cbn [List.length] in H.
  destruct e; cbn [negb andb orb with_line j_line]; rewrite !byte_len_app.
  - pose proof (byte_len_ge_length (pad_right (j_line st) (o_label_margin o + o_code_margin o))).
    pose proof (pad_right_length (j_line st) (o_label_margin o + o_code_margin o)). lia.
  - pose proof (byte_len_ge_length (pad_right (j_line st) (o_label_margin o))).
    pose proof (pad_right_length (j_line st) (o_label_margin o)). lia.
Qed.

Lemma text_eqb_snoc_nl : forall q, q <> [] -> contains_nl q = false -> text_eqb (q ++ [NL]) [NL] = false.
Proof.
  intros q Hq Hnl. destruct q as [|c [|d r]]; [congruence| |]; cbn.
  - destruct (c =? NL)%N eqn:E; [|reflexivity]. cbn in Hnl. rewrite E in Hnl. discriminate.
  - rewrite andb_false_r. reflexivity.
Qed.

Lemma text_eqb_nlfree : forall p, contains_nl p = false -> text_eqb p [NL] = false.
Proof. intros p H. destruct (text_eqb p [NL]) eqn:E; [|reflexivity]. apply text_eqb_nl_contains in E. congruence. Qed.

Lemma inv_step : forall o c e r, Inv o r -> stable_chunk c = true ->
  (forall x, last_opt (q_cur r) = Some x -> is_comment x -> snd x = is_nl_chunk c) ->
  Inv o (rstep o c e false r) /\
  (forall x, last_opt (q_cur (rstep o c e false r)) = Some x -> is_comment x -> snd x = e).
Proof.
  intros o c e r [Hrep Hclean Htail Hind Hcur Hopen Hgroups Hwide] Hst Hpend.
  destruct (stable_parts c Hst) as (Hne & Htyped & Hplain).
  remember (q_st r) as st eqn:Est.
  remember (set_indent st (c_indent c)) as st0 eqn:Est0.
  destruct c as [ty ind p]. cbn [c_ty c_indent c_str] in *.
  unfold is_nl_chunk in Hpend. cbn [c_str] in Hpend.
  assert (Htail0 : tail_eq (run_groups o (q_groups r) j_init) st0).
  { eapply tail_eq_trans; [exact Htail|]. subst st0. apply tail_set_indent. }
  unfold rstep, rechunk_piece2. cbn [q_st q_cur q_groups c_ty c_indent c_str]. rewrite <- Est, <- Est0.
  destruct (is_ignored o (mkChunk ty ind p) st0 p) eqn:Eig.
  - (* A: an ignored newline *)
    unfold is_ignored in Eig. cbn [c_ty] in Eig. destruct ty as [t|]; [discriminate|].
    assert (Hjp : join_piece o None e false st0 p = st0).
    { unfold join_piece. rewrite Eig. cbn [negb andb orb]. reflexivity. }
    rewrite Hjp. cbn [negb andb orb].
    assert (Hline : j_line st <> []).
    { apply andb_prop in Eig as [Eig' _]. apply andb_prop in Eig' as [_ Eig']. apply negb_true_iff in Eig'.
      subst st0. rewrite line_set_indent in Eig'. destruct (j_line st); [discriminate | congruence]. }
    assert (Hst0 : st0 = st) by (subst st0; apply set_indent_some; apply Hind; exact Hline).
    assert (Hshort : byte_len (j_line st) <= o_label_margin o).
    { apply andb_prop in Eig as [_ Eig']. apply Nat.leb_le in Eig'. rewrite Hst0 in Eig'. exact Eig'. }
    rewrite Hst0. split.
    + constructor; cbn [q_st q_cur q_groups]; assumption.
    + cbn [q_cur]. intros x Hx Hc. specialize (Hwide x Hx Hc). lia.
  - destruct (contains_nl p) eqn:Enl.
    + (* B2: a line break that is not ignored *)
      assert (Ety : ty = None).
      { destruct ty as [t|]; [|reflexivity]. exfalso. specialize (Htyped ltac:(discriminate)). congruence. }
      subst ty.
      destruct (nl_last_decompose p (Hplain eq_refl) Enl) as [Edec Hq].
      remember (strip_nl p) as q eqn:Eq.
      unfold is_ignored in Eig. cbn [c_ty] in Eig.
      pose proof (jp_flush_form o e false st0 p Eig Enl) as Hform.
      remember (join_piece o None e false st0 p) as st' eqn:Est'.
      cbn [negb andb orb].
      set (curf := match q with [] => q_cur r | n :: l => q_cur r ++ [({| c_ty := None; c_indent := ind; c_str := n :: l |}, e)] end).
      set (X := with_line st0 (pad_right (j_line st0) (o_label_margin o) ++ p) (j_has_label st0) (j_has_code st0 || negb (all_ws p))) in Hform.
      assert (HtailX : tail_eq st0 X) by apply tail_with_line.
      assert (Hcl' : clean st') by (rewrite Hform; apply clean_flush).
      (* the state after the recorded line followed by a newline chunk *)
      assert (Hline_replay : join_chunk o nlc true false (run_cur o curf (run_groups o (q_groups r) j_init)) = st').
      { rewrite join_chunk_nlc. subst curf. destruct q as [|q0 q'].
        - (* the chunk is the newline itself *)
          unfold replay in Hrep. rewrite Hrep. cbn [app] in Edec. rewrite Est', Edec.
          rewrite Est0. destruct (j_indent st) eqn:Ei.
          + rewrite !set_indent_some by congruence. apply join_piece_flag. congruence.
          + assert (Hl : j_line st = []).
            { destruct (j_line st) eqn:El; [reflexivity|]. exfalso. apply Hind; [congruence | reflexivity]. }
            apply jp_nl_empty_line. exact Hl.
        - (* text followed by a newline *)
          rewrite run_cur_app. unfold replay in Hrep. rewrite Hrep. cbn [run_cur fold_left fst snd].
          destruct (derived_stable None ind (q0 :: q') ltac:(congruence) Hq) as [_ Hds].
          rewrite join_chunk_stable by apply (Hds e). unfold jchunk. cbn [c_ty c_indent c_str]. rewrite <- Est0.
          destruct (jp_noflush o None e st0 (q0 :: q') Hq) as (l' & hl & hc & Hjq & _).
          rewrite set_indent_some by (rewrite Hjq; cbn [with_line j_indent]; subst st0; apply indent_set_indent).
          rewrite Est', Edec. symmetry. apply jp_split_nl; [congruence | exact Hq]. }
      assert (Hwf_curf : wf_group curf).
      { subst curf. destruct q as [|q0 q'].
        - cbn [app] in Edec. split; [exact Hopen|]. split; [|exact Hcur].
          intros x Hx Hc. rewrite (Hpend x Hx Hc), Edec. reflexivity.
        - split; [|split].
          + apply wf_open_snoc; [exact Hopen|]. intros x Hx Hc. rewrite (Hpend x Hx Hc), Edec.
            apply text_eqb_snoc_nl; [congruence | exact Hq].
          + intros x Hx Hc. rewrite last_opt_snoc in Hx. injection Hx as <-. unfold is_comment in Hc. cbn in Hc. discriminate.
          + apply Forall_app. split; [exact Hcur|]. constructor; [|constructor].
            apply (derived_stable None ind (q0 :: q') ltac:(congruence) Hq). }
      assert (Hkey : run_groups o (if List.length (j_out st0) <? List.length (j_out st') then q_groups r ++ [curf] else q_groups r) j_init = st' /\
                     Forall wf_group (if List.length (j_out st0) <? List.length (j_out st') then q_groups r ++ [curf] else q_groups r)).
      { destruct (flush_cases o X) as [[l Hout] | [Ht Hb]]; rewrite <- Hform in *.
        - assert (Hlt : (List.length (j_out st0) <? List.length (j_out st')) = true).
          { apply Nat.ltb_lt. rewrite Hout. destruct HtailX as (_&_&_&Ho). rewrite <- Ho. cbn [List.length]. lia. }
          rewrite Hlt, run_groups_app. cbn [run_groups fold_left]. split; [exact Hline_replay|].
          apply Forall_app. split; [exact Hgroups | constructor; [exact Hwf_curf | constructor]].
        - assert (Hlt : (List.length (j_out st0) <? List.length (j_out st')) = false).
          { apply Nat.ltb_ge. destruct Ht as (_&_&_&Ho). destruct HtailX as (_&_&_&Ho'). rewrite Ho, <- Ho'. lia. }
          rewrite Hlt. split; [|exact Hgroups]. apply clean_tail_eq; [exact Hclean | exact Hcl' |].
          eapply tail_eq_trans; [exact Htail0|]. eapply tail_eq_trans; [exact HtailX|]. apply tail_eq_sym. exact Ht. }
      destruct Hkey as [Hkey Hgw]. split.
      * constructor; cbn [q_st q_cur q_groups].
        -- unfold replay. cbn [q_cur q_groups run_cur fold_left]. exact Hkey.
        -- rewrite Hkey. exact Hcl'.
        -- rewrite Hkey. apply tail_eq_refl.
        -- intros H. destruct Hcl' as [Hl _]. congruence.
        -- constructor.
        -- exact I.
        -- exact Hgw.
        -- intros x Hx. discriminate.
      * cbn [q_cur]. intros x Hx. discriminate.
    + (* B1: a piece without line break *)
      cbn [negb andb orb].
      assert (Hstrip : strip_nl p = p) by (apply strip_nl_id; exact Enl).
      rewrite Hstrip.
      assert (Hm : match p with
                   | [] => q_cur r
                   | n :: l => q_cur r ++ [({| c_ty := ty; c_indent := ind; c_str := n :: l |}, e)]
                   end = q_cur r ++ [({| c_ty := ty; c_indent := ind; c_str := p |}, e)]) by (destruct p; [congruence | reflexivity]).
      rewrite Hm.
      destruct (jp_noflush o ty e st0 p Enl) as (l' & hl & hc & Hjp & Hl').
      assert (Hchunk : join_chunk o (mkChunk ty ind p) e false st = join_piece o ty e false st0 p).
      { rewrite join_chunk_stable by exact Hst. unfold jchunk. subst st0. reflexivity. }
      split.
      * constructor; cbn [q_st q_cur q_groups].
        -- unfold replay in *. cbn [q_cur q_groups]. rewrite run_cur_app, Hrep. cbn [run_cur fold_left fst snd]. exact Hchunk.
        -- exact Hclean.
        -- rewrite Hjp. eapply tail_eq_trans; [exact Htail0 | apply tail_with_line].
        -- intros _. rewrite Hjp. cbn [with_line j_indent]. subst st0. apply indent_set_indent.
        -- apply Forall_app. split; [exact Hcur|]. constructor; [|constructor]. split; cbn [fst c_str]; [exact Hst | exact Enl].
        -- apply wf_open_snoc; [exact Hopen|]. intros x Hx Hc. rewrite (Hpend x Hx Hc). apply text_eqb_nlfree. exact Enl.
        -- exact Hgroups.
        -- intros x Hx Hc. rewrite last_opt_snoc in Hx. injection Hx as <-. unfold is_comment in Hc. cbn [fst c_ty] in Hc. subst ty.
           apply jp_comment_wide; assumption.
      * cbn [q_cur]. intros x Hx _. rewrite last_opt_snoc in Hx. injection Hx as <-. reflexivity.
Qed.

(* ================================================================ all chunks but the last *)
Definition pending (r : rstate2) (next : chunk) : Prop :=
  forall x, last_opt (q_cur r) = Some x -> is_comment x -> snd x = is_nl_chunk next.

Fixpoint rl_ctx (o : options) (cs after : list chunk) (r : rstate2) : rstate2 :=
  match cs with
  | [] => r
  | c :: rest => rl_ctx o rest after (rstep o c (next_is_nl (rest ++ after)) (is_last (rest ++ after)) r)
  end.

Definition all_stable (cs : list chunk) : Prop := Forall (fun c => stable_chunk c = true) cs.

Lemma rl_split : forall o a b r, all_stable a -> rechunk_loop2 o (a ++ b) r = rechunk_loop2 o b (rl_ctx o a b r).
Proof.
  induction a as [|c rest IH]; intros b r Hs; [reflexivity|]. inversion Hs; subst.
  cbn [app]. rewrite rechunk_loop2_cons by assumption. cbn [rl_ctx]. apply IH. assumption.
Qed.

Lemma inv_init : forall o, Inv o (mkR2 j_init [] []).
Proof.
  intros o. constructor; cbn [q_st q_cur q_groups].
  - reflexivity.
  - repeat split.
  - repeat split.
  - intros H; exfalso; apply H; reflexivity.
  - constructor.
  - exact I.
  - constructor.
  - intros x Hx. discriminate.
Qed.

Lemma inv_ctx : forall o cs after r, after <> [] -> all_stable cs -> Inv o r ->
  (forall n, hd_error (cs ++ after) = Some n -> pending r n) ->
  Inv o (rl_ctx o cs after r) /\ (forall n, hd_error after = Some n -> pending (rl_ctx o cs after r) n).
Proof.
  induction cs as [|c rest IH]; intros after r Hafter Hs Hinv Hp.
  - cbn [rl_ctx app] in *. split; assumption.
  - inversion Hs; subst. cbn [rl_ctx].
    assert (Hl : is_last (rest ++ after) = false) by (destruct rest; [destruct after; [congruence | reflexivity] | reflexivity]).
    rewrite Hl.
    destruct (inv_step o c (next_is_nl (rest ++ after)) r Hinv H1 (Hp c eq_refl)) as [Hinv' Hp'].
    apply IH; [exact Hafter | assumption | exact Hinv' |].
    intros n Hn x Hx Hc. rewrite (Hp' x Hx Hc).
    destruct (rest ++ after) as [|m ms]; [discriminate|]. cbn in Hn. injection Hn as <-. reflexivity.
Qed.

(* ================================================================ the second run on the recorded lines *)
Lemma join_chunk_flag : forall o c e e' l st, stable_chunk c = true -> c_ty c <> Some Comment ->
  join_chunk o c e l st = join_chunk o c e' l st.
Proof. intros. rewrite !join_chunk_stable by assumption. unfold jchunk. apply join_piece_flag. assumption. Qed.

Lemma nlfree_not_nl_chunk : forall x, nlfree_stable x -> is_nl_chunk (fst x) = false.
Proof. intros x [_ H]. unfold is_nl_chunk. apply text_eqb_nlfree. exact H. Qed.

(* the chunks of one recorded line, in front of its newline chunk: the lookahead reproduces the recorded flags *)
Lemma run_cur_ctx : forall o g after st, wf_group g ->
  join_loop_ctx o (map fst g) (nlc :: after) st = run_cur o g st.
Proof.
  induction g as [|x rest IH]; intros after st (Hopen & Hlast & Hnl); [reflexivity|].
  inversion Hnl as [|? ? Hx Hrest]; subst.
  cbn [map join_loop_ctx run_cur fold_left].
  assert (Hl : is_last (map fst rest ++ nlc :: after) = false) by (destruct rest; reflexivity).
  rewrite Hl.
  assert (Hflag : join_chunk o (fst x) (next_is_nl (map fst rest ++ nlc :: after)) false st = join_chunk o (fst x) (snd x) false st).
  { destruct (c_ty (fst x)) as [[|]|] eqn:Ety.
    - apply join_chunk_flag; [apply Hx | congruence].
    - f_equal. destruct rest as [|y rest'].
      + cbn [map app next_is_nl]. symmetry. apply Hlast; [reflexivity | exact Ety].
      + cbn [map app next_is_nl]. inversion Hrest; subst. rewrite nlfree_not_nl_chunk by assumption.
        symmetry. destruct Hopen as [Ho _]. apply Ho. exact Ety.
    - apply join_chunk_flag; [apply Hx | congruence]. }
  rewrite Hflag. apply IH. split; [|split].
  - destruct Hopen as [_ Ho]. exact Ho.
  - intros y Hy. destruct rest as [|z rest']; [discriminate|]. apply Hlast. rewrite last_opt_cons. exact Hy.
  - exact Hrest.
Qed.

Lemma join_groups2_app : forall a b, join_groups2 (a ++ b) = join_groups2 a ++ join_groups2 b.
Proof. induction a as [|g r IH]; intros b; cbn [app join_groups2]; [reflexivity|]. rewrite IH, <- app_assoc. reflexivity. Qed.

(* all recorded lines that are followed by more chunks *)
Lemma run_groups_ctx : forall o gs after st, after <> [] -> Forall wf_group gs ->
  join_loop_ctx o (join_groups2 gs) after st = run_groups o gs st.
Proof.
  induction gs as [|g rest IH]; intros after st Hafter Hw; [reflexivity|]. inversion Hw; subst.
  cbn [join_groups2]. rewrite join_loop_ctx_app. cbn [app].
  rewrite run_cur_ctx by assumption. cbn [join_loop_ctx].
  assert (Hl : is_last (join_groups2 rest ++ after) = false) by (destruct (join_groups2 rest); [destruct after; [congruence | reflexivity] | reflexivity]).
  rewrite Hl. cbn [run_groups fold_left].
  rewrite (join_chunk_flag o nlc _ true false) by (try apply nlc_stable; cbn; congruence).
  apply IH; assumption.
Qed.

(* the whole second run: every recorded line but the last, then the last one with its final newline chunk *)
Lemma second_run : forall o gs g, Forall wf_group gs -> wf_group g ->
  join_loop o (join_groups2 (gs ++ [g])) j_init = join_chunk o nlc true true (run_cur o g (run_groups o gs j_init)).
Proof.
  intros o gs g Hgs Hg. rewrite join_groups2_app. cbn [join_groups2].
  rewrite join_loop_split, run_groups_ctx by (try assumption; destruct (map fst g); discriminate).
  replace (map fst g ++ [nlc]) with (map fst g ++ [nlc] ++ []) by reflexivity.
  rewrite join_loop_split. cbn [app]. rewrite run_cur_ctx by assumption. reflexivity.
Qed.

(* ================================================================ trailing whitespace does not change a flushed line *)
Lemma trim_start_ws_prefix : forall x y, all_ws x = true -> trim_start (x ++ y) = trim_start y.
Proof.
  induction x as [|c r IH]; intros y H; [reflexivity|]. cbn [all_ws forallb] in H. apply andb_prop in H as [Hc Hr].
  cbn [app trim_start]. rewrite Hc. apply IH. exact Hr.
Qed.

Lemma trim_end_ws_suffix : forall a w, all_ws w = true -> trim_end (a ++ w) = trim_end a.
Proof.
  intros a w H. unfold trim_end. rewrite rev_app_distr, trim_start_ws_prefix; [reflexivity|]. rewrite all_ws_rev. exact H.
Qed.

Lemma split_floor_inside : forall a b n, n < byte_len a ->
  split_floor (a ++ b) n = (fst (split_floor a n), snd (split_floor a n) ++ b).
Proof.
  induction a as [|c r IH]; intros b n H; [cbn in H; lia|].
  cbn [app split_floor byte_len] in *. destruct (width_utf8 c <=? n) eqn:E.
  - apply Nat.leb_le in E. rewrite IH by lia. destruct (split_floor r (n - width_utf8 c)). reflexivity.
  - reflexivity.
Qed.

Lemma split_floor_beyond : forall a b n, byte_len a <= n ->
  split_floor (a ++ b) n = (a ++ fst (split_floor b (n - byte_len a)), snd (split_floor b (n - byte_len a))).
Proof.
  induction a as [|c r IH]; intros b n H.
  - cbn [app byte_len]. rewrite Nat.sub_0_r. destruct (split_floor b n); reflexivity.
  - cbn [app split_floor byte_len] in *.
    assert (E : (width_utf8 c <=? n) = true) by (apply Nat.leb_le; lia). rewrite E.
    rewrite IH by lia. replace (n - width_utf8 c - byte_len r) with (n - (width_utf8 c + byte_len r)) by lia.
    destruct (split_floor b (n - (width_utf8 c + byte_len r))). reflexivity.
Qed.

(* flushing `line ++ w` with w all whitespace (and nothing else changed) gives the same state as flushing `line` *)
Lemma flush_ws_suffix : forall o l i h p out a b c w, all_ws w = true ->
  flush_line o (mkJ (l ++ w) i h p out a b c) = flush_line o (mkJ l i h p out a b c).
Proof.
  intros o l i h p out a b c w Hw. unfold flush_line.
  cbn [j_line j_indent j_had j_prev j_out j_has_label j_has_code j_had_label].
  rewrite all_ws_app, Hw, andb_true_r.
  destruct (all_ws l) eqn:El.
  - destruct (negb h && negb c && (p =? 0)); [|reflexivity].
    rewrite !trim_end_all_ws; [reflexivity | |]; rewrite ?all_ws_app, ?all_ws_pad_nil, ?El, ?Hw; reflexivity.
  - set (col := o_label_margin o + o_code_margin o).
    destruct (col <? byte_len l) eqn:E1.
    + apply Nat.ltb_lt in E1.
      assert (E2 : (col <? byte_len (l ++ w)) = true) by (apply Nat.ltb_lt; rewrite byte_len_app; lia).
      rewrite E2, split_floor_inside by exact E1.
      destruct (split_floor l col) as [lc cm]. cbn [fst snd].
      destruct (all_ws lc).
      * f_equal. f_equal. rewrite !app_assoc. apply trim_end_ws_suffix. exact Hw.
      * f_equal. f_equal. rewrite !app_assoc. apply trim_end_ws_suffix. exact Hw.
    + apply Nat.ltb_ge in E1.
      destruct (col <? byte_len (l ++ w)) eqn:E2.
      * rewrite split_floor_beyond by exact E1.
        destruct (split_floor w (col - byte_len l)) as [x y]. cbn [fst snd].
        rewrite all_ws_app, El. cbn [andb].
        f_equal. f_equal. rewrite !app_assoc. apply trim_end_ws_suffix. exact Hw.
      * f_equal. f_equal. rewrite !app_assoc. apply trim_end_ws_suffix. exact Hw.
Qed.

(* a piece without line break as the last piece: appended, then flushed *)
Lemma jp_last_noflush : forall o ty e st p, contains_nl p = false ->
  join_piece o ty e true st p = flush_line o (join_piece o ty e false st p).
Proof.
  intros o ty e st p Hnl. unfold join_piece.
  destruct ty as [[|]|].
  - destruct (o_label_margin o <? byte_len (j_line st)); [rewrite Hnl; reflexivity|].
    destruct (o_label_alignment o); rewrite Hnl; reflexivity.
  - destruct e; rewrite Hnl; reflexivity.
  - rewrite (text_eqb_nlfree p Hnl). cbn [andb]. rewrite Hnl. reflexivity.
Qed.

(* the final newline chunk behind a line that the first run flushed because its last chunk was the last one *)
Lemma final_nl_after_flush : forall o A, j_line A <> [] -> j_indent A <> None ->
  join_chunk o nlc true true A = flush_line o A.
Proof.
  intros o A Hl Hi. rewrite join_chunk_nlc, set_indent_some by exact Hi. unfold join_piece.
  destruct (text_eqb [NL] [NL] && negb match j_line A with [] => true | _ :: _ => false end && (byte_len (j_line A) <=? o_label_margin o)) eqn:Eig.
  - cbn [negb andb orb]. reflexivity.
  - replace (contains_nl [NL]) with true by reflexivity. cbn [negb andb orb].
    replace (all_ws [NL]) with true by reflexivity. cbn [negb]. rewrite orb_false_r.
    destruct A as [l i h p out a b c]. unfold with_line. cbn [j_line j_indent j_had j_prev j_out j_has_label j_has_code j_had_label].
    unfold pad_right. rewrite <- app_assoc. apply flush_ws_suffix.
    rewrite all_ws_app, all_ws_spaces. reflexivity.
Qed.

(* ================================================================ the last chunk *)
Lemma nl_last_irrelevant : forall o e S, clean (join_chunk o nlc e false S) ->
  join_chunk o nlc e true S = join_chunk o nlc e false S.
Proof.
  intros o e S Hc. rewrite !join_chunk_nlc in *. unfold join_piece in *.
  destruct (text_eqb [NL] [NL] && negb match j_line (set_indent S 0) with [] => true | _ :: _ => false end &&
            (byte_len (j_line (set_indent S 0)) <=? o_label_margin o)) eqn:Eig.
  - exfalso. cbn [negb andb orb] in Hc. destruct Hc as [Hl _].
    apply andb_prop in Eig as [Eig _]. apply andb_prop in Eig as [_ Eig]. rewrite Hl in Eig. discriminate.
  - replace (contains_nl [NL]) with true by reflexivity. cbn [negb andb orb]. reflexivity.
Qed.

Lemma final_step : forall o f r, Inv o r -> stable_chunk f = true -> contains_nl (c_str f) = true -> pending r f ->
  let rf := rstep o f true true r in
  Forall wf_group (q_groups rf) /\
  ((exists g, q_groups rf = q_groups r ++ [g] /\
              join_chunk o nlc true true (run_cur o g (run_groups o (q_groups r) j_init)) = q_st rf) \/
   (q_groups rf = q_groups r /\ j_out (q_st rf) = j_out (run_groups o (q_groups r) j_init))).
Proof.
  intros o c r [Hrep Hclean Htail Hind Hcur Hopen Hgroups Hwide] Hst Enl Hpend. unfold pending in Hpend.
  destruct (stable_parts c Hst) as (Hne & Htyped & Hplain).
  remember (q_st r) as st eqn:Est.
  remember (set_indent st (c_indent c)) as st0 eqn:Est0.
  destruct c as [ty ind p]. cbn [c_ty c_indent c_str] in *.
  unfold is_nl_chunk in Hpend. cbn [c_str] in Hpend.
  assert (Ety : ty = None).
  { destruct ty as [t|]; [|reflexivity]. exfalso. specialize (Htyped ltac:(discriminate)). congruence. }
  subst ty.
  destruct (nl_last_decompose p (Hplain eq_refl) Enl) as [Edec Hq].
  assert (Htail0 : tail_eq (run_groups o (q_groups r) j_init) st0).
  { eapply tail_eq_trans; [exact Htail|]. subst st0. apply tail_set_indent. }
  unfold rstep, rechunk_piece2. cbn [q_st q_cur q_groups c_ty c_indent c_str]. rewrite <- Est, <- Est0.
  rewrite orb_true_r.
  remember (join_piece o None true true st0 p) as st' eqn:Est'.
  remember (strip_nl p) as q eqn:Eq.
  destruct (is_ignored o (mkChunk None ind p) st0 p) eqn:Eig.
  - (* the last chunk is a newline behind a short label: flushed because it is the last *)
    unfold is_ignored in Eig. cbn [c_ty] in Eig.
    assert (Hp : p = [NL]).
    { apply andb_prop in Eig as [Eig' _]. apply andb_prop in Eig' as [Eig' _].
      destruct p as [|a [|b p']]; cbn in Eig'; try discriminate.
      - apply andb_prop in Eig' as [Ea _]. apply N.eqb_eq in Ea. subst. reflexivity.
      - rewrite andb_false_r in Eig'. discriminate. }
    assert (Hline : j_line st <> []).
    { apply andb_prop in Eig as [Eig' _]. apply andb_prop in Eig' as [_ Eig']. apply negb_true_iff in Eig'.
      subst st0. rewrite line_set_indent in Eig'. destruct (j_line st); [discriminate | congruence]. }
    assert (Hst0 : st0 = st) by (subst st0; apply set_indent_some; apply Hind; exact Hline).
    assert (Hst' : st' = flush_line o st).
    { rewrite Est'. unfold join_piece. rewrite Eig. cbn [negb andb orb]. rewrite Hst0. reflexivity. }
    assert (Hwfc : wf_group (q_cur r)).
    { split; [exact Hopen|]. split; [|exact Hcur]. intros x Hx Hc. rewrite (Hpend x Hx Hc), Hp. reflexivity. }
    destruct (flush_cases o st) as [[l Hout] | [Ht Hb]]; rewrite <- Hst' in *.
    + assert (Hlt : (List.length (j_out st0) <? List.length (j_out st')) = true).
      { apply Nat.ltb_lt. rewrite Hout, Hst0. cbn [List.length]. lia. }
      rewrite Hlt. cbn [q_groups q_st]. split; [apply Forall_app; split; [exact Hgroups | constructor; [exact Hwfc | constructor]]|].
      left. exists (q_cur r). split; [reflexivity|].
      unfold replay in Hrep. rewrite Hrep, join_chunk_nlc.
      rewrite set_indent_some by (apply Hind; exact Hline).
      rewrite Est', Hp, Hst0. reflexivity.
    + assert (Hlt : (List.length (j_out st0) <? List.length (j_out st')) = false).
      { apply Nat.ltb_ge. destruct Ht as (_&_&_&Ho). rewrite Ho, Hst0. lia. }
      rewrite Hlt. cbn [q_groups q_st]. split; [exact Hgroups|]. right. split; [reflexivity|].
      destruct Ht as (_&_&_&Ho). destruct Htail as (_&_&_&Ho'). congruence.
  - (* a line break that is not ignored *)
    unfold is_ignored in Eig. cbn [c_ty] in Eig.
    pose proof (jp_flush_form o true true st0 p Eig Enl) as Hform. rewrite <- Est' in Hform.
    cbn [negb].
    set (curf := match q with [] => q_cur r | n :: l => q_cur r ++ [({| c_ty := None; c_indent := ind; c_str := n :: l |}, true)] end).
    set (X := with_line st0 (pad_right (j_line st0) (o_label_margin o) ++ p) (j_has_label st0) (j_has_code st0 || negb (all_ws p))) in Hform.
    assert (HtailX : tail_eq st0 X) by apply tail_with_line.
    assert (Hline_replay : join_chunk o nlc true true (run_cur o curf (run_groups o (q_groups r) j_init)) = st').
    { rewrite join_chunk_nlc. subst curf. destruct q as [|q0 q'].
      - unfold replay in Hrep. rewrite Hrep. cbn [app] in Edec. rewrite Est', Edec.
        rewrite Est0. destruct (j_indent st) eqn:Ei.
        + rewrite !set_indent_some by congruence. reflexivity.
        + assert (Hl : j_line st = []).
          { destruct (j_line st) eqn:El; [reflexivity|]. exfalso. apply Hind; [congruence | reflexivity]. }
          apply jp_nl_empty_line. exact Hl.
      - rewrite run_cur_app. unfold replay in Hrep. rewrite Hrep. cbn [run_cur fold_left fst snd].
        destruct (derived_stable None ind (q0 :: q') ltac:(congruence) Hq) as [_ Hds].
        rewrite join_chunk_stable by apply (Hds true). unfold jchunk. cbn [c_ty c_indent c_str]. rewrite <- Est0.
        destruct (jp_noflush o None true st0 (q0 :: q') Hq) as (l' & hl & hc & Hjq & _).
        rewrite set_indent_some by (rewrite Hjq; cbn [with_line j_indent]; subst st0; apply indent_set_indent).
        rewrite Est', Edec. symmetry. apply jp_split_nl; [congruence | exact Hq]. }
    assert (Hwf_curf : wf_group curf).
    { subst curf. destruct q as [|q0 q'].
      - cbn [app] in Edec. split; [exact Hopen|]. split; [|exact Hcur].
        intros x Hx Hc. rewrite (Hpend x Hx Hc), Edec. reflexivity.
      - split; [|split].
        + apply wf_open_snoc; [exact Hopen|]. intros x Hx Hc. rewrite (Hpend x Hx Hc), Edec.
          apply text_eqb_snoc_nl; [congruence | exact Hq].
        + intros x Hx Hc. rewrite last_opt_snoc in Hx. injection Hx as <-. unfold is_comment in Hc. cbn in Hc. discriminate.
        + apply Forall_app. split; [exact Hcur|]. constructor; [|constructor].
          apply (derived_stable None ind (q0 :: q') ltac:(congruence) Hq). }
    destruct (flush_cases o X) as [[l Hout] | [Ht Hb]]; rewrite <- Hform in *.
    + assert (Hlt : (List.length (j_out st0) <? List.length (j_out st')) = true).
      { apply Nat.ltb_lt. rewrite Hout. destruct HtailX as (_&_&_&Ho). rewrite <- Ho. cbn [List.length]. lia. }
      rewrite Hlt. cbn [q_groups q_st]. split; [apply Forall_app; split; [exact Hgroups | constructor; [exact Hwf_curf | constructor]]|].
      left. exists curf. split; [reflexivity | exact Hline_replay].
    + assert (Hlt : (List.length (j_out st0) <? List.length (j_out st')) = false).
      { apply Nat.ltb_ge. destruct Ht as (_&_&_&Ho). destruct HtailX as (_&_&_&Ho'). rewrite Ho, <- Ho'. lia. }
      rewrite Hlt. cbn [q_groups q_st]. split; [exact Hgroups|]. right. split; [reflexivity|].
      destruct Ht as (_&_&_&Ho). destruct HtailX as (_&_&_&Ho'). destruct Htail0 as (_&_&_&Ho''). congruence.
Qed.

Lemma final_step_nlfree : forall o f r, Inv o r -> stable_chunk f = true -> contains_nl (c_str f) = false -> pending r f ->
  let rf := rstep o f true true r in
  Forall wf_group (q_groups rf) /\
  ((exists g, q_groups rf = q_groups r ++ [g] /\
              join_chunk o nlc true true (run_cur o g (run_groups o (q_groups r) j_init)) = q_st rf) \/
   (q_groups rf = q_groups r /\ j_out (q_st rf) = j_out (run_groups o (q_groups r) j_init))).
Proof.
  intros o c r [Hrep Hclean Htail Hind Hcur Hopen Hgroups Hwide] Hst Enl Hpend. unfold pending in Hpend.
  destruct (stable_parts c Hst) as (Hne & Htyped & Hplain).
  remember (q_st r) as st eqn:Est.
  remember (set_indent st (c_indent c)) as st0 eqn:Est0.
  destruct c as [ty ind p]. cbn [c_ty c_indent c_str] in *.
  unfold is_nl_chunk in Hpend. cbn [c_str] in Hpend.
  assert (Htail0 : tail_eq (run_groups o (q_groups r) j_init) st0).
  { eapply tail_eq_trans; [exact Htail|]. subst st0. apply tail_set_indent. }
  unfold rstep, rechunk_piece2. cbn [q_st q_cur q_groups c_ty c_indent c_str]. rewrite <- Est, <- Est0.
  rewrite orb_true_r.
  assert (Eig : is_ignored o (mkChunk ty ind p) st0 p = false).
  { unfold is_ignored. cbn [c_ty]. destruct ty; [reflexivity|]. rewrite (text_eqb_nlfree p Enl). reflexivity. }
  rewrite Eig.
  assert (Hstrip : strip_nl p = p) by (apply strip_nl_id; exact Enl).
  rewrite Hstrip.
  assert (Hm : match p with
               | [] => q_cur r
               | n :: l => q_cur r ++ [({| c_ty := ty; c_indent := ind; c_str := n :: l |}, true)]
               end = q_cur r ++ [({| c_ty := ty; c_indent := ind; c_str := p |}, true)]) by (destruct p; [congruence | reflexivity]).
  rewrite Hm.
  rewrite (jp_last_noflush o ty true st0 p Enl).
  destruct (jp_noflush o ty true st0 p Enl) as (l' & hl & hc & Hjp & Hl').
  set (A := join_piece o ty true false st0 p) in *.
  assert (Hchunk : join_chunk o (mkChunk ty ind p) true false st = A).
  { rewrite join_chunk_stable by exact Hst. unfold jchunk. subst st0. reflexivity. }
  assert (HlineA : j_line A <> []) by (rewrite Hjp; cbn [with_line j_line]; apply Hl'; exact Hne).
  assert (HindA : j_indent A <> None) by (rewrite Hjp; cbn [with_line j_indent]; subst st0; apply indent_set_indent).
  assert (HtailA : tail_eq st0 A) by (rewrite Hjp; apply tail_with_line).
  set (curf := q_cur r ++ [({| c_ty := ty; c_indent := ind; c_str := p |}, true)]).
  assert (Hwf : wf_group curf).
  { subst curf. split; [|split].
    - apply wf_open_snoc; [exact Hopen|]. intros x Hx Hc. rewrite (Hpend x Hx Hc). apply text_eqb_nlfree. exact Enl.
    - intros x Hx _. rewrite last_opt_snoc in Hx. injection Hx as <-. reflexivity.
    - apply Forall_app. split; [exact Hcur|]. constructor; [|constructor]. split; cbn [fst c_str]; [exact Hst | exact Enl]. }
  destruct (flush_cases o A) as [[l Hout] | [Ht Hb]].
  - assert (Hlt : (List.length (j_out st0) <? List.length (j_out (flush_line o A))) = true).
    { apply Nat.ltb_lt. rewrite Hout. destruct HtailA as (_&_&_&Ho). rewrite <- Ho. cbn [List.length]. lia. }
    rewrite Hlt. cbn [q_groups q_st]. split; [apply Forall_app; split; [exact Hgroups | constructor; [exact Hwf | constructor]]|].
    left. exists curf. split; [reflexivity|].
    subst curf. rewrite run_cur_app. unfold replay in Hrep. rewrite Hrep. cbn [run_cur fold_left fst snd]. rewrite Hchunk.
    apply final_nl_after_flush; assumption.
  - assert (Hlt : (List.length (j_out st0) <? List.length (j_out (flush_line o A))) = false).
    { apply Nat.ltb_ge. destruct Ht as (_&_&_&Ho). destruct HtailA as (_&_&_&Ho'). rewrite Ho, <- Ho'. lia. }
    rewrite Hlt. cbn [q_groups q_st]. split; [exact Hgroups|]. right. split; [reflexivity|].
    destruct Ht as (_&_&_&Ho). destruct HtailA as (_&_&_&Ho'). destruct Htail0 as (_&_&_&Ho''). congruence.
Qed.

(* ================================================================ the theorem *)
Lemma q_st_fold : forall o c e l ps r,
  q_st (fold_left (rechunk_piece2 o c e l) ps r) = fold_left (join_piece o (c_ty c) e l) ps (q_st r).
Proof.
  induction ps as [|p ps IH]; intros r; [reflexivity|]. cbn [fold_left]. rewrite IH. f_equal.
  unfold rechunk_piece2. destruct (_ || l); reflexivity.
Qed.

Lemma q_st_loop : forall o cs r, q_st (rechunk_loop2 o cs r) = join_loop o cs (q_st r).
Proof.
  induction cs as [|c rest IH]; intros r; [reflexivity|]. cbn [rechunk_loop2 join_loop]. rewrite IH, q_st_fold. reflexivity.
Qed.

(* the groups are exactly the emitted lines: with no recorded line nothing was emitted *)
Lemma second_run_out : forall o gs, Forall wf_group gs -> clean (run_groups o gs j_init) ->
  j_out (join_loop o (join_groups2 gs) j_init) = j_out (run_groups o gs j_init).
Proof.
  intros o gs Hw Hc. destruct gs as [|g0 gs'] eqn:Egs; [reflexivity|].
  assert (Hne : g0 :: gs' <> []) by discriminate.
  destruct (exists_last Hne) as [gs0 [g E]]. rewrite E in *. clear E Hne.
  - apply Forall_app in Hw as [Hw0 Hwg]. inversion Hwg; subst.
    rewrite second_run by assumption. rewrite run_groups_app in *. cbn [run_groups fold_left] in *.
    rewrite nl_last_irrelevant by exact Hc. reflexivity.
Qed.

(* C13, line assembly, ALL chunk lists and options: describing the emitted lines as chunk lists and joining them again
   reproduces the lines *)
Theorem rechunk2_fixed : forall cs o, all_stable cs -> join_lines (rechunk2 cs o) o = join_lines cs o.
Proof.
  intros cs o Hs.
  destruct cs as [|c0 cs'] eqn:Ecs; [reflexivity|].
  assert (Hne : c0 :: cs' <> []) by discriminate.
  destruct (exists_last Hne) as [body [f E]]. rewrite E in *. clear E Hne Ecs c0 cs'.
  apply Forall_app in Hs as [Hsb Hsf]. inversion Hsf as [|? ? Hf _]; subst.
  unfold join_lines, rechunk2. f_equal.
  pose proof (q_st_loop o (body ++ [f]) (mkR2 j_init [] [])) as Hq. cbn [q_st] in Hq. rewrite <- Hq. clear Hq.
  rewrite rl_split by exact Hsb.
  destruct (inv_ctx o body [f] (mkR2 j_init [] []) ltac:(discriminate) Hsb (inv_init o)) as [Hinv Hp].
  { intros n Hn x Hx. discriminate. }
  set (R := rl_ctx o body [f] (mkR2 j_init [] [])) in *.
  rewrite rechunk_loop2_cons by exact Hf. cbn [rechunk_loop2 next_is_nl is_last].
  assert (Hfinal : Forall wf_group (q_groups (rstep o f true true R)) /\
            ((exists g, q_groups (rstep o f true true R) = q_groups R ++ [g] /\
                        join_chunk o nlc true true (run_cur o g (run_groups o (q_groups R) j_init)) = q_st (rstep o f true true R)) \/
             (q_groups (rstep o f true true R) = q_groups R /\
              j_out (q_st (rstep o f true true R)) = j_out (run_groups o (q_groups R) j_init)))).
  { destruct (contains_nl (c_str f)) eqn:Hnl.
    - apply (final_step o f R Hinv Hf Hnl (Hp f eq_refl)).
    - apply (final_step_nlfree o f R Hinv Hf Hnl (Hp f eq_refl)). }
  destruct Hfinal as [Hw [[g [Eg Hg]] | [Eg Hout]]].
  - rewrite Eg in *. apply Forall_app in Hw as [Hw0 Hwg]. inversion Hwg; subst.
    rewrite second_run by assumption. rewrite Hg. reflexivity.
  - rewrite Eg in *. rewrite Hout. apply second_run_out; [exact Hw | apply Hinv].
Qed.

Lemma stable_chunks_all : forall cs, stable_chunks cs = true -> all_stable cs.
Proof. intros cs H. unfold stable_chunks in H. rewrite forallb_forall in H. apply Forall_forall. exact H. Qed.

(* C13: line assembly is a fixed point of re-chunking, for ALL chunk lists and ALL options *)
Theorem join_fixed : forall cs o, stable_chunks cs = true -> join_chunks (rechunk cs o) o = join_chunks cs o.
Proof.
  intros cs o Hs. unfold join_chunks, rechunk. f_equal. apply rechunk2_fixed. apply stable_chunks_all. exact Hs.
Qed.

(* Proofs about the token layer of the formatter model (model/FormatTokens.v) against spec/FormatSpec.v:
   which comments the token layer emits, in which order. *)
From Coq Require Import List NArith Bool Arith Lia.
Import ListNotations.
From Mos Require Import model.Utf model.Format Gen.FmtRules model.FormatTokens spec.FormatSpec proofs.FormatProofs.
Open Scope nat_scope.

(* ---------------------------------------------------------------- comment chunks of a state *)
Definition is_comment_chunk (c : chunk) : bool := match c_ty c with Some Comment => true | _ => false end.
(* the texts of the comment chunks, oldest first *)
Definition chunk_comments (cs : list chunk) : list text := map c_str (filter is_comment_chunk cs).
Definition st_comments (st : fstate) : list text := chunk_comments (rev (f_chunks st)).

(* the non-whitespace characters of the comment chunks, in order (a pending space of spc_if_next in front of a comment
   chunk does not count) *)
Definition cnows (st : fstate) : text := nows (concat (st_comments st)).
Definition tnows (cms : list text) : text := nows (concat cms).

(* `f` appends comment chunks carrying exactly the comments `cms`, in order, and touches no earlier comment chunk *)
Definition emits (f : fstate -> fstate) (cms : list text) : Prop :=
  forall st, cnows (f st) = cnows st ++ tnows cms.

Lemma chunk_comments_app : forall a b, chunk_comments (a ++ b) = chunk_comments a ++ chunk_comments b.
Proof. intros; unfold chunk_comments; rewrite filter_app, map_app; reflexivity. Qed.

Lemma tnows_app : forall a b, tnows (a ++ b) = tnows a ++ tnows b.
Proof. intros; unfold tnows; rewrite concat_app, nows_app; reflexivity. Qed.

Lemma emits_id : emits (fun st => st) [].
Proof. intros st; unfold tnows; simpl; rewrite app_nil_r; reflexivity. Qed.

Lemma emits_comp : forall f g a b c, emits g a -> emits f b -> a ++ b = c -> emits (fun st => f (g st)) c.
Proof. intros f g a b c Hg Hf <- st. rewrite Hf, Hg, tnows_app, app_assoc. reflexivity. Qed.

Lemma emits_ext : forall f g c, (forall st, f st = g st) -> emits g c -> emits f c.
Proof. intros f g c H Hg st. rewrite H. apply Hg. Qed.

Lemma emits_eq : forall f a b, tnows a = tnows b -> emits f a -> emits f b.
Proof. intros f a b H Hf st. rewrite Hf, H. reflexivity. Qed.

(* state changes that do not touch the comment chunks *)
Definition same_comments (f : fstate -> fstate) : Prop := forall st, st_comments (f st) = st_comments st.
Lemma same_emits : forall f, same_comments f -> emits f [].
Proof. intros f H st; unfold cnows; rewrite H; unfold tnows; simpl; rewrite app_nil_r; reflexivity. Qed.

Lemma push_type_comments : forall ty s st,
  st_comments (push_type ty s st) =
  st_comments st ++ match ty, s with Some Comment, _ :: _ => [if f_spc st then SP :: s else s] | _, _ => [] end.
Proof.
  intros ty s st. unfold push_type, st_comments. destruct s as [|c r].
  - destruct ty as [[|]|]; rewrite app_nil_r; reflexivity.
  - simpl. rewrite chunk_comments_app. unfold chunk_comments at 2; simpl.
    destruct ty as [[|]|]; simpl; rewrite ?app_nil_r; reflexivity.
Qed.

Lemma emits_push : forall s, emits (push s) [].
Proof. intros s. apply same_emits. intros st. unfold push. rewrite push_type_comments. destruct s; apply app_nil_r. Qed.

Lemma emits_push_label : forall s, emits (push_type (Some Label) s) [].
Proof. intros s. apply same_emits. intros st. rewrite push_type_comments. destruct s; apply app_nil_r. Qed.

Lemma emits_spc : emits spc_if_next [].
Proof. apply same_emits; intros st; reflexivity. Qed.
Lemma emits_clear : emits clear_spc_if_next [].
Proof. apply same_emits; intros st; reflexivity. Qed.

Lemma emits_push_comment : forall s, emits (push_type (Some Comment) s) [s].
Proof.
  intros s st. unfold cnows. rewrite push_type_comments. unfold tnows. destruct s as [|c r].
  - rewrite app_nil_r; simpl; rewrite app_nil_r; reflexivity.
  - rewrite concat_app, nows_app. f_equal. simpl. rewrite !app_nil_r.
    destruct (f_spc st); [|reflexivity]. change (SP :: c :: r) with ([SP] ++ c :: r). rewrite nows_app. reflexivity.
Qed.

Lemma tnows_trivium_empty : tnows [[]] = tnows [].
Proof. reflexivity. Qed.

Lemma emits_trivium : forall t, emits (fmt_trivium t) (trivium_comments t).
Proof.
  intros t. destruct t as [s| |s|s]; cbn [fmt_trivium trivium_comments].
  - apply emits_id.
  - apply emits_push.
  - destruct s; [apply (emits_eq _ [[]]); [reflexivity|] |]; apply emits_push_comment.
  - destruct s; [apply (emits_eq _ [[]]); [reflexivity|] |]; apply emits_push_comment.
Qed.

Lemma emits_fold : forall {A} (f : A -> fstate -> fstate) (g : A -> list text) (l : list A),
  (forall a, In a l -> emits (f a) (g a)) ->
  emits (fun st => fold_left (fun s a => f a s) l st) (flat_map g l).
Proof.
  intros A f g l. induction l as [|a r IH]; intros H; simpl.
  - apply emits_id.
  - eapply emits_ext with (g := fun st => (fun s => fold_left (fun s a => f a s) r s) (f a st)); [reflexivity|].
    eapply emits_comp; [apply H; left; reflexivity | apply IH; intros; apply H; right; assumption | reflexivity].
Qed.

Lemma emits_trivia : forall ts, emits (fmt_trivia ts) (flat_map trivium_comments ts).
Proof. intros ts. unfold fmt_trivia. apply (emits_fold fmt_trivium trivium_comments). intros; apply emits_trivium. Qed.

Lemma emits_otrivia : forall ot, emits (fmt_otrivia ot) (otrivia_comments ot).
Proof. intros [ts|]; simpl; [apply emits_trivia | apply emits_id]. Qed.

Lemma emits_loc : forall l, emits (fmt_loc l) (lt_comments l).
Proof.
  intros l. unfold fmt_loc.
  eapply emits_comp; [apply emits_otrivia | apply emits_push | apply app_nil_r].
Qed.

Lemma emits_opt : forall {A} (f : A -> fstate -> fstate) (g : A -> list text) (x : option A),
  (forall a, x = Some a -> emits (f a) (g a)) -> emits (fmt_opt f x) (opt_comments g x).
Proof. intros A f g [a|] H; simpl; [apply H; reflexivity | apply emits_id]. Qed.

Lemma emits_opt_loc : forall x, emits (fmt_opt fmt_loc x) (opt_comments lt_comments x).
Proof. intros; apply emits_opt; intros; apply emits_loc. Qed.

(* ---------------------------------------------------------------- automation: split `fun st => f (g st)` *)
Ltac emits_step :=
  lazymatch goal with
  | |- emits (fun st => st) _ => apply emits_id
  | |- emits (push _) _ => apply emits_push
  | |- emits (push_type (Some Label) _) _ => apply emits_push_label
  | |- emits spc_if_next _ => apply emits_spc
  | |- emits clear_spc_if_next _ => apply emits_clear
  | |- emits (fmt_loc _) _ => apply emits_loc
  | |- emits (fmt_otrivia _) _ => apply emits_otrivia
  | |- emits (fmt_opt fmt_loc _) _ => apply emits_opt_loc
  | |- emits (fun st => ?f (@?g st)) _ =>
      lazymatch g with
      | (fun st => st) => fail "no progress"
      | _ => eapply emits_comp; [ | | ]
      end
  end.

Lemma emits_istring : forall s, emits (fmt_istring s) (istring_comments s).
Proof.
  intros s. unfold fmt_istring, istring_comments.
  assert (H : flat_map (fun _ : istring_item => @nil text) (is_items s) = []) by (induction (is_items s); auto).
  eapply emits_comp with (a := lt_comments (is_lquote s) ++ []) (b := []);
    [ eapply emits_comp with (a := lt_comments (is_lquote s)) (b := []); [apply emits_loc | | reflexivity]
    | apply emits_push | rewrite !app_nil_r; reflexivity ].
  rewrite <- H. apply (emits_fold fmt_istring_item (fun _ => [])).
  intros i _. destruct i as [l|l]; simpl.
  - apply emits_push.
  - eapply emits_ext with (g := fun st => push [RBRACE] (push (l_data l) (push [LBRACE] st))); [reflexivity|].
    repeat emits_step; reflexivity.
Qed.

(* ---------------------------------------------------------------- expressions *)
Lemma emits_args_fold : forall (args : arg_exprs),
  (forall ec, In ec args -> emits (format_expression (l_data (fst ec))) (expr_comments (l_data (fst ec)))) ->
  emits (fun st => fold_left (fun a (ec : located expr * option ltext) =>
                             spc_if_next (fmt_opt fmt_loc (snd ec)
                               (format_expression (l_data (fst ec)) (fmt_otrivia (l_trivia (fst ec)) a)))) args st)
        (flat_map (fun ec : located expr * option ltext =>
                  otrivia_comments (l_trivia (fst ec)) ++ expr_comments (l_data (fst ec)) ++ opt_comments lt_comments (snd ec)) args).
Proof.
  intros args H.
  apply (emits_fold (fun (ec : located expr * option ltext) a => spc_if_next (fmt_opt fmt_loc (snd ec)
                               (format_expression (l_data (fst ec)) (fmt_otrivia (l_trivia (fst ec)) a))))
                    (fun ec => otrivia_comments (l_trivia (fst ec)) ++ expr_comments (l_data (fst ec)) ++ opt_comments lt_comments (snd ec))).
  intros ec Hin. specialize (H ec Hin).
  repeat emits_step; try exact H; try reflexivity. rewrite app_nil_r, app_assoc. reflexivity.
Qed.

Lemma emits_expression : forall e, emits (format_expression e) (expr_comments e)
with emits_factor : forall f, emits (format_expression_factor f) (factor_comments f).
Proof.
  - intros e. destruct e as [lhs op rhs | tn tg f]; cbn [format_expression expr_comments].
    + pose proof (emits_expression (l_data lhs)) as Hl. pose proof (emits_expression (l_data rhs)) as Hr.
      repeat emits_step; try exact Hl; try exact Hr; try reflexivity.
      rewrite !app_nil_r, <- !app_assoc. reflexivity.
    + pose proof (emits_factor (l_data f)) as Hf.
      repeat emits_step; try exact Hf; try reflexivity.
      rewrite <- !app_assoc. reflexivity.
  - intros f. destruct f as [star | lp inner rp | name lp args rp | path modifier | ty value | s];
      cbn [format_expression_factor factor_comments].
    + apply emits_loc.
    + pose proof (emits_expression (l_data inner)) as Hi.
      repeat emits_step; try exact Hi; try reflexivity. rewrite <- !app_assoc. reflexivity.
    + assert (Hargs : forall ec, In ec args -> emits (format_expression (l_data (fst ec))) (expr_comments (l_data (fst ec)))).
      { clear - emits_expression. induction args as [|a r IH]; intros ec Hin; [destruct Hin|].
        destruct Hin as [<-|Hin]; [apply emits_expression | apply IH; assumption]. }
      pose proof (emits_args_fold args Hargs) as Hfold.
      eapply emits_comp; [ eapply emits_comp; [ eapply emits_comp; [ eapply emits_comp; [apply emits_loc | apply emits_loc | reflexivity]
                                                                   | exact Hfold | reflexivity ]
                                              | apply emits_clear | reflexivity ]
                         | apply emits_loc | ].
      rewrite !app_nil_r, <- !app_assoc. reflexivity.
    + repeat emits_step; reflexivity.
    + repeat emits_step; reflexivity.
    + apply emits_istring.
Qed.

Lemma emits_lexpr : forall e, emits (fmt_lexpr e) (lexpr_comments e).
Proof.
  intros e. unfold fmt_lexpr, lexpr_comments.
  eapply emits_comp; [apply emits_otrivia | apply emits_expression | reflexivity].
Qed.

Lemma emits_arg_exprs : forall args, emits (fmt_arg_exprs args) (arg_exprs_comments args).
Proof.
  intros args. unfold fmt_arg_exprs, arg_exprs_comments.
  eapply emits_comp; [ | apply emits_clear | apply app_nil_r ].
  apply (emits_fold (fun (ec : located expr * option ltext) a => spc_if_next (fmt_opt fmt_loc (snd ec) (fmt_lexpr (fst ec) a)))
                    (fun ec => lexpr_comments (fst ec) ++ opt_comments lt_comments (snd ec))).
  intros ec _.
  eapply emits_comp; [ eapply emits_comp; [apply emits_lexpr | apply emits_opt_loc | reflexivity] | apply emits_spc | apply app_nil_r ].
Qed.

Lemma emits_arg_ids : forall args, emits (fmt_arg_ids args) (arg_ids_comments args).
Proof.
  intros args. unfold fmt_arg_ids, arg_ids_comments.
  eapply emits_comp; [ | apply emits_clear | apply app_nil_r ].
  apply (emits_fold (fun (ic : ltext * option ltext) a => spc_if_next (fmt_opt fmt_loc (snd ic) (fmt_loc (fst ic) a)))
                    (fun ic => lt_comments (fst ic) ++ opt_comments lt_comments (snd ic))).
  intros ic _.
  eapply emits_comp; [ eapply emits_comp; [apply emits_loc | apply emits_opt_loc | reflexivity] | apply emits_spc | apply app_nil_r ].
Qed.

Lemma emits_import_as : forall a, emits (fmt_import_as a) (import_as_comments a).
Proof.
  intros a. unfold fmt_import_as, import_as_comments.
  eapply emits_comp; [ eapply emits_comp; [apply emits_loc | apply emits_push | apply app_nil_r] | apply emits_loc | reflexivity ].
Qed.

Lemma emits_opt_import_as : forall x, emits (fmt_opt fmt_import_as x) (opt_comments import_as_comments x).
Proof. intros; apply emits_opt; intros; apply emits_import_as. Qed.

Lemma emits_if : forall (b : bool) f c, emits f c -> emits (fun st => if b then f st else st) (if b then c else []).
Proof. intros [|] f c H; [exact H | apply emits_id]. Qed.

Lemma emits_arg_specific : forall args,
  emits (fmt_arg_specific args) (import_args_comments emits_import_arg_trivia (Specific args)).
Proof.
  intros args. unfold fmt_arg_specific, import_args_comments.
  eapply emits_comp; [ | apply emits_clear | apply app_nil_r ].
  apply (emits_fold (fun (pc : located specific_import_arg * option ltext) a =>
      let p := l_data (fst pc) in
      let a := if emits_import_arg_trivia then fmt_otrivia (l_trivia (fst pc)) a else a in
      spc_if_next (fmt_opt fmt_loc (snd pc) (fmt_opt fmt_import_as (sa_as p) (spc_if_next (fmt_loc (sa_path p) a)))))
    (fun pc => (if emits_import_arg_trivia then otrivia_comments (l_trivia (fst pc)) else []) ++
               lt_comments (sa_path (l_data (fst pc))) ++ opt_comments import_as_comments (sa_as (l_data (fst pc))) ++
               opt_comments lt_comments (snd pc))).
  intros pc _. cbv zeta.
  eapply emits_comp; [ eapply emits_comp; [ eapply emits_comp; [ eapply emits_comp; [ eapply emits_comp; [ | apply emits_loc | reflexivity ]
                                                                                   | apply emits_spc | reflexivity ]
                                                               | apply emits_opt_import_as | reflexivity ]
                                          | apply emits_opt_loc | reflexivity ]
                     | apply emits_spc | ].
  - apply (emits_if emits_import_arg_trivia (fmt_otrivia (l_trivia (fst pc))) _ (emits_otrivia _)).
  - rewrite !app_nil_r, <- !app_assoc. reflexivity.
Qed.

Ltac emits_eqs := cbn [opt_comments fst snd]; rewrite ?app_nil_r, <- ?app_assoc; try reflexivity.

Lemma emits_suffix : forall o sfx,
  emits (fmt_suffix o sfx) (opt_comments (fun cr : ltext * ltext => lt_comments (fst cr) ++ lt_comments (snd cr)) sfx).
Proof.
  intros o [[comma register]|]; cbn [opt_comments fst snd]; [|apply emits_id].
  eapply emits_ext with (g := fun st => clear_spc_if_next (fmt_loc (mkLoc (l_trivia register) (casing_format (o_register_casing o) (l_data register)))
                                                         (spc_if_next (fmt_loc comma st)))); [reflexivity|].
  repeat emits_step; unfold lt_comments; cbn [l_trivia]; emits_eqs.
Qed.

Lemma emits_operand : forall o op, emits (fmt_operand o op) (operand_comments op).
Proof.
  intros o op. unfold fmt_operand, operand_comments.
  destruct (op_mode op).
  - eapply emits_comp; [ eapply emits_comp; [apply emits_opt_loc | apply emits_lexpr | reflexivity] | apply emits_suffix | ].
    rewrite <- !app_assoc; reflexivity.
  - eapply emits_comp; [ eapply emits_comp; [apply emits_opt_loc | apply emits_lexpr | reflexivity] | apply emits_suffix | ].
    rewrite <- !app_assoc; reflexivity.
  - eapply emits_comp; [ eapply emits_comp; [apply emits_opt_loc | apply emits_lexpr | reflexivity] | apply emits_suffix | ].
    rewrite <- !app_assoc; reflexivity.
  - eapply emits_comp; [ eapply emits_comp; [ eapply emits_comp; [apply emits_opt_loc | apply emits_lexpr | reflexivity]
                                            | apply emits_suffix | reflexivity ] | apply emits_opt_loc | ].
    rewrite <- !app_assoc; reflexivity.
  - eapply emits_comp; [ eapply emits_comp; [ eapply emits_comp; [apply emits_opt_loc | apply emits_lexpr | reflexivity]
                                            | apply emits_opt_loc | reflexivity ] | apply emits_suffix | ].
    rewrite <- !app_assoc; reflexivity.
Qed.

(* ---------------------------------------------------------------- token lists *)
Notation body := (body_comments false emits_import_arg_trivia).
Notation blockc := (block_comments false emits_import_arg_trivia).

Definition ok_tok (t : token) : Prop := any_tok (existsb is_expression_token) else_without_tag t = false.
Definition ok_block (b : block) : Prop := any_block (existsb is_expression_token) else_without_tag b = false.

Definition veof_comments (veof : option (option (list trivia))) : list text :=
  match veof with Some tr => otrivia_comments tr | None => [] end.

(* what the loop emits: every token's body, each followed by the leading trivia of the next token *)
Fixpoint tail_comments (veof : option (option (list trivia))) (ts : list token) : list text :=
  match ts with
  | [] => []
  | t :: r => body t ++ match r with n :: _ => lead_comments n | [] => veof_comments veof end ++ tail_comments veof r
  end.

Lemma emits_newline_before : forall prev t, emits (newline_before prev t) [].
Proof.
  intros prev t. apply same_emits. intros st. unfold newline_before.
  destruct prev as [p|]; [|reflexivity].
  assert (H : forall s, st_comments (push [NL] s) = st_comments s).
  { intros s. unfold push. rewrite push_type_comments. apply app_nil_r. }
  destruct (kind_of t); try reflexivity;
    repeat match goal with |- context [if ?c then _ else _] => destruct c end; rewrite ?H; reflexivity.
Qed.

Lemma lead_not_expression : forall t, is_expression_token t = false -> lead_comments t = otrivia_comments (token_trivia t).
Proof. intros t H; destruct t; try reflexivity; discriminate. Qed.

Lemma emits_loop : forall ft veof ts prev,
  (forall t, In t ts -> emits (ft t) (body t)) ->
  existsb is_expression_token ts = false ->
  emits (format_tokens_loop ft veof prev ts) (tail_comments veof ts).
Proof.
  intros ft veof ts. induction ts as [|t rest IH]; intros prev Hft Hex.
  - cbn [format_tokens_loop tail_comments]. destruct veof as [tr|]; [apply emits_newline_before | apply emits_id].
  - cbn [existsb] in Hex. apply orb_false_elim in Hex as [Ht Hrest].
    cbn [format_tokens_loop tail_comments].
    eapply emits_ext with (g := fun st => format_tokens_loop ft veof (Some t) rest
        ((fun s => match rest with
                   | n :: _ => fmt_otrivia (token_trivia n) s
                   | [] => match veof with Some tr => fmt_otrivia tr s | None => s end
                   end) (ft t (newline_before prev t st)))); [reflexivity|].
    eapply emits_comp; [ eapply emits_comp; [ eapply emits_comp; [apply emits_newline_before | apply Hft; left; reflexivity | reflexivity] | | reflexivity ]
                       | apply IH; [intros; apply Hft; right; assumption | assumption] | ].
    + destruct rest as [|n rest'].
      * destruct veof as [tr|]; [apply emits_otrivia | apply emits_id].
      * cbn [existsb] in Hrest. apply orb_false_elim in Hrest as [Hn _].
        rewrite (lead_not_expression n Hn). apply emits_otrivia.
    + cbn [app]. rewrite <- !app_assoc. reflexivity.
Qed.

Lemma nows_chunk_comments_drop : forall l,
  nows (concat (chunk_comments (drop_nl_chunks l))) = nows (concat (chunk_comments l)).
Proof.
  induction l as [|c r IH]; [reflexivity|]. cbn [drop_nl_chunks].
  destruct (is_nl_chunk c) eqn:E; [|reflexivity].
  rewrite IH. unfold chunk_comments at 2. cbn [filter]. destruct (is_comment_chunk c); [|reflexivity].
  cbn [map concat]. rewrite nows_app. unfold is_nl_chunk in E. rewrite (nows_single_nl _ E). reflexivity.
Qed.

(* dropping newline chunks at the END of the oldest-first list *)
Lemma nows_chunk_comments_drop_rev : forall l,
  nows (concat (chunk_comments (rev (drop_nl_chunks l)))) = nows (concat (chunk_comments (rev l))).
Proof.
  induction l as [|c r IH]; [reflexivity|]. cbn [drop_nl_chunks].
  destruct (is_nl_chunk c) eqn:E; [|reflexivity].
  rewrite IH. cbn [rev]. rewrite chunk_comments_app, concat_app, nows_app.
  unfold chunk_comments at 3. cbn [filter]. destruct (is_comment_chunk c); cbn [map concat]; rewrite ?app_nil_r; [|reflexivity].
  unfold is_nl_chunk in E. rewrite (nows_single_nl _ E), app_nil_r. reflexivity.
Qed.

Lemma tokens_comments_tail : forall veof ts,
  existsb is_expression_token ts = false ->
  match ts with
  | t :: _ => otrivia_comments (token_trivia t)
  | [] => veof_comments veof
  end ++ tail_comments veof ts = tokens_comments false emits_import_arg_trivia ts ++ veof_comments veof.
Proof.
  intros veof ts. induction ts as [|t rest IH]; intros Hex.
  - cbn. rewrite app_nil_r. reflexivity.
  - cbn [existsb] in Hex. apply orb_false_elim in Hex as [Ht Hrest]. specialize (IH Hrest).
    unfold tokens_comments in *. cbn [flat_map tail_comments]. rewrite <- (lead_not_expression t Ht).
    rewrite <- !app_assoc. f_equal. f_equal.
    destruct rest as [|n rest'].
    + cbn in *. rewrite app_nil_r. reflexivity.
    + cbn [existsb] in Hrest. apply orb_false_elim in Hrest as [Hn _].
      rewrite <- (lead_not_expression n Hn) in IH. exact IH.
Qed.

Lemma emits_tokens_with : forall ft veof ts trim,
  (forall t, In t ts -> emits (ft t) (body t)) ->
  existsb is_expression_token ts = false ->
  emits (format_tokens_with ft veof ts trim) (tokens_comments false emits_import_arg_trivia ts ++ veof_comments veof).
Proof.
  intros ft veof ts trim Hft Hex.
  rewrite <- (tokens_comments_tail veof ts Hex).
  unfold format_tokens_with.
  set (first_trivia := match ts with t :: _ => token_trivia t | [] => match veof with Some tr => tr | None => None end end).
  assert (Hfirst : match ts with t :: _ => otrivia_comments (token_trivia t) | [] => veof_comments veof end = otrivia_comments first_trivia).
  { subst first_trivia. destruct ts; [destruct veof as [[?|]|]|]; reflexivity. }
  rewrite Hfirst.
  eapply emits_comp; [ | apply (emits_loop ft veof ts None Hft Hex) | reflexivity ].
  intros st. cbv zeta.
  set (sub := fmt_otrivia first_trivia (mkF [] (f_spc st) (f_indent st))).
  pose proof (emits_otrivia first_trivia (mkF [] (f_spc st) (f_indent st))) as Hsub. fold sub in Hsub.
  unfold cnows at 2 in Hsub. unfold st_comments at 2 in Hsub. cbn [f_chunks rev chunk_comments filter map concat] in Hsub.
  cbn [nows filter app] in Hsub.
  unfold cnows, st_comments. cbn [f_chunks].
  rewrite rev_app_distr, rev_involutive, chunk_comments_app, concat_app, nows_app. f_equal.
  rewrite <- Hsub. unfold cnows, st_comments.
  destruct trim; [apply nows_chunk_comments_drop | reflexivity].
Qed.

(* ---------------------------------------------------------------- format_token / format_block *)
Lemma go_flat_map : forall ts,
  (fix go (ts : list token) : list text :=
     match ts with [] => [] | t :: r => lead_comments t ++ body t ++ go r end) ts =
  tokens_comments false emits_import_arg_trivia ts.
Proof.
  induction ts as [|t r IH]; [reflexivity|]. unfold tokens_comments in *. cbn [flat_map]. rewrite <- IH, <- app_assoc. reflexivity.
Qed.

Lemma emits_set_indent : forall (k : fstate -> nat), emits (fun st => mkF (f_chunks st) (f_spc st) (k st)) [].
Proof. intros k. apply same_emits. intros st. reflexivity. Qed.

Lemma emits_drop_nl : emits (fun st => mkF (drop_nl_chunks (f_chunks st)) (f_spc st) (f_indent st)) [].
Proof.
  intros st. unfold cnows, st_comments. cbn [f_chunks]. rewrite nows_chunk_comments_drop_rev.
  unfold tnows; cbn; rewrite app_nil_r; reflexivity.
Qed.

Lemma ok_block_inv : forall lp inner rp, ok_block (mkBlock lp inner rp) ->
  existsb is_expression_token inner = false /\ forall t, In t inner -> ok_tok t.
Proof.
  intros lp inner rp H. unfold ok_block in H. cbn [any_block] in H. apply orb_false_elim in H as [H1 H2].
  split; [assumption|]. clear H1. induction inner as [|a r IH]; intros t Hin; [destruct Hin|].
  apply orb_false_elim in H2 as [Ha Hr]. destruct Hin as [<-|Hin]; [exact Ha | apply IH; assumption].
Qed.

Lemma emits_block_of_tokens : forall o lp inner rp,
  (forall t, In t inner -> emits (format_token o t) (body t)) ->
  existsb is_expression_token inner = false ->
  emits (format_block o (mkBlock lp inner rp)) (blockc (mkBlock lp inner rp)).
Proof.
  intros o lp inner rp Hft Hex. cbn [format_block block_comments].
  rewrite go_flat_map.
  pose proof (emits_tokens_with (format_token o) (Some (l_trivia rp)) inner true Hft Hex) as Hts.
  cbn [veof_comments] in Hts. fold (lt_comments rp) in Hts.
  eapply emits_ext with (g := fun st =>
     push (l_data rp) (push [NL]
       ((fun s => mkF (drop_nl_chunks (f_chunks s)) (f_spc s) (f_indent s))
         ((fun s => mkF (f_chunks s) (f_spc s) (f_indent s - o_indent o))
           (format_tokens_with (format_token o) (Some (l_trivia rp)) inner true
             ((fun s => mkF (f_chunks s) (f_spc s) (f_indent s + o_indent o))
               ((fun s => match o_braces o with
                          | SameLine => push [NL] (push (l_data lp) s)
                          | NewLine => push [NL] (push (l_data lp) (push [NL] s))
                          end) st))))))); [reflexivity|].
  eapply emits_comp; [ eapply emits_comp; [ eapply emits_comp; [ eapply emits_comp; [ eapply emits_comp; [ eapply emits_comp;
      [ | apply (emits_set_indent (fun s => f_indent s + o_indent o)) | reflexivity ]
      | exact Hts | reflexivity ]
      | apply (emits_set_indent (fun s => f_indent s - o_indent o)) | reflexivity ]
      | apply emits_drop_nl | reflexivity ]
      | apply emits_push | reflexivity ]
      | apply emits_push | ].
  - destruct (o_braces o); repeat emits_step; reflexivity.
  - cbn [app]. rewrite !app_nil_r. reflexivity.
Qed.

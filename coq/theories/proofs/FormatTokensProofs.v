(* Proofs about the token layer of the formatter model (model/FormatTokens.v) against spec/FormatSpec.v:
   which comments the token layer emits, in which order. *)
From Coq Require Import List NArith Bool Arith Lia.
Import ListNotations.
From Mos Require Import model.Utf model.Format Gen.FmtRules model.FormatTokens spec.FormatSpec proofs.FormatProofs.
Open Scope nat_scope.

(* ---------------------------------------------------------------- comment chunks of a state *)
Definition is_comment_chunk (c : chunk) : bool := match c_ty c with Some Comment => true | _ => false end.
(* the texts of the comment chunks, oldest first *)
Definition chunk_comments (cs : list chunk) : list text := map c_str (filter is_comment_chunk cs).
Definition st_comments (st : fstate) : list text := chunk_comments (rev (f_chunks st)).

(* a comment chunk carries the comment's text, possibly behind the pending space of spc_if_next *)
Definition spc_eq (chunk_text comment : text) : Prop := chunk_text = comment \/ chunk_text = SP :: comment.

(* `f` appends comment chunks for exactly the comments `cms`, in order, and touches no earlier comment chunk *)
Definition emits (f : fstate -> fstate) (cms : list text) : Prop :=
  forall st, exists new, st_comments (f st) = st_comments st ++ new /\ Forall2 spc_eq new cms.

Lemma chunk_comments_app : forall a b, chunk_comments (a ++ b) = chunk_comments a ++ chunk_comments b.
Proof. intros; unfold chunk_comments; rewrite filter_app, map_app; reflexivity. Qed.

Lemma emits_id : emits (fun st => st) [].
Proof. intros st; exists []; rewrite app_nil_r; auto. Qed.

Lemma emits_comp : forall f g a b c, emits g a -> emits f b -> a ++ b = c -> emits (fun st => f (g st)) c.
Proof.
  intros f g a b c Hg Hf <- st.
  destruct (Hg st) as [n1 [E1 F1]]. destruct (Hf (g st)) as [n2 [E2 F2]].
  exists (n1 ++ n2). rewrite E2, E1, app_assoc. split; [reflexivity | apply Forall2_app; assumption].
Qed.

Lemma emits_ext : forall f g c, (forall st, f st = g st) -> emits g c -> emits f c.
Proof. intros f g c H Hg st. rewrite H. apply Hg. Qed.

(* state changes that do not touch the comment chunks *)
Definition same_comments (f : fstate -> fstate) : Prop := forall st, st_comments (f st) = st_comments st.
Lemma same_emits : forall f, same_comments f -> emits f [].
Proof. intros f H st; exists []; rewrite H, app_nil_r; auto. Qed.

Lemma push_type_comments : forall ty s st,
  st_comments (push_type ty s st) =
  st_comments st ++ match ty, s with Some Comment, _ :: _ => [if f_spc st then SP :: s else s] | _, _ => [] end.
Proof.
  intros ty s st. unfold push_type, st_comments. destruct s as [|c r].
  - destruct ty as [[|]|]; rewrite app_nil_r; reflexivity.
  - simpl. rewrite chunk_comments_app. unfold chunk_comments at 2; simpl.
    destruct ty as [[|]|]; simpl; rewrite ?app_nil_r; reflexivity.
Qed.

Lemma emits_push : forall s, emits (push s) [].
Proof. intros s. apply same_emits. intros st. unfold push. rewrite push_type_comments. destruct s; apply app_nil_r. Qed.

Lemma emits_push_label : forall s, emits (push_type (Some Label) s) [].
Proof. intros s. apply same_emits. intros st. rewrite push_type_comments. destruct s; apply app_nil_r. Qed.

Lemma emits_spc : emits spc_if_next [].
Proof. apply same_emits; intros st; reflexivity. Qed.
Lemma emits_clear : emits clear_spc_if_next [].
Proof. apply same_emits; intros st; reflexivity. Qed.

Lemma emits_trivium : forall t, emits (fmt_trivium t) (trivium_comments t).
Proof.
  intros t st. destruct t as [s| |s|s]; simpl.
  - exists []; rewrite app_nil_r; auto.
  - exists []. split; [|constructor]. unfold push. rewrite push_type_comments. reflexivity.
  - rewrite push_type_comments. destruct s as [|c r].
    + exists []; auto.
    + eexists; split; [reflexivity|]. constructor; [|constructor]. destruct (f_spc st); [right|left]; reflexivity.
  - rewrite push_type_comments. destruct s as [|c r].
    + exists []; auto.
    + eexists; split; [reflexivity|]. constructor; [|constructor]. destruct (f_spc st); [right|left]; reflexivity.
Qed.

Lemma emits_fold : forall {A} (f : A -> fstate -> fstate) (g : A -> list text) (l : list A),
  (forall a, In a l -> emits (f a) (g a)) ->
  emits (fun st => fold_left (fun s a => f a s) l st) (flat_map g l).
Proof.
  intros A f g l. induction l as [|a r IH]; intros H; simpl.
  - apply emits_id.
  - eapply emits_ext with (g := fun st => (fun s => fold_left (fun s a => f a s) r s) (f a st)); [reflexivity|].
    eapply emits_comp; [apply H; left; reflexivity | apply IH; intros; apply H; right; assumption | reflexivity].
Qed.

Lemma emits_trivia : forall ts, emits (fmt_trivia ts) (flat_map trivium_comments ts).
Proof. intros ts. unfold fmt_trivia. apply (emits_fold fmt_trivium trivium_comments). intros; apply emits_trivium. Qed.

Lemma emits_otrivia : forall ot, emits (fmt_otrivia ot) (otrivia_comments ot).
Proof. intros [ts|]; simpl; [apply emits_trivia | apply emits_id]. Qed.

Lemma emits_loc : forall l, emits (fmt_loc l) (lt_comments l).
Proof.
  intros l. unfold fmt_loc.
  eapply emits_comp; [apply emits_otrivia | apply emits_push | apply app_nil_r].
Qed.

Lemma emits_opt : forall {A} (f : A -> fstate -> fstate) (g : A -> list text) (x : option A),
  (forall a, x = Some a -> emits (f a) (g a)) -> emits (fmt_opt f x) (opt_comments g x).
Proof. intros A f g [a|] H; simpl; [apply H; reflexivity | apply emits_id]. Qed.

Lemma emits_opt_loc : forall x, emits (fmt_opt fmt_loc x) (opt_comments lt_comments x).
Proof. intros; apply emits_opt; intros; apply emits_loc. Qed.

(* ---------------------------------------------------------------- automation: split `fun st => f (g st)` *)
Ltac emits_step :=
  match goal with
  | |- emits (fun st => st) _ => apply emits_id
  | |- emits (push _) _ => apply emits_push
  | |- emits (push_type (Some Label) _) _ => apply emits_push_label
  | |- emits spc_if_next _ => apply emits_spc
  | |- emits clear_spc_if_next _ => apply emits_clear
  | |- emits (fmt_loc _) _ => apply emits_loc
  | |- emits (fmt_otrivia _) _ => apply emits_otrivia
  | |- emits (fmt_opt fmt_loc _) _ => apply emits_opt_loc
  | |- emits (fun st => ?f (@?g st)) _ => eapply emits_comp; [ | | ]
  end.

Lemma emits_istring : forall s, emits (fmt_istring s) (istring_comments s).
Proof.
  intros s. unfold fmt_istring, istring_comments.
  eapply emits_comp; [ eapply emits_comp; [apply emits_loc | | reflexivity] | apply emits_push | apply app_nil_r ].
  eapply emits_ext with (g := fun st => fold_left (fun a i => fmt_istring_item i a) (is_items s) st); [reflexivity|].
  assert (H : flat_map (fun _ : istring_item => @nil text) (is_items s) = []) by (induction (is_items s); auto).
  rewrite <- H. apply (emits_fold fmt_istring_item (fun _ => [])).
  intros i _. destruct i as [l|l]; simpl.
  - apply emits_push.
  - repeat emits_step; try reflexivity.
Qed.

(* ---------------------------------------------------------------- expressions *)
Lemma emits_args_fold : forall (args : arg_exprs),
  (forall ec, In ec args -> emits (format_expression (l_data (fst ec))) (expr_comments (l_data (fst ec)))) ->
  emits (fun st => fold_left (fun a (ec : located expr * option ltext) =>
                             spc_if_next (fmt_opt fmt_loc (snd ec)
                               (format_expression (l_data (fst ec)) (fmt_otrivia (l_trivia (fst ec)) a)))) args st)
        (flat_map (fun ec : located expr * option ltext =>
                  otrivia_comments (l_trivia (fst ec)) ++ expr_comments (l_data (fst ec)) ++ opt_comments lt_comments (snd ec)) args).
Proof.
  intros args H.
  apply (emits_fold (fun (ec : located expr * option ltext) a => spc_if_next (fmt_opt fmt_loc (snd ec)
                               (format_expression (l_data (fst ec)) (fmt_otrivia (l_trivia (fst ec)) a))))
                    (fun ec => otrivia_comments (l_trivia (fst ec)) ++ expr_comments (l_data (fst ec)) ++ opt_comments lt_comments (snd ec))).
  intros ec Hin. specialize (H ec Hin).
  repeat emits_step; try exact H; try reflexivity. rewrite app_nil_r, app_assoc. reflexivity.
Qed.

Lemma emits_expression : forall e, emits (format_expression e) (expr_comments e)
with emits_factor : forall f, emits (format_expression_factor f) (factor_comments f).
Proof.
  - intros e. destruct e as [lhs op rhs | tn tg f]; cbn [format_expression expr_comments].
    + pose proof (emits_expression (l_data lhs)) as Hl. pose proof (emits_expression (l_data rhs)) as Hr.
      repeat emits_step; try exact Hl; try exact Hr; try reflexivity.
      rewrite !app_nil_r, <- !app_assoc. reflexivity.
    + pose proof (emits_factor (l_data f)) as Hf.
      repeat emits_step; try exact Hf; try reflexivity.
      rewrite <- !app_assoc. reflexivity.
  - intros f. destruct f as [star | lp inner rp | name lp args rp | path modifier | ty value | s];
      cbn [format_expression_factor factor_comments].
    + apply emits_loc.
    + pose proof (emits_expression (l_data inner)) as Hi.
      repeat emits_step; try exact Hi; try reflexivity. rewrite <- !app_assoc. reflexivity.
    + assert (Hargs : forall ec, In ec args -> emits (format_expression (l_data (fst ec))) (expr_comments (l_data (fst ec)))).
      { clear - emits_expression. induction args as [|a r IH]; intros ec Hin; [destruct Hin|].
        destruct Hin as [<-|Hin]; [apply emits_expression | apply IH; assumption]. }
      pose proof (emits_args_fold args Hargs) as Hfold.
      eapply emits_comp; [ eapply emits_comp; [ eapply emits_comp; [ eapply emits_comp; [apply emits_loc | apply emits_loc | reflexivity]
                                                                   | exact Hfold | reflexivity ]
                                              | apply emits_clear | reflexivity ]
                         | apply emits_loc | ].
      rewrite !app_nil_r, <- !app_assoc. reflexivity.
    + repeat emits_step; reflexivity.
    + repeat emits_step; reflexivity.
    + apply emits_istring.
Qed.

(* Proofs about the token layer of the formatter model (model/FormatTokens.v) against spec/FormatSpec.v:
   which comments the token layer emits, in which order. *)
From Coq Require Import List NArith Bool Arith Lia.
Import ListNotations.
From Mos Require Import model.Utf model.Format Gen.FmtRules model.FormatTokens spec.FormatSpec proofs.FormatProofs.
Open Scope nat_scope.

(* ---------------------------------------------------------------- comment chunks of a state *)
Definition is_comment_chunk (c : chunk) : bool := match c_ty c with Some Comment => true | _ => false end.
(* the texts of the comment chunks, oldest first *)
Definition chunk_comments (cs : list chunk) : list text := map c_str (filter is_comment_chunk cs).
Definition st_comments (st : fstate) : list text := chunk_comments (rev (f_chunks st)).

(* the non-whitespace characters of the comment chunks, in order (a pending space of spc_if_next in front of a comment
   chunk does not count) *)
Definition cnows (st : fstate) : text := nows (concat (st_comments st)).
Definition tnows (cms : list text) : text := nows (concat cms).

(* `f` appends comment chunks carrying exactly the comments `cms`, in order, and touches no earlier comment chunk *)
Definition emits (f : fstate -> fstate) (cms : list text) : Prop :=
  forall st, cnows (f st) = cnows st ++ tnows cms.

Lemma chunk_comments_app : forall a b, chunk_comments (a ++ b) = chunk_comments a ++ chunk_comments b.
Proof. intros; unfold chunk_comments; rewrite filter_app, map_app; reflexivity. Qed.

Lemma tnows_app : forall a b, tnows (a ++ b) = tnows a ++ tnows b.
Proof. intros; unfold tnows; rewrite concat_app, nows_app; reflexivity. Qed.

Lemma emits_id : emits (fun st => st) [].
Proof. intros st; unfold tnows; simpl; rewrite app_nil_r; reflexivity. Qed.

Lemma emits_comp : forall f g a b c, emits g a -> emits f b -> a ++ b = c -> emits (fun st => f (g st)) c.
Proof. intros f g a b c Hg Hf <- st. rewrite Hf, Hg, tnows_app, app_assoc. reflexivity. Qed.

Lemma emits_ext : forall f g c, (forall st, f st = g st) -> emits g c -> emits f c.
Proof. intros f g c H Hg st. rewrite H. apply Hg. Qed.

Lemma emits_eq : forall f a b, tnows a = tnows b -> emits f a -> emits f b.
Proof. intros f a b H Hf st. rewrite Hf, H. reflexivity. Qed.

(* state changes that do not touch the comment chunks *)
Definition same_comments (f : fstate -> fstate) : Prop := forall st, st_comments (f st) = st_comments st.
Lemma same_emits : forall f, same_comments f -> emits f [].
Proof. intros f H st; unfold cnows; rewrite H; unfold tnows; simpl; rewrite app_nil_r; reflexivity. Qed.

Lemma push_type_comments : forall ty s st,
  st_comments (push_type ty s st) =
  st_comments st ++ match ty, s with Some Comment, _ :: _ => [if f_spc st then SP :: s else s] | _, _ => [] end.
Proof.
  intros ty s st. unfold push_type, st_comments. destruct s as [|c r].
  - destruct ty as [[|]|]; rewrite app_nil_r; reflexivity.
  - simpl. rewrite chunk_comments_app. unfold chunk_comments at 2; simpl.
    destruct ty as [[|]|]; simpl; rewrite ?app_nil_r; reflexivity.
Qed.

Lemma emits_push : forall s, emits (push s) [].
Proof. intros s. apply same_emits. intros st. unfold push. rewrite push_type_comments. destruct s; apply app_nil_r. Qed.

Lemma emits_push_label : forall s, emits (push_type (Some Label) s) [].
Proof. intros s. apply same_emits. intros st. rewrite push_type_comments. destruct s; apply app_nil_r. Qed.

Lemma emits_spc : emits spc_if_next [].
Proof. apply same_emits; intros st; reflexivity. Qed.
Lemma emits_clear : emits clear_spc_if_next [].
Proof. apply same_emits; intros st; reflexivity. Qed.

Lemma emits_push_comment : forall s, emits (push_type (Some Comment) s) [s].
Proof.
  intros s st. unfold cnows. rewrite push_type_comments. unfold tnows. destruct s as [|c r].
  - rewrite app_nil_r; simpl; rewrite app_nil_r; reflexivity.
  - rewrite concat_app, nows_app. f_equal. simpl. rewrite !app_nil_r.
    destruct (f_spc st); [|reflexivity]. change (SP :: c :: r) with ([SP] ++ c :: r). rewrite nows_app. reflexivity.
Qed.

Lemma tnows_trivium_empty : tnows [[]] = tnows [].
Proof. reflexivity. Qed.

Lemma emits_trivium : forall t, emits (fmt_trivium t) (trivium_comments t).
Proof.
  intros t. destruct t as [s| |s|s]; cbn [fmt_trivium trivium_comments].
  - apply emits_id.
  - apply emits_push.
  - destruct s; [apply (emits_eq _ [[]]); [reflexivity|] |]; apply emits_push_comment.
  - destruct s; [apply (emits_eq _ [[]]); [reflexivity|] |]; apply emits_push_comment.
Qed.

Lemma emits_fold : forall {A} (f : A -> fstate -> fstate) (g : A -> list text) (l : list A),
  (forall a, In a l -> emits (f a) (g a)) ->
  emits (fun st => fold_left (fun s a => f a s) l st) (flat_map g l).
Proof.
  intros A f g l. induction l as [|a r IH]; intros H; simpl.
  - apply emits_id.
  - eapply emits_ext with (g := fun st => (fun s => fold_left (fun s a => f a s) r s) (f a st)); [reflexivity|].
    eapply emits_comp; [apply H; left; reflexivity | apply IH; intros; apply H; right; assumption | reflexivity].
Qed.

Lemma emits_trivia : forall ts, emits (fmt_trivia ts) (flat_map trivium_comments ts).
Proof. intros ts. unfold fmt_trivia. apply (emits_fold fmt_trivium trivium_comments). intros; apply emits_trivium. Qed.

Lemma emits_otrivia : forall ot, emits (fmt_otrivia ot) (otrivia_comments ot).
Proof. intros [ts|]; simpl; [apply emits_trivia | apply emits_id]. Qed.

Lemma emits_loc : forall l, emits (fmt_loc l) (lt_comments l).
Proof.
  intros l. unfold fmt_loc.
  eapply emits_comp; [apply emits_otrivia | apply emits_push | apply app_nil_r].
Qed.

Lemma emits_opt : forall {A} (f : A -> fstate -> fstate) (g : A -> list text) (x : option A),
  (forall a, x = Some a -> emits (f a) (g a)) -> emits (fmt_opt f x) (opt_comments g x).
Proof. intros A f g [a|] H; simpl; [apply H; reflexivity | apply emits_id]. Qed.

Lemma emits_opt_loc : forall x, emits (fmt_opt fmt_loc x) (opt_comments lt_comments x).
Proof. intros; apply emits_opt; intros; apply emits_loc. Qed.

(* ---------------------------------------------------------------- automation: split `fun st => f (g st)` *)
Ltac emits_step :=
  lazymatch goal with
  | |- emits (fun st => st) _ => apply emits_id
  | |- emits (push _) _ => apply emits_push
  | |- emits (push_type (Some Label) _) _ => apply emits_push_label
  | |- emits spc_if_next _ => apply emits_spc
  | |- emits clear_spc_if_next _ => apply emits_clear
  | |- emits (fmt_loc _) _ => apply emits_loc
  | |- emits (fmt_otrivia _) _ => apply emits_otrivia
  | |- emits (fmt_opt fmt_loc _) _ => apply emits_opt_loc
  | |- emits (fun st => ?f (@?g st)) _ =>
      lazymatch g with
      | (fun st => st) => fail "no progress"
      | _ => eapply emits_comp; [ | | ]
      end
  end.

Lemma emits_istring : forall s, emits (fmt_istring s) (istring_comments s).
Proof.
  intros s. unfold fmt_istring, istring_comments, istring_comments_with.
  eapply emits_comp with (a := lt_comments (is_lquote s) ++
        flat_map (fun i => match i with IString _ => [] | IIdentifierPath p => lt_comments p end) (is_items s)) (b := []);
    [ eapply emits_comp with (a := lt_comments (is_lquote s)); [apply emits_loc | | reflexivity]
    | apply emits_push | rewrite !app_nil_r; reflexivity ].
  apply (emits_fold fmt_istring_item (fun i => match i with IString _ => [] | IIdentifierPath p => lt_comments p end)).
  intros i _. destruct i as [l|l]; cbn [fmt_istring_item].
  - apply emits_push.
  - (* the repaired interpolation defect: the source must emit the trivia in front of the path *)
    try unfold emits_interpolation_trivia.
    eapply emits_ext with (g := fun st => push [RBRACE] (fmt_loc l (push [LBRACE] st))); [reflexivity|].
    repeat emits_step; try reflexivity. unfold lt_comments. rewrite ?app_nil_r. reflexivity.
Qed.

(* ---------------------------------------------------------------- expressions *)
Lemma emits_args_fold : forall (args : arg_exprs),
  (forall ec, In ec args -> emits (format_expression (l_data (fst ec))) (expr_comments (l_data (fst ec)))) ->
  emits (fun st => fold_left (fun a (ec : located expr * option ltext) =>
                             spc_if_next (fmt_opt fmt_loc (snd ec)
                               (format_expression (l_data (fst ec)) (fmt_otrivia (l_trivia (fst ec)) a)))) args st)
        (flat_map (fun ec : located expr * option ltext =>
                  otrivia_comments (l_trivia (fst ec)) ++ expr_comments (l_data (fst ec)) ++ opt_comments lt_comments (snd ec)) args).
Proof.
  intros args H.
  apply (emits_fold (fun (ec : located expr * option ltext) a => spc_if_next (fmt_opt fmt_loc (snd ec)
                               (format_expression (l_data (fst ec)) (fmt_otrivia (l_trivia (fst ec)) a))))
                    (fun ec => otrivia_comments (l_trivia (fst ec)) ++ expr_comments (l_data (fst ec)) ++ opt_comments lt_comments (snd ec))).
  intros ec Hin. specialize (H ec Hin).
  repeat emits_step; try exact H; try reflexivity. rewrite app_nil_r, app_assoc. reflexivity.
Qed.

Lemma emits_expression : forall e, emits (format_expression e) (expr_comments e)
with emits_factor : forall f, emits (format_expression_factor f) (factor_comments f).
Proof.
  - intros e. destruct e as [lhs op rhs | tn tg f]; cbn [format_expression expr_comments].
    + pose proof (emits_expression (l_data lhs)) as Hl. pose proof (emits_expression (l_data rhs)) as Hr.
      repeat emits_step; try exact Hl; try exact Hr; try reflexivity.
      rewrite !app_nil_r, <- !app_assoc. reflexivity.
    + pose proof (emits_factor (l_data f)) as Hf.
      repeat emits_step; try exact Hf; try reflexivity.
      rewrite <- !app_assoc. reflexivity.
  - intros f. destruct f as [star | lp inner rp | name lp args rp | path modifier | ty value | s];
      cbn [format_expression_factor factor_comments].
    + apply emits_loc.
    + pose proof (emits_expression (l_data inner)) as Hi.
      repeat emits_step; try exact Hi; try reflexivity. rewrite <- !app_assoc. reflexivity.
    + assert (Hargs : forall ec, In ec args -> emits (format_expression (l_data (fst ec))) (expr_comments (l_data (fst ec)))).
      { clear - emits_expression. induction args as [|a r IH]; intros ec Hin; [destruct Hin|].
        destruct Hin as [<-|Hin]; [apply emits_expression | apply IH; assumption]. }
      pose proof (emits_args_fold args Hargs) as Hfold.
      eapply emits_comp; [ eapply emits_comp; [ eapply emits_comp; [ eapply emits_comp; [apply emits_loc | apply emits_loc | reflexivity]
                                                                   | exact Hfold | reflexivity ]
                                              | apply emits_clear | reflexivity ]
                         | apply emits_loc | ].
      rewrite !app_nil_r, <- !app_assoc. reflexivity.
    + repeat emits_step; reflexivity.
    + repeat emits_step; reflexivity.
    + apply emits_istring.
Qed.

Lemma emits_lexpr : forall e, emits (fmt_lexpr e) (lexpr_comments e).
Proof.
  intros e. unfold fmt_lexpr, lexpr_comments.
  eapply emits_comp; [apply emits_otrivia | apply emits_expression | reflexivity].
Qed.

Lemma emits_arg_exprs : forall args, emits (fmt_arg_exprs args) (arg_exprs_comments args).
Proof.
  intros args. unfold fmt_arg_exprs, arg_exprs_comments.
  eapply emits_comp; [ | apply emits_clear | apply app_nil_r ].
  apply (emits_fold (fun (ec : located expr * option ltext) a => spc_if_next (fmt_opt fmt_loc (snd ec) (fmt_lexpr (fst ec) a)))
                    (fun ec => lexpr_comments (fst ec) ++ opt_comments lt_comments (snd ec))).
  intros ec _.
  eapply emits_comp; [ eapply emits_comp; [apply emits_lexpr | apply emits_opt_loc | reflexivity] | apply emits_spc | apply app_nil_r ].
Qed.

Lemma emits_arg_ids : forall args, emits (fmt_arg_ids args) (arg_ids_comments args).
Proof.
  intros args. unfold fmt_arg_ids, arg_ids_comments.
  eapply emits_comp; [ | apply emits_clear | apply app_nil_r ].
  apply (emits_fold (fun (ic : ltext * option ltext) a => spc_if_next (fmt_opt fmt_loc (snd ic) (fmt_loc (fst ic) a)))
                    (fun ic => lt_comments (fst ic) ++ opt_comments lt_comments (snd ic))).
  intros ic _.
  eapply emits_comp; [ eapply emits_comp; [apply emits_loc | apply emits_opt_loc | reflexivity] | apply emits_spc | apply app_nil_r ].
Qed.

Lemma emits_import_as : forall a, emits (fmt_import_as a) (import_as_comments a).
Proof.
  intros a. unfold fmt_import_as, import_as_comments.
  eapply emits_comp; [ eapply emits_comp; [apply emits_loc | apply emits_push | apply app_nil_r] | apply emits_loc | reflexivity ].
Qed.

Lemma emits_opt_import_as : forall x, emits (fmt_opt fmt_import_as x) (opt_comments import_as_comments x).
Proof. intros; apply emits_opt; intros; apply emits_import_as. Qed.

Lemma emits_if : forall (b : bool) f c, emits f c -> emits (fun st => if b then f st else st) (if b then c else []).
Proof. intros [|] f c H; [exact H | apply emits_id]. Qed.

Lemma emits_arg_specific : forall args,
  emits (fmt_arg_specific args) (import_args_comments emits_import_arg_trivia (Specific args)).
Proof.
  intros args. unfold fmt_arg_specific, import_args_comments.
  eapply emits_comp; [ | apply emits_clear | apply app_nil_r ].
  apply (emits_fold (fun (pc : located specific_import_arg * option ltext) a =>
      let p := l_data (fst pc) in
      let a := if emits_import_arg_trivia then fmt_otrivia (l_trivia (fst pc)) a else a in
      spc_if_next (fmt_opt fmt_loc (snd pc) (fmt_opt fmt_import_as (sa_as p) (spc_if_next (fmt_loc (sa_path p) a)))))
    (fun pc => (if emits_import_arg_trivia then otrivia_comments (l_trivia (fst pc)) else []) ++
               lt_comments (sa_path (l_data (fst pc))) ++ opt_comments import_as_comments (sa_as (l_data (fst pc))) ++
               opt_comments lt_comments (snd pc))).
  intros pc _. cbv zeta.
  eapply emits_comp; [ eapply emits_comp; [ eapply emits_comp; [ eapply emits_comp; [ eapply emits_comp; [ | apply emits_loc | reflexivity ]
                                                                                   | apply emits_spc | reflexivity ]
                                                               | apply emits_opt_import_as | reflexivity ]
                                          | apply emits_opt_loc | reflexivity ]
                     | apply emits_spc | ].
  - apply (emits_if emits_import_arg_trivia (fmt_otrivia (l_trivia (fst pc))) _ (emits_otrivia _)).
  - rewrite !app_nil_r, <- !app_assoc. reflexivity.
Qed.

(* the list equations left by emits_comp: inner ones first (reflexivity instantiates the intermediate lists); rewriting is
   only attempted on goals without existential variables (rewriting under an evar does not terminate) *)
Ltac emits_eqs :=
  try reflexivity;
  try match goal with
      | |- ?g => tryif has_evar g then fail else (cbn [opt_comments fst snd]; rewrite ?app_nil_r, <- ?app_assoc; try reflexivity)
      end.

Lemma emits_suffix : forall o sfx,
  emits (fmt_suffix o sfx) (opt_comments (fun cr : ltext * ltext => lt_comments (fst cr) ++ lt_comments (snd cr)) sfx).
Proof.
  intros o [[comma register]|]; cbn [opt_comments fst snd]; [|apply emits_id].
  eapply emits_ext with (g := fun st => clear_spc_if_next (fmt_loc (mkLoc (l_trivia register) (casing_format (o_register_casing o) (l_data register)))
                                                         (spc_if_next (fmt_loc comma st)))); [reflexivity|].
  repeat emits_step; unfold lt_comments; cbn [l_trivia]; emits_eqs.
Qed.

Ltac ecomp :=
  lazymatch goal with
  | |- emits (fun st => ?f (@?g st)) _ => eapply (emits_comp f g)
  end.

Lemma emits_operand : forall o op, emits (fmt_operand o op) (operand_comments op).
Proof.
  intros o op. unfold fmt_operand, operand_comments.
  destruct (op_mode op).
  - eapply emits_comp; [ eapply emits_comp; [apply emits_opt_loc | apply emits_lexpr | reflexivity] | apply emits_suffix | ].
    rewrite <- !app_assoc; reflexivity.
  - eapply emits_comp; [ eapply emits_comp; [apply emits_opt_loc | apply emits_lexpr | reflexivity] | apply emits_suffix | ].
    rewrite <- !app_assoc; reflexivity.
  - eapply emits_comp; [ eapply emits_comp; [apply emits_opt_loc | apply emits_lexpr | reflexivity] | apply emits_suffix | ].
    rewrite <- !app_assoc; reflexivity.
  - eapply emits_comp; [ eapply emits_comp; [ eapply emits_comp; [apply emits_opt_loc | apply emits_lexpr | reflexivity]
                                            | apply emits_suffix | reflexivity ] | apply emits_opt_loc | ].
    rewrite <- !app_assoc; reflexivity.
  - eapply emits_comp; [ eapply emits_comp; [ eapply emits_comp; [apply emits_opt_loc | apply emits_lexpr | reflexivity]
                                            | apply emits_opt_loc | reflexivity ] | apply emits_suffix | ].
    rewrite <- !app_assoc; reflexivity.
Qed.

(* ---------------------------------------------------------------- token lists *)
Notation body := (body_comments emits_lbrace_trivia emits_import_arg_trivia).
Notation blockc := (block_comments emits_lbrace_trivia emits_import_arg_trivia).
Notation iblockc := (inner_block_comments emits_lbrace_trivia emits_import_arg_trivia).
Notation vlead := (value_lead emits_lbrace_trivia).

Definition ok_tok (t : token) : Prop := any_tok (existsb is_value_token) bad_shape t = false.
Definition ok_block (b : block) : Prop := any_block (existsb is_value_token) bad_shape b = false.

Definition veof_comments (veof : option (option (list trivia))) : list text :=
  match veof with Some tr => otrivia_comments tr | None => [] end.

(* what the loop emits: every token's body, each followed by the leading trivia of the next token *)
Fixpoint tail_comments (veof : option (option (list trivia))) (ts : list token) : list text :=
  match ts with
  | [] => []
  | t :: r => body t ++ match r with n :: _ => lead_comments n | [] => veof_comments veof end ++ tail_comments veof r
  end.

Lemma emits_newline_before : forall prev t, emits (newline_before prev t) [].
Proof.
  intros prev t. apply same_emits. intros st. unfold newline_before.
  destruct prev as [p|]; [|reflexivity].
  assert (H : forall s, st_comments (push [NL] s) = st_comments s).
  { intros s. unfold push. rewrite push_type_comments. apply app_nil_r. }
  destruct (kind_of t); try reflexivity;
    repeat match goal with |- context [if ?c then _ else _] => destruct c end; rewrite ?H; reflexivity.
Qed.

Lemma lead_not_expression : forall t, is_value_token t = false -> lead_comments t = otrivia_comments (token_trivia t).
Proof. intros t H; destruct t; try reflexivity; discriminate. Qed.

Lemma emits_loop : forall ft veof ts prev,
  (forall t, In t ts -> emits (ft t) (body t)) ->
  existsb is_value_token ts = false ->
  emits (format_tokens_loop ft veof prev ts) (tail_comments veof ts).
Proof.
  intros ft veof ts. induction ts as [|t rest IH]; intros prev Hft Hex.
  - cbn [format_tokens_loop tail_comments]. destruct veof as [tr|]; [apply emits_newline_before | apply emits_id].
  - cbn [existsb] in Hex. apply orb_false_elim in Hex as [Ht Hrest].
    assert (Ht' : emits (fun st => ft t (newline_before prev t st)) (body t)).
    { ecomp; [apply emits_newline_before | apply Hft; left; reflexivity | reflexivity]. }
    assert (Hloop : emits (format_tokens_loop ft veof (Some t) rest) (tail_comments veof rest)).
    { apply IH; [intros; apply Hft; right; assumption | assumption]. }
    cbn [format_tokens_loop tail_comments].
    destruct rest as [|n rest'].
    + destruct veof as [tr|].
      * eapply emits_ext with (g := fun st => format_tokens_loop ft (Some tr) (Some t) [] (fmt_otrivia tr (ft t (newline_before prev t st))));
          [reflexivity|].
        ecomp; [ ecomp; [exact Ht' | apply emits_otrivia | reflexivity] | exact Hloop | ].
        cbn [veof_comments]. rewrite <- !app_assoc. reflexivity.
      * eapply emits_ext with (g := fun st => format_tokens_loop ft None (Some t) [] (ft t (newline_before prev t st)));
          [reflexivity|].
        ecomp; [exact Ht' | exact Hloop | ]. cbn [veof_comments app]. reflexivity.
    + cbn [existsb] in Hrest. apply orb_false_elim in Hrest as [Hn _].
      eapply emits_ext with (g := fun st => format_tokens_loop ft veof (Some t) (n :: rest')
                                           (fmt_otrivia (token_trivia n) (ft t (newline_before prev t st)))); [reflexivity|].
      ecomp; [ ecomp; [exact Ht' | apply emits_otrivia | reflexivity] | exact Hloop | ].
      rewrite (lead_not_expression n Hn), <- !app_assoc. reflexivity.
Qed.

Lemma nows_chunk_comments_drop : forall l,
  nows (concat (chunk_comments (drop_nl_chunks l))) = nows (concat (chunk_comments l)).
Proof.
  induction l as [|c r IH]; [reflexivity|]. cbn [drop_nl_chunks].
  destruct (is_nl_chunk c) eqn:E; [|reflexivity].
  rewrite IH. unfold chunk_comments at 2. cbn [filter]. destruct (is_comment_chunk c); [|reflexivity].
  cbn [map concat]. rewrite nows_app. unfold is_nl_chunk in E. rewrite (nows_single_nl _ E). reflexivity.
Qed.

(* dropping newline chunks at the END of the oldest-first list *)
Lemma nows_chunk_comments_drop_rev : forall l,
  nows (concat (chunk_comments (rev (drop_nl_chunks l)))) = nows (concat (chunk_comments (rev l))).
Proof.
  induction l as [|c r IH]; [reflexivity|]. cbn [drop_nl_chunks].
  destruct (is_nl_chunk c) eqn:E; [|reflexivity].
  rewrite IH. cbn [rev]. rewrite chunk_comments_app, concat_app, nows_app.
  unfold chunk_comments at 3. cbn [filter]. destruct (is_comment_chunk c); cbn [map concat]; rewrite ?app_nil_r; [|reflexivity].
  unfold is_nl_chunk in E. rewrite (nows_single_nl _ E), app_nil_r. reflexivity.
Qed.

Lemma tokens_comments_tail : forall veof ts,
  existsb is_value_token ts = false ->
  match ts with
  | t :: _ => otrivia_comments (token_trivia t)
  | [] => veof_comments veof
  end ++ tail_comments veof ts = tokens_comments emits_lbrace_trivia emits_import_arg_trivia ts ++ veof_comments veof.
Proof.
  intros veof ts. induction ts as [|t rest IH]; intros Hex.
  - cbn. rewrite app_nil_r. reflexivity.
  - cbn [existsb] in Hex. apply orb_false_elim in Hex as [Ht Hrest]. specialize (IH Hrest).
    unfold tokens_comments in *. cbn [flat_map tail_comments]. rewrite <- (lead_not_expression t Ht).
    rewrite <- !app_assoc. f_equal. f_equal.
    destruct rest as [|n rest'].
    + cbn in *. rewrite app_nil_r. reflexivity.
    + cbn [existsb] in Hrest. apply orb_false_elim in Hrest as [Hn _].
      rewrite <- (lead_not_expression n Hn) in IH. exact IH.
Qed.

Lemma emits_tokens_with : forall ft veof ts trim,
  (forall t, In t ts -> emits (ft t) (body t)) ->
  existsb is_value_token ts = false ->
  emits (format_tokens_with ft veof ts trim) (tokens_comments emits_lbrace_trivia emits_import_arg_trivia ts ++ veof_comments veof).
Proof.
  intros ft veof ts trim Hft Hex.
  rewrite <- (tokens_comments_tail veof ts Hex).
  unfold format_tokens_with.
  set (first_trivia := match ts with t :: _ => token_trivia t | [] => match veof with Some tr => tr | None => None end end).
  assert (Hfirst : match ts with t :: _ => otrivia_comments (token_trivia t) | [] => veof_comments veof end = otrivia_comments first_trivia).
  { subst first_trivia. destruct ts; [destruct veof as [[?|]|]|]; reflexivity. }
  rewrite Hfirst.
  cbv zeta.
  ecomp; [ | apply (emits_loop ft veof ts None Hft Hex) | reflexivity ].
  intros st.
  set (sub := fmt_otrivia first_trivia (mkF [] (f_spc st) (f_indent st))).
  pose proof (emits_otrivia first_trivia (mkF [] (f_spc st) (f_indent st))) as Hsub. fold sub in Hsub.
  change (cnows {| f_chunks := []; f_spc := f_spc st; f_indent := f_indent st |}) with (@nil N) in Hsub.
  cbn [app] in Hsub. rewrite <- Hsub.
  unfold cnows, st_comments. cbn [f_chunks].
  rewrite rev_app_distr, rev_involutive, chunk_comments_app, concat_app, nows_app. f_equal.
  destruct trim; [apply nows_chunk_comments_drop | reflexivity].
Qed.

(* ---------------------------------------------------------------- format_token / format_block *)
Lemma go_flat_map : forall ts,
  (fix go (ts : list token) : list text :=
     match ts with [] => [] | t :: r => lead_comments t ++ body t ++ go r end) ts =
  tokens_comments emits_lbrace_trivia emits_import_arg_trivia ts.
Proof.
  induction ts as [|t r IH]; [reflexivity|]. unfold tokens_comments in *. cbn [flat_map]. rewrite <- IH, <- app_assoc. reflexivity.
Qed.

Lemma emits_indent_by : forall k, emits (indent_by k) [].
Proof. intros k. apply same_emits. intros st. reflexivity. Qed.
Lemma emits_dedent_by : forall k, emits (dedent_by k) [].
Proof. intros k. apply same_emits. intros st. reflexivity. Qed.

Lemma emits_pop_newlines : emits pop_newlines [].
Proof.
  intros st. unfold pop_newlines, cnows, st_comments. cbn [f_chunks]. rewrite nows_chunk_comments_drop_rev.
  unfold tnows; cbn; rewrite app_nil_r; reflexivity.
Qed.

Lemma emits_open_block : forall o lp, emits (open_block o lp) [].
Proof.
  intros o lp st. unfold open_block.
  destruct (o_braces o); [|destruct (emits_lbrace_trivia && last_is_nl st)];
    repeat rewrite (emits_push _ _); unfold tnows; cbn [concat nows filter]; rewrite ?app_nil_r; reflexivity.
Qed.

Lemma emits_lbrace_trivium : forall t, emits (fmt_lbrace_trivium t) (trivium_comments t).
Proof.
  intros t. destruct t as [s| |s|s]; cbn [fmt_lbrace_trivium trivium_comments].
  - apply emits_id.
  - apply emits_id.
  - destruct s; [apply (emits_eq _ [[]]); [reflexivity|] |]; apply emits_push_comment.
  - eapply emits_ext with (g := fun st => push [NL] (push_type (Some Comment) s st)); [reflexivity|].
    ecomp; [ | apply emits_push | apply app_nil_r ].
    destruct s; [apply (emits_eq _ [[]]); [reflexivity|] |]; apply emits_push_comment.
Qed.

Lemma emits_fmt_lbrace_trivia : forall ot, emits (fmt_lbrace_trivia ot) (otrivia_comments ot).
Proof.
  intros [ts|]; cbn [fmt_lbrace_trivia otrivia_comments]; [|apply emits_id].
  apply (emits_fold fmt_lbrace_trivium trivium_comments). intros; apply emits_lbrace_trivium.
Qed.

Lemma ok_block_inv : forall lp inner rp, ok_block (mkBlock lp inner rp) ->
  existsb is_value_token inner = false /\ forall t, In t inner -> ok_tok t.
Proof.
  intros lp inner rp H. unfold ok_block in H. cbn [any_block] in H. apply orb_false_elim in H as [H1 H2].
  split; [assumption|]. clear H1. induction inner as [|a r IH]; intros t Hin; [destruct Hin|].
  apply orb_false_elim in H2 as [Ha Hr]. destruct Hin as [<-|Hin]; [exact Ha | apply IH; assumption].
Qed.

Lemma emits_block_of_tokens : forall o lt lp inner rp,
  (forall t, In t inner -> emits (format_token o t) (body t)) ->
  existsb is_value_token inner = false ->
  emits (format_block o lt (mkBlock lp inner rp))
        ((if lt && emits_lbrace_trivia then lt_comments lp else []) ++ blockc (mkBlock lp inner rp)).
Proof.
  intros o lt lp inner rp Hft Hex. cbn [format_block block_comments].
  rewrite go_flat_map.
  pose proof (emits_tokens_with (format_token o) (Some (l_trivia rp)) inner true Hft Hex) as Hts.
  cbn [veof_comments] in Hts. fold (lt_comments rp) in Hts.
  cbv zeta.
  ecomp; [ ecomp; [ ecomp; [ ecomp; [ ecomp; [ ecomp;
      [ ecomp; [ | apply emits_open_block | reflexivity ] | apply emits_indent_by | reflexivity ]
      | exact Hts | reflexivity ]
      | apply emits_dedent_by | reflexivity ]
      | apply emits_pop_newlines | reflexivity ]
      | apply emits_push | reflexivity ]
      | apply emits_push | ].
  - apply (emits_if (lt && emits_lbrace_trivia) (fmt_lbrace_trivia (l_trivia lp)) _ (emits_fmt_lbrace_trivia _)).
  - cbn [app]. rewrite !app_nil_r. reflexivity.
Qed.

Ltac emits_leaf :=
  lazymatch goal with
  | |- emits (fmt_lexpr _) _ => apply emits_lexpr
  | |- emits (fmt_arg_exprs _) _ => apply emits_arg_exprs
  | |- emits (fmt_arg_ids _) _ => apply emits_arg_ids
  | |- emits (fmt_istring _) _ => apply emits_istring
  | |- emits (fmt_opt fmt_istring _) _ => apply emits_opt; intros; apply emits_istring
  | |- emits (fmt_opt (fmt_operand _) _) _ => apply emits_opt; intros; apply emits_operand
  | |- emits (fmt_arg_specific _) _ => apply emits_arg_specific
  | |- emits (fmt_opt fmt_import_as _) _ => apply emits_opt_import_as
  | |- emits (format_expression _) _ => apply emits_expression
  | _ => emits_step
  end.

Lemma vlead_nonvalue : forall t, is_value_token t = false -> vlead t = [].
Proof. intros t H. destruct t; try reflexivity; discriminate. Qed.

(* `emits (format_block o lt b) (...)` for a block b of the token being proved; IH is the lemma being proved, used on
   the elements of the block's token list by structural recursion on that list *)
Ltac block_case IH o b Hb :=
  let lp := fresh "lp" in let inner := fresh "inner" in let rp := fresh "rp" in
  let Hex := fresh "Hex" in let Hall := fresh "Hall" in
  let a := fresh "a" in let r := fresh "r" in let IHr := fresh "IHr" in let t' := fresh "t'" in let Hin := fresh "Hin" in
  let Ha := fresh "Ha" in let Hr := fresh "Hr" in
  destruct b as [lp inner rp]; destruct (ok_block_inv _ _ _ Hb) as [Hex Hall];
  apply emits_block_of_tokens; [ | exact Hex ];
  clear - IH Hall Hex; induction inner as [|a r IHr]; intros t' Hin; [destruct Hin|];
  cbn [existsb] in Hex; apply orb_false_elim in Hex as [Ha Hr];
  destruct Hin as [<-|Hin];
  [ rewrite <- (app_nil_l (body a)), <- (vlead_nonvalue a Ha); apply IH; apply Hall; left; reflexivity
  | apply IHr; [exact Hr | intros; apply Hall; right; assumption | assumption] ].

Lemma inner_blockc : forall b, iblockc b = (if true && emits_lbrace_trivia then lt_comments (block_lparen b) else []) ++ blockc b.
Proof. intros [lp inner rp]. reflexivity. Qed.

Ltac prep := cbn [format_token body_comments value_lead app]; rewrite ?inner_blockc.

Notation P_ := (existsb is_value_token).

Lemma emits_token : forall o t, ok_tok t -> emits (format_token o t) (vlead t ++ body t).
Proof.
  fix IH 2. intros o t Hok.
  destruct t.
  - (* Align *) prep. repeat emits_leaf; emits_eqs.
  - (* Assert *) prep. repeat emits_leaf; emits_eqs.
  - (* Braces *) prep. assert (Hb : ok_block b) by exact Hok.
    change (blockc b) with ((if false && emits_lbrace_trivia then lt_comments (block_lparen b) else []) ++ blockc b).
    block_case IH o b Hb.
  - (* Config *) assert (Hb : ok_block b) by exact Hok.
    cbn [format_token body_comments value_lead].
    replace ((if emits_lbrace_trivia then lead_comments (Config b) else []) ++ blockc b)
      with ((if true && emits_lbrace_trivia then lt_comments (block_lparen b) else []) ++ blockc b) by (destruct b; reflexivity).
    block_case IH o b Hb.
  - (* ConfigPair *)
    assert (H2 : (match l_data value with Config _ | Expression _ => false | _ => true end) || any_tok P_ bad_shape (l_data value) = false) by exact Hok.
    apply orb_false_elim in H2 as [_ Hv0].
    assert (Hv : emits (format_token o (l_data value)) (vlead (l_data value) ++ body (l_data value))) by (apply IH; exact Hv0).
    cbn [format_token body_comments value_lead app].
    repeat emits_leaf; try exact Hv; emits_eqs.
  - (* Data *) prep. repeat emits_leaf; emits_eqs.
  - (* Definition *)
    destruct value as [v|].
    + assert (H2 : (match v with Config _ => false | _ => true end) || any_tok P_ bad_shape v = false) by exact Hok.
      apply orb_false_elim in H2 as [_ Hv0].
      assert (Hv : emits (format_token o v) (vlead v ++ body v)) by (apply IH; exact Hv0).
      cbn [format_token body_comments value_lead app].
      repeat emits_leaf; try exact Hv; emits_eqs.
    + prep. repeat emits_leaf; emits_eqs.
  - (* Eof *) prep. apply emits_id.
  - (* Error *) prep. apply emits_push.
  - (* Expression *) prep. apply emits_expression.
  - (* File *) prep. repeat emits_leaf; emits_eqs.
  - (* If *)
    destruct tag_else as [te|]; [destruct else_ as [eb|] | destruct else_ as [eb|]]; prep.
    + assert (H2 : any_block P_ bad_shape if_ || any_block P_ bad_shape eb = false) by exact Hok.
      apply orb_false_elim in H2 as [Hb1 Hb2].
      assert (Hif : emits (format_block o true if_) ((if true && emits_lbrace_trivia then lt_comments (block_lparen if_) else []) ++ blockc if_))
        by (block_case IH o if_ Hb1).
      assert (Helse : emits (format_block o true eb) ((if true && emits_lbrace_trivia then lt_comments (block_lparen eb) else []) ++ blockc eb))
        by (block_case IH o eb Hb2).
      destruct (o_braces o).
      * repeat emits_leaf; try exact Hif; try exact Helse; cbn [opt_comments]; emits_eqs.
      * ecomp; [ ecomp; [ | apply emits_loc | reflexivity ] | exact Helse | ].
        -- instantiate (1 := lexpr_comments value ++ (if true && emits_lbrace_trivia then lt_comments (block_lparen if_) else []) ++ blockc if_).
           destruct (trivia_has_newline (l_trivia te)).
           ++ repeat emits_leaf; try exact Hif; emits_eqs.
           ++ repeat emits_leaf; try exact Hif; emits_eqs.
        -- cbn [opt_comments]. emits_eqs.
    + assert (H2 : any_block P_ bad_shape if_ || false = false) by exact Hok.
      rewrite orb_false_r in H2.
      assert (Hif : emits (format_block o true if_) ((if true && emits_lbrace_trivia then lt_comments (block_lparen if_) else []) ++ blockc if_))
        by (block_case IH o if_ H2).
      destruct (o_braces o).
      * repeat emits_leaf; try exact Hif; cbn [opt_comments]; emits_eqs.
      * ecomp; [ | apply emits_loc | ].
        -- instantiate (1 := lexpr_comments value ++ (if true && emits_lbrace_trivia then lt_comments (block_lparen if_) else []) ++ blockc if_).
           destruct (trivia_has_newline (l_trivia te)).
           ++ repeat emits_leaf; try exact Hif; emits_eqs.
           ++ repeat emits_leaf; try exact Hif; emits_eqs.
        -- cbn [opt_comments]. emits_eqs.
    + discriminate Hok.
    + assert (H2 : any_block P_ bad_shape if_ || false = false) by exact Hok.
      rewrite orb_false_r in H2.
      assert (Hif : emits (format_block o true if_) ((if true && emits_lbrace_trivia then lt_comments (block_lparen if_) else []) ++ blockc if_))
        by (block_case IH o if_ H2).
      repeat emits_leaf; try exact Hif; cbn [opt_comments]; emits_eqs.
  - (* Import *)
    destruct args as [c as_ | sargs]; destruct b as [bb|]; prep; cbn [import_args_comments].
    + assert (Hb : ok_block bb) by exact Hok.
      assert (Hbb : emits (format_block o true bb) ((if true && emits_lbrace_trivia then lt_comments (block_lparen bb) else []) ++ blockc bb))
        by (block_case IH o bb Hb).
      repeat emits_leaf; try exact Hbb; emits_eqs.
    + repeat emits_leaf; emits_eqs.
    + assert (Hb : ok_block bb) by exact Hok.
      assert (Hbb : emits (format_block o true bb) ((if true && emits_lbrace_trivia then lt_comments (block_lparen bb) else []) ++ blockc bb))
        by (block_case IH o bb Hb).
      repeat emits_leaf; try exact Hbb; emits_eqs.
    + repeat emits_leaf; emits_eqs.
  - (* Instruction *) prep. repeat emits_leaf; emits_eqs.
  - (* Label *)
    destruct b as [bb|]; prep.
    + assert (H2 : (match l_trivia colon with Some _ => true | None => false end) || any_block P_ bad_shape bb = false) by exact Hok.
      apply orb_false_elim in H2 as [_ Hb].
      assert (Hbb : emits (format_block o true bb) ((if true && emits_lbrace_trivia then lt_comments (block_lparen bb) else []) ++ blockc bb))
        by (block_case IH o bb Hb).
      repeat emits_leaf; try exact Hbb; emits_eqs.
    + apply emits_push_label.
  - (* Loop *) prep.
    assert (Hb : ok_block b) by exact Hok.
    assert (Hbb : emits (format_block o true b) ((if true && emits_lbrace_trivia then lt_comments (block_lparen b) else []) ++ blockc b))
      by (block_case IH o b Hb).
    repeat emits_leaf; try exact Hbb; emits_eqs.
  - (* MacroDefinition *) prep.
    assert (Hb : ok_block b) by exact Hok.
    assert (Hbb : emits (format_block o true b) ((if true && emits_lbrace_trivia then lt_comments (block_lparen b) else []) ++ blockc b))
      by (block_case IH o b Hb).
    repeat emits_leaf; try exact Hbb; emits_eqs.
  - (* MacroInvocation *) prep. repeat emits_leaf; emits_eqs.
  - (* ProgramCounterDefinition *) prep. repeat emits_leaf; emits_eqs.
  - (* Segment *)
    destruct b as [bb|]; prep.
    + assert (Hb : ok_block bb) by exact Hok.
      assert (Hbb : emits (format_block o true bb) ((if true && emits_lbrace_trivia then lt_comments (block_lparen bb) else []) ++ blockc bb))
        by (block_case IH o bb Hb).
      repeat emits_leaf; try exact Hbb; emits_eqs.
    + repeat emits_leaf; emits_eqs.
  - (* Test *) prep.
    assert (Hb : ok_block b) by exact Hok.
    assert (Hbb : emits (format_block o true b) ((if true && emits_lbrace_trivia then lt_comments (block_lparen b) else []) ++ blockc b))
      by (block_case IH o b Hb).
    repeat emits_leaf; try exact Hbb; emits_eqs.
  - (* Text *) prep. repeat emits_leaf; emits_eqs.
  - (* Trace *) prep. repeat emits_leaf; emits_eqs.
  - (* VariableDefinition *) prep. repeat emits_leaf; emits_eqs.
Qed.

(* ---------------------------------------------------------------- the file level *)
Lemma ok_tokens_inv : forall ts, wf_tokens ts = true ->
  existsb is_value_token ts = false /\ forall t, In t ts -> ok_tok t.
Proof.
  intros ts H. unfold wf_tokens, any_tokens in H. apply negb_true_iff in H. apply orb_false_elim in H as [H1 H2].
  split; [assumption|]. intros t Hin. unfold ok_tok. clear H1.
  induction ts as [|a r IH]; [destruct Hin|]. cbn [existsb] in H2.
  apply orb_false_elim in H2 as [Ha H2].
  destruct Hin as [<-|Hin]; [exact Ha | apply IH; assumption].
Qed.

(* the comment chunks of a formatted file carry exactly the comments the token layer is expected to emit, in order *)
Lemma existsb_false_in : forall {A} (f : A -> bool) l x, existsb f l = false -> In x l -> f x = false.
Proof.
  intros A f l x H Hin. destruct (f x) eqn:E; [|reflexivity].
  assert (existsb f l = true) by (apply existsb_exists; exists x; split; assumption). congruence.
Qed.

Lemma format_chunks_comments : forall o ts, wf_tokens ts = true ->
  nows (concat (chunk_comments (format_chunks o ts))) = nows (concat (emitted_comments ts)).
Proof.
  intros o ts Hwf. destruct (ok_tokens_inv ts Hwf) as [Hex Hall].
  assert (Hft : forall t, In t ts -> emits (format_token o t) (body t)).
  { intros t Hin. rewrite <- (app_nil_l (body t)), <- (vlead_nonvalue t (existsb_false_in _ _ _ Hex Hin)).
    apply emits_token. apply Hall. exact Hin. }
  pose proof (emits_tokens_with (format_token o) None ts false Hft Hex f_init) as H.
  cbn [veof_comments] in H. rewrite app_nil_r in H.
  change (cnows f_init) with (@nil N) in H. cbn [app] in H. exact H.
Qed.

Lemma text_eqb_eq : forall x y, text_eqb x y = true -> x = y.
Proof.
  induction x as [|c x IHx]; destruct y as [|d y]; cbn; intros H; try discriminate; [reflexivity|].
  apply andb_prop in H as [Hc Hy]. apply N.eqb_eq in Hc. subst. f_equal. apply IHx; assumption.
Qed.

Lemma texts_eqb_eq : forall a b, texts_eqb a b = true -> a = b.
Proof.
  induction a as [|x a IH]; destruct b as [|y b]; cbn; intros H; try discriminate; [reflexivity|].
  apply andb_prop in H as [H1 H2]. f_equal; [apply text_eqb_eq; assumption | apply IH; assumption].
Qed.

(* C12: the token layer emits every comment of the file, in source order.  This needs the two repaired defects to be
   in the source: Gen.FmtRules.emits_lbrace_trivia and emits_import_arg_trivia (read off the Rust code on every run)
   must both be true -- with either of them false `emitted_comments` is a proper sublist and this proof fails. *)
Theorem comments_in_order : forall o ts, wf_tokens ts = true ->
  nows (concat (chunk_comments (format_chunks o ts))) = nows (concat (all_comments ts)).
Proof. intros o ts Hwf. rewrite (format_chunks_comments o ts Hwf). reflexivity. Qed.

(* ---------------------------------------------------------------- the repaired F-C12a on the model *)
(* `.if 1 // c` NEWLINE `{ nop }` as the parser builds it *)
Definition lbrace_witness : list token :=
  [ If (mkLoc None [46; 105; 102]%N)
       (mkLoc (Some [Whitespace [32%N]]) (Factor None None (mkLoc None (Number (mkLoc None []) (mkLoc None [49%N])))))
       (mkBlock (mkLoc (Some [Whitespace [32%N]; CppStyle [47; 47; 32; 99]%N; TNewLine]) [123%N])
                [Instruction (mkLoc (Some [Whitespace [32%N]]) [78; 79; 80]%N) None]
                (mkLoc (Some [Whitespace [32%N]]) [125%N]))
       None None;
    Eof (mkLoc None tt) ].

(* the comment in front of `{` is emitted, followed by a line break *)
Lemma lbrace_trivia_kept : exists o ts,
  wf_tokens ts = true /\ Known_lbrace_trivia ts = true /\
  all_comments ts = [[47; 47; 32; 99]%N] /\ chunk_comments (format_chunks o ts) = [[47; 47; 32; 99]%N].
Proof. exists default_options, lbrace_witness. vm_compute. repeat split; reflexivity. Qed.

(* ---------------------------------------------------------------- statements are separated by a line break *)
(* every formatter step only appends chunks *)
Lemma push_type_chunks : forall ty s st, exists new, f_chunks (push_type ty s st) = new ++ f_chunks st.
Proof. intros ty s st. unfold push_type. destruct s; [exists [] | eexists [_]]; reflexivity. Qed.

Lemma fmt_trivia_chunks : forall ts st, exists new, f_chunks (fmt_trivia ts st) = new ++ f_chunks st /\
  (existsb (fun t => match t with TNewLine => true | _ => false end) ts = true ->
   existsb (fun c => contains_nl (c_str c)) new = true).
Proof.
  unfold fmt_trivia. induction ts as [|t r IH]; intros st; cbn [fold_left existsb].
  - exists []. split; [reflexivity | discriminate].
  - destruct (IH (fmt_trivium t st)) as [n2 [E2 H2]].
    assert (H1 : exists n1, f_chunks (fmt_trivium t st) = n1 ++ f_chunks st /\
                 (match t with TNewLine => true | _ => false end = true -> existsb (fun c => contains_nl (c_str c)) n1 = true)).
    { destruct t as [s| |s|s]; cbn [fmt_trivium].
      - exists []. split; [reflexivity | discriminate].
      - unfold push, push_type. eexists [_]. split; [reflexivity|]. intros _. cbn. destruct (f_spc st); reflexivity.
      - destruct (push_type_chunks (Some Comment) s st) as [n E]. exists n. split; [exact E | discriminate].
      - destruct (push_type_chunks (Some Comment) s st) as [n E]. exists n. split; [exact E | discriminate]. }
    destruct H1 as [n1 [E1 H1]]. exists (n2 ++ n1). rewrite E2, E1, app_assoc. split; [reflexivity|].
    intros H. rewrite existsb_app. apply orb_true_iff in H as [H|H]; [rewrite (H1 H), orb_true_r | rewrite (H2 H)]; reflexivity.
Qed.

(* C12 (repaired defect 498deb7): between a statement and the next one -- unless the first is a label standing in front of
   its statement -- the formatter always emits a chunk that contains a line break: two statements are never emitted
   back to back.  `st` is the state after the first statement. *)
Theorem statements_separated : forall p t st,
  is_blockless_label p = false -> is_eof_token t = false -> kind_of t <> KError ->
  exists gap, f_chunks (newline_before (Some p) t (fmt_otrivia (token_trivia t) st)) = gap ++ f_chunks st /\
              existsb (fun c => contains_nl (c_str c)) gap = true.
Proof.
  intros p t st Hp Ht Hk.
  assert (Htr : exists n1, f_chunks (fmt_otrivia (token_trivia t) st) = n1 ++ f_chunks st /\
                (trivia_has_newline (token_trivia t) = true -> existsb (fun c => contains_nl (c_str c)) n1 = true)).
  { unfold fmt_otrivia, trivia_has_newline. destruct (token_trivia t) as [ts|].
    - apply fmt_trivia_chunks.
    - exists []. split; [reflexivity | discriminate]. }
  destruct Htr as [n1 [E1 H1]].
  set (st1 := fmt_otrivia (token_trivia t) st) in *.
  unfold newline_before. rewrite Hp, Ht. cbn [negb andb].
  assert (Hpush : forall s, f_chunks (push [NL] s) = mkChunk None (f_indent s) (if f_spc s then [SP; NL] else [NL]) :: f_chunks s).
  { intros s. unfold push, push_type. reflexivity. }
  assert (Hsep : separates_same_line_statements = true) by reflexivity.
  rewrite Hsep. cbn [andb].
  destruct (trivia_has_newline (token_trivia t)) eqn:Enl; cbn [negb andb].
  - (* the trivia already carries a line break *)
    assert (Hgoal : forall s', (exists n2, f_chunks s' = n2 ++ f_chunks st1) ->
                    exists gap, f_chunks s' = gap ++ f_chunks st /\ existsb (fun c => contains_nl (c_str c)) gap = true).
    { intros s' [n2 E2]. exists (n2 ++ n1). rewrite E2, E1, app_assoc. split; [reflexivity|].
      rewrite existsb_app, (H1 eq_refl), orb_true_r. reflexivity. }
    destruct (kind_of t) eqn:Ek; try congruence;
      (destruct (pushes_newline _ _ _); apply Hgoal; [eexists [_]; apply Hpush | exists []; reflexivity]).
  - (* it does not: the separating newline is pushed *)
    assert (Hgoal : forall s', (exists n2, f_chunks s' = n2 ++ f_chunks (push [NL] st1)) ->
                    exists gap, f_chunks s' = gap ++ f_chunks st /\ existsb (fun c => contains_nl (c_str c)) gap = true).
    { intros s' [n2 E2]. eexists (n2 ++ _ :: n1). rewrite E2, Hpush, E1, <- app_assoc. split; [reflexivity|].
      rewrite existsb_app. cbn [existsb c_str]. destruct (f_spc st1); cbn; rewrite ?orb_true_r; reflexivity. }
    destruct (kind_of t) eqn:Ek; try congruence;
      (destruct (pushes_newline _ _ _); apply Hgoal; [eexists [_]; apply Hpush | exists []; reflexivity]).
Qed.

From Coq Require Import List NArith Bool Lia ZifyBool ZifyN ZifyNat.
Import ListNotations.
From Mos Require Import Gen.TextEnc model.TextEnc spec.TextEncSpec.
Open Scope N_scope.

(* the finite ranges, as lists *)
Definition nrange (lo : N) (n : nat) : list N := map (fun k => lo + N.of_nat k) (seq 0 n).
Lemma in_nrange lo n c : lo <= c < lo + N.of_nat n -> In c (nrange lo n).
Proof.
  intros H. unfold nrange. apply in_map_iff. exists (N.to_nat (c - lo)). split; [lia|].
  apply in_seq. lia.
Qed.

Lemma petscii_printable_sweep : forallb (fun c => petscii_of_char c =? spec_petscii c) (nrange 32 95) = true.
Proof. vm_compute. reflexivity. Qed.
Lemma petscii_printable c : printable c -> petscii_of_char c = spec_petscii c.
Proof.
  intros H. unfold printable in H. apply N.eqb_eq.
  apply (proj1 (forallb_forall _ _) petscii_printable_sweep c). apply in_nrange. lia.
Qed.

Lemma screen_printable_sweep :
  forallb (fun c => petscreen_of_byte (petscii_of_char c) =? spec_screen c) (nrange 32 95) = true.
Proof. vm_compute. reflexivity. Qed.
Lemma screen_printable c : printable c -> petscreen_of_byte (petscii_of_char c) = spec_screen c.
Proof.
  intros H. unfold printable in H. apply N.eqb_eq.
  apply (proj1 (forallb_forall _ _) screen_printable_sweep c). apply in_nrange. lia.
Qed.

(* the petscreen match is exhaustive over u8 and stays inside u8 *)
Lemma screen_exhaustive_sweep :
  forallb (fun b => match screen_of petscreen_arms b with Some x => x <? 256 | None => false end) (nrange 0 256) = true.
Proof. vm_compute. reflexivity. Qed.
Lemma screen_exhaustive b : b < 256 -> exists x, screen_of petscreen_arms b = Some x /\ x < 256.
Proof.
  intros H. pose proof (proj1 (forallb_forall _ _) screen_exhaustive_sweep b) as Hs.
  specialize (Hs (in_nrange 0 256 b ltac:(lia))). cbv beta in Hs.
  destruct (screen_of petscreen_arms b) as [x|]; [|discriminate]. exists x. split; [reflexivity|lia].
Qed.

(* every character becomes exactly one PETSCII byte *)
Lemma find_index_bound c l i p : find_index c l i = Some p -> i <= p < i + N.of_nat (length l).
Proof.
  revert i. induction l as [|x r IH]; intros i; cbn [find_index length]; [discriminate|].
  destruct (x =? c).
  - intros [= <-]. lia.
  - intros H. apply IH in H. lia.
Qed.
Lemma petscii_byte c : petscii_of_char c < 256.
Proof.
  unfold petscii_of_char. destruct (find_index c petscii_to_char_map 0) as [p|] eqn:E.
  - apply find_index_bound in E. change (N.of_nat (length petscii_to_char_map)) with 256 in E. lia.
  - vm_compute. reflexivity.
Qed.

Lemma text_ascii s : Forall (fun c => c < 128) s -> encode_text EncAscii s = s.
Proof.
  induction 1 as [|c s Hc _ IH]; cbn [encode_text flat_map] in *; [reflexivity|].
  unfold utf8 at 1. replace (c <? 128) with true by lia. cbn [app]. now rewrite IH.
Qed.

Lemma text_petscii s : Forall printable s -> encode_text EncPetscii s = map spec_petscii s.
Proof.
  intros H. cbn [encode_text]. apply map_ext_in. intros c Hc. apply petscii_printable.
  exact (proj1 (Forall_forall _ _) H c Hc).
Qed.
Lemma text_petscreen s : Forall printable s -> encode_text EncPetscreen s = map spec_screen s.
Proof.
  intros H. cbn [encode_text]. apply map_ext_in. intros c Hc. apply screen_printable.
  exact (proj1 (Forall_forall _ _) H c Hc).
Qed.

Lemma text_one_byte_per_char enc s : enc <> EncAscii ->
  length (encode_text enc s) = length s /\ Forall (fun b => b < 256) (encode_text enc s).
Proof.
  intros He. destruct enc; [contradiction| |]; cbn [encode_text]; rewrite map_length; (split; [reflexivity|]).
  - apply Forall_forall. intros b Hb. apply in_map_iff in Hb as (c & <- & _). apply petscii_byte.
  - apply Forall_forall. intros b Hb. apply in_map_iff in Hb as (c & <- & _).
    unfold petscreen_of_byte. destruct (screen_exhaustive _ (petscii_byte c)) as (x & -> & Hx). exact Hx.
Qed.

(* Proofs for C11: the emission model produces well-formed emissions (wf_emission). *)
From Coq Require Import List NArith ZArith Bool Arith Lia.
Import ListNotations.
From Mos Require Import model.SourceMap model.Listing model.Emit spec.ListingSpec proofs.ListingProofs.
Open Scope Z_scope.

(* ------------------------------------------------------------------ hypotheses of the theorem, as executable definitions *)
(* the addresses pc .. pc+len-1 of the segment have not been written in this pass *)
Definition fresh (g : seg) (len : nat) : bool :=
  forallb (fun k => negb (existsb (Z.eqb (g_pc g + Z.of_nat k)) (map fst (g_mem g)))) (seq 0 len).

(* no emission overwrites bytes emitted earlier in the pass (the pc is never moved back into written memory) *)
Fixpoint no_overwrite (ops : list op) (c : ctx) : bool :=
  match ops with
  | [] => true
  | o :: r =>
      (match o, c_current c with
       | OEmit _ bs, Some name => match get_seg (c_segments c) name with Some g => fresh g (length bs) | None => true end
       | _, _ => true
       end) &&
      match step c o with Done c' => no_overwrite r c' | _ => true end
  end.

(* the bytes of the emissions that created a source map entry, in order *)
Fixpoint emitted (ops : list op) (c : ctx) : list (list N) :=
  match ops with
  | [] => []
  | o :: r =>
      (match o, c_current c with OEmit _ bs, Some _ => [bs] | _, _ => [] end) ++
      match step c o with Done c' => emitted r c' | _ => [] end
  end.

(* ------------------------------------------------------------------ memory *)
Lemma read_write_other : forall bs mem s a,
  (forall k, (k < length bs)%nat -> a <> s + Z.of_nat k) -> read (write mem s bs) a = read mem a.
Proof.
  induction bs as [|b r IH]; intros mem s a H; [reflexivity|]. cbn [write].
  rewrite IH.
  - cbn [read]. destruct (s =? a) eqn:E; [|reflexivity]. apply Z.eqb_eq in E. exfalso. apply (H 0%nat); [cbn; lia|]. cbn. lia.
  - intros k Hk. specialize (H (S k)). cbn [length] in H. intro E. apply H; lia.
Qed.

Lemma read_write_same : forall bs mem s k, (k < length bs)%nat -> read (write mem s bs) (s + Z.of_nat k) = nth k bs 0%N.
Proof.
  induction bs as [|b r IH]; intros mem s k Hk; [cbn in Hk; lia|]. cbn [write]. destruct k as [|k].
  - rewrite read_write_other.
    + cbn [read]. replace (s + Z.of_nat 0) with s by lia. rewrite Z.eqb_refl. reflexivity.
    + intros j _. lia.
  - replace (s + Z.of_nat (S k)) with (s + 1 + Z.of_nat k) by lia. rewrite IH by (cbn in Hk; lia). reflexivity.
Qed.

Lemma in_write_old : forall bs mem s a, In a (map fst mem) -> In a (map fst (write mem s bs)).
Proof. induction bs as [|b r IH]; intros mem s a H; [exact H|]. cbn [write]. apply IH. cbn. right. exact H. Qed.

Lemma in_write_new : forall bs mem s k, (k < length bs)%nat -> In (s + Z.of_nat k) (map fst (write mem s bs)).
Proof.
  induction bs as [|b r IH]; intros mem s k Hk; [cbn in Hk; lia|]. cbn [write]. destruct k as [|k].
  - apply in_write_old. cbn. left. lia.
  - replace (s + Z.of_nat (S k)) with (s + 1 + Z.of_nat k) by lia. apply IH. cbn in Hk. lia.
Qed.

Lemma fresh_spec : forall g len, fresh g len = true ->
  forall k, (k < len)%nat -> ~ In (g_pc g + Z.of_nat k) (map fst (g_mem g)).
Proof.
  intros g len H k Hk Hin. unfold fresh in H. rewrite forallb_forall in H.
  specialize (H k). rewrite in_seq in H. assert (Hx : (0 <= k < 0 + len)%nat) by lia. apply H in Hx.
  apply negb_true_iff in Hx. assert (E : existsb (Z.eqb (g_pc g + Z.of_nat k)) (map fst (g_mem g)) = true).
  { apply existsb_exists. exists (g_pc g + Z.of_nat k). split; [exact Hin|apply Z.eqb_refl]. }
  congruence.
Qed.

(* ------------------------------------------------------------------ segment table *)
Lemma get_put_same : forall segs name g g', get_seg segs name = Some g -> get_seg (put_seg segs name g') name = Some g'.
Proof.
  induction segs as [|[k g0] r IH]; intros name g g' H; cbn [get_seg put_seg] in *; [discriminate|].
  destruct (N.eqb k name) eqn:E; cbn [get_seg]; rewrite E; [reflexivity|]. eapply IH. exact H.
Qed.

Lemma get_put_other : forall segs name n2 g', n2 <> name -> get_seg (put_seg segs name g') n2 = get_seg segs n2.
Proof.
  induction segs as [|[k g0] r IH]; intros name n2 g' H; cbn [get_seg put_seg]; [reflexivity|].
  destruct (N.eqb k name) eqn:E; cbn [get_seg].
  - apply N.eqb_eq in E. subst k. destruct (N.eqb name n2) eqn:E2; [apply N.eqb_eq in E2; congruence|reflexivity].
  - destruct (N.eqb k n2); [reflexivity|]. apply IH. exact H.
Qed.

(* ------------------------------------------------------------------ the invariant *)
Definition entry_inv (segs : list (N * seg)) (o : offset) (bs : list N) : Prop :=
  o_pc1 o = o_pc0 o + Z.of_nat (length bs) /\
  (bs <> [] -> exists g, get_seg segs (o_segment o) = Some g /\ g_written g = true /\
     g_lo g <= o_pc0 o - target_offset g /\ o_pc0 o - target_offset g + Z.of_nat (length bs) <= g_hi g /\
     (forall k, (k < length bs)%nat -> read (g_mem g) (o_pc0 o - target_offset g + Z.of_nat k) = nth k bs 0%N) /\
     (forall k, (k < length bs)%nat -> In (o_pc0 o - target_offset g + Z.of_nat k) (map fst (g_mem g)))).

Definition inv (c : ctx) (bl : list (list N)) : Prop := Forall2 (entry_inv (c_segments c)) (c_sm c) bl.

Lemma entry_inv_retarget : forall segs sc sp o bs, entry_inv segs o bs -> entry_inv segs (retarget sc sp o) bs.
Proof. intros segs sc sp o bs H. exact H. Qed.

Lemma inv_move : forall segs sm bl first sc sp,
  Forall2 (entry_inv segs) sm bl -> Forall2 (entry_inv segs) (move_offsets sm first sc sp) bl.
Proof.
  intros segs sm bl first sc sp H. unfold move_offsets. revert first.
  induction H as [|o bs sm' bl' Ho H IH]; intros first.
  - rewrite firstn_nil, skipn_nil. constructor.
  - destruct first as [|f]; cbn [firstn skipn map app].
    + constructor; [apply entry_inv_retarget; exact Ho|]. specialize (IH 0%nat). cbn [firstn skipn app] in IH. exact IH.
    + constructor; [exact Ho|]. apply IH.
Qed.

(* entries are unaffected by a change to a segment that keeps what they rely on *)
Lemma entry_inv_put : forall segs name g g' o bs,
  get_seg segs name = Some g ->
  (g_written g = true -> g_written g' = true) -> target_offset g' = target_offset g ->
  (g_written g = true -> g_lo g' <= g_lo g /\ g_hi g <= g_hi g') ->
  (forall a, In a (map fst (g_mem g)) -> read (g_mem g') a = read (g_mem g) a /\ In a (map fst (g_mem g'))) ->
  entry_inv segs o bs -> entry_inv (put_seg segs name g') o bs.
Proof.
  intros segs name g g' o bs Hg Hw Ht Hr Hm [H1 H2]. split; [exact H1|]. intros Hne.
  destruct (H2 Hne) as [g0 [G1 [G2 [G3 [G4 [G5 G6]]]]]].
  destruct (N.eq_dec (o_segment o) name) as [E|E].
  - rewrite E in G1. rewrite Hg in G1. inversion G1; subst g0. exists g'. rewrite E.
    split; [eapply get_put_same; exact Hg|]. split; [exact (Hw G2)|]. rewrite Ht. destruct (Hr G2) as [R1 R2].
    split; [lia|]. split; [lia|]. split.
    + intros k Hk. destruct (Hm _ (G6 k Hk)) as [M1 _]. rewrite M1. apply G5. exact Hk.
    + intros k Hk. destruct (Hm _ (G6 k Hk)) as [_ M2]. exact M2.
  - exists g0. rewrite get_put_other by exact E. repeat split; assumption.
Qed.
(* ------------------------------------------------------------------ steps preserve the invariant *)
Lemma Forall2_snoc : forall {A B} (R : A -> B -> Prop) l1 l2 a b, Forall2 R l1 l2 -> R a b -> Forall2 R (l1 ++ [a]) (l2 ++ [b]).
Proof. intros. apply Forall2_app; [assumption|constructor; [assumption|constructor]]. Qed.

Lemma Forall2_impl : forall {A B} (R S : A -> B -> Prop) l1 l2, (forall a b, R a b -> S a b) -> Forall2 R l1 l2 -> Forall2 S l1 l2.
Proof. intros A B R S l1 l2 H F. induction F; constructor; auto. Qed.

Lemma emit_inv : forall segs sm bl scope sp name g g' bytes,
  Forall2 (entry_inv segs) sm bl -> get_seg segs name = Some g -> seg_emit g bytes = Some g' -> fresh g (length bytes) = true ->
  Forall2 (entry_inv (put_seg segs name g')) (add sm scope sp name (target_pc g) (length bytes)) (bl ++ [bytes]).
Proof.
  intros segs sm bl scope sp name g g' bytes F Hg He Hf. unfold seg_emit in He.
  destruct ((g_pc g >? 65535) || (g_pc g + Z.of_nat (length bytes) >? 65536)); [discriminate|]. inversion He; subst g'. clear He.
  pose proof (fresh_spec g (length bytes) Hf) as Fr.
  unfold add. apply Forall2_snoc.
  - eapply Forall2_impl; [|exact F]. intros o bs Ho. eapply entry_inv_put; [exact Hg| | | | |exact Ho].
    + intros _. reflexivity.
    + reflexivity.
    + intros Hw. cbn [g_lo g_hi]. rewrite Hw. cbn [negb]. rewrite !orb_false_r.
      destruct (g_pc g <? g_lo g) eqn:E1; destruct (g_pc g + Z.of_nat (length bytes) >? g_hi g) eqn:E2;
        try apply Z.ltb_lt in E1; try apply Z.ltb_ge in E1; try apply Z.gtb_lt in E2; try (apply Z.gtb_ltb in E2); lia.
    + intros a Ha. cbn [g_mem]. split; [|apply in_write_old; exact Ha].
      apply read_write_other. intros k Hk E. subst a. exact (Fr k Hk Ha).
  - split; [reflexivity|]. intros Hne. cbn [o_segment o_pc0 o_pc1].
    eexists. split; [eapply get_put_same; exact Hg|]. cbn [g_written g_lo g_hi g_mem]. unfold target_offset, target_pc. cbn [g_target_address g_initial_pc g_pc].
    unfold target_offset. replace (g_pc g + (g_target_address g - g_initial_pc g) - (g_target_address g - g_initial_pc g)) with (g_pc g) by lia.
    split; [reflexivity|]. split; [|split; [|split]].
    + destruct ((g_pc g <? g_lo g) || negb (g_written g)) eqn:E; [lia|]. apply orb_false_iff in E. destruct E as [E _]. apply Z.ltb_ge in E. lia.
    + destruct ((g_pc g + Z.of_nat (length bytes) >? g_hi g) || negb (g_written g)) eqn:E; [lia|]. apply orb_false_iff in E. destruct E as [E _].
      rewrite Z.gtb_ltb in E. apply Z.ltb_ge in E. lia.
    + intros k Hk. apply read_write_same. exact Hk.
    + intros k Hk. apply in_write_new. exact Hk.
Qed.

Lemma setpc_inv : forall segs sm bl name g pc,
  Forall2 (entry_inv segs) sm bl -> get_seg segs name = Some g -> Forall2 (entry_inv (put_seg segs name (set_pc g pc))) sm bl.
Proof.
  intros segs sm bl name g pc F Hg. eapply Forall2_impl; [|exact F]. intros o bs Ho.
  eapply entry_inv_put; [exact Hg| | | | |exact Ho]; cbn; auto; try lia.
Qed.

Theorem run_inv : forall ops c bl c',
  inv c bl -> run ops c = Done c' -> no_overwrite ops c = true -> inv c' (bl ++ emitted ops c).
Proof.
  induction ops as [|o r IH]; intros c bl c' I H N.
  - cbn in *. inversion H; subst. rewrite app_nil_r. exact I.
  - cbn [run] in H. cbn [no_overwrite emitted] in *. apply andb_true_iff in N. destruct N as [N1 N2].
    destruct (step c o) as [c1| | |] eqn:Es; try discriminate.
    assert (I1 : inv c1 (bl ++ match o, c_current c with OEmit _ bs, Some _ => [bs] | _, _ => [] end)).
    { unfold inv in *. destruct o as [sp bytes|pc|name|s|ms nsp|]; cbn [step] in Es.
      - unfold emit in Es. destruct (c_current c) as [name|] eqn:Ec; [|inversion Es; subst; rewrite app_nil_r; exact I].
        destruct (get_seg (c_segments c) name) as [g|] eqn:Eg; [|discriminate].
        destruct (seg_emit g bytes) as [g'|] eqn:Ee; [|discriminate]. inversion Es; subst c1. cbn [c_segments c_sm].
        eapply emit_inv; eassumption.
      - rewrite app_nil_r. destruct (c_current c) as [name|]; [|inversion Es; subst; exact I].
        destruct (get_seg (c_segments c) name) as [g|] eqn:Eg; inversion Es; subst; [|exact I]. cbn [c_segments c_sm].
        eapply setpc_inv; eassumption.
      - inversion Es; subst. destruct (c_current c); rewrite app_nil_r; exact I.
      - inversion Es; subst. destruct (c_current c); rewrite app_nil_r; exact I.
      - inversion Es; subst. destruct (c_current c); rewrite app_nil_r; exact I.
      - destruct (c_macros c) as [|[[first ps] nsp] rest]; [discriminate|]. inversion Es; subst. cbn [c_segments c_sm].
        destruct (c_current c); rewrite app_nil_r; (destruct (c_move c); [apply inv_move; exact I|exact I]). }
    rewrite app_assoc. eapply IH; eassumption.
Qed.

(* ------------------------------------------------------------------ from the invariant to wf_emission on the view *)
Lemma get_segment_view : forall segs name,
  get_segment (map (fun kg => (fst kg, view (snd kg))) segs) name = option_map view (get_seg segs name).
Proof.
  induction segs as [|[k g] r IH]; intros name; [reflexivity|]. cbn [map get_segment get_seg fst snd].
  destruct (N.eqb k name); [reflexivity|apply IH].
Qed.

Lemma map_seq_shift : forall {A} (f : nat -> A) s len, map f (seq s len) = map (fun k => f (s + k)%nat) (seq 0 len).
Proof.
  intros A f s len. revert s f. induction len as [|n IH]; intros s f; [reflexivity|].
  cbn [seq map]. rewrite Nat.add_0_r. f_equal. rewrite (IH (S s)), (IH 1%nat). apply map_ext. intros k. f_equal. lia.
Qed.

Lemma map_seq_nth : forall (bs : list N) (f : nat -> N), (forall k, (k < length bs)%nat -> f k = nth k bs 0%N) -> map f (seq 0 (length bs)) = bs.
Proof.
  induction bs as [|b r IH]; intros f H; [reflexivity|]. cbn [length seq map]. f_equal; [apply (H 0%nat); cbn; lia|].
  rewrite (map_seq_shift f 1). apply IH. intros k Hk. apply (H (S k)). cbn; lia.
Qed.

Lemma skipn_seq' : forall n start len, skipn n (seq start len) = seq (start + n) (len - n).
Proof.
  induction n as [|n IH]; intros start len; [rewrite Nat.add_0_r, Nat.sub_0_r; reflexivity|].
  destruct len as [|len]; [reflexivity|]. cbn [seq skipn]. rewrite IH. f_equal. lia.
Qed.

Lemma firstn_seq' : forall n start len, (n <= len)%nat -> firstn n (seq start len) = seq start n.
Proof.
  induction n as [|n IH]; intros start len H; [reflexivity|]. destruct len as [|len]; [lia|].
  cbn [seq firstn]. f_equal. apply IH. lia.
Qed.

Lemma range_slice : forall g ea len, g_written g = true -> g_lo g <= ea -> ea + Z.of_nat len <= g_hi g ->
  slice (range_data g) (Z.to_nat (ea - g_lo g)) len = map (fun k => read (g_mem g) (ea + Z.of_nat k)) (seq 0 len).
Proof.
  intros g ea len W L H. unfold slice, range_data. rewrite W.
  rewrite skipn_map, firstn_map, skipn_seq', firstn_seq' by lia.
  rewrite map_seq_shift. apply map_ext. intros k. f_equal. lia.
Qed.

Lemma entry_inv_ok : forall segs o bs, entry_inv segs o bs -> entry_ok (map (fun kg => (fst kg, view (snd kg))) segs) o bs.
Proof.
  intros segs o bs [H1 H2]. split; [exact H1|]. intros Hne. destruct (H2 Hne) as [g [G1 [G2 [G3 [G4 [G5 _]]]]]].
  exists (view g). rewrite get_segment_view, G1. split; [reflexivity|]. cbn [view ls_lo ls_hi ls_toff ls_data].
  split; [exact G3|]. split; [lia|].
  rewrite range_slice by assumption. apply map_seq_nth. exact G5.
Qed.

Lemma Forall2_combine : forall {A B} (R : A -> B -> Prop) l1 l2, Forall2 R l1 l2 -> Forall (fun e => R (fst e) (snd e)) (combine l1 l2).
Proof. intros A B R l1 l2 F. induction F; constructor; assumption. Qed.

Lemma map_fst_combine : forall {A B} (l1 : list A) (l2 : list B), length l1 = length l2 -> map fst (combine l1 l2) = l1.
Proof. induction l1 as [|a r IH]; intros [|b r2] H; cbn in *; try reflexivity; try discriminate. f_equal. apply IH. lia. Qed.

Lemma Forall2_len : forall {A B} (R : A -> B -> Prop) l1 l2, Forall2 R l1 l2 -> length l1 = length l2.
Proof. intros A B R l1 l2 F. induction F; cbn; congruence. Qed.

(* the emission model, started with an empty source map, leaves well-formed emissions *)
Theorem wf_emission_of_run : forall ops c0 c,
  c_sm c0 = [] -> run ops c0 = Done c -> no_overwrite ops c0 = true ->
  length (c_sm c) = length (emitted ops c0) /\
  wf_emission (view_segments c) (combine (c_sm c) (emitted ops c0)).
Proof.
  intros ops c0 c H0 H N.
  assert (I0 : inv c0 []) by (unfold inv; rewrite H0; constructor).
  pose proof (run_inv ops c0 [] c I0 H N) as I. cbn [app] in I. unfold inv in I. split.
  - eapply Forall2_len. exact I.
  - unfold wf_emission, view_segments. apply Forall2_combine. eapply Forall2_impl; [|exact I]. apply entry_inv_ok.
Qed.

Theorem listing_of_emission : forall ops c0 c cm n f,
  c_sm c0 = [] -> run ops c0 = Done c -> no_overwrite ops c0 = true ->
  spans_ok cm (combine (c_sm c) (emitted ops c0)) -> (0 < n)%nat ->
  to_listing_file cm (c_sm c) (view_segments c) n f =
  Ok (spec_rows n (num_lines f) (f_name f) (emissions cm (combine (c_sm c) (emitted ops c0)))).
Proof.
  intros ops c0 c cm n f H0 H N S Hn. destruct (wf_emission_of_run ops c0 c H0 H N) as [L W].
  rewrite <- (listing_rows cm (view_segments c) (combine (c_sm c) (emitted ops c0)) n f W S Hn).
  rewrite map_fst_combine by exact L. reflexivity.
Qed.

(* Proofs for C04. *)
From Coq Require Import List Bool ZArith Lia Permutation.
Import ListNotations.
From Mos Require Import Gen.BuildFlow Gen.PassLoopConds Gen.ErrSpans model.Build model.PassLoopErr model.ErrorArms.

(* ------------------------------------------------------------------ build_command *)
Section BuildProofs.
  Variables path content tree gen bank diag : Type.
  Variable parse : config path -> fs path content -> option tree * list diag.
  Variable codegen : config path -> tree -> option gen * list diag.
  Variable banks_len : gen -> nat.
  Variable prg_diag : diag.
  Variable merge_segments : gen -> list bank + list diag.
  Variable write_banks : config path -> gen -> list bank -> fs path content -> fs path content * bool.
  Variable write_listing : config path -> gen -> fs path content -> fs path content * bool.
  Variable write_symbols : config path -> gen -> fs path content -> fs path content * bool.
  Variable mkdir_ok : path -> fs path content -> bool.

  Let build := build path content tree gen bank diag parse codegen banks_len prg_diag merge_segments
                     write_banks write_listing write_symbols mkdir_ok.

  Ltac crush :=
    repeat (cbn in *; match goal with
           | H : (_, _) = (_, _) |- _ => inversion H; subst; clear H
           | H : inl _ = inl _ |- _ => inversion H; subst; clear H
           | H : Some _ = Some _ |- _ => inversion H; subst; clear H
           | H : inr _ = inr _ |- _ => inversion H; subst; clear H
           | H : inl _ = inr _ |- _ => discriminate H
           | H : inr _ = inl _ |- _ => discriminate H
           | H : context [match ?x with _ => _ end] |- _ => destruct x eqn:?
           | H : context [if ?x then _ else _] |- _ => destruct x eqn:?
           end).

  (* a build that ends with diagnostics leaves every file as it was: at most the target directory was created *)
  Theorem no_write_on_diag : forall cfg f f' ds,
    build cfg f = (f', Build.Failed _ ds) ->
    files _ _ f' = files _ _ f /\
    (dirs _ _ f' = dirs _ _ f \/ dirs _ _ f' = cfg_target_dir _ cfg :: dirs _ _ f).
  Proof.
    intros cfg f f' ds H. unfold build, Build.build, build_steps in H. cbn in H.
    crush; try discriminate; cbn; repeat split; auto; try (intro; subst; discriminate).
  Qed.

  (* a build that succeeds saw no diagnostic from the parser and none from codegen *)
  Theorem built_means_no_diag : forall cfg f f',
    build cfg f = (f', Build.Built _) ->
    exists t g, parse cfg (create_dir_all _ _ (cfg_target_dir _ cfg) f) = (Some t, []) /\ codegen cfg t = (Some g, []).
  Proof.
    intros cfg f f' H. unfold build, Build.build, build_steps in H. cbn in H.
    crush; try discriminate.
    all: repeat match goal with
           | H : Build.is_nil ?l = true |- _ => destruct l; [clear H|discriminate H]
           | H : negb (Build.is_nil ?l) = false |- _ => destruct l; [clear H|discriminate H]
           end; eauto.
  Qed.
End BuildProofs.

(* Fuel of query_traversal_steps: enough fuel always exists on a table whose parent chains end, and the answer does
   not depend on how much more is supplied. *)
From Coq Require Import List NArith Arith Bool Lia.
Import ListNotations.
From Mos Require Import model.SymGraph.

Lemma qts_fuel_suffices : forall g p f n d,
  depth f g n = Some d -> forall fuel, d < fuel -> query_traversal_steps fuel g n p <> None.
Proof.
  intros g p. induction f as [|f IH]; intros n d D fuel L; [discriminate|].
  destruct fuel as [|fuel]; [lia|]. cbn in D |- *.
  destruct (walk g n p); [discriminate|]. destruct (contains_super p); [discriminate|].
  destruct (parent g n) as [pn|]; [|discriminate].
  destruct (depth f g pn) as [d'|] eqn:Dp; [|discriminate]. cbn in D. inversion D; subst d.
  specialize (IH pn d' Dp fuel ltac:(lia)). destruct (query_traversal_steps fuel g pn p); [discriminate|congruence].
Qed.

Lemma qts_fuel_mono : forall g p fuel n steps,
  query_traversal_steps fuel g n p = Some steps -> forall k, query_traversal_steps (fuel + k) g n p = Some steps.
Proof.
  intros g p. induction fuel as [|fuel IH]; intros n steps H k; [discriminate|]. cbn in H |- *.
  destruct (walk g n p); [assumption|]. destruct (contains_super p); [assumption|].
  destruct (parent g n) as [pn|]; [|assumption].
  destruct (query_traversal_steps fuel g pn p) as [r|] eqn:Q; [|discriminate].
  rewrite (IH _ _ Q k). assumption.
Qed.

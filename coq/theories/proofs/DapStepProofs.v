(* DapStepProofs.v -- the step commands of the test runner (model/DapStep.v) against spec/DapStepSpec.v. *)
From Coq Require Import List ZArith Bool Lia.
Import ListNotations.
From Mos Require Import model.DapStep spec.DapStepSpec.
Open Scope Z_scope.

Section DapStepProofs.
  Variable pcT spT opT retT : Z -> Z.

  Notation finT := (finT opT).
  Notation run_until_return := (run_until_return opT).
  Notation step_over := (step_over opT).
  Notation step_out := (step_out opT).
  Notation call_depth := (call_depth opT).
  Notation over_loop_pinned := (over_loop_pinned pcT opT).
  Notation out_loop_pinned := (out_loop_pinned pcT opT).
  Notation step_over_pinned := (step_over_pinned pcT opT).
  Notation step_out_pinned := (step_out_pinned pcT spT opT retT).
  Notation exec_in := (exec_in opT).
  Notation depthZ := (depthZ opT).
  Notation depth := (depth opT).

  (* ---- every step command leaves the machine on the uninterrupted run, at or after where it started *)
  Lemma run_until_return_forward : forall fuel n i j, run_until_return fuel n i = Some j -> i <= j.
  Proof.
    induction fuel; simpl; intros n i j H; try discriminate.
    destruct (finT i). { inversion H; lia. }
    destruct (is_jsr opT i). { apply IHfuel in H; lia. }
    destruct (is_rts opT i).
    - destruct (n =? 0). { inversion H; lia. } apply IHfuel in H; lia.
    - apply IHfuel in H; lia.
  Qed.

  Theorem step_forward : forall fuel i j,
    (step_over fuel i = Some j \/ step_out fuel i = Some j \/ exec_in i = j) -> i <= j.
  Proof.
    intros fuel i j [H|[H|H]].
    - unfold DapStep.step_over in H. destruct (is_jsr opT i).
      + apply run_until_return_forward in H; lia.
      + inversion H. unfold DapStep.exec_in. destruct (finT i); lia.
    - unfold DapStep.step_out in H. destruct (call_depth (Z.to_nat i) =? 0).
      + inversion H; lia.
      + apply run_until_return_forward in H; lia.
    - subst. unfold DapStep.exec_in. destruct (finT i); lia.
  Qed.

  (* ---- call depth *)
  Definition delta (k : Z) : Z := if opT k =? 32 then 1 else if opT k =? 96 then -1 else 0.

  Lemma depthZ_succ : forall k, 0 <= k -> depthZ (k + 1) = depthZ k + delta k.
  Proof.
    intros k Hk. unfold DapStepSpec.depthZ, delta.
    replace (Z.to_nat (k + 1)) with (S (Z.to_nat k)) by lia.
    simpl. rewrite Z2Nat.id by lia. reflexivity.
  Qed.

  Lemma run_until_return_depth : forall d fuel i j k nested,
    0 <= i <= k -> k + Z.of_nat (S d) = j ->
    nested = depthZ k - depthZ i -> 0 <= nested ->
    depthZ j = depthZ i - 1 ->
    (forall m, i < m < j -> depthZ m >= depthZ i) ->
    (forall m, i <= m < j -> finT m = false) ->
    (S d <= fuel)%nat ->
    run_until_return fuel nested k = Some j.
  Proof.
    induction d; intros fuel i j k nested Hik Hj Hn Hn0 Hdj Hge Hfin Hfuel;
      (destruct fuel; [lia|]); simpl; rewrite (Hfin k) by lia;
      pose proof (depthZ_succ k ltac:(lia)) as HS; unfold delta in HS;
      unfold is_jsr, is_rts.
    - assert (Ej : j = k + 1) by lia. clear Hj. subst j.
      destruct (opT k =? 32) eqn:E1; rewrite ?E1 in HS; [lia|].
      destruct (opT k =? 96) eqn:E2; rewrite ?E2 in HS; [|lia].
      destruct (nested =? 0) eqn:E0; [reflexivity|]. apply Z.eqb_neq in E0. lia.
    - assert (k + 1 < j) by lia.
      assert (depthZ (k + 1) >= depthZ i) by (apply Hge; lia).
      destruct (opT k =? 32) eqn:E1; rewrite ?E1 in HS.
      + apply (IHd fuel i j (k + 1) (nested + 1)); auto; lia.
      + destruct (opT k =? 96) eqn:E2; rewrite ?E2 in HS.
        * destruct (nested =? 0) eqn:E0. { apply Z.eqb_eq in E0. lia. }
          apply Z.eqb_neq in E0.
          apply (IHd fuel i j (k + 1) (nested - 1)); auto; lia.
        * apply (IHd fuel i j (k + 1) nested); auto; lia.
  Qed.

  (* run_until_return ends on the first later index whose call depth is below the starting one *)
  Lemma returns_from : forall fuel i j,
    0 <= i < j ->
    depthZ j = depthZ i - 1 ->
    (forall m, i < m < j -> depthZ m >= depthZ i) ->
    (forall m, i <= m < j -> finT m = false) ->
    (Z.to_nat (j - i) <= fuel)%nat ->
    run_until_return fuel 0 i = Some j.
  Proof.
    intros fuel i j Hij Hdj Hge Hfin Hfuel.
    apply (run_until_return_depth (Z.to_nat (j - i - 1)) fuel i j i 0); auto; lia.
  Qed.

  (* `next` on a JSR is one step over the whole call: it lands where the call has returned -- also when the subroutine
     calls itself through this very call site, whatever it pushes, wherever it jumps *)
  Theorem next_over_call : forall fuel i j,
    returns_at opT i j ->
    (forall m, i <= m < j -> finT m = false) ->
    (Z.to_nat (j - i) <= fuel)%nat ->
    step_over fuel i = Some j.
  Proof.
    intros fuel i j [[H0 Hij] [Hop [Hdj Hbetween]]] Hfin Hfuel.
    unfold DapStep.step_over, is_jsr. rewrite Hop. simpl.
    pose proof (depthZ_succ i H0) as HS. unfold delta in HS. rewrite Hop in HS. simpl in HS.
    assert (i + 1 < j).
    { destruct (Z.eq_dec j (i + 1)); [subst; lia | lia]. }
    apply returns_from; auto; try lia.
    - intros m Hm. assert (depthZ m > depthZ i) by (apply Hbetween; lia). lia.
    - intros m Hm. apply Hfin. lia.
  Qed.

  Theorem next_plain : forall fuel i, is_jsr opT i = false -> step_over fuel i = Some (exec_in i).
  Proof. intros. unfold DapStep.step_over. rewrite H. reflexivity. Qed.

  (* the runner's own counter is at least the depth gained since any earlier point *)
  Lemma call_depth_nonneg : forall n, 0 <= call_depth n.
  Proof.
    induction n; simpl; [lia|].
    destruct (is_jsr opT (Z.of_nat n)); [lia|]. destruct (is_rts opT (Z.of_nat n)); lia.
  Qed.

  Lemma call_depth_ge : forall n m, (m <= n)%nat -> call_depth n >= depth n - depth m.
  Proof.
    induction n; intros m Hm.
    - assert (m = O) by lia. subst. simpl. lia.
    - destruct (Nat.eq_dec m (S n)).
      + subst. pose proof (call_depth_nonneg (S n)). lia.
      + assert (Hm' : (m <= n)%nat) by lia. specialize (IHn m Hm').
        simpl. unfold is_jsr, is_rts.
        destruct (opT (Z.of_nat n) =? 32); [lia|].
        destruct (opT (Z.of_nat n) =? 96); lia.
  Qed.

  (* `stepOut` lands on the first later index whose call depth is below the current one: where the subroutine the
     machine is in has just returned -- whatever it pushed, however it recursed *)
  Theorem stepout_returns : forall fuel i j,
    0 <= i < j -> 0 < call_depth (Z.to_nat i) ->
    depthZ j = depthZ i - 1 ->
    (forall m, i < m < j -> depthZ m >= depthZ i) ->
    (forall m, i <= m < j -> finT m = false) ->
    (Z.to_nat (j - i) <= fuel)%nat ->
    step_out fuel i = Some j.
  Proof.
    intros fuel i j Hij Hcd Hdj Hge Hfin Hfuel.
    unfold DapStep.step_out.
    assert (call_depth (Z.to_nat i) =? 0 = false) by (apply Z.eqb_neq; lia).
    rewrite H. apply returns_from; auto.
  Qed.

  (* in terms of the frame: c is the call of i's frame and returns at j *)
  Theorem stepout_after_call : forall fuel c i j,
    frame_call opT c i -> returns_at opT c j ->
    (forall m, i <= m < j -> finT m = false) ->
    (Z.to_nat (j - i) <= fuel)%nat ->
    i < j /\ step_out fuel i = Some j.
  Proof.
    intros fuel c i j [Hci [Hop [Hd Hin]]] Hret Hfin Hfuel.
    pose proof Hret as [[Hc0 Hcj] [_ [Hdj Hbetween]]].
    assert (i < j).
    { destruct (Z_lt_le_dec i j); auto. exfalso.
      assert (j = i \/ c < j < i) as [E|E] by lia.
      - subst. lia.
      - assert (depthZ j > depthZ c) by (apply Hin; lia). lia. }
    split; auto.
    apply stepout_returns; auto; try lia.
    - pose proof (call_depth_ge (Z.to_nat i) (Z.to_nat c) ltac:(lia)). unfold DapStepSpec.depthZ in Hd. lia.
    - intros m Hm. assert (depthZ m > depthZ c) by (apply Hbetween; lia). lia.
  Qed.

  (* outside any subroutine `stepOut` executes nothing *)
  Theorem stepout_top_level : forall fuel i, call_depth (Z.to_nat i) = 0 -> step_out fuel i = Some i.
  Proof. intros. unfold DapStep.step_out. rewrite H. reflexivity. Qed.

  (* ---- the pinned runner *)
  Lemma over_loop_pinned_hit : forall d fuel i t,
    (S d <= fuel)%nat ->
    pcT (i + Z.of_nat (S d)) = t ->
    (forall k, i < k < i + Z.of_nat (S d) -> pcT k <> t) ->
    (forall k, i <= k < i + Z.of_nat (S d) -> finT k = false) ->
    over_loop_pinned fuel t i = Some (i + Z.of_nat (S d)).
  Proof.
    induction d; intros fuel i t Hf Hp Hn Hfin.
    - destruct fuel; [lia|]. simpl. unfold DapStep.exec_in.
      rewrite (Hfin i) by lia. replace (i + Z.of_nat 1) with (i + 1) in * by lia.
      rewrite Hp, Z.eqb_refl. reflexivity.
    - destruct fuel; [lia|]. simpl. unfold DapStep.exec_in.
      rewrite (Hfin i) by lia.
      assert (pcT (i + 1) <> t) by (apply Hn; lia).
      apply Z.eqb_neq in H. rewrite H.
      rewrite (IHd fuel (i + 1) t).
      + f_equal. lia.
      + lia.
      + rewrite <- Hp. f_equal. lia.
      + intros k Hk. apply Hn. lia.
      + intros k Hk. apply Hfin. lia.
  Qed.

  Lemma out_loop_pinned_hit : forall d fuel i t,
    (S d <= fuel)%nat ->
    pcT (i + Z.of_nat d) = t ->
    (forall k, i <= k < i + Z.of_nat d -> pcT k <> t /\ finT k = false) ->
    out_loop_pinned fuel t i = Some (i + Z.of_nat d).
  Proof.
    induction d; intros fuel i t Hf Hp Hn.
    - destruct fuel; [lia|]. change (Z.of_nat 0) with 0 in *. rewrite Z.add_0_r in *. simpl.
      rewrite Hp, Z.eqb_refl. reflexivity.
    - destruct fuel; [lia|]. simpl.
      destruct (Hn i) as [A B]; [lia|].
      apply Z.eqb_neq in A. rewrite A, B.
      rewrite (IHd fuel (i + 1) t).
      + f_equal. lia.
      + lia.
      + rewrite <- Hp. f_equal. lia.
      + intros k Hk. apply Hn. lia.
  Qed.

  (* what the CPU contributes: a call returns to the instruction after it (JSR pushes pc+2, the matching RTS pops it:
     true of the 6502 for subroutines that leave the return address alone; proofs/DapCpuProofs.v) *)
  Definition returns_to_caller : Prop := forall c j, returns_at opT c j -> pcT j = pcT c + 3.

  Lemma passes_false : forall n i k, passes_return_address pcT n i k = false ->
    forall m, k <= m < k + Z.of_nat n -> pcT m <> pcT i + 3.
  Proof.
    induction n; intros i k H m Hm; [lia|].
    simpl in H. apply Bool.orb_false_iff in H. destruct H as [A B].
    destruct (Z.eq_dec m k).
    - subst. apply Z.eqb_neq; auto.
    - apply (IHn i (k + 1) B). lia.
  Qed.

  (* the pinned `next` was right unless the return address is passed inside the call *)
  Theorem next_pinned_over_call : forall fuel i j,
    returns_to_caller ->
    returns_at opT i j ->
    Known_next_reenters_call_site pcT i j = false ->
    (forall k, i <= k < j -> finT k = false) ->
    (Z.to_nat (j - i) <= fuel)%nat ->
    step_over_pinned fuel i = Some j.
  Proof.
    intros fuel i j HR Hret Hn Hfin Hfuel.
    pose proof (HR i j Hret) as Hp.
    destruct Hret as [[H0 Hij] [Hop _]].
    unfold DapStep.step_over_pinned, is_jsr. rewrite Hop. simpl.
    unfold Known_next_reenters_call_site in Hn.
    pose proof (passes_false _ _ _ Hn) as Hn'.
    remember (Z.to_nat (j - i - 1)) as d.
    assert (j = i + Z.of_nat (S d)) by lia. subst j.
    apply over_loop_pinned_hit; auto; try lia.
    intros k Hk. apply Hn'. lia.
  Qed.

  (* the pinned `stepOut` was right with a clean stack *)
  Theorem stepout_pinned_clean : forall fuel c i j,
    returns_to_caller ->
    frame_call opT c i -> returns_at opT c j -> i <= j ->
    Known_stepout_stack_dirty pcT retT c i = false ->
    spT i <= 253 ->
    (forall k, i <= k < j -> pcT k <> pcT c + 3) ->
    (forall k, i <= k < j -> finT k = false) ->
    (S (Z.to_nat (j - i)) <= fuel)%nat ->
    step_out_pinned fuel i = Some j.
  Proof.
    intros fuel c i j HR Hfc Hret Hij Hclean Hsp Hn Hfin Hfuel.
    pose proof (HR c j Hret) as Hp.
    unfold DapStep.step_out_pinned.
    assert (spT i >? 253 = false) by (rewrite Z.gtb_ltb; apply Z.ltb_ge; lia).
    unfold Known_stepout_stack_dirty in Hclean. apply Bool.negb_false_iff, Z.eqb_eq in Hclean.
    rewrite H, Hclean.
    remember (Z.to_nat (j - i)) as d.
    assert (j = i + Z.of_nat d) by lia. subst j.
    apply out_loop_pinned_hit; auto.
  Qed.
End DapStepProofs.

Definition nthZ (l : list Z) (i : Z) : Z := nth (Z.to_nat i) l 0.

(* ---- the witness of F-C19b: corpus/C19/stepout_after_pha.asm
        ldx #0 / lda #7 / jsr sub / inx / brk / sub: pha / nop / pla / rts     (uninterrupted run, 9 instruction indices) *)
Definition w_pc := nthZ [49152; 49154; 49156; 49161; 49162; 49163; 49164; 49159; 49160].
Definition w_sp := nthZ [253; 253; 253; 251; 250; 250; 251; 253; 253].
Definition w_op := nthZ [162; 169; 32; 72; 234; 104; 96; 232; 0].
Definition w_ret := nthZ [1; 1; 1; 49159; 1544; 1544; 49159; 1; 1].

(* stopped on `nop` (index 4, after the pha): the call at index 2 returns at index 7 (`inx`); the pinned stepOut ran to
   the brk, the repaired one lands on index 7 *)
Theorem stepout_dirty_refuted :
  frame_call w_op 2 4 /\ returns_at w_op 2 7 /\ w_pc 7 = w_pc 2 + 3 /\
  Known_stepout_stack_dirty w_pc w_ret 2 4 = true /\
  step_out_pinned w_pc w_sp w_op w_ret 100 4 = Some 8 /\
  step_out w_op 100 4 = Some 7.
Proof.
  assert (D : forall k, 2 < k < 7 -> depthZ w_op k > depthZ w_op 2).
  { intros k Hk. assert (k = 3 \/ k = 4 \/ k = 5 \/ k = 6) as [E|[E|[E|E]]] by lia; subst; vm_compute; reflexivity. }
  repeat split; try (vm_compute; congruence); try lia.
  - intros k Hk. apply D. lia.
  - exact D.
Qed.

(* ---- recursion through one call site: corpus/C19/recursive_next.asm
        ldy #3 / jsr rec / brk / rec: dey / beq done / jsr rec / done: inx / rts      (17 instruction indices) *)
Definition r_pc := nthZ [49152; 49154; 49158; 49159; 49161; 49158; 49159; 49161; 49158; 49159; 49164; 49165; 49164; 49165; 49164; 49165; 49157].
Definition r_op := nthZ [160; 32; 136; 240; 32; 136; 240; 32; 136; 240; 232; 96; 232; 96; 232; 96; 0].

(* `next` on the `jsr rec` inside the first activation (index 4): the call returns at index 14; the pinned step_over stopped
   at index 10, two activations deeper, because the return address is passed there; the repaired one lands on 14.
   `stepOut` from the innermost activation (index 10) lands in the activation that called it (index 12), not further out. *)
Theorem next_recursion_refuted :
  returns_at r_op 4 14 /\ r_pc 14 = r_pc 4 + 3 /\
  Known_next_reenters_call_site r_pc 4 14 = true /\
  step_over_pinned r_pc r_op 100 4 = Some 10 /\
  step_over r_op 100 4 = Some 14 /\
  step_out r_op 100 10 = Some 12.
Proof.
  assert (D : forall k, 4 < k < 14 -> depthZ r_op k > depthZ r_op 4).
  { intros k Hk.
    assert (k = 5 \/ k = 6 \/ k = 7 \/ k = 8 \/ k = 9 \/ k = 10 \/ k = 11 \/ k = 12 \/ k = 13)
      as [E|[E|[E|[E|[E|[E|[E|[E|E]]]]]]]] by lia; subst; vm_compute; reflexivity. }
  repeat split; try (vm_compute; congruence); try lia. exact D.
Qed.

(* DapStepProofs.v -- the step commands of the test runner (model/DapStep.v) against spec/DapStepSpec.v. *)
From Coq Require Import List ZArith Bool Lia.
Import ListNotations.
From Mos Require Import model.DapStep spec.DapStepSpec.
Open Scope Z_scope.

Section DapStepProofs.
  Variable pcT spT opT retT : Z -> Z.

  Notation finT := (finT opT).
  Notation over_loop := (over_loop pcT opT).
  Notation out_loop := (out_loop pcT opT).
  Notation step_over := (step_over pcT opT).
  Notation step_out := (step_out pcT spT opT retT).
  Notation exec_in := (exec_in opT).

  (* every step command leaves the machine on the uninterrupted run, at or after where it started *)
  Lemma over_loop_forward : forall fuel t i j, over_loop fuel t i = Some j -> i <= j.
  Proof.
    induction fuel; simpl; intros t i j H; try discriminate.
    unfold DapStep.exec_in in H.
    destruct (finT i) eqn:F.
    - destruct (pcT i =? t); inversion H; lia.
    - destruct (pcT (i + 1) =? t).
      + inversion H; lia.
      + apply IHfuel in H. lia.
  Qed.

  Lemma out_loop_forward : forall fuel t i j, out_loop fuel t i = Some j -> i <= j.
  Proof.
    induction fuel; simpl; intros t i j H; try discriminate.
    destruct (pcT i =? t). { inversion H; lia. }
    destruct (finT i). { inversion H; lia. }
    apply IHfuel in H. lia.
  Qed.

  Theorem step_forward : forall fuel i j,
    (step_over fuel i = Some j \/ step_out fuel i = Some j \/ exec_in i = j) -> i <= j.
  Proof.
    intros fuel i j [H|[H|H]].
    - unfold DapStep.step_over in H. destruct (is_jsr opT i).
      + apply over_loop_forward in H; lia.
      + inversion H. unfold DapStep.exec_in. destruct (finT i); lia.
    - unfold DapStep.step_out in H. destruct (spT i >? 253).
      + inversion H; lia.
      + apply out_loop_forward in H; lia.
    - subst. unfold DapStep.exec_in. destruct (finT i); lia.
  Qed.

  (* the loop of step_over stops at the first later index whose pc is the target *)
  Lemma over_loop_hit : forall d fuel i t,
    (S d <= fuel)%nat ->
    pcT (i + Z.of_nat (S d)) = t ->
    (forall k, i < k < i + Z.of_nat (S d) -> pcT k <> t) ->
    (forall k, i <= k < i + Z.of_nat (S d) -> finT k = false) ->
    over_loop fuel t i = Some (i + Z.of_nat (S d)).
  Proof.
    induction d; intros fuel i t Hf Hp Hn Hfin.
    - destruct fuel; [lia|]. simpl. unfold DapStep.exec_in.
      rewrite (Hfin i) by lia. replace (i + Z.of_nat 1) with (i + 1) in * by lia.
      rewrite Hp, Z.eqb_refl. reflexivity.
    - destruct fuel; [lia|]. simpl. unfold DapStep.exec_in.
      rewrite (Hfin i) by lia.
      assert (pcT (i + 1) <> t) by (apply Hn; lia).
      apply Z.eqb_neq in H. rewrite H.
      rewrite (IHd fuel (i + 1) t).
      + f_equal. lia.
      + lia.
      + rewrite <- Hp. f_equal. lia.
      + intros k Hk. apply Hn. lia.
      + intros k Hk. apply Hfin. lia.
  Qed.

  Lemma out_loop_hit : forall d fuel i t,
    (S d <= fuel)%nat ->
    pcT (i + Z.of_nat d) = t ->
    (forall k, i <= k < i + Z.of_nat d -> pcT k <> t /\ finT k = false) ->
    out_loop fuel t i = Some (i + Z.of_nat d).
  Proof.
    induction d; intros fuel i t Hf Hp Hn.
    - destruct fuel; [lia|]. change (Z.of_nat 0) with 0 in *. rewrite Z.add_0_r in *. simpl.
      rewrite Hp, Z.eqb_refl. reflexivity.
    - destruct fuel; [lia|]. simpl.
      destruct (Hn i) as [A B]; [lia|].
      apply Z.eqb_neq in A. rewrite A, B.
      rewrite (IHd fuel (i + 1) t).
      + f_equal. lia.
      + lia.
      + rewrite <- Hp. f_equal. lia.
      + intros k Hk. apply Hn. lia.
  Qed.

  (* what the CPU contributes: a call returns to the instruction after it (JSR pushes pc+2, the matching RTS pops it:
     true of the 6502 for subroutines that leave the return address alone) *)
  Definition returns_to_caller : Prop := forall c j, returns_at opT c j -> pcT j = pcT c + 3.

  (* `next` on a JSR is one step over the whole call *)
  Theorem next_over_call : forall fuel i j,
    returns_to_caller ->
    returns_at opT i j ->
    (forall k, i < k < j -> pcT k <> pcT i + 3) ->       (* the return address is not passed inside the call (no recursion through this call site) *)
    (forall k, i <= k < j -> finT k = false) ->
    (Z.to_nat (j - i) <= fuel)%nat ->
    step_over fuel i = Some j.
  Proof.
    intros fuel i j HR Hret Hn Hfin Hfuel.
    pose proof (HR i j Hret) as Hp.
    destruct Hret as [[H0 Hij] [Hop _]].
    unfold DapStep.step_over, is_jsr. rewrite Hop. simpl.
    remember (Z.to_nat (j - i - 1)) as d.
    assert (j = i + Z.of_nat (S d)) by lia. subst j.
    apply over_loop_hit; auto. lia.
  Qed.

  Theorem next_plain : forall fuel i, is_jsr opT i = false -> step_over fuel i = Some (exec_in i).
  Proof. intros. unfold DapStep.step_over. rewrite H. reflexivity. Qed.

  (* `stepOut` with a clean stack (the two bytes above the stack pointer are the frame's return address) runs to the
     instruction after the call *)
  Theorem stepout_clean : forall fuel c i j,
    returns_to_caller ->
    frame_call opT c i -> returns_at opT c j -> i <= j ->
    Known_stepout_stack_dirty pcT retT c i = false ->
    spT i <= 253 ->
    (forall k, i <= k < j -> pcT k <> pcT c + 3) ->        (* no recursion through the call site *)
    (forall k, i <= k < j -> finT k = false) ->
    (S (Z.to_nat (j - i)) <= fuel)%nat ->
    step_out fuel i = Some j.
  Proof.
    intros fuel c i j HR Hfc Hret Hij Hclean Hsp Hn Hfin Hfuel.
    pose proof (HR c j Hret) as Hp.
    unfold DapStep.step_out.
    assert (spT i >? 253 = false) by (rewrite Z.gtb_ltb; apply Z.ltb_ge; lia).
    unfold Known_stepout_stack_dirty in Hclean. apply Bool.negb_false_iff, Z.eqb_eq in Hclean.
    rewrite H, Hclean.
    remember (Z.to_nat (j - i)) as d.
    assert (j = i + Z.of_nat d) by lia. subst j.
    apply out_loop_hit; auto.
  Qed.
End DapStepProofs.

(* ---- the witness of F-C19b: corpus/C19/stepout_after_pha.asm
        ldx #0 / lda #7 / jsr sub / inx / brk / sub: pha / nop / pla / rts     (uninterrupted run, 9 instruction indices) *)
Definition nthZ (l : list Z) (i : Z) : Z := nth (Z.to_nat i) l 0.
Definition w_pc := nthZ [49152; 49154; 49156; 49161; 49162; 49163; 49164; 49159; 49160].
Definition w_sp := nthZ [253; 253; 253; 251; 250; 250; 251; 253; 253].
Definition w_op := nthZ [162; 169; 32; 72; 234; 104; 96; 232; 0].
Definition w_ret := nthZ [1; 1; 1; 49159; 1544; 1544; 49159; 1; 1].

(* stopped on `nop` (index 4, after the pha): the call at index 2 returns at index 7 (`inx`), stepOut runs to the brk *)
Theorem stepout_dirty_refuted :
  frame_call w_op 2 4 /\ returns_at w_op 2 7 /\ w_pc 7 = w_pc 2 + 3 /\
  Known_stepout_stack_dirty w_pc w_ret 2 4 = true /\
  step_out w_pc w_sp w_op w_ret 100 4 = Some 8.
Proof.
  assert (D : forall k, 2 < k < 7 -> depthZ w_op k > depthZ w_op 2).
  { intros k Hk. assert (k = 3 \/ k = 4 \/ k = 5 \/ k = 6) as [E|[E|[E|E]]] by lia; subst; vm_compute; reflexivity. }
  repeat split; try (vm_compute; congruence); try lia.
  - intros k Hk. apply D. lia.
  - exact D.
Qed.

(* ... while on `pha` itself (index 3, nothing pushed yet) it lands after the call *)
Example stepout_clean_witness : step_out w_pc w_sp w_op w_ret 100 3 = Some 7 /\ step_over w_pc w_op 100 2 = Some 7.
Proof. vm_compute. split; reflexivity. Qed.

(* Compositional soundness of the parser combinators (DESIGN Appendix A.2, extended):
   `sound P at p`: whenever p returns Ok v r on an input satisfying P,
     - the input text is EXACTLY the text of v's pieces followed by the rest (losslessness, with ghost data),
     - the pieces tile the consumed byte range and every recorded span is the range of its piece,
     - every keyword piece spells its canonical keyword up to ASCII case,
     - if a piece is lossy (Rust's Display cannot reproduce it) a diagnostic has been recorded,
   and in every case (Ok, Err, Abort) the state only moves forward (`sle`).
   One lemma per combinator / terminal; the grammar proofs only apply them. *)
From Coq Require Import List NArith Bool Arith Lia.
Import ListNotations.
From Mos Require Import model.Utf model.Nom Gen.ParserTables model.Parser model.Display spec.Lossless.
Open Scope N_scope.

Definition ci_eq (a b : text) : Prop := Forall2 (fun x y => ascii_lower x = ascii_lower y) a b.
(* a piece a statement may consist of: keywords spell their canonical form up to ASCII case; no end-of-file piece *)
Definition atom_ok (a : atom) : Prop := match a with AKw _ canon orig => ci_eq orig canon | AEof _ _ => False | _ => True end.
Definition pieces (l : list atom) : list piece := map (fun a => (span_atom a, exact_atom a)) l.

Definition inv (st : pstate) : Prop := ignore_next st = true -> errors st <> [].
Definition sle (st st' : pstate) : Prop := (inv st -> inv st') /\ (errors st <> [] -> errors st' <> []).

Definition sound {A} (P : input -> Prop) (at_ : A -> list atom) (p : parser A) : Prop :=
  forall st i st' res, p st i = (st', res) ->
    sle st st' /\
    match res with
    | Ok v r =>
        (P i -> rem i = exact (at_ v) ++ rem r /\ tiling (off i) (pieces (at_ v)) (off r)) /\
        Forall atom_ok (at_ v) /\
        (inv st -> lossy (at_ v) = true -> errors st' <> [])
    | _ => True
    end.
Definition anyP : input -> Prop := fun _ => True.

(* ---------------------------------------------------------------- basics *)
Lemma sle_refl st : sle st st. Proof. split; auto. Qed.
Lemma sle_trans a b c : sle a b -> sle b c -> sle a c. Proof. intros [? ?] [? ?]; split; auto. Qed.
Lemma inv_st0 : inv st0. Proof. intro H; discriminate. Qed.

Lemma blen_app a b : blen (a ++ b) = blen a + blen b.
Proof. induction a; cbn [blen app]; [reflexivity|]. rewrite IHa. lia. Qed.
Lemma exact_app a b : exact (a ++ b) = exact a ++ exact b.
Proof. unfold exact. rewrite map_app, concat_app. reflexivity. Qed.
Lemma rust_app a b : rust (a ++ b) = rust a ++ rust b.
Proof. unfold rust. rewrite map_app, concat_app. reflexivity. Qed.
Lemma lossy_app a b : lossy (a ++ b) = lossy a || lossy b.
Proof. unfold lossy. apply existsb_app. Qed.
Lemma pieces_app a b : pieces (a ++ b) = pieces a ++ pieces b.
Proof. unfold pieces. apply map_app. Qed.
Lemma tiling_app a l1 b l2 c : tiling a l1 b -> tiling b l2 c -> tiling a (l1 ++ l2) c.
Proof.
  revert a. induction l1 as [|[sp t] l1 IH]; intros a H1 H2; cbn [tiling app] in *.
  - subst. assumption.
  - destruct H1 as [Hs H1]. split; [assumption|]. eauto.
Qed.
Lemma tiling_len a l b : tiling a (pieces l) b -> b = a + blen (exact l).
Proof.
  revert a. induction l as [|x l IH]; intros a H; cbn in *.
  - subst. lia.
  - destruct H as [_ H]. apply IH in H. unfold exact in *. cbn [map concat]. rewrite blen_app. lia.
Qed.
Lemma tiling_split a l1 l2 c : tiling a (l1 ++ l2) c ->
  exists b, tiling a l1 b /\ tiling b l2 c.
Proof.
  revert a. induction l1 as [|[sp t] l1 IH]; intros a H; cbn [tiling app] in *.
  - exists a. split; [reflexivity|assumption].
  - destruct H as [Hs H]. destruct (IH _ H) as [b [H1 H2]]. exists b. repeat split; assumption.
Qed.

Lemma sound_weaken {A} (P Q : input -> Prop) at_ (p : parser A) :
  sound P at_ p -> (forall i, Q i -> P i) -> sound Q at_ p.
Proof.
  intros H HQ st i st' res E. destruct (H _ _ _ _ E) as [Hs Hr]. split; [assumption|].
  destruct res; auto. destruct Hr as [H1 H2]. split; auto.
Qed.
Lemma sound_any {A} (P : input -> Prop) at_ (p : parser A) : sound anyP at_ p -> sound P at_ p.
Proof. intros H. eapply sound_weaken; [exact H|]. intros; exact I. Qed.
Lemma sound_ext {A} (P : input -> Prop) (a1 a2 : A -> list atom) (p : parser A) :
  sound P a1 p -> (forall v, a2 v = a1 v) -> sound P a2 p.
Proof.
  intros H E st i st' res Hp. destruct (H _ _ _ _ Hp) as [Hs Hr]. split; [assumption|].
  destruct res; auto. rewrite E. assumption.
Qed.

(* ---------------------------------------------------------------- terminals *)
Lemma take_while_app f s a b : take_while f s = (a, b) -> s = a ++ b.
Proof.
  revert a b. induction s as [|c s IH]; intros a b H; cbn [take_while] in H.
  - inversion H; reflexivity.
  - destruct (f c).
    + destruct (take_while f s) as [a' b'] eqn:E. inversion H; subst. cbn. f_equal. apply IH. reflexivity.
    + inversion H; reflexivity.
Qed.

(* a parser that does not touch the state and returns the text it consumed *)
Definition terminal {A} (txt : A -> text) (p : parser A) : Prop :=
  forall st i st' res, p st i = (st', res) ->
    st' = st /\ match res with Ok v r => rem i = txt v ++ rem r /\ off r = off i + blen (txt v) | _ => True end.

Lemma terminal_sound {A} (txt : A -> text) (p : parser A) P :
  terminal txt p -> sound P (fun v => [AText None (txt v)]) p.
Proof.
  intros T st i st' res E. destruct (T _ _ _ _ E) as [-> Hr]. split; [apply sle_refl|].
  destruct res; auto. destruct Hr as [H1 H2]. repeat split.
  - unfold exact. cbn. rewrite app_nil_r. assumption.
  - cbn. rewrite H2. lia.
  - repeat constructor.
  - intros _ H. discriminate.
Qed.

Lemma consume_ok a b i : rem i = a ++ b -> rem i = a ++ rem (consume a b i) /\ off (consume a b i) = off i + blen a.
Proof. intros H. cbn. split; [assumption|reflexivity]. Qed.

Lemma take_while0_terminal f : terminal (fun s => s) (take_while0_p f).
Proof.
  intros st i st' res E. unfold take_while0_p in E. destruct (take_while f (rem i)) as [a b] eqn:T.
  inversion E; subst. split; [reflexivity|]. apply consume_ok. apply take_while_app in T. assumption.
Qed.
Lemma take_while1_terminal f : terminal (fun s => s) (take_while1_p f).
Proof.
  intros st i st' res E. unfold take_while1_p in E. destruct (take_while f (rem i)) as [a b] eqn:T.
  apply take_while_app in T. destruct a; inversion E; subst; split; auto.
Qed.
Lemma rest_terminal : terminal (fun s => s) rest.
Proof.
  intros st i st' res E. unfold rest in E. inversion E; subst. split; [reflexivity|].
  apply consume_ok. rewrite app_nil_r. reflexivity.
Qed.
Lemma satisfy_terminal f : terminal (fun c => [c]) (satisfy f).
Proof.
  intros st i st' res E. unfold satisfy in E. destruct (rem i) as [|c r] eqn:R; [inversion E; subst; auto|].
  destruct (f c); inversion E; subst; split; auto; try (apply consume_ok; assumption).
Qed.
Lemma take_terminal n : terminal (fun s => s) (take n).
Proof.
  intros st i st' res E. unfold take in E. destruct (_ <=? _)%nat; inversion E; subst; split; auto;
  try (apply consume_ok; symmetry; apply firstn_skipn).
Qed.
Lemma tag_terminal t : terminal (fun s => s) (tag t).
Proof.
  intros st i st' res E. unfold tag in E. destruct (is_prefix t (rem i)); inversion E; subst; split; auto;
  try (apply consume_ok; symmetry; apply firstn_skipn).
Qed.
Lemma take_bytes_app s n a b : take_bytes s n = BExact a b -> s = a ++ b.
Proof.
  revert n a b. induction s as [|c s IH]; intros n a b H; destruct n; cbn [take_bytes] in H; try discriminate.
  - inversion H; reflexivity.
  - inversion H; reflexivity.
  - destruct (width_utf8 c <=? S n)%nat; [|discriminate].
    destruct (take_bytes s (S n - width_utf8 c)) eqn:E; try discriminate.
    inversion H; subst. cbn. f_equal. eapply IH. eassumption.
Qed.
Lemma tag_no_case_terminal t : terminal (fun s => s) (tag_no_case t).
Proof.
  intros st i st' res E. unfold tag_no_case in E.
  destruct (take_bytes (rem i) (length t)) eqn:T; [destruct (ci_eqb a t && negb (word_tag t && starts_ident b))|..];
    inversion E; subst; split; auto;
  try (apply consume_ok; eapply take_bytes_app; eassumption).
Qed.
Lemma ci_eqb_ok a : forall b, ci_eqb a b = true -> ci_eq a b.
Proof.
  induction a as [|x a IH]; intros [|y b] H; try discriminate; [constructor|].
  cbn in H. apply andb_true_iff in H. destruct H as [H1 H2]. apply N.eqb_eq in H1. constructor; auto. apply IH; assumption.
Qed.
Lemma tag_no_case_ci t : forall st i st' a r, tag_no_case t st i = (st', Ok a r) -> ci_eq a t.
Proof.
  intros st i st' a r E. unfold tag_no_case in E. destruct (take_bytes (rem i) (length t)); try discriminate.
  destruct (ci_eqb a0 t) eqn:C; cbn [andb] in E; [|discriminate].
  destruct (negb (word_tag t && starts_ident b)); inversion E; subst. apply ci_eqb_ok. assumption.
Qed.

Lemma value_sound {A} (v : A) P at_ : at_ v = [] -> sound P at_ (value_p v).
Proof.
  intros Hv st i st' res E. unfold value_p in E. inversion E; subst. split; [apply sle_refl|].
  rewrite Hv. repeat split; cbn; auto. intros _ H; discriminate.
Qed.

(* ---------------------------------------------------------------- combinators *)
Lemma map_sound {A B} P (sa : A -> list atom) (sb : B -> list atom) (f : A -> B) (p : parser A) :
  sound P sa p -> (forall a, sb (f a) = sa a) -> sound P sb (map_p f p).
Proof.
  intros H Hf st i st' res E. unfold map_p in E. destruct (p st i) as [st1 [a r| |x]] eqn:Ep; inversion E; subst;
    destruct (H _ _ _ _ Ep) as [Hs Hr]; split; auto. rewrite Hf. assumption.
Qed.

Lemma pair_sound {A B} P (sa : A -> list atom) (sb : B -> list atom) (p : parser A) (q : parser B) :
  sound P sa p -> sound anyP sb q -> sound P (fun ab => sa (fst ab) ++ sb (snd ab)) (pair_p p q).
Proof.
  intros Hp Hq st i st' res E. unfold pair_p in E.
  destruct (p st i) as [st1 [a r| |x]] eqn:Ep; destruct (Hp _ _ _ _ Ep) as [Hs1 Hr1];
    [|inversion E; subst; split; auto..].
  destruct (q st1 r) as [st2 [b r'| |y]] eqn:Eq; destruct (Hq _ _ _ _ Eq) as [Hs2 Hr2]; inversion E; subst;
    (split; [eapply sle_trans; eassumption|]); auto.
  destruct Hr1 as [H1 [O1 L1]]. destruct Hr2 as [H2 [O2 L2]]. cbn [fst snd]. repeat split.
  - destruct (H1 H) as [E1 _]. destruct (H2 I) as [E2 _]. rewrite exact_app, <- app_assoc, <- E2. assumption.
  - destruct (H1 H) as [_ T1]. destruct (H2 I) as [_ T2]. rewrite pieces_app. eapply tiling_app; eassumption.
  - apply Forall_app. split; assumption.
  - intros Hi Hl. rewrite lossy_app in Hl. apply orb_true_iff in Hl. destruct Hl as [Hl|Hl].
    + apply (proj2 Hs2). apply L1; assumption.
    + apply L2; [apply (proj1 Hs1); assumption|assumption].
Qed.

Lemma alt_sound {A} P (sa : A -> list atom) (p q : parser A) :
  sound P sa p -> sound P sa q -> sound P sa (alt p q).
Proof.
  intros Hp Hq st i st' res E. unfold alt in E.
  destruct (p st i) as [st1 [a r| |x]] eqn:Ep; destruct (Hp _ _ _ _ Ep) as [Hs1 Hr1].
  - inversion E; subst. split; assumption.
  - destruct (Hq _ _ _ _ E) as [Hs2 Hr2]. split; [eapply sle_trans; eassumption|].
    destruct res; auto. destruct Hr2 as [H2 [O2 L2]]. split; [exact H2|]. split; [exact O2|].
    intros Hi. apply L2. apply (proj1 Hs1). assumption.
  - inversion E; subst. split; auto.
Qed.
Lemma fail_sound {A} P (sa : A -> list atom) : sound P sa (fun st _ => (st, Err)).
Proof. intros st i st' res E. inversion E; subst. split; [apply sle_refl|exact I]. Qed.
Lemma alts_sound {A} P (sa : A -> list atom) (ps : list (parser A)) :
  Forall (sound P sa) ps -> sound P sa (alts ps).
Proof. induction 1; cbn [alts]; [apply fail_sound|apply alt_sound; assumption]. Qed.
Lemma alts_map_sound {A E} P (sa : A -> list atom) (g : E -> parser A) (table : list E) :
  (forall e, In e table -> sound P sa (g e)) -> sound P sa (alts (map g table)).
Proof. intros H. apply alts_sound. apply Forall_forall. intros p Hp. apply in_map_iff in Hp. destruct Hp as [e [<- He]]. auto. Qed.

Lemma opt_sound {A} P (sa : A -> list atom) (p : parser A) :
  sound P sa p -> sound P (a_opt sa) (opt p).
Proof.
  intros Hp st i st' res E. unfold opt in E. destruct (p st i) as [st1 [a r| |x]] eqn:Ep; inversion E; subst;
    destruct (Hp _ _ _ _ Ep) as [Hs Hr]; split; auto.
  cbn. repeat split; auto; try constructor. intros _ H; discriminate.
Qed.

Lemma not_sound {A} P (p : parser A) (sa : A -> list atom) at_ :
  sound P sa p -> at_ tt = [] -> sound P at_ (not_p p).
Proof.
  intros Hp Ht st i st' res E. unfold not_p in E. destruct (p st i) as [st1 [a r| |x]] eqn:Ep; inversion E; subst;
    destruct (Hp _ _ _ _ Ep) as [Hs Hr]; split; auto.
  rewrite Ht. cbn. repeat split; auto. intros _ H; discriminate.
Qed.

Lemma app_length_sub {T} (a b : list T) : (length (a ++ b) - length b)%nat = length a.
Proof. rewrite app_length. lia. Qed.
Lemma firstn_app_exact {T} (a b : list T) : firstn (length a) (a ++ b) = a.
Proof. rewrite firstn_app, Nat.sub_diag, firstn_all. cbn. apply app_nil_r. Qed.

Lemma recognize_sound {A} P (sa : A -> list atom) (p : parser A) :
  sound P sa p -> sound P (fun s => [AText None s]) (recognize p).
Proof.
  intros Hp st i st' res E. unfold recognize in E. destruct (p st i) as [st1 [a r| |x]] eqn:Ep; inversion E; subst;
    destruct (Hp _ _ _ _ Ep) as [Hs Hr]; split; auto.
  destruct Hr as [H1 _].
  assert (F : P i -> firstn (length (rem i) - length (rem r)) (rem i) = exact (sa a)).
  { intros HP. destruct (H1 HP) as [E1 _]. rewrite E1. rewrite app_length_sub. apply firstn_app_exact. }
  split; [|split].
  - intros HP. rewrite (F HP). destruct (H1 HP) as [E1 T1]. split.
    + unfold exact at 1. cbn. rewrite app_nil_r. assumption.
    + apply tiling_len in T1. cbn. split; [exact I|]. lia.
  - repeat constructor.
  - intros _ Hl. discriminate.
Qed.

Lemma many0_aux_sound {A} (sa : A -> list atom) (p : parser A) fuel :
  sound anyP sa p -> sound anyP (fun l => concat (map sa l)) (many0_aux fuel p).
Proof.
  intros Hp. induction fuel as [|f IH]; intros st i st' res E; cbn [many0_aux] in E.
  - inversion E; subst. split; [apply sle_refl|exact I].
  - destruct (p st i) as [st1 [a r| |x]] eqn:Ep; destruct (Hp _ _ _ _ Ep) as [Hs1 Hr1].
    + destruct (length (rem r) =? length (rem i))%nat; [inversion E; subst; split; auto|].
      destruct (many0_aux f p st1 r) as [st2 [l r'| |y]] eqn:Em; destruct (IH _ _ _ _ Em) as [Hs2 Hr2];
        inversion E; subst; (split; [eapply sle_trans; eassumption|]); auto.
      destruct Hr1 as [H1 [O1 L1]]. destruct Hr2 as [H2 [O2 L2]]. cbn [map concat]. repeat split.
      * destruct (H1 I) as [E1 _]. destruct (H2 I) as [E2 _]. rewrite exact_app, <- app_assoc, <- E2. assumption.
      * destruct (H1 I) as [_ T1]. destruct (H2 I) as [_ T2]. rewrite pieces_app. eapply tiling_app; eassumption.
      * apply Forall_app. split; assumption.
      * intros Hi Hl. rewrite lossy_app in Hl. apply orb_true_iff in Hl. destruct Hl as [Hl|Hl].
        -- apply (proj2 Hs2). apply L1; assumption.
        -- apply L2; [apply (proj1 Hs1); assumption|assumption].
    + inversion E; subst. split; auto. cbn. repeat split; auto. intros _ H; discriminate.
    + inversion E; subst. split; auto.
Qed.
Lemma many0_sound {A} P (sa : A -> list atom) (p : parser A) :
  sound anyP sa p -> sound P (fun l => concat (map sa l)) (many0 p).
Proof. intros Hp. apply sound_any. intros st i. apply many0_aux_sound. assumption. Qed.

Lemma many1_sound {A} P (sa : A -> list atom) (p : parser A) :
  sound anyP sa p -> sound P (fun l => concat (map sa l)) (many1 p).
Proof.
  intros Hp. unfold many1. eapply map_sound.
  - apply pair_sound; [apply sound_any; exact Hp|apply many0_sound; exact Hp].
  - intros [a l]. reflexivity.
Qed.

(* separated_list1: the elements' pieces with the separator text between them *)
Lemma separated_list1_sound {A B} P (sa : A -> list atom) (sb : B -> list atom) (sep : parser B) (f : parser A)
      (at_ : list A -> list atom) :
  sound anyP sa f -> sound anyP sb sep ->
  (forall a l, at_ (a :: map snd l) = sa a ++ concat (map (fun x : B * A => sb (fst x) ++ sa (snd x)) l)) ->
  sound P at_ (separated_list1 sep f).
Proof.
  intros Hf Hs Hat. unfold separated_list1. eapply map_sound.
  - apply pair_sound; [apply sound_any; exact Hf|]. apply many0_sound. apply pair_sound; eassumption.
  - intros [a l]. cbn [fst snd]. apply Hat.
Qed.

Lemma report_error_sle d st : sle st (report_error d st).
Proof.
  unfold report_error, sle, inv. destruct (ignore_next st) eqn:Ei; cbn; split; auto; try discriminate.
Qed.
Lemma report_error_nonempty d st : inv st -> errors (report_error d st) <> [].
Proof. unfold report_error, inv. destruct (ignore_next st); cbn; auto. discriminate. Qed.

Lemma expect_sound {A} P (sa : A -> list atom) (p : parser A) (m : dmsg) (none_atoms : list atom) :
  sound P sa p -> exact none_atoms = [] -> pieces none_atoms = map (fun a => (None, [])) none_atoms -> Forall atom_ok none_atoms ->
  (m = MEmpty -> lossy none_atoms = false) ->
  sound P (fun o => match o with Some a => sa a | None => none_atoms end) (expect p m).
Proof.
  intros Hp He Hpc Hok Hm st i st' res E. unfold expect in E.
  destruct (p st i) as [st1 [a r| |x]] eqn:Ep; destruct (Hp _ _ _ _ Ep) as [Hs Hr].
  - inversion E; subst. split; assumption.
  - assert (Htile : forall a, tiling a (pieces none_atoms) a).
    { rewrite Hpc. clear. induction none_atoms; intros; cbn; [reflexivity|]. split; [exact I|]. cbn. rewrite N.add_0_r. apply IHnone_atoms. }
    assert (Hok_case : forall st2, sle st st2 -> (inv st -> lossy none_atoms = true -> errors st2 <> []) ->
        sle st st2 /\ ((P i -> rem i = exact none_atoms ++ rem i /\ tiling (off i) (pieces none_atoms) (off i)) /\
                       Forall atom_ok none_atoms /\ (inv st -> lossy none_atoms = true -> errors st2 <> []))).
    { intros st2 S L. split; [exact S|]. split; [intros _; split; [rewrite He; reflexivity|apply Htile]|]. split; assumption. }
    destruct m; inversion E; subst; apply Hok_case;
      try exact Hs; try (eapply sle_trans; [exact Hs|apply report_error_sle]);
      try (intros Hi _; apply report_error_nonempty; apply (proj1 Hs); exact Hi).
    intros _ Hl. rewrite Hm in Hl by reflexivity. discriminate.
  - inversion E; subst. split; auto.
Qed.

(* located(p): the Located has no trivia *)
Lemma located_sound {A} P (sa : A -> list atom) (p : parser A) :
  sound P sa p -> sound P (a_loc sa) (located_p p).
Proof.
  intros Hp st i st' res E. unfold located_p in E. destruct (p st i) as [st1 [a r| |x]] eqn:Ep; inversion E; subst;
    destruct (Hp _ _ _ _ Ep) as [Hs Hr]; split; auto.
Qed.
(* ... and, for a terminal, the Located's span is exactly the range of the text *)
Lemma located_span_sound {A} P (txt : A -> text) (p : parser A) (mk : option span -> A -> atom) :
  (forall sp v, exact_atom (mk sp v) = txt v) -> (forall sp v, span_atom (mk sp v) = sp) ->
  (forall sp v, lossy_atom (mk sp v) = false) -> (forall sp sp' v, atom_ok (mk sp v) -> atom_ok (mk sp' v)) ->
  sound P (fun v => [mk None v]) p ->
  sound P (fun l => a_triv (triv l) ++ [mk (sp_of l) (data l)]) (located_p p).
Proof.
  intros Hx Hsp Hl Hok Hp st i st' res E. unfold located_p in E. destruct (p st i) as [st1 [a r| |x]] eqn:Ep; inversion E; subst;
    destruct (Hp _ _ _ _ Ep) as [Hs Hr]; split; auto.
  destruct Hr as [H1 [O1 L1]]. cbn [triv data a_triv app].
  split; [|split].
  - intros HP. destruct (H1 HP) as [E1 T1]. apply tiling_len in T1.
    assert (E1' : rem i = txt a ++ rem r) by (unfold exact in E1; cbn in E1; rewrite app_nil_r, Hx in E1; exact E1).
    assert (T1' : off r = off i + blen (txt a)) by (unfold exact in T1; cbn in T1; rewrite app_nil_r, Hx in T1; exact T1).
    split.
    + unfold exact. cbn. rewrite app_nil_r, Hx. exact E1'.
    + cbn. rewrite Hsp, Hx. unfold sp_of. cbn. split; [split; [reflexivity|exact T1']|lia].
  - inversion O1; subst. constructor; [eapply Hok; eassumption|constructor].
  - intros _ Hf. unfold lossy in Hf. cbn in Hf. rewrite Hl in Hf. discriminate.
Qed.

(* opt(<trivia>) then located_with_trivia(p) *)
Lemma with_trivia_sound {A} P (sa : A -> list atom) (tp : parser ltrivia) (p : parser A) :
  sound anyP (fun t => [ATriv t]) tp -> sound anyP sa p -> sound P (a_loc sa) (with_trivia tp p).
Proof.
  intros Ht Hp. apply sound_any. intros st i st' res E. unfold with_trivia in E.
  pose proof (opt_sound anyP _ _ Ht) as Ho.
  destruct (opt tp st i) as [st1 [t r| |x]] eqn:Eo; destruct (Ho _ _ _ _ Eo) as [Hs1 Hr1];
    [|inversion E; subst; split; auto..].
  destruct (p st1 r) as [st2 [a r'| |y]] eqn:Ep; destruct (Hp _ _ _ _ Ep) as [Hs2 Hr2]; inversion E; subst;
    (split; [eapply sle_trans; eassumption|]); auto.
  destruct Hr1 as [H1 [O1 L1]]. destruct Hr2 as [H2 [O2 L2]]. unfold a_loc. cbn [triv data].
  assert (Et : a_opt (fun t => [ATriv t]) t = a_triv t) by (destruct t; reflexivity). rewrite Et in *.
  split; [intros _; split|split].
  - destruct (H1 I) as [E1 _]. destruct (H2 I) as [E2 _]. rewrite exact_app, <- app_assoc, <- E2. assumption.
  - destruct (H1 I) as [_ T1]. destruct (H2 I) as [_ T2]. rewrite pieces_app. eapply tiling_app; eassumption.
  - apply Forall_app. split; assumption.
  - intros Hi Hl. rewrite lossy_app in Hl. apply orb_true_iff in Hl. destruct Hl as [Hl|Hl].
    + apply (proj2 Hs2). apply L1; assumption.
    + apply L2; [apply (proj1 Hs1); assumption|assumption].
Qed.
Lemma with_trivia_span_sound_gen {A} P (Q : input -> Prop) (txt : A -> text) (tp : parser ltrivia) (p : parser A) (mk : option span -> A -> atom) :
  (forall sp v, exact_atom (mk sp v) = txt v) -> (forall sp v, span_atom (mk sp v) = sp) ->
  (forall sp v, lossy_atom (mk sp v) = false) -> (forall sp sp' v, atom_ok (mk sp v) -> atom_ok (mk sp' v)) ->
  (forall st i st' t r, opt tp st i = (st', Ok t r) -> Q r) ->
  sound anyP (fun t => [ATriv t]) tp -> sound Q (fun v => [mk None v]) p ->
  sound P (fun l => a_triv (triv l) ++ [mk (sp_of l) (data l)]) (with_trivia tp p).
Proof.
  intros Hx Hsp Hl Hok HQ Ht Hp. apply sound_any. intros st i st' res E. unfold with_trivia in E.
  pose proof (opt_sound anyP _ _ Ht) as Ho.
  destruct (opt tp st i) as [st1 [t r| |x]] eqn:Eo; destruct (Ho _ _ _ _ Eo) as [Hs1 Hr1];
    [|inversion E; subst; split; auto..].
  pose proof (HQ _ _ _ _ _ Eo) as Hq.
  destruct (p st1 r) as [st2 [a r'| |y]] eqn:Ep; destruct (Hp _ _ _ _ Ep) as [Hs2 Hr2]; inversion E; subst;
    (split; [eapply sle_trans; eassumption|]); auto.
  destruct Hr1 as [H1 [O1 L1]]. destruct Hr2 as [H2 [O2 L2]]. cbn [triv data].
  assert (Et : a_opt (fun t => [ATriv t]) t = a_triv t) by (destruct t; reflexivity). rewrite Et in *.
  destruct (H1 I) as [E1 T1]. destruct (H2 Hq) as [E2 T2].
  assert (E2' : rem r = txt a ++ rem r') by (unfold exact in E2; cbn in E2; rewrite app_nil_r, Hx in E2; exact E2).
  assert (T2' : off r' = off r + blen (txt a)).
  { apply tiling_len in T2. unfold exact in T2. cbn in T2. rewrite app_nil_r, Hx in T2. exact T2. }
  split; [intros _; split|split].
  - rewrite exact_app, <- app_assoc. unfold exact at 2. cbn. rewrite app_nil_r, Hx, <- E2'. assumption.
  - rewrite pieces_app. eapply tiling_app; [eassumption|]. cbn. rewrite Hsp, Hx. unfold sp_of. cbn.
    split; [split; [reflexivity|assumption]|]. lia.
  - apply Forall_app. split; [assumption|]. inversion O2; subst. constructor; [eapply Hok; eassumption|constructor].
  - intros Hi Hf. rewrite lossy_app in Hf. apply orb_true_iff in Hf. destruct Hf as [Hf|Hf].
    + apply (proj2 Hs2). apply L1; assumption.
    + unfold lossy in Hf. cbn in Hf. rewrite Hl in Hf. discriminate.
Qed.

Lemma with_trivia_span_sound {A} P (txt : A -> text) (tp : parser ltrivia) (p : parser A) (mk : option span -> A -> atom) :
  (forall sp v, exact_atom (mk sp v) = txt v) -> (forall sp v, span_atom (mk sp v) = sp) ->
  (forall sp v, lossy_atom (mk sp v) = false) -> (forall sp sp' v, atom_ok (mk sp v) -> atom_ok (mk sp' v)) ->
  sound anyP (fun t => [ATriv t]) tp -> sound anyP (fun v => [mk None v]) p ->
  sound P (fun l => a_triv (triv l) ++ [mk (sp_of l) (data l)]) (with_trivia tp p).
Proof. intros. eapply with_trivia_span_sound_gen with (Q := anyP); eauto. intros; exact I. Qed.

(* a parser followed by State::new_anonymous_scope *)
Lemma with_scope_sound {A B} P (sa : A -> list atom) (sb : B -> list atom) (p : parser A) (f : A -> nat -> B) :
  sound P sa p -> (forall a n, sb (f a n) = sa a) -> sound P sb (with_scope p f).
Proof.
  intros Hp Hf st i st' res E. unfold with_scope in E. destruct (p st i) as [st1 [a r| |x]] eqn:Ep;
    destruct (Hp _ _ _ _ Ep) as [Hs Hr]; cbn in E; inversion E; subst; try (split; [assumption|exact I]).
  split.
  - destruct Hs as [Hs1 Hs2]. split; intros H; [apply Hs1 in H|apply Hs2 in H]; exact H.
  - rewrite Hf. destruct Hr as [H1 [O1 L1]]. split; [exact H1|split; [exact O1|exact L1]].
Qed.

(* two piece lists that the soundness statement cannot tell apart *)
Definition aequiv (l1 l2 : list atom) : Prop :=
  pieces l1 = pieces l2 /\ (Forall atom_ok l1 -> Forall atom_ok l2) /\ (lossy l2 = true -> lossy l1 = true).
Lemma exact_pieces l : exact l = concat (map snd (pieces l)).
Proof. unfold exact, pieces. rewrite map_map. reflexivity. Qed.
Lemma aequiv_refl l : aequiv l l.
Proof. repeat split; auto. Qed.
Lemma aequiv_app a b c d : aequiv a b -> aequiv c d -> aequiv (a ++ c) (b ++ d).
Proof.
  intros [P1 [O1 L1]] [P2 [O2 L2]]. split; [|split].
  - rewrite !pieces_app. congruence.
  - intros H. apply Forall_app in H. apply Forall_app. split; [apply O1|apply O2]; apply H.
  - rewrite !lossy_app. intros H. apply orb_true_iff in H. apply orb_true_iff. destruct H; [left; auto|right; auto].
Qed.
Lemma sound_equiv {A} P (a1 a2 : A -> list atom) (p : parser A) :
  sound P a1 p -> (forall v, aequiv (a1 v) (a2 v)) -> sound P a2 p.
Proof.
  intros H E st i st' res Hp. destruct (H _ _ _ _ Hp) as [Hs Hr]. split; [assumption|].
  destruct res as [v r| |]; auto. destruct (E v) as [E1 [E2 E3]]. destruct Hr as [H1 [O1 L1]]. split; [|split].
  - intros HP. destruct (H1 HP) as [X T]. rewrite exact_pieces in *. rewrite <- E1. split; assumption.
  - auto.
  - intros Hi Hl. apply L1; auto.
Qed.
Lemma map_sound_equiv {A B} P (sa : A -> list atom) (sb : B -> list atom) (f : A -> B) (p : parser A) :
  sound P sa p -> (forall a, aequiv (sa a) (sb (f a))) -> sound P sb (map_p f p).
Proof.
  intros H Hf st i st' res E. unfold map_p in E. destruct (p st i) as [st1 [a r| |x]] eqn:Ep; inversion E; subst;
    destruct (H _ _ _ _ Ep) as [Hs Hr]; split; auto.
  destruct (Hf a) as [E1 [E2 E3]]. destruct Hr as [H1 [O1 L1]]. split; [|split].
  - intros HP. destruct (H1 HP) as [X T]. rewrite exact_pieces in *. rewrite <- E1. split; assumption.
  - auto.
  - intros Hi Hl. apply L1; auto.
Qed.

(* peek: nothing is consumed, the value carries no pieces *)
Lemma peek_sound {A} P (sa : A -> list atom) (p : parser A) : sound P sa p -> sound P (fun _ => []) (peek p).
Proof.
  intros Hp st i st' res E. unfold peek in E. destruct (p st i) as [st1 [a r| |x]] eqn:Ep; inversion E; subst;
    destruct (Hp _ _ _ _ Ep) as [Hs Hr]; split; auto.
  split; [intros _; split; [reflexivity|reflexivity]|]. split; [constructor|]. intros _ H; discriminate.
Qed.

(* nested: entering and leaving a nesting level does not touch diagnostics; beyond the limit a diagnostic is reported *)
Lemma nested_sound {A} P (sa : A -> list atom) k (p : parser A) : sound P sa p -> sound P sa (nested k p).
Proof.
  intros Hp st i st' res E. unfold nested in E. destruct (nesting (enter_nesting st) <=? k)%nat.
  - destruct (p (enter_nesting st) i) as [st2 r] eqn:Ep. inversion E; subst. destruct (Hp _ _ _ _ Ep) as [Hs Hr].
    split; [exact Hs|]. destruct res; auto.
  - inversion E; subst. split; [|exact I]. exact (report_error_sle _ (enter_nesting st)).
Qed.

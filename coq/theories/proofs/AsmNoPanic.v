(* C06 over the assembler model (model/Asm.v, read-only): no statement panics.

   `emit_token fuel t c` has the explicit outcomes Ret / Err (diagnostics) / Abort f with
   f = FFuel (the model's recursion bound), FUnsupported (statements the model does not follow),
   FDiverge (an unbounded parent chain in the symbol table) and FPanic (the dev build panics here).
   Theorem emit_token_total: from a context that satisfies the invariant `inv`, for a token that satisfies
   `tok_ok`, the outcome is never Abort FPanic, and the invariant holds again afterwards (so the statement
   extends to token lists, passes and the whole pass loop).

   inv c   : every segment has accepted options (start and target 0..$FFFF), a program counter 0..$10000 whose
             target address is not negative; the current segment exists; macro bodies stored in the symbol
             table satisfy tok_ok.  It holds for the initial context, with any start address 0..$FFFF.
   tok_ok t: sizes that are not part of the language are excluded: `.byte/.word/.dword` write at most 8 bytes
             per value, and the string of `.text` is a literal shorter than 2^32 bytes.  The model keeps byte
             strings as lists of any length, and `emit` panics, as Rust's `pc + len` would, for a string of
             2^64 - 2^17 bytes or more: such a string is not a value of the program (a Vec holds at most
             2^63 - 1 bytes).  emit_panics_only_if states this bound. *)
From Coq Require Import List NArith ZArith Bool PeanoNat Lia.
Import ListNotations.
From Mos Require Import proofs.SitesProofs proofs.EncodeProofs.
From Mos Require Import model.I64 Gen.BinOps model.Expr Gen.OpcodeTable spec.Isa model.Encode.
From Mos Require Import model.SymTab Gen.CodegenConsts model.Segment model.Asm.
Open Scope Z_scope.

(* ------------------------------------------------------------------ what is excluded by size *)
Definition text_cap : Z := 4294967296.
Definition lit_text (e : expr) : bool :=
  match e with EStr [SLit s] _ _ => Z.of_nat (length s) <? text_cap | _ => false end.

Fixpoint tok_ok (t : token) : Prop :=
  match t with
  | TBraces _ b => blk_ok b
  | TData size _ => (size <= 8)%nat
  | TIf _ i e => blk_ok i /\ match e with Some b => blk_ok b | None => True end
  | TImport _ _ b file =>
      match b with Some b => blk_ok b | None => True end /\
      match file with
      | Some ts => (fix all (l : list token) : Prop := match l with [] => True | x :: r => tok_ok x /\ all r end) ts
      | None => True
      end
  | TLabel _ _ b => match b with Some b => blk_ok b | None => True end
  | TLoop _ _ b => blk_ok b
  | TMacroDef _ _ _ b => blk_ok b
  | TSegment _ b => match b with Some b => blk_ok b | None => True end
  | TText _ txt => lit_text (le_expr txt) = true
  | _ => True
  end
with blk_ok (b : block) : Prop :=
  match b with
  | Blk _ _ inner => (fix all (l : list token) : Prop := match l with [] => True | x :: r => tok_ok x /\ all r end) inner
  end.

Definition toks_ok (l : list token) : Prop :=
  (fix all (l : list token) : Prop := match l with [] => True | x :: r => tok_ok x /\ all r end) l.
Lemma toks_ok_Forall l : toks_ok l <-> Forall tok_ok l.
Proof.
  induction l as [|x r IH]; cbn; [split; auto|]. fold (toks_ok r). rewrite IH. split.
  - intros [A B]. constructor; assumption.
  - intros H. inversion H; auto.
Qed.
Lemma blk_ok_inner b : blk_ok b -> Forall tok_ok (blk_inner b).
Proof. destruct b as [l r inner]. cbn. apply toks_ok_Forall. Qed.

(* ------------------------------------------------------------------ the invariant *)
Definition seg_np (s : segment) : Prop :=
  0 <= so_initial_pc (g_options s) <= 65535 /\ 0 <= so_target_address (g_options s) <= 65535 /\
  0 <= g_pc s <= 65536 /\
  0 <= g_pc s + (so_target_address (g_options s) - so_initial_pc (g_options s)).

Definition sd_ok (d : sdata) : Prop := match d with SDMacro _ _ body => Forall tok_ok body | _ => True end.
Definition store_ok (t : symtab symbol) : Prop := forall nx s, try_get t nx = Some s -> sd_ok (s_data s).

Definition inv (c : ctx) : Prop :=
  (forall n s, seg_get (segments c) n = Some s -> seg_np s) /\
  (forall n, current_segment c = Some n -> seg_get (segments c) n <> None) /\
  store_ok (symbols c).
(* segments are defined and redefined during a pass, never removed *)
Definition keeps (c c' : ctx) : Prop := forall n, seg_get (segments c) n <> None -> seg_get (segments c') n <> None.
Lemma keeps_refl c : keeps c c. Proof. unfold keeps; auto. Qed.
Lemma keeps_trans a b c : keeps a b -> keeps b c -> keeps a c. Proof. unfold keeps; auto. Qed.

Definition NP {A} (Q : A -> Prop) (m : M A) : Prop :=
  forall c, inv c ->
    match m c with
    | Ret a c' => inv c' /\ keeps c c' /\ Q a
    | Err _ c' => inv c' /\ keeps c c'
    | Abort f => f <> FPanic
    end.
Definition any {A} : A -> Prop := fun _ => True.
Notation NPu := (NP any).

(* ------------------------------------------------------------------ monad *)
Lemma NP_ret {A} (Q : A -> Prop) a : Q a -> NP Q (ret a).
Proof. intros H c I. cbn. auto using keeps_refl. Qed.
Lemma NP_fail {A} (Q : A -> Prop) ds : NP Q (fail ds).
Proof. intros c I. cbn. auto using keeps_refl. Qed.
Lemma NP_err1 {A} (Q : A -> Prop) k sp p ns : NP Q (err1 k sp p ns).
Proof. apply NP_fail. Qed.
Lemma NP_abort {A} (Q : A -> Prop) f : f <> FPanic -> NP Q (abort f).
Proof. intros H c I. exact H. Qed.
Lemma NP_get : NP inv get.
Proof. intros c I. cbn. auto using keeps_refl. Qed.
Lemma NP_modify f : (forall c, inv c -> inv (f c) /\ keeps c (f c)) -> NPu (modify f).
Proof. intros H c I. cbn. destruct (H c I). unfold any. auto. Qed.
Lemma NP_weaken {A} (P Q : A -> Prop) m : NP P m -> (forall a, P a -> Q a) -> NP Q m.
Proof. intros Hm H c I. specialize (Hm c I). destruct (m c); intuition. Qed.
Lemma NP_bind {A B} (P : A -> Prop) (Q : B -> Prop) (m : M A) (k : A -> M B) :
  NP P m -> (forall a, P a -> NP Q (k a)) -> NP Q (bind m k).
Proof.
  intros Hm Hk c I. unfold bind. specialize (Hm c I). destruct (m c) as [a c'|ds c'|f]; auto.
  destruct Hm as (I' & K & Pa). specialize (Hk a Pa c' I'). destruct (k a c') as [b c''|ds c''|f]; auto.
  - destruct Hk as (I'' & K' & Qb). eauto using keeps_trans.
  - destruct Hk as (I'' & K'). eauto using keeps_trans.
Qed.
Lemma NP_ignore_err {A} (P : A -> Prop) (m : M A) : NP P m -> NPu (ignore_err m).
Proof. intros Hm c I. unfold ignore_err. specialize (Hm c I). destruct (m c); unfold any; intuition. Qed.
Lemma NP_recover {A} (Q : A -> Prop) (m : M A) d : NP Q m -> Q d -> NP Q (recover m d).
Proof. intros Hm Hd c I. unfold recover. specialize (Hm c I). destruct (m c); intuition. Qed.
Lemma NP_finally {A} (Q : A -> Prop) (m : M A) cl : NP Q m -> NPu cl -> NP Q (finally m cl).
Proof.
  intros Hm Hc c I. unfold finally. specialize (Hm c I). destruct (m c) as [a c'|ds c'|f]; auto.
  - destruct Hm as (I' & K & Qa). specialize (Hc c' I'). destruct (cl c') as [u c''|ds c''|f]; auto.
    + destruct Hc as (I'' & K' & _). eauto using keeps_trans.
    + destruct Hc as (I'' & K'). eauto using keeps_trans.
  - destruct Hm as (I' & K). specialize (Hc c' I'). destruct (cl c') as [u c''|ds2 c''|f]; auto.
    + destruct Hc as (I'' & K' & _). eauto using keeps_trans.
    + destruct Hc as (I'' & K'). eauto using keeps_trans.
Qed.
Lemma NP_emit_tokens_with et ts : (forall t, In t ts -> NPu (et t)) -> forall acc, NPu (emit_tokens_with et ts acc).
Proof.
  induction ts as [|t r IH]; intros H acc; cbn [emit_tokens_with].
  - destruct acc; [apply NP_ret; exact I|apply NP_fail].
  - intros c Ic. pose proof (H t (or_introl eq_refl) c Ic) as Ht. destruct (et t c) as [a c'|ds c'|f]; auto.
    + destruct Ht as (I' & K & _).
      pose proof (IH (fun x Hx => H x (or_intror Hx)) acc c' I') as Hr.
      destruct (emit_tokens_with et r acc c') as [u c''|ds c''|f]; auto.
      * destruct Hr as (I'' & K' & _). unfold any. eauto using keeps_trans.
      * destruct Hr as (I'' & K'). eauto using keeps_trans.
    + destruct Ht as (I' & K).
      pose proof (IH (fun x Hx => H x (or_intror Hx)) (acc ++ ds) c' I') as Hr.
      destruct (emit_tokens_with et r (acc ++ ds) c') as [u c''|ds2 c''|f]; auto.
      * destruct Hr as (I'' & K' & _). unfold any. eauto using keeps_trans.
      * destruct Hr as (I'' & K'). eauto using keeps_trans.
Qed.

(* ------------------------------------------------------------------ the symbol table keeps its macro bodies *)
Lemma assoc_update (l : list (nat * option symbol)) nx d k s :
  assoc_nat (update_slot l nx d) k = Some (Some s) -> d = Some s \/ assoc_nat l k = Some (Some s).
Proof.
  induction l as [|[i x] r IH]; cbn [update_slot assoc_nat]; [discriminate|].
  destruct (Nat.eqb i nx) eqn:E; cbn [assoc_nat]; destruct (Nat.eqb i k) eqn:F; auto.
  intros H. injection H as ->. auto.
Qed.
Lemma store_update t nx d : store_ok t -> (forall s, d = Some s -> sd_ok (s_data s)) -> store_ok (update_data t nx d).
Proof.
  intros S Hd k s. unfold try_get, node_weight, update_data. cbn [nodes].
  destruct (assoc_nat (update_slot (nodes t) nx d) k) as [[x|]|] eqn:E; try discriminate. intros H. injection H as ->.
  apply assoc_update in E as [E|E]; [auto|]. apply (S k). unfold try_get, node_weight. rewrite E. reflexivity.
Qed.
Lemma store_add_node t d t' n : add_node t d = (t', n) -> store_ok t -> (forall s, d = Some s -> sd_ok (s_data s)) -> store_ok t'.
Proof.
  unfold add_node. intros H S Hd k s. unfold try_get, node_weight.
  destruct (free t); injection H as <- <-; cbn [nodes assoc_nat];
    (destruct (Nat.eqb _ k); [destruct d as [x|]; [intros H; injection H as ->; auto|discriminate]|apply (S k)]).
Qed.
Lemma store_add_edge t a id b : store_ok t -> store_ok (add_edge t a id b).
Proof. intros S k s. exact (S k s). Qed.
Lemma store_insert t p id d t' n : insert t p id d = (t', n) -> store_ok t -> (forall s, d = Some s -> sd_ok (s_data s)) -> store_ok t'.
Proof.
  unfold insert. destruct (add_node t d) as [t1 nx] eqn:E. intros H S Hd. injection H as <- <-.
  apply store_add_edge. eapply store_add_node; eauto.
Qed.
Lemma store_ensure path : forall t nx, store_ok t -> store_ok (fst (ensure_index t nx path)).
Proof.
  induction path as [|id rest IH]; intros t nx S; cbn [ensure_index]; [exact S|].
  destruct (child t nx id); [apply IH; exact S|].
  destruct (insert t nx id None) as [t1 n] eqn:E. apply IH. eapply store_insert; [exact E|exact S|discriminate].
Qed.
Lemma store_export t a b p : store_ok t -> store_ok (fst (export t a b p)).
Proof.
  intros S. unfold export. destruct (split_last p) as [pp new_id].
  pose proof (store_ensure pp t b S) as S1. destruct (ensure_index t b pp) as [t1 new_nx]. cbn [fst] in S1.
  destruct (existsb _ (edges t1)); cbn [fst]; [exact S1|apply store_add_edge; exact S1].
Qed.

(* ------------------------------------------------------------------ segments *)
Lemma teqb_refl a : text_eqb a a = true.
Proof. induction a as [|x a IH]; cbn; [reflexivity|]. rewrite N.eqb_refl. exact IH. Qed.
Lemma teqb_true a : forall b, text_eqb a b = true -> a = b.
Proof.
  induction a as [|x a IH]; destruct b as [|y b]; cbn; try discriminate; [reflexivity|].
  intros H. apply andb_prop in H as [H1 H2]. apply N.eqb_eq in H1. f_equal; auto.
Qed.
Lemma get_put_same l n s : seg_get (seg_put l n s) n = Some s.
Proof.
  induction l as [|[k x] r IH]; cbn [seg_put seg_get]; unfold ident_eqb in *; [rewrite teqb_refl; reflexivity|].
  destruct (text_eqb k n) eqn:E; cbn [seg_get]; unfold ident_eqb; rewrite E; auto.
Qed.
Lemma get_put_other l n s m : ident_eqb n m = false -> seg_get (seg_put l n s) m = seg_get l m.
Proof.
  unfold ident_eqb. intro H. induction l as [|[k x] r IH]; cbn [seg_put seg_get]; unfold ident_eqb; [rewrite H; reflexivity|].
  destruct (text_eqb k n) eqn:E; cbn [seg_get]; unfold ident_eqb.
  - apply teqb_true in E. subst k. rewrite H. reflexivity.
  - destruct (text_eqb k m); auto.
Qed.

Lemma inv_same c c' :
  segments c' = segments c -> current_segment c' = current_segment c -> store_ok (symbols c') -> inv c -> inv c' /\ keeps c c'.
Proof.
  intros Hs Hc St (A & B & _). split; [|unfold keeps; rewrite Hs; auto].
  unfold inv. rewrite Hs, Hc. auto.
Qed.

(* a segment is stored under n; the current segment stays, or becomes n *)
Lemma inv_put c n s' cur :
  inv c -> seg_np s' -> (forall m, cur = Some m -> m = n \/ current_segment c = Some m) ->
  inv (set_segments c (seg_put (segments c) n s') cur) /\ keeps c (set_segments c (seg_put (segments c) n s') cur).
Proof.
  intros (A & B & St) Hs Hc.
  assert (G : forall m, seg_get (segments c) m <> None -> seg_get (seg_put (segments c) n s') m <> None).
  { intros m Hm. destruct (ident_eqb n m) eqn:E.
    - apply teqb_true in E. subst m. rewrite get_put_same. discriminate.
    - rewrite get_put_other by exact E. exact Hm. }
  split; [|exact G]. unfold inv. cbn [segments current_segment symbols set_segments]. split; [|split].
  - intros m x. destruct (ident_eqb n m) eqn:E.
    + apply teqb_true in E. subst m. rewrite get_put_same. intros H. injection H as <-. exact Hs.
    + rewrite get_put_other by exact E. apply A.
  - intros m Hm. destruct (Hc m Hm) as [->|Hcur]; [rewrite get_put_same; discriminate|]. apply G. apply B. exact Hcur.
  - exact St.
Qed.

Lemma small_as_i64 z : 0 <= z <= 200000 -> usize_as_i64 z = z.
Proof. intros H. unfold usize_as_i64, Encode.i64_max. assert (E : (z <=? 9223372036854775807) = true) by lia. rewrite E. reflexivity. Qed.
Lemma small_as_usize z : 0 <= z <= 200000 -> as_usize z = z.
Proof. intros H. unfold as_usize, Encode.two64. apply Z.mod_small. lia. Qed.

Lemma np_target_offset s : seg_np s ->
  target_offset s = Some (so_target_address (g_options s) - so_initial_pc (g_options s)).
Proof.
  intros (Hi & Ht & _). unfold target_offset. rewrite !small_as_i64 by lia.
  assert (E : Encode.in_i64 (so_target_address (g_options s) - so_initial_pc (g_options s)) = true)
    by (unfold Encode.in_i64, Encode.i64_min, Encode.i64_max; lia).
  rewrite E. reflexivity.
Qed.
Lemma np_target_pc s : seg_np s ->
  target_pc s = Some (g_pc s + (so_target_address (g_options s) - so_initial_pc (g_options s))).
Proof.
  intros H. unfold target_pc. rewrite (np_target_offset s H). destruct H as (Hi & Ht & Hp & Hn).
  rewrite small_as_i64 by lia.
  assert (E : Encode.in_i64 (g_pc s + (so_target_address (g_options s) - so_initial_pc (g_options s))) = true)
    by (unfold Encode.in_i64, Encode.i64_min, Encode.i64_max; lia).
  rewrite E, small_as_usize by lia. reflexivity.
Qed.

Lemma inv_pc c : inv c -> try_current_target_pc c <> PcPanic.
Proof.
  intros (A & B & _). unfold try_current_target_pc, try_current_segment.
  destruct (current_segment c) as [n|] eqn:C; [|discriminate].
  destruct (seg_get (segments c) n) as [s|] eqn:G; [|discriminate].
  rewrite (np_target_pc s (A n s G)). discriminate.
Qed.

Lemma NP_current_target_pc : NPu current_target_pc.
Proof.
  intros c I. unfold current_target_pc. pose proof (inv_pc c I) as H.
  destruct (try_current_target_pc c); unfold any; auto using keeps_refl.
Qed.

(* ------------------------------------------------------------------ add_symbol, emit, evaluation *)
Lemma NP_add_symbol id sym : sd_ok (s_data sym) -> NPu (add_symbol id sym).
Proof.
  intros Hs c I. pose proof I as (A & B & S). unfold add_symbol.
  assert (Hd : forall s, Some sym = Some s -> sd_ok (s_data s)) by (intros s H; injection H as <-; exact Hs).
  destruct (try_index (symbols c) (current_scope_nx c) id) as [nx|].
  - destruct (try_get (symbols c) nx) as [ex|].
    + destruct (redefinition ex sym); [auto using keeps_refl|].
      destruct (negb (sdata_eqb (s_data ex) (s_data sym))); [destruct (symtype_eqb (s_ty sym) TyVariable)|];
        (cbv beta iota zeta; match goal with |- inv ?c' /\ _ => destruct (inv_same c c' eq_refl eq_refl) as [I' K] end;
         [cbn; apply store_update; assumption|exact I|unfold any; auto]).
    + destruct (symtype_eqb (s_ty sym) TyVariable);
        (cbv beta iota zeta; match goal with |- inv ?c' /\ _ => destruct (inv_same c c' eq_refl eq_refl) as [I' K] end;
         [cbn; apply store_update; assumption|exact I|unfold any; auto]).
  - destruct (split_last (current_scope c ++ id)) as [pp last_id].
    pose proof (store_ensure pp (symbols c) root S) as S1.
    destruct (ensure_index (symbols c) root pp) as [t1 parent_nx]. cbn [fst] in S1.
    destruct (insert t1 parent_nx last_id (Some sym)) as [t2 nx] eqn:E.
    destruct (inv_same c (log (set_symbols c t2) (EvSym (current_scope_nx c) id (s_data sym) (s_ty sym))) eq_refl eq_refl) as [I' K];
      [cbn; eapply store_insert; eauto|exact I|unfold any; auto].
Qed.

(* the byte strings the statements hand to `emit` *)
Definition fits (bytes : list N) : Prop := Z.of_nat (length bytes) < Encode.two64 - 131072.

Lemma NP_emit sp bytes : fits bytes -> NPu (emit sp bytes).
Proof.
  intros Hf c I. pose proof I as (A & B & S). unfold emit. unfold fits, Encode.two64 in Hf.
  destruct (current_segment c) as [n|] eqn:C; [|unfold any; auto using keeps_refl].
  destruct (seg_get (segments c) n) as [s|] eqn:G; [|exfalso; exact (B n eq_refl G)].
  pose proof (A n s G) as Hs. rewrite (np_target_pc s Hs). destruct Hs as (Hi & Ht & Hp & Hn).
  assert (E1 : (Encode.two64 <=? g_pc s + (so_target_address (g_options s) - so_initial_pc (g_options s)) + Z.of_nat (length bytes)) = false)
    by (unfold Encode.two64; lia).
  rewrite E1. unfold seg_emit.
  assert (E2 : (Encode.two64 <=? g_pc s + Z.of_nat (length bytes)) = false) by (unfold Encode.two64; lia).
  rewrite E2.
  destruct ((emit_start_limit <? g_pc s) || (emit_end_limit <? g_pc s + Z.of_nat (length bytes))) eqn:R;
    [auto using keeps_refl|].
  apply orb_false_iff in R as [R1 R2]. unfold emit_start_limit in R1. unfold emit_end_limit in R2.
  match goal with |- context [set_segments c (seg_put (segments c) n ?x) ?cur] =>
    destruct (inv_put c n x cur I) as [I' K] end.
  - unfold seg_np. cbn [g_options g_pc]. lia.
  - intros m Hm. right. rewrite C. exact Hm.
  - unfold any. auto.
Qed.

(* `emit` panics, from a context of the invariant, only for a string that does not fit the address space *)
Lemma emit_panics_only_if sp bytes c : inv c -> emit sp bytes c = Abort FPanic ->
  Encode.two64 - 131072 <= Z.of_nat (length bytes).
Proof.
  intros I H. destruct (Z_lt_le_dec (Z.of_nat (length bytes)) (Encode.two64 - 131072)) as [L|L]; [|exact L].
  exfalso. assert (F : fits bytes) by exact L.
  pose proof (NP_emit sp bytes F c I) as N. rewrite H in N. congruence.
Qed.

Lemma flag_usages_same ps : forall c,
  segments (flag_usages c ps) = segments c /\ current_segment (flag_usages c ps) = current_segment c /\
  symbols (flag_usages c ps) = symbols c.
Proof.
  induction ps as [|[p sp] r IH]; intros c; cbn [flag_usages]; [auto|].
  destruct (lookup_in (symbols c) (current_scope_nx c) p); [apply IH|].
  destruct (IH (flag_undefined c p (Some sp))) as (H1 & H2 & H3). rewrite H1, H2, H3. auto.
Qed.

(* the string of a `.text` that tok_ok admits is the literal *)
Definition short_str (e : lexpr) (v : option sval) : Prop :=
  lit_text (le_expr e) = true -> forall s, v = Some (SStr s) -> Z.of_nat (length s) < text_cap.

Lemma lit_text_eval en e v : lit_text e = true -> eval en e = EVal v -> forall s, v = Some (SStr s) -> Z.of_nat (length s) < text_cap.
Proof.
  intros L Ev s ->. destruct e as [| | | | | |items fnot fneg]; try discriminate.
  destruct items as [|[lit|p] [|i2 r]]; try discriminate. cbn [lit_text] in L.
  cbn [eval interpolate option_map with_flags] in Ev. injection Ev as <-. rewrite app_nil_r. lia.
Qed.

Lemma NP_eval e : NP (short_str e) (evaluate_expression e).
Proof.
  intros c I. unfold evaluate_expression. pose proof (inv_pc c I) as Hpc.
  destruct (try_current_target_pc c) eqn:T; try congruence; cbv beta iota zeta;
  (destruct (diverges c (le_expr e)); [discriminate|];
   match goal with |- context [eval ?en ?ex] =>
     pose proof (eval_no_panic en ex) as Hp; destruct (eval en ex) as [v|x|] eqn:Ev end;
   [|split; [exact I|apply keeps_refl]|congruence];
   destruct (flag_usages_same (combine (usages (le_expr e)) (le_ids e)) c) as (H1 & H2 & H3);
   match goal with |- inv ?c' /\ _ => destruct (inv_same c c' H1 H2) as [I' K] end;
   [cbn [symbols log]; rewrite H3; apply I|exact I|];
   split; [exact I'|split; [exact K|]];
   unfold short_str; intros L; eapply lit_text_eval; eauto).
Qed.

Lemma NP_eval_i64 e : NPu (evaluate_expression_as_i64 e).
Proof.
  unfold evaluate_expression_as_i64. eapply NP_bind; [apply NP_eval|]. intros v _.
  destruct v as [[n|s]|]; [apply NP_ret; exact I|apply NP_err1|apply NP_ret; exact I].
Qed.
Definition short_text (e : lexpr) (v : option text) : Prop :=
  lit_text (le_expr e) = true -> forall s, v = Some s -> Z.of_nat (length s) < text_cap.
Lemma NP_eval_string e : NP (short_text e) (evaluate_expression_as_string e).
Proof.
  unfold evaluate_expression_as_string. eapply NP_bind; [apply NP_eval|]. intros v Hv.
  destruct v as [[n|s]|]; [apply NP_err1| |apply NP_ret; intros _ s H; discriminate].
  apply NP_ret. intros L s' H. injection H as <-. apply (Hv L s eq_refl).
Qed.

(* ------------------------------------------------------------------ named context updates *)
Lemma inv_enter s c : inv c -> inv (enter_scope s c) /\ keeps c (enter_scope s c).
Proof.
  intros I. unfold enter_scope. pose proof (store_ensure (current_scope c ++ [s]) (symbols c) root ltac:(apply I)) as S1.
  destruct (ensure_index (symbols c) root (current_scope c ++ [s])) as [t1 nx]. cbn [fst] in S1.
  apply inv_same; [reflexivity|reflexivity|exact S1|exact I].
Qed.
Lemma inv_leave p n c : inv c -> inv (leave_scope p n c) /\ keeps c (leave_scope p n c).
Proof. intros I. apply inv_same; [reflexivity|reflexivity|apply I|exact I]. Qed.
Lemma inv_bump c : inv c -> inv (bump_macro_id c) /\ keeps c (bump_macro_id c).
Proof. intros I. apply inv_same; [reflexivity|reflexivity|apply I|exact I]. Qed.
Lemma inv_flag id sp c : inv c -> inv (flag_undefined c id sp) /\ keeps c (flag_undefined c id sp).
Proof. intros I. apply inv_same; [reflexivity|reflexivity|apply I|exact I]. Qed.
Lemma inv_install n b ip w ta c : 0 <= ip <= 65535 -> 0 <= ta <= 65535 -> inv c ->
  inv (install_segment n (mkSegOpts b ip w ta) c) /\ keeps c (install_segment n (mkSegOpts b ip w ta) c).
Proof.
  intros Hi Ht I. unfold install_segment.
  match goal with |- inv (log (set_segments c (seg_put (segments c) n ?x) ?cur) _) /\ _ =>
    destruct (inv_put c n x cur I) as [I' K] end.
  - unfold seg_np, seg_new. cbn [g_options g_pc so_initial_pc so_target_address]. lia.
  - intros m. destruct (current_segment c); intros H; [right; exact H|left; injection H as <-; reflexivity].
  - split; [exact I'|exact K].
Qed.

Lemma NP_export a b p : NPu (export_one a b p).
Proof.
  intros c I. unfold export_one. pose proof (store_export (symbols c) a b p ltac:(apply I)) as S1.
  destruct (export (symbols c) a b p) as [t1 ok]. cbn [fst] in S1.
  destruct (inv_same c (bump_vch (set_symbols c t1)) eq_refl eq_refl S1 I) as [I' K]. unfold any. auto.
Qed.
Lemma NP_import_as p : NPu (import_as_scope p).
Proof.
  intros c I. unfold import_as_scope. pose proof (store_ensure p (symbols c) (current_scope_nx c) ltac:(apply I)) as S1.
  destruct (ensure_index (symbols c) (current_scope_nx c) p) as [t1 nx]. cbn [fst] in S1.
  destruct (inv_same c (set_symbols c t1) eq_refl eq_refl S1 I) as [I' K]. unfold any. auto.
Qed.

Ltac np :=
  repeat match goal with
    | |- NP _ (bind _ _) => eapply NP_bind; [|intros ? ?]
    | |- NP _ (ret _) => apply NP_ret; try exact I
    | |- NP _ (fail _) => apply NP_fail
    | |- NP _ (err1 _ _ _ _) => apply NP_err1
    | |- NP _ (abort FUnsupported) => apply NP_abort; discriminate
    | |- NP _ (abort FDiverge) => apply NP_abort; discriminate
    | |- NP _ (abort FFuel) => apply NP_abort; discriminate
    | |- NP _ get => apply NP_get
    | |- NP _ current_target_pc => apply NP_current_target_pc
    | |- NP _ (evaluate_expression_as_i64 _) => apply NP_eval_i64
    | |- NP _ (evaluate_expression_as_string _) => apply NP_eval_string
    | |- NP _ (evaluate_expression _) => apply NP_eval
    | |- NP _ (export_one _ _ _) => apply NP_export
    | |- NP _ (import_as_scope _) => apply NP_import_as
    | |- NP _ (add_symbol _ _) => apply NP_add_symbol
    | |- NP _ (modify (enter_scope _)) => apply NP_modify; apply inv_enter
    | |- NP _ (modify (leave_scope _ _)) => apply NP_modify; apply inv_leave
    | |- NP _ (modify bump_macro_id) => apply NP_modify; apply inv_bump
    | |- NP _ (modify (fun c => flag_undefined c _ _)) => apply NP_modify; intro; apply inv_flag
    | |- NP _ (ignore_err _) => eapply NP_ignore_err
    | |- NP _ (match ?x with _ => _ end) => destruct x
    | |- NP _ (if ?b then _ else _) => destruct b
    end.

Lemma NP_scope_symbol n sp : NPu (scope_symbol n sp).
Proof. unfold scope_symbol. np. exact I. Qed.

Lemma NP_with_scope {A} (Q : A -> Prop) s b (f : M A) : NP Q f -> NP Q (with_scope s b f).
Proof.
  intro Hf. unfold with_scope. eapply NP_bind; [apply NP_get|intros c0 _].
  eapply NP_bind; [apply NP_modify; apply inv_enter|intros ? _].
  eapply NP_bind; [destruct b; [apply NP_scope_symbol|apply NP_ret; exact I]|intros ? _].
  apply NP_finally; [exact Hf|].
  eapply NP_bind; [destruct b; [apply NP_scope_symbol|apply NP_ret; exact I]|intros ? _].
  apply NP_modify. apply inv_leave.
Qed.

Definition addr (z : Z) : Prop := 0 <= z <= 65535.

Lemma NP_define_segment sp l : NPu (define_segment sp l).
Proof.
  unfold define_segment. destruct (validate_segment sp l); [|apply NP_fail].
  eapply NP_bind with (P := any).
  { destruct (try_get_expression l t_name); [|apply NP_err1]. np. }
  intros name _.
  eapply NP_bind with (P := addr).
  { destruct (try_get_expression l t_start); [|apply NP_ret; unfold addr; lia].
    eapply NP_bind; [apply NP_recover; [apply NP_eval_i64|exact I]|]. intros v _.
    destruct v as [v|]; [|apply NP_ret; unfold addr; lia].
    destruct (negb ((0 <=? v) && (v <=? 65535))) eqn:E; [apply NP_err1|]. apply NP_ret.
    apply negb_false_iff in E. apply andb_prop in E as [E1 E2]. unfold addr. rewrite small_as_usize; lia. }
  intros ip Hip.
  eapply NP_bind with (P := any).
  { destruct (try_get_expression l t_write); np. }
  intros w _.
  eapply NP_bind with (P := any).
  { destruct (try_get_expression l t_bank); np. }
  intros bank _.
  eapply NP_bind with (P := addr).
  { destruct (try_get_expression l t_pc); [|apply NP_ret; exact Hip].
    eapply NP_bind; [apply NP_eval_i64|]. intros v _.
    destruct v as [v|]; [|apply NP_ret; exact Hip].
    destruct (negb ((0 <=? v) && (v <=? 65535))) eqn:E; [apply NP_err1|]. apply NP_ret.
    apply negb_false_iff in E. apply andb_prop in E as [E1 E2]. unfold addr. rewrite small_as_usize; lia. }
  intros ta Hta.
  unfold install_checked. eapply NP_bind; [apply NP_get|intros c _].
  destruct (segment_has_code c name); [apply NP_err1|]. apply NP_modify. intros c1. apply inv_install; assumption.
Qed.

Lemma NP_loop_iterations body : (forall i, NPu (body i)) -> forall fuel i n, NPu (loop_iterations fuel i n body).
Proof.
  intros Hb fuel. induction fuel as [|f IH]; intros i n; cbn [loop_iterations]; destruct (n <=? i)%Z; try (apply NP_ret; exact I).
  - apply NP_abort. discriminate.
  - eapply NP_bind; [apply Hb|intros ? _; apply IH].
Qed.

Lemma NP_eval_macro_args args : NP (Forall sd_ok) (eval_macro_args args).
Proof.
  induction args as [|a r IH]; cbn [eval_macro_args]; [apply NP_ret; constructor|].
  eapply NP_bind; [apply NP_eval|intros v _]. eapply NP_bind; [exact IH|intros vs Hvs]. apply NP_ret.
  constructor; [destruct v as [[n|s]|]; exact I|exact Hvs].
Qed.

Lemma NP_bind_macro_args ps : forall vals, Forall sd_ok vals -> NPu (bind_macro_args ps vals).
Proof.
  induction ps as [|[p psp] ps IH]; intros vals Hv; cbn [bind_macro_args]; [apply NP_ret; exact I|].
  destruct vals as [|v vals]; [apply NP_ret; exact I|]. inversion Hv; subst.
  eapply NP_bind; [apply NP_get|intros c _]. eapply NP_bind; [apply NP_add_symbol; assumption|intros ? _]. apply IH. assumption.
Qed.

Lemma emit_data_length size v : length (emit_data size v) = size.
Proof. unfold emit_data, le_bytes. rewrite map_length, seq_length. reflexivity. Qed.

Lemma NP_emit_data_values size vs : (size <= 8)%nat -> NPu (emit_data_values size vs).
Proof.
  intros Hs. induction vs as [|e r IH]; cbn [emit_data_values]; [apply NP_ret; exact I|].
  eapply NP_bind; [apply NP_eval_i64|intros v _]. eapply NP_bind; [|intros ? _; exact IH].
  apply NP_emit. unfold fits, Encode.two64. destruct v; [rewrite emit_data_length|cbn [length]]; lia.
Qed.

Lemma NP_do_exports l : NPu (do_exports l).
Proof.
  induction l as [|[[[a b] p] sp] r IH]; cbn [do_exports]; [apply NP_ret; exact I|].
  eapply NP_bind; [apply NP_export|intros ok _]. destruct ok; [exact IH|apply NP_err1].
Qed.

Lemma NP_specific_exports nx items : NPu (specific_exports nx items).
Proof.
  induction items as [|[[orig as_] sp] r IH]; cbn [specific_exports]; [apply NP_ret; exact I|].
  eapply NP_bind; [apply NP_get|intros c _]. destruct (try_index (symbols c) nx orig).
  - eapply NP_bind; [exact IH|intros ? _]. apply NP_ret. exact I.
  - eapply NP_bind; [apply NP_modify; intro; apply inv_flag|intros ? _]. exact IH.
Qed.

(* ------------------------------------------------------------------ the statements *)
Lemma select_length cands v : forall bytes, select cands v = Some bytes -> (length bytes <= 3)%nat.
Proof.
  induction cands as [|[opc len] rest IH]; cbn [select]; [discriminate|]. intros bytes.
  destruct len as [|[|[|k]]]; try (intros H; injection H as <-; cbn; lia); [|apply IH].
  destruct (cmp_holds zp_cmp v zp_limit); [intros H; injection H as <-; cbn; lia|apply IH].
Qed.
Lemma instruction_length m f v cur : (length (fst (emit_instruction m f v cur)) <= 3)%nat.
Proof.
  unfold emit_instruction. destruct (form_operand f) as [[a sfx]|]; cbv zeta;
  match goal with |- context [match ?x with inl _ => _ | inr _ => _ end] => destruct x as [value|[| |]] end;
  cbn [fst length branch_too_far_bytes]; try lia;
  match goal with |- context [get_opcode_bytes ?m ?a ?s ?v] =>
    unfold get_opcode_bytes; destruct (lookup_row rows (m, a, s)) as [cands|]; [|cbn; lia];
    destruct (select cands v) as [bytes|] eqn:E; [apply select_length in E; cbn [fst]; exact E|cbn; lia] end.
Qed.

Lemma fits_short bytes : (length bytes <= 3)%nat -> fits bytes.
Proof. unfold fits, Encode.two64. lia. Qed.

Section Body.
Variable rec : token -> M unit.
Variable fuel : nat.
Hypothesis Hrec : forall t, tok_ok t -> NPu (rec t).

Lemma NP_tokens ts : Forall tok_ok ts -> NPu (emit_tokens rec ts).
Proof. intros H. apply NP_emit_tokens_with. intros t Ht. apply Hrec. rewrite Forall_forall in H. auto. Qed.

Lemma NP_emit_token_body t : tok_ok t -> NPu (emit_token_body rec fuel t).
Proof.
  intros Ht. destruct t; cbn [emit_token_body].
  - (* TAlign *) eapply NP_bind; [apply NP_current_target_pc|intros pc _]. destruct pc as [pc|]; [|apply NP_ret; exact I].
    eapply NP_bind; [apply NP_eval_i64|intros a _]. destruct a as [align|]; [|apply NP_ret; exact I].
    destruct (align <=? 0); [apply NP_err1|]. apply NP_emit. unfold fits, Encode.two64. rewrite repeat_length.
    unfold align_padding_cap. lia.
  - (* TBraces *) apply NP_with_scope. apply NP_tokens. apply blk_ok_inner. exact Ht.
  - (* TData *) apply NP_emit_data_values. exact Ht.
  - (* TDefine *) destruct cfg; [|apply NP_ret; exact I]. destruct (text_eqb id t_segment); [apply NP_define_segment|]. np.
  - (* TIf *) cbn in Ht. destruct Ht as [Hi He].
    eapply NP_bind; [apply NP_eval_i64|intros v _]. destruct v; [|apply NP_ret; exact I].
    destruct (negb (z =? 0)); [apply NP_tokens; apply blk_ok_inner; exact Hi|].
    destruct else_; [apply NP_tokens; apply blk_ok_inner; exact He|apply NP_ret; exact I].
  - (* TImport *) cbn in Ht. destruct Ht as [Hb Hf]. destruct file as [file_tokens|]; [|apply NP_ret; exact I].
    fold (toks_ok file_tokens) in Hf. apply toks_ok_Forall in Hf.
    eapply NP_bind.
    { apply NP_with_scope. eapply NP_bind; [destruct b; [apply NP_tokens; apply blk_ok_inner; exact Hb|apply NP_ret; exact I]|intros ? _].
      apply NP_tokens. exact Hf. }
    intros ? _. eapply NP_bind; [apply NP_get|intros c _].
    destruct (try_index (symbols c) (current_scope_nx c) [import_scope]); [|apply NP_ret; exact I].
    destruct args.
    + eapply NP_bind; [destruct as_ as [[p s]|]; [apply NP_import_as|apply NP_ret; exact I]|intros ? _].
      eapply NP_bind; [apply NP_get|intros ? _]. apply NP_do_exports.
    + eapply NP_bind; [apply NP_specific_exports|intros ? _]. apply NP_do_exports.
  - (* TInstr *)
    eapply NP_bind with (P := any).
    { destruct operand as [[e f]|]; [eapply NP_bind; [apply NP_eval_i64|intros ? _; apply NP_ret; exact I]|apply NP_ret; exact I]. }
    intros data _. destruct data as [[value f]|]; [|apply NP_emit; apply fits_short; cbn; lia].
    assert (Hcur : NPu current_target_pc) by apply NP_current_target_pc.
    (* the current pc is that of a segment of the invariant: below 2^64 *)
    intros c Ic. unfold bind. pose proof (Hcur c Ic) as Hp. unfold current_target_pc in *.
    pose proof Ic as (A & B & _).
    destruct (try_current_target_pc c) as [|pc|] eqn:T; [| |congruence].
    + pose proof (emit_instruction_no_panic m f value None ltac:(unfold Encode.two64; lia)) as NPn.
      pose proof (instruction_length m f value None) as L.
      destruct (emit_instruction m f value None) as [bytes [e|]]; cbn [fst snd] in *.
      * destruct e; [| |congruence].
        -- apply (NP_bind any any (emit _ bytes) (fun _ => err1 DBranchTooFar _ [] _)); [apply NP_emit; apply fits_short; lia|intros; apply NP_err1|exact Ic].
        -- apply (NP_bind any any (emit _ bytes) (fun _ => err1 DInvalidInstruction _ [] [])); [apply NP_emit; apply fits_short; lia|intros; apply NP_err1|exact Ic].
      * apply NP_emit; [apply fits_short; lia|exact Ic].
    + assert (Hpc : 0 <= pc < Encode.two64).
      { unfold try_current_target_pc, try_current_segment in T.
        destruct (current_segment c) as [n|]; [|discriminate]. destruct (seg_get (segments c) n) as [s|] eqn:G; [|discriminate].
        pose proof (A n s G) as Hs. rewrite (np_target_pc s Hs) in T. injection T as <-. destruct Hs as (? & ? & ? & ?).
        unfold Encode.two64. lia. }
      pose proof (emit_instruction_no_panic m f value (Some pc) Hpc) as NPn.
      pose proof (instruction_length m f value (Some pc)) as L.
      destruct (emit_instruction m f value (Some pc)) as [bytes [e|]]; cbn [fst snd] in *.
      * destruct e; [| |congruence].
        -- apply (NP_bind any any (emit _ bytes) (fun _ => err1 DBranchTooFar _ [] _)); [apply NP_emit; apply fits_short; lia|intros; apply NP_err1|exact Ic].
        -- apply (NP_bind any any (emit _ bytes) (fun _ => err1 DInvalidInstruction _ [] [])); [apply NP_emit; apply fits_short; lia|intros; apply NP_err1|exact Ic].
      * apply NP_emit; [apply fits_short; lia|exact Ic].
  - (* TLabel *)
    eapply NP_bind; [apply NP_current_target_pc|intros pc _].
    eapply NP_bind with (P := any); [destruct pc; np; exact I|intros ? _].
    destruct b; [apply NP_with_scope; apply NP_tokens; apply blk_ok_inner; exact Ht|apply NP_ret; exact I].
  - (* TLoop *)
    eapply NP_bind; [apply NP_eval_i64|intros n _]. destruct n; [|apply NP_ret; exact I].
    destruct (loop_iteration_limit <? z); [apply NP_abort; discriminate|]. apply NP_loop_iterations. intro i. apply NP_with_scope.
    eapply NP_bind; [apply NP_get|intros ? _]. eapply NP_bind; [apply NP_add_symbol; exact I|intros ? _].
    apply NP_tokens. apply blk_ok_inner. exact Ht.
  - (* TMacroDef *)
    eapply NP_bind; [apply NP_get|intros ? _]. eapply NP_bind; [apply NP_add_symbol|intros ? _; apply NP_ret; exact I].
    cbn. apply blk_ok_inner. exact Ht.
  - (* TInvoke *)
    eapply NP_bind; [apply NP_get|intros c Ic]. eapply NP_bind; [apply NP_modify; apply inv_bump|intros ? _].
    destruct (query_all (symbols c) (current_scope_nx c) [id]) as [nxs|]; [|apply NP_abort; discriminate].
    destruct (find_macro (symbols c) nxs) as [[[sp params] body]|] eqn:F; [|apply NP_modify; intro; apply inv_flag].
    assert (Hb : Forall tok_ok body).
    { destruct Ic as (_ & _ & S). clear - F S. induction nxs as [|nx r IH]; cbn [find_macro] in F; [discriminate|].
      destruct (try_get (symbols c) nx) as [s|] eqn:G; [|auto].
      destruct (s_data s) eqn:D; auto. injection F as <- <- <-. pose proof (S nx s G) as H. rewrite D in H. exact H. }
    destruct (negb (length args =? length params)%nat); [apply NP_err1|].
    eapply NP_bind; [apply NP_eval_macro_args|intros values Hv]. apply NP_with_scope.
    eapply NP_bind; [apply NP_bind_macro_args; exact Hv|intros ? _; apply NP_tokens; exact Hb].
  - (* TPc *)
    eapply NP_bind; [apply NP_eval_i64|intros v _]. destruct v as [pc|]; [|apply NP_ret; exact I].
    destruct (negb ((0 <=? pc) && (pc <=? 65536))) eqn:E; [apply NP_err1|].
    apply negb_false_iff in E. apply andb_prop in E as [E1 E2].
    intros c Ic. unfold bind, get. pose proof Ic as (A & B & S).
    destruct (current_segment c) as [n|] eqn:C; [|cbn; unfold any; auto using keeps_refl].
    destruct (seg_get (segments c) n) as [s|] eqn:G; [|cbn; unfold any; auto using keeps_refl].
    pose proof (A n s G) as Hs. rewrite (np_target_offset s Hs).
    destruct (pc + (so_target_address (g_options s) - so_initial_pc (g_options s)) <? 0) eqn:Neg; [cbn; auto using keeps_refl|].
    unfold modify, set_current_pc. rewrite C, G.
    destruct (inv_put c n (seg_set_pc s pc) (Some n) Ic) as [I' K].
    + destruct Hs as (? & ? & ? & ?). unfold seg_np, seg_set_pc. cbn [g_options g_pc]. rewrite small_as_usize by lia. lia.
    + intros m H. left. injection H as <-. reflexivity.
    + unfold any. auto.
  - (* TSegment *)
    eapply NP_bind; [apply NP_eval_string|intros s _]. destruct s as [name|]; [|apply NP_ret; exact I].
    destruct (existsb (N.eqb 46) name); [apply NP_err1|].
    intros c Ic. unfold bind at 1. unfold get. pose proof Ic as (A & B & S).
    destruct (seg_get (segments c) name) as [sg|] eqn:G; [|cbn; auto using keeps_refl].
    assert (I1 : inv (select_segment (Some name) c) /\ keeps c (select_segment (Some name) c)).
    { split; [|intros m H; exact H]. unfold inv, select_segment. cbn [segments current_segment symbols set_segments].
      split; [exact A|split; [|exact S]]. intros m H. injection H as <-. rewrite G. discriminate. }
    destruct b as [b|]; [|unfold modify, any; tauto].
    unfold bind, modify. destruct I1 as [I1 K1].
    pose proof (NP_tokens (blk_inner b) (blk_ok_inner b Ht) (select_segment (Some name) c) I1) as Hr.
    unfold finally.
    destruct (emit_tokens rec (blk_inner b) (select_segment (Some name) c)) as [u c'|ds c'|f]; [| |exact Hr].
    + destruct Hr as (I' & K' & _).
      assert (I2 : inv (select_segment (current_segment c) c')).
      { destruct I' as (A' & B' & S'). unfold inv, select_segment. cbn [segments current_segment symbols set_segments].
        split; [exact A'|split; [|exact S']]. intros m H. apply K'. cbn [segments select_segment set_segments]. apply B. exact H. }
      split; [exact I2|split; [|exact I]]. intros m H. apply K'. exact H.
    + destruct Hr as (I' & K').
      assert (I2 : inv (select_segment (current_segment c) c')).
      { destruct I' as (A' & B' & S'). unfold inv, select_segment. cbn [segments current_segment symbols set_segments].
        split; [exact A'|split; [|exact S']]. intros m H. apply K'. cbn [segments select_segment set_segments]. apply B. exact H. }
      split; [exact I2|]. intros m H. apply K'. exact H.
  - (* TTest *)
    eapply NP_bind; [apply NP_current_target_pc|intros pc _]. destruct pc; [|apply NP_ret; exact I].
    eapply NP_bind; [apply NP_eval_string|intros s _]. np. exact I.
  - (* TText *)
    cbn in Ht. eapply NP_bind; [apply NP_eval_string|intros s Hs]. destruct s as [s|]; [|apply NP_ret; exact I].
    destruct enc; [|apply NP_abort; discriminate]. unfold ascii_bytes.
    destruct (forallb (fun ch => N.ltb ch 128) s); [|apply NP_abort; discriminate].
    apply NP_emit. specialize (Hs Ht s eq_refl). unfold fits, text_cap, Encode.two64 in *. lia.
  - (* TVarDef *)
    eapply NP_bind; [apply NP_eval|intros v _]. destruct v as [v|]; [|apply NP_ret; exact I].
    eapply NP_bind; [apply NP_get|intros ? _]. eapply NP_bind; [apply NP_add_symbol|intros ? _; apply NP_ret; exact I].
    destruct v; exact I.
  - apply NP_ret. exact I.
  - apply NP_abort. discriminate.
Qed.
End Body.

(* C06_emit_token_total *)
Theorem emit_token_np : forall fuel t, tok_ok t -> NPu (emit_token fuel t).
Proof.
  induction fuel as [|f IH]; intros t Ht; cbn [emit_token]; [apply NP_abort; discriminate|].
  apply NP_emit_token_body; [exact IH|exact Ht].
Qed.

Theorem emit_token_total fuel t c : tok_ok t -> inv c ->
  match emit_token fuel t c with
  | Ret _ c' | Err _ c' => inv c'
  | Abort f => f <> FPanic
  end.
Proof.
  intros Ht I. pose proof (emit_token_np fuel t Ht c I) as H.
  destruct (emit_token fuel t c); [apply H|apply H|exact H].
Qed.

(* ------------------------------------------------------------------ a pass, and the pass loop *)
Lemma NP_collecting {A} (P : A -> Prop) (m : M A) k : NP P m -> NPu k -> NPu (collecting m k).
Proof.
  intros Hm Hk c I. unfold collecting. specialize (Hm c I). destruct (m c) as [a c1|ds c1|f]; auto.
  - destruct Hm as (I1 & K1 & _). specialize (Hk c1 I1). destruct (k c1) as [u c2|ds c2|f]; auto.
    + destruct Hk as (I2 & K2 & _). unfold any. eauto using keeps_trans.
    + destruct Hk as (I2 & K2). eauto using keeps_trans.
  - destruct Hm as (I1 & K1). specialize (Hk c1 I1). destruct (k c1) as [u c2|ds2 c2|f]; auto.
    + destruct Hk as (I2 & K2 & _). eauto using keeps_trans.
    + destruct Hk as (I2 & K2). eauto using keeps_trans.
Qed.
Lemma NP_register_segment_symbols l : NPu (register_segment_symbols l).
Proof.
  induction l as [|[n s] r IH]; cbn [register_segment_symbols]; [apply NP_ret; exact I|].
  eapply NP_collecting; [eapply NP_bind; [apply NP_get|intros ? _; apply NP_add_symbol; exact I]|].
  eapply NP_collecting; [eapply NP_bind; [apply NP_get|intros ? _; apply NP_add_symbol; exact I]|exact IH].
Qed.
Lemma NP_after_pass : NPu after_pass.
Proof. unfold after_pass. eapply NP_bind; [apply NP_get|intros ? _]. apply NP_register_segment_symbols. Qed.

Theorem run_pass_np fuel toks c : Forall tok_ok toks -> inv c ->
  match run_pass fuel toks c with PassOk _ c' => inv c' | PassAbort f => f <> FPanic end.
Proof.
  intros Ht I. unfold run_pass.
  pose proof (NP_emit_tokens_with (emit_token fuel) toks) as H1. unfold emit_tokens.
  specialize (H1 (fun t Hin => emit_token_np fuel t (proj1 (Forall_forall _ _) Ht t Hin)) [] c I).
  destruct (emit_tokens_with (emit_token fuel) toks [] c) as [a c1|ds c1|f]; [| |exact H1];
    (assert (I1 : inv c1) by apply H1; pose proof (NP_after_pass c1 I1) as H2;
     destruct (after_pass c1) as [a2 c2|ds2 c2|f2]; [apply H2|apply H2|exact H2]).
Qed.

Lemma seg_get_map_reset l n s :
  seg_get (map (fun ns => (fst ns, seg_reset (snd ns))) l) n = Some s -> exists s0, seg_get l n = Some s0 /\ s = seg_reset s0.
Proof.
  induction l as [|[k x] r IH]; cbn [map seg_get fst snd]; [discriminate|].
  destruct (ident_eqb k n); [intros H; injection H as <-; eauto|exact IH].
Qed.
Lemma inv_next_pass c : inv c -> inv (next_pass c).
Proof.
  intros (A & B & S). unfold next_pass, inv. cbn [segments current_segment symbols]. split; [|split; [|exact S]].
  - intros n s H. apply seg_get_map_reset in H as (s0 & G & ->). destruct (A n s0 G) as (Hi & Ht & _).
    unfold seg_np, seg_reset. cbn [g_options g_pc]. lia.
  - intros n. destruct (segments c) as [|[k x] r]; [discriminate|]. intros H. injection H as <-.
    cbn [map seg_get fst snd]. unfold ident_eqb. rewrite teqb_refl. discriminate.
Qed.

Definition start_ok (o : options) : Prop := 0 <= opt_pc o <= 65535.

Theorem pass_loop_np passes fuel o toks : start_ok o -> Forall tok_ok toks ->
  forall c pu pe, inv c -> pass_loop passes fuel o toks c pu pe <> Aborted FPanic.
Proof.
  intros Ho Ht. induction passes as [|n IH]; intros c pu pe I; cbn [pass_loop]; [discriminate|].
  pose proof (run_pass_np fuel toks c Ht I) as H.
  destruct (run_pass fuel toks c) as [errors c1|f]; [|congruence].
  destruct (segments c1) as [|sg r] eqn:Sg.
  - apply IH. apply inv_next_pass. destruct H as (A & B & S). unfold inv. cbn [segments current_segment symbols set_segments].
    split; [|split; [|exact S]].
    + intros m s. cbn [seg_get]. destruct (ident_eqb t_default m); [|discriminate]. intros G. injection G as <-.
      unfold seg_np, seg_new, start_ok in *. cbn [g_options g_pc so_initial_pc so_target_address]. lia.
    + intros m G. injection G as <-. cbn [seg_get]. unfold ident_eqb. rewrite teqb_refl. discriminate.
  - destruct ((match errors with [] => false | _ => true end) && diags_eqb errors pe); [discriminate|].
    destruct errors; [|apply IH; apply inv_next_pass; exact H].
    destruct ((match undefined c1 with [] => true | _ => false end) && (match changed c1 with [] => true | _ => false end) &&
              (negb stop_needs_no_new_symbols || negb (negb (Nat.eqb (node_count (symbols c1)) (node_count (symbols c)))))); [discriminate|].
    destruct ((negb unknown_needs_nonempty || negb (match undefined c1 with [] => true | _ => false end)) && set_eqb (undefined c1) pu); [discriminate|].
    apply IH. apply inv_next_pass. exact H.
Qed.

Lemma store_empty : store_ok (@empty_tab symbol).
Proof. intros nx s. unfold try_get, node_weight, empty_tab. cbn [nodes assoc_nat]. destruct (Nat.eqb root nx); discriminate. Qed.

Lemma inv_initial o : inv (initial_ctx o).
Proof.
  unfold initial_ctx, inv. cbn [segments current_segment symbols]. split; [discriminate|split; [discriminate|]].
  generalize (opt_constants o). intros l.
  assert (G : forall l t, store_ok t ->
            store_ok (fold_left (fun t kv => fst (insert t root (fst kv) (Some (mkSym 0%nat None None (SDNum (snd kv)) TyConstant)))) l t)).
  { clear. induction l as [|kv r IH]; intros t S; cbn [fold_left]; [exact S|]. apply IH.
    destruct (insert t root (fst kv) (Some (mkSym 0%nat None None (SDNum (snd kv)) TyConstant))) as [t1 nx] eqn:E. cbn [fst].
    eapply store_insert; [exact E|exact S|]. intros s H. injection H as <-. exact I. }
  apply G. apply store_empty.
Qed.

(* the whole assembly of a program of the modelled language never panics *)
Theorem codegen_np passes fuel o toks : start_ok o -> Forall tok_ok toks -> codegen passes fuel o toks <> Aborted FPanic.
Proof. intros Ho Ht. unfold codegen. apply pass_loop_np; [exact Ho|exact Ht|apply inv_initial]. Qed.

(* The analysed run of the language server (greedy analysis) assembles untaken branches and uninvoked macro bodies
   into the live table: its table is the build's table plus extra edges.  When do lookups agree? *)
From Coq Require Import List NArith Arith Bool Lia.
Import ListNotations.
From Mos Require Import model.SymGraph model.Analysis spec.NavSpec proofs.SymGraphProofs.

Section Greedy.
  Variables (is_extra : edge -> bool) (g' : graph).
  Let g := without is_extra g'.

  Lemma find_filter_extra : forall (pr : edge -> bool) (l : list edge),
    (forall e, In e l -> is_extra e = true -> pr e = false) ->
    find pr l = find pr (filter (fun e => negb (is_extra e)) l).
  Proof.
    intros pr l H. induction l as [|e l IH]; [reflexivity|]. cbn.
    destruct (is_extra e) eqn:X; cbn.
    - rewrite (H e (or_introl eq_refl) X). apply IH. intros e' I. apply H. right. assumption.
    - destruct (pr e); [reflexivity|]. apply IH. intros e' I. apply H. right. assumption.
  Qed.

  Lemma find_without : forall (pr : edge -> bool),
    (forall e, In e g' -> is_extra e = true -> pr e = false) ->
    find pr g' = find pr g.
  Proof. intros pr H. unfold g, without. apply find_filter_extra. assumption. Qed.

  Lemma filter_rev_comm : forall (A : Type) (f : A -> bool) l, filter f (rev l) = rev (filter f l).
  Proof.
    intros A f l. induction l as [|x l IH]; [reflexivity|]. cbn. rewrite filter_app, IH. cbn.
    destruct (f x); cbn; [reflexivity|]. apply app_nil_r.
  Qed.

  Lemma child_without : forall n id,
    (forall e, In e g' -> is_extra e = true -> e_lbl e <> id) -> child g' n id = child g n id.
  Proof.
    intros n id H. unfold child. rewrite find_without; [reflexivity|].
    intros e I X. apply andb_false_iff. right. apply ident_eqb_neq. apply H; assumption.
  Qed.

  Lemma parent_without : forall n,
    (forall e, In e g' -> is_extra e = true -> e_dst e <> n) -> parent g' n = parent g n.
  Proof.
    intros n H. unfold parent, g, without. rewrite <- filter_rev_comm. rewrite <- find_filter_extra; [reflexivity|].
    intros e I X. apply in_rev in I. apply Nat.eqb_neq. apply H; assumption.
  Qed.

  Variable p : path.
  Hypothesis Names : Known_greedy_untaken_definition is_extra g' p = false.
  (* greedy-only definitions are new nodes *)
  Variable scope : node.
  Hypothesis New : forall e, In e g' -> is_extra e = true -> forall n, node_of g n \/ n = scope -> e_dst e <> n.

  Lemma names_spec : forall e id, In e g' -> is_extra e = true -> In id p -> e_lbl e <> id.
  Proof.
    intros e id I X Ip Heq. unfold Known_greedy_untaken_definition in Names.
    assert (existsb (fun e => is_extra e && existsb (ident_eqb (e_lbl e)) p) g' = true); [|congruence].
    apply existsb_exists. exists e. split; [assumption|]. rewrite X. cbn. apply existsb_exists. exists id. split; [assumption|].
    apply ident_eqb_eq. assumption.
  Qed.

  Definition known (n : node) : Prop := node_of g n \/ n = scope.

  Lemma step_agrees : forall n id, known n -> In id p ->
    index_step g' n id = index_step g n id /\ (forall t, index_step g n id = Some t -> known t).
  Proof.
    intros n id K Ip. unfold index_step. destruct (is_super id).
    - rewrite parent_without by (intros e I X; apply New; assumption). split; [reflexivity|].
      intros t H. unfold parent in H. destruct (find _ (rev g)) as [e|] eqn:F; [|discriminate]. apply find_some in F as [I _]. apply in_rev in I.
      inversion H. left. exists e. auto.
    - rewrite child_without by (intros e I X; apply names_spec; assumption). split; [reflexivity|].
      intros t H. unfold child in H. destruct (find _ g) as [e|] eqn:F; [|discriminate]. apply find_some in F as [I _].
      inversion H. left. exists e. auto.
  Qed.

  Lemma walk_agrees : forall q n, incl q p -> known n -> walk g' n q = walk g n q.
  Proof.
    induction q as [|id q IH]; intros n Hi K; [reflexivity|]. cbn.
    destruct (step_agrees n id K (Hi id (or_introl eq_refl))) as [E Kt]. rewrite E.
    destruct (index_step g n id) as [t|]; [|reflexivity]. rewrite IH; [reflexivity| |apply Kt; reflexivity].
    intros x Hx. apply Hi. right. assumption.
  Qed.

  Lemma qts_agrees_from : forall fuel n, known n ->
    query_traversal_steps fuel g' n p = query_traversal_steps fuel g n p.
  Proof.
    induction fuel as [|fuel IH]; intros n K; [reflexivity|]. cbn.
    rewrite walk_agrees by (auto using incl_refl). destruct (walk g n p); [reflexivity|].
    destruct (contains_super p); [reflexivity|].
    rewrite parent_without by (intros e I X; apply New; assumption).
    destruct (parent g n) as [pn|] eqn:P; [|reflexivity]. rewrite IH; [reflexivity|].
    unfold parent in P. destruct (find _ (rev g)) as [e|] eqn:F; [|discriminate]. apply find_some in F as [I _]. apply in_rev in I.
    inversion P. left. exists e. auto.
  Qed.

  Theorem greedy_agrees : forall fuel, query_traversal_steps fuel g' scope p = query_traversal_steps fuel g scope p.
  Proof. intro fuel. apply qts_agrees_from. right. reflexivity. Qed.
End Greedy.

(* the witness: foo: nop / { .if 0 { foo: nop } / .word foo } *)
Definition gw_foo : ident := [102; 111; 111]%N.
Definition gw_scope : ident := [36; 115; 49]%N.
Definition gw_table : graph := [mkEdge 2 gw_foo 3; mkEdge 0 gw_scope 2; mkEdge 0 gw_foo 1].
Definition gw_extra (e : edge) : bool := Nat.eqb (e_dst e) 3.

Lemma greedy_refuted :
  query 5 gw_table 2 [gw_foo] = Some (Some 3) /\ query 5 (without gw_extra gw_table) 2 [gw_foo] = Some (Some 1) /\
  Known_greedy_untaken_definition gw_extra gw_table [gw_foo] = true.
Proof. vm_compute. auto. Qed.

(* DapCpuProofs.v -- on the 6502 of spec/Cpu6502.v a disciplined call returns to the instruction after it. *)
From Coq Require Import List NArith ZArith Bool Lia.
Import ListNotations.
From Mos Require Import Gen.OpcodeTable spec.Isa spec.Cpu6502 proofs.Cpu6502Proofs
  model.DapStep spec.DapStepSpec spec.DapCpu proofs.DapStepProofs.
Open Scope Z_scope.

(* ---- RAM ---- *)
Lemma over_find_filter : forall a x l, a <> x ->
  over_find a (filter (fun p : Z * Z => negb (fst p =? x)) l) = over_find a l.
Proof.
  induction l as [|[k v] r IH]; intro H; cbn [filter over_find fst]; [reflexivity|].
  destruct (k =? x) eqn:E; cbn [negb].
  - apply Z.eqb_eq in E. subst. destruct (x =? a) eqn:E2; [apply Z.eqb_eq in E2; congruence|auto].
  - cbn [over_find]. destruct (k =? a); auto.
Qed.

Lemma ram_read_write : forall m x v a, ram_read (ram_write m x v) a = if x =? a then v else ram_read m a.
Proof.
  intros. unfold ram_read, ram_write. cbn [ram_over ram_base ram_image over_find].
  destruct (x =? a) eqn:E; [reflexivity|]. apply Z.eqb_neq in E.
  rewrite over_find_filter by congruence. reflexivity.
Qed.

Lemma word16_id : forall a, 0 <= a < 65536 -> word16 a = a.
Proof. intros. unfold word16. apply Z.mod_small. lia. Qed.

Lemma byte8_id : forall a, 0 <= a < 256 -> byte8 a = a.
Proof. intros. unfold byte8. apply Z.mod_small. lia. Qed.

Lemma rd_wr_other : forall m x v a, word16 x <> word16 a -> rd (wr m x v) a = rd m a.
Proof.
  intros. unfold rd, wr. rewrite ram_read_write.
  destruct (word16 x =? word16 a) eqn:E; [apply Z.eqb_eq in E; congruence|reflexivity].
Qed.

Lemma rd_wr_same : forall m x v, rd (wr m x v) x = byte8 v.
Proof. intros. unfold rd, wr. rewrite ram_read_write, Z.eqb_refl. reflexivity. Qed.

(* a store outside the stack page does not touch a cell of the stack page *)
Lemma rd_wr_page : forall m ea v a, in_stack_page ea = false -> 256 <= a < 512 -> rd (wr m ea v) a = rd m a.
Proof.
  intros m ea v a H Ha. apply rd_wr_other. rewrite (word16_id a) by lia.
  unfold in_stack_page in H. apply Bool.andb_false_iff in H. destruct H as [H|H]; [apply Z.leb_gt in H|apply Z.ltb_ge in H]; lia.
Qed.

(* ---- what one instruction does to a cell of the stack page ---- *)
Ltac rm_simpl := cbn [rM rSP rPC set_pc set_a set_x set_y set_sp set_p set_m nz push] in *.

Lemma exec_instr_mem : forall m md c c' a,
  wf_state c -> exec_instr m md c = Some c' -> 256 <= a < 512 ->
  match m with
  | Txs => False
  | Sta | Stx | Sty | Inc | Dec => in_stack_page (operand_addr c md) = false
  | Asl | Lsr | Rol | Ror => match md with MImp => True | _ => in_stack_page (operand_addr c md) = false end
  | Pha | Php => a <> 256 + rSP c
  | Jsr => a <> 256 + rSP c /\ a <> 256 + byte8 (rSP c - 1)
  | _ => True
  end ->
  rd (rM c') a = rd (rM c) a.
Proof.
  intros m md c c' a W H Ha S.
  pose proof (wf_regs c W) as (_ & _ & _ & RS & _).
  unfold exec_instr in H.
  destruct m; cbn zeta in H;
    try (inversion H; subst; clear H; rm_simpl; reflexivity);
    try (inversion H; subst; clear H; rm_simpl; apply rd_wr_page; assumption);
    try contradiction.
  all: try (destruct (fD (rP c)); [discriminate|inversion H; subst; clear H; unfold adc_bin, sbc_bin; rm_simpl; reflexivity]).
  all: try (unfold compare in H; inversion H; subst; clear H; rm_simpl; reflexivity).
  all: try (destruct md; match type of H with context [shift_val ?k ?ci ?v] => destruct (shift_val k ci v) as [r co] end;
            inversion H; subst; clear H; rm_simpl; try reflexivity; apply rd_wr_page; assumption).
  all: try (match type of H with context [branch_cond ?m ?p] => destruct (branch_cond m p) as [[|]|] end;
            inversion H; subst; clear H; rm_simpl; reflexivity).
  all: try (unfold pull in H; inversion H; subst; clear H; rm_simpl; reflexivity).
  - (* Jsr *)
    inversion H; subst; clear H. rm_simpl. destruct S as [S1 S2].
    rewrite rd_wr_other, rd_wr_other; auto.
    + rewrite (word16_id a) by lia. rewrite word16_id by lia. lia.
    + rewrite (word16_id a) by lia. pose proof (byte8_range (rSP c - 1)). rewrite word16_id by lia. lia.
  - (* Pha *) inversion H; subst; clear H. rm_simpl. apply rd_wr_other.
    rewrite (word16_id a) by lia. rewrite word16_id by lia. lia.
  - (* Php *) inversion H; subst; clear H. rm_simpl. apply rd_wr_other.
    rewrite (word16_id a) by lia. rewrite word16_id by lia. lia.
Qed.

Lemma decode_jsr : decode 32%N = Some (Jsr, MAbs). Proof. vm_compute. reflexivity. Qed.
Lemma decode_rts : decode 96%N = Some (Rts, MImp). Proof. vm_compute. reflexivity. Qed.

Section Run6502.
  Variable c0 : cpu.
  Hypothesis W0 : wf_state c0.

  Notation st := (run6502 c0).
  Notation pcR := (pc6502 c0).
  Notation spR := (sp6502 c0).
  Notation opR := (op6502 c0).

  Lemma st_succ : forall k, 0 <= k -> st (k + 1) = step (st k).
  Proof.
    intros k Hk. unfold run6502. replace (Z.to_nat (k + 1)) with (S (Z.to_nat k)) by lia. reflexivity.
  Qed.

  Lemma st_wf : forall k, wf_state (st k).
  Proof.
    intro k. unfold run6502. induction (Z.to_nat k); simpl; [exact W0|apply step_wf; assumption].
  Qed.

  Lemma opcode_of : forall k o, opR k = o -> 0 <= o -> opcode_at (st k) = Z.to_N o.
  Proof. intros k o H Ho. unfold opcode_at. unfold op6502 in H. rewrite H. reflexivity. Qed.

  (* the state after a JSR *)
  Lemma jsr_effect : forall k, 0 <= k -> opR k = 32 -> 2 <= spR k -> pcR k + 3 < 65536 ->
    spR (k + 1) = spR k - 2 /\
    rd (rM (st (k + 1))) (256 + spR k) = (pcR k + 2) / 256 /\
    rd (rM (st (k + 1))) (256 + spR k - 1) = (pcR k + 2) mod 256.
  Proof.
    intros k Hk Hop Hsp Hpc.
    pose proof (st_wf k) as W. pose proof (wf_regs _ W) as (_ & _ & _ & RS & _).
    destruct W as [[_ [_ [_ [_ RPC]]]] _].
    unfold sp6502, pc6502 in *. rewrite st_succ by lia.
    unfold step, exec. rewrite (opcode_of k 32 Hop) by lia. change (Z.to_N 32) with 32%N. rewrite decode_jsr.
    unfold exec_instr. cbn zeta.
    cbn [rM rSP rPC set_pc set_a set_x set_y set_sp set_p set_m nz push].
    assert (E1 : byte8 (rSP (st k) - 1) = rSP (st k) - 1) by (apply byte8_id; lia).
    assert (R : word16 (rPC (st k) + 2) = rPC (st k) + 2) by (apply word16_id; lia).
    rewrite E1, R.
    assert (E2 : byte8 (rSP (st k) - 1 - 1) = rSP (st k) - 2) by (rewrite byte8_id; lia).
    rewrite E2. split; [reflexivity|]. split.
    - rewrite rd_wr_other.
      + rewrite rd_wr_same. apply byte8_id. split; [apply Z.div_pos; lia|apply Z.div_lt_upper_bound; lia].
      + rewrite !word16_id by lia. lia.
    - replace (256 + rSP (st k) - 1) with (256 + (rSP (st k) - 1)) by lia.
      rewrite rd_wr_same. unfold byte8. rewrite Z.mod_mod by lia. reflexivity.
  Qed.

  (* one instruction of the subroutine leaves the two cells of the return address alone *)
  Lemma callee_step_preserves : forall k a S,
    0 <= k -> 0 <= S -> spR k <= S -> stack_safe (st k) = true -> spR (k + 1) <= S ->
    (a = 256 + S + 1 \/ a = 256 + S + 2) -> S + 2 <= 255 ->
    rd (rM (st (k + 1))) a = rd (rM (st k)) a.
  Proof.
    intros k a S Hk HS0 Hsp Hsafe Hsp' Ha HS.
    pose proof (st_wf k) as W. pose proof (wf_regs _ W) as (_ & _ & _ & RS & _).
    unfold sp6502 in *. revert Hsp'. rewrite st_succ by lia. intro Hsp'.
    unfold step, exec in *. unfold stack_safe in Hsafe.
    destruct (decode (opcode_at (st k))) as [[m md]|]; [|reflexivity].
    destruct (exec_instr m md (st k)) as [c'|] eqn:E; [|reflexivity].
    eapply exec_instr_mem; eauto; [lia|].
    destruct m; auto; try discriminate;
      try (apply Bool.negb_true_iff; exact Hsafe); try lia;
      try (match goal with |- match ?x with _ => _ end => destruct x; auto; apply Bool.negb_true_iff; exact Hsafe end).
    (* Jsr: the second push wraps only if SP = 0, and then the next SP is 254 > S *)
    split; [lia|].
    destruct (Z.eq_dec (rSP (st k)) 0) as [Z0|NZ].
    - exfalso. unfold exec_instr in E. cbn zeta in E. inversion E; subst c'; clear E.
      cbn [rSP set_pc set_sp set_m push] in Hsp'. rewrite Z0 in Hsp'.
      change (byte8 (byte8 (0 - 1) - 1)) with 254 in Hsp'. lia.
    - rewrite byte8_id by lia. lia.
  Qed.
  Lemma return_cells_kept : forall n c j,
    0 <= c -> opR c = 32 -> disciplined_call c0 c j -> c + 1 + Z.of_nat n <= j - 1 ->
    rd (rM (st (c + 1 + Z.of_nat n))) (256 + spR c) = (pcR c + 2) / 256 /\
    rd (rM (st (c + 1 + Z.of_nat n))) (256 + spR c - 1) = (pcR c + 2) mod 256.
  Proof.
    intros n c j Hc Hop [Hsp [Hpc [Hin Hlast]]].
    pose proof (wf_regs _ (st_wf c)) as (_ & _ & _ & RS & _). fold (sp6502 c0 c) in RS.
    induction n; intro Hn.
    - change (Z.of_nat 0) with 0. rewrite Z.add_0_r.
      destruct (jsr_effect c Hc Hop Hsp Hpc) as [_ [A B]]. auto.
    - replace (c + 1 + Z.of_nat (S n)) with (c + 1 + Z.of_nat n + 1) by lia.
      destruct IHn as [A B]; [lia|].
      set (k := c + 1 + Z.of_nat n) in *.
      destruct (Hin k) as [K1 K2]; [lia|].
      destruct (Hin (k + 1)) as [K3 _]; [lia|].
      split.
      + rewrite (callee_step_preserves k (256 + spR c) (spR c - 2)); auto; lia.
      + rewrite (callee_step_preserves k (256 + spR c - 1) (spR c - 2)); auto; lia.
  Qed.

  (* On the 6502 a disciplined call returns to the instruction after it. *)
  Theorem returns_to_caller_6502 : forall c j,
    returns_at opR c j -> disciplined_call c0 c j -> pcR j = pcR c + 3.
  Proof.
    intros c j Hret Hd.
    pose proof Hret as [[Hc Hcj] [Hop [Hdj Hbetween]]].
    pose proof Hd as [Hsp [Hpc [Hin Hlast]]].
    (* the instruction that returns is an RTS *)
    pose proof (depthZ_succ opR c Hc) as HSc. unfold delta in HSc. rewrite Hop in HSc. simpl in HSc.
    assert (Hj1 : c < j - 1).
    { destruct (Z.eq_dec j (c + 1)); [subst; lia|lia]. }
    pose proof (depthZ_succ opR (j - 1) ltac:(lia)) as HSj. replace (j - 1 + 1) with j in HSj by lia.
    assert (Hgt : depthZ opR (j - 1) > depthZ opR c) by (apply Hbetween; lia).
    assert (Hrts : opR (j - 1) = 96).
    { unfold delta in HSj. destruct (opR (j - 1) =? 32) eqn:E1; [lia|].
      destruct (opR (j - 1) =? 96) eqn:E2; [apply Z.eqb_eq; exact E2|lia]. }
    (* the two cells still hold the return address *)
    destruct (return_cells_kept (Z.to_nat (j - 1 - (c + 1))) c j Hc Hop Hd) as [A B]; [lia|].
    replace (c + 1 + Z.of_nat (Z.to_nat (j - 1 - (c + 1)))) with (j - 1) in * by lia.
    pose proof (wf_regs _ (st_wf c)) as (_ & _ & _ & RS & _). fold (sp6502 c0 c) in RS.
    pose proof (st_wf c) as [[_ [_ [_ [_ RPC]]]] _]. fold (pc6502 c0 c) in RPC.
    unfold pc6502 at 1. replace j with (j - 1 + 1) by lia. rewrite st_succ by lia.
    unfold step, exec. rewrite (opcode_of (j - 1) 96 Hrts) by lia. change (Z.to_N 96) with 96%N. rewrite decode_rts.
    unfold exec_instr. cbn zeta. unfold pull.
    cbn [rM rSP rPC set_pc set_sp fst snd].
    unfold sp6502 in Hlast. rewrite Hlast. fold (sp6502 c0 c).
    assert (E1 : byte8 (spR c - 2 + 1) = spR c - 1) by (rewrite byte8_id; lia).
    rewrite E1.
    assert (E2 : byte8 (spR c - 1 + 1) = spR c) by (rewrite byte8_id; lia).
    rewrite E2.
    replace (256 + (spR c - 1)) with (256 + spR c - 1) by lia.
    rewrite A, B.
    rewrite word16_id.
    - pose proof (Z.div_mod (pcR c + 2) 256 ltac:(lia)). lia.
    - pose proof (Z.div_mod (pcR c + 2) 256 ltac:(lia)). lia.
  Qed.

  (* `next` over a call and `stepOut` land on the instruction after the call *)
  Theorem next_over_call_6502 : forall fuel i j,
    returns_at opR i j -> disciplined_call c0 i j ->
    (forall m, i <= m < j -> finT opR m = false) ->
    (Z.to_nat (j - i) <= fuel)%nat ->
    step_over opR fuel i = Some j /\ pcR j = pcR i + 3.
  Proof.
    intros. split; [apply next_over_call; auto|apply returns_to_caller_6502; auto].
  Qed.

  Theorem stepout_after_call_6502 : forall fuel c i j,
    frame_call opR c i -> returns_at opR c j -> disciplined_call c0 c j ->
    (forall m, i <= m < j -> finT opR m = false) ->
    (Z.to_nat (j - i) <= fuel)%nat ->
    step_out opR fuel i = Some j /\ pcR j = pcR c + 3.
  Proof.
    intros fuel c i j Hf Hr Hd Hfin Hfuel. split.
    - destruct (stepout_after_call opR fuel c i j Hf Hr Hfin Hfuel) as [_ H]. exact H.
    - apply returns_to_caller_6502; auto.
  Qed.
End Run6502.

(* non-vacuity: the program of corpus/C19/stepout_after_pha.asm on the specified 6502 -- the call at index 2 is disciplined
   (the subroutine pushes and pulls one byte) and returns at index 7 to pc = call + 3 *)
Definition w_cpu : cpu :=
  cpu_init 49152 (load_program 49152 [162; 0; 169; 7; 32; 9; 192; 232; 0; 72; 234; 104; 96]%N).

Example disciplined_witness :
  returns_at (op6502 w_cpu) 2 7 /\ disciplined_call w_cpu 2 7 /\ frame_call (op6502 w_cpu) 2 4 /\
  pc6502 w_cpu 7 = pc6502 w_cpu 2 + 3 /\ step_over (op6502 w_cpu) 100 2 = Some 7 /\ step_out (op6502 w_cpu) 100 4 = Some 7.
Proof.
  assert (D : forall k, 2 < k < 7 -> depthZ (op6502 w_cpu) k > depthZ (op6502 w_cpu) 2).
  { intros k Hk. assert (k = 3 \/ k = 4 \/ k = 5 \/ k = 6) as [E|[E|[E|E]]] by lia; subst; vm_compute; reflexivity. }
  assert (S : forall k, 2 < k < 7 -> sp6502 w_cpu k <= sp6502 w_cpu 2 - 2 /\ stack_safe (run6502 w_cpu k) = true).
  { intros k Hk. assert (k = 3 \/ k = 4 \/ k = 5 \/ k = 6) as [E|[E|[E|E]]] by lia; subst; vm_compute; split; congruence. }
  refine (conj _ (conj _ (conj _ (conj _ (conj _ _))))).
  - unfold returns_at. refine (conj _ (conj _ (conj _ D))); [lia | vm_compute; reflexivity | vm_compute; reflexivity].
  - unfold disciplined_call. refine (conj _ (conj _ (conj S _))); vm_compute; congruence.
  - unfold frame_call. refine (conj _ (conj _ (conj _ _))); [lia | vm_compute; reflexivity | vm_compute; reflexivity |].
    intros k Hk. apply D. lia.
  - vm_compute. reflexivity.
  - vm_compute. reflexivity.
  - vm_compute. reflexivity.
Qed.

(* Soundness (losslessness with exact text, span tiling, keyword spelling, lossy => diagnostic) of every parser
   function of model/Parser.v, by applying the combinator lemmas of NomProofs / TriviaProofs; the facts about the
   translated tables that the proofs need are established by computation on the tables as generated now. *)
From Coq Require Import List NArith Bool Arith Lia.
Import ListNotations.
From Mos Require Import model.Utf model.Nom Gen.ParserTables model.Parser model.Display spec.Lossless
  proofs.NomProofs proofs.TriviaProofs.
From Mos Require Gen.BinOps Gen.ExprGrammar.
Open Scope N_scope.

Ltac destruct_pairs := repeat match goal with x : (_ * _)%type |- _ => destruct x end.
Ltac at_norm := unfold a_lexpr, a_lfactor, a_eargs, a_args, a_loc; cbn; rewrite <- ?app_assoc, ?app_nil_r;
                unfold a_lexpr, a_lfactor, a_eargs, a_args, a_loc; cbn; rewrite <- ?app_assoc, ?app_nil_r.
Ltac at_eq := intros; destruct_pairs; at_norm; try reflexivity.

(* ---------------------------------------------------------------- wrappers relying on `no trivia here` *)
Definition pre (w : wrapper) (i : input) : Prop :=
  match w with W_ws => notriv i | W_mws => notriv_m i | W_located => True end.
Lemma pre_notriv w i : w <> W_located -> after w anyP i -> notriv i.
Proof. destruct w; cbn; intros Hw H; [assumption|apply notriv_m_notriv; assumption|congruence]. Qed.

Lemma wr_triv_none {A} w (p : parser A) st i st' l r : pre w i -> wr w p st i = (st', Ok l r) -> triv l = None.
Proof.
  destruct w; cbn [wr pre]; intros Hn E.
  - unfold ws, with_trivia in E. destruct (opt_trivia_none i Hn st) as [s Ho]. rewrite Ho in E.
    destruct (p s i) as [s2 [a r2| |x]]; inversion E; subst. reflexivity.
  - unfold mws, with_trivia in E. destruct (opt_multiline_none i Hn st) as [s Ho]. rewrite Ho in E.
    destruct (p s i) as [s2 [a r2| |x]]; inversion E; subst. reflexivity.
  - unfold located_p in E. destruct (p st i) as [s2 [a r2| |x]]; inversion E; subst. reflexivity.
Qed.

(* |x| x.data after a wrapper: nothing is lost when no trivia starts at the input *)
Lemma map_data_sound {A} (sa : A -> list atom) w (p : parser A) :
  sound anyP sa p -> sound (pre w) sa (map_p data (wr w p)).
Proof.
  intros Hp st i st' res E. unfold map_p in E. destruct (wr w p st i) as [s1 [l r| |x]] eqn:Ew; inversion E; subst;
    destruct (wr_sound anyP sa w p Hp _ _ _ _ Ew) as [Hs Hr]; split; auto.
  destruct Hr as [H1 [O1 L1]]. unfold a_loc in *. split; [|split].
  - intros Hn. rewrite (wr_triv_none _ _ _ _ _ _ _ Hn Ew) in H1. cbn in H1. apply H1. exact I.
  - apply Forall_app in O1. apply O1.
  - intros Hi Hl. apply L1; [assumption|]. rewrite lossy_app, Hl. apply orb_true_r.
Qed.

Lemma wr_span_sound_after {A} P (txt : A -> text) w (p : parser A) (mk : option span -> A -> atom) :
  (forall sp v, exact_atom (mk sp v) = txt v) -> (forall sp v, span_atom (mk sp v) = sp) ->
  (forall sp v, lossy_atom (mk sp v) = false) -> (forall sp sp' v, atom_ok (mk sp v) -> atom_ok (mk sp' v)) ->
  w <> W_located -> sound notriv (fun v => [mk None v]) p ->
  sound P (fun l => a_triv (triv l) ++ [mk (sp_of l) (data l)]) (wr w p).
Proof.
  intros Hx Hsp Hl Hok Hw Hp. destruct w; cbn [wr]; [| |congruence].
  - eapply with_trivia_span_sound_gen with (Q := notriv); eauto.
    + intros. eapply opt_trivia_notriv. eassumption.
    + apply trivia_p_sound.
  - eapply with_trivia_span_sound_gen with (Q := notriv_m); eauto.
    + intros. eapply opt_multiline_notriv. eassumption.
    + apply multiline_trivia_sound.
    + eapply sound_weaken; [exact Hp|]. apply notriv_m_notriv.
Qed.

(* ---------------------------------------------------------------- identifiers *)
Lemma identifier_name_sound P : sound P (fun s => [AText None s]) identifier_name.
Proof.
  unfold identifier_name. eapply recognize_sound. apply pair_sound.
  - apply alt_sound; apply terminal_sound; [apply take_while1_terminal|apply tag_terminal].
  - apply many0_sound. apply alt_sound; apply terminal_sound; [apply take_while1_terminal|apply tag_terminal].
Qed.
Lemma identifier_scope_sound P : sound P (fun s => [AText None s]) identifier_scope.
Proof.
  unfold identifier_scope. eapply map_sound.
  - apply pair_sound.
    + apply alt_sound; apply char_sound.
    + eapply (not_sound anyP _ (fun s => [AText None s]) (fun _ => [])); [|reflexivity].
      apply terminal_sound. apply take_while1_terminal.
  - at_eq.
Qed.

Lemma join_path_sep (a : text) (l : list (N * text)) :
  [AText None (join_path (a :: map snd l))] = [AText None (join_path (a :: map snd l))].
Proof. reflexivity. Qed.

Lemma join_path_cons a b l : join_path (a :: b :: l) = a ++ 46 :: join_path (b :: l).
Proof. reflexivity. Qed.

(* the pieces of a dotted path, as parsed: first element, then (`.`, element)* *)
Definition path_atoms (p : path) : list atom := [AText None (join_path p)].

Lemma separated_path_sound P :
  sound P path_atoms (separated_list1 (char_p 46) (alt identifier_scope identifier_name)).
Proof.
  (* prove with the element-wise pieces, then glue them into one text piece *)
  pose (elemwise := fun (p : path) =>
          match p with [] => [] | a :: l => [AText None a] ++ concat (map (fun x => [AText None [46]] ++ [AText None x]) l) end).
  assert (H : sound P elemwise (separated_list1 (char_p 46) (alt identifier_scope identifier_name))).
  { eapply (separated_list1_sound P (fun s => [AText None s]) (fun _ : N => [AText None [46]])).
    - apply alt_sound; [apply identifier_scope_sound|apply identifier_name_sound].
    - apply char_const_sound.
    - intros a l. cbn. f_equal. induction l as [|[c x] l IH]; cbn; [reflexivity|]. rewrite IH. reflexivity. }
  assert (Hex : forall p, p <> [] -> exact (elemwise p) = join_path p).
  { intros [|a l] Hne; [congruence|]. clear Hne. revert a. induction l as [|b l IH]; intros a.
    - unfold exact. cbn. rewrite app_nil_r. reflexivity.
    - rewrite join_path_cons, <- IH. unfold exact. cbn. rewrite <- ?app_assoc. reflexivity. }
  assert (Hpc : forall p a0 b0, tiling a0 (pieces (elemwise p)) b0 -> b0 = a0 + blen (exact (elemwise p))).
  { intros. apply tiling_len. assumption. }
  intros st i st' res E. destruct (H _ _ _ _ E) as [Hs Hr]. split; [assumption|].
  destruct res as [v r| |]; auto.
  assert (Hne : v <> []).
  { unfold separated_list1, map_p in E. destruct (pair_p _ _ st i) as [s [x r'| |y]]; inversion E; subst. discriminate. }
  destruct Hr as [H1 [O1 L1]]. unfold path_atoms. split; [|split].
  - intros HP. destruct (H1 HP) as [E1 T1]. apply Hpc in T1. rewrite (Hex _ Hne) in *.
    unfold exact. cbn. rewrite app_nil_r. split; [assumption|]. split; [exact I|]. lia.
  - repeat constructor.
  - intros _ Hf. discriminate.
Qed.

Lemma identifier_path_sound : sound notriv path_atoms identifier_path.
Proof.
  unfold identifier_path. change (slot W_identifier_path 0) with W_ws.
  apply (map_data_sound path_atoms W_ws). apply separated_path_sound.
Qed.

Lemma wr_path_sound P w : w <> W_located -> sound P a_path (wr w identifier_path).
Proof.
  intros Hw. unfold a_path.
  apply (wr_span_sound_after P join_path w identifier_path (fun sp p => AText sp (join_path p))); auto.
  apply identifier_path_sound.
Qed.

(* ---------------------------------------------------------------- strings *)
Lemma string_chunk_sound P w : sound P a_str_item (string_chunk w).
Proof.
  unfold string_chunk. eapply map_sound.
  - apply wr_text_sound. eapply recognize_sound. apply many1_sound. apply terminal_sound, satisfy_terminal.
  - reflexivity.
Qed.
Lemma interpolated_string_sound P : sound P a_istring interpolated_string.
Proof.
  unfold interpolated_string. eapply map_sound.
  - apply pair_sound; [apply wr_char_sound|]. apply pair_sound.
    + apply many0_sound with (sa := a_str_item). apply alt_sound; [apply string_chunk_sound|].
      eapply map_sound.
      * apply pair_sound; [apply char_const_sound|]. apply pair_sound; [|apply char_const_sound].
        apply wr_path_sound. vm_compute. discriminate.
      * at_eq.
    + apply char_const_sound.
  - at_eq.
Qed.
Lemma quoted_string_sound P : sound P a_istring quoted_string.
Proof.
  unfold quoted_string. eapply map_sound.
  - apply pair_sound; [apply wr_char_sound|]. apply pair_sound.
    + apply many0_sound with (sa := a_str_item). apply string_chunk_sound.
    + apply char_const_sound.
  - at_eq.
Qed.

(* ---------------------------------------------------------------- table facts *)
Lemma binop_display_ok table : table = ExprGrammar.tight_ops \/ table = ExprGrammar.loose_ops ->
  forall e, In e table -> disp_BinaryOp (snd e) = fst e.
Proof.
  intros [H|H] e He; subst table; cbn in He; repeat (destruct He as [<-|He]; [reflexivity|]); destruct He.
Qed.
Lemma modifier_display_ok : forall e, In e modifier_chars -> disp_AddressModifier (snd e) = [fst e].
Proof. intros e He; cbn in He; repeat (destruct He as [<-|He]; [reflexivity|]); destruct He. Qed.

Lemma operator_sound P table : table = ExprGrammar.tight_ops \/ table = ExprGrammar.loose_ops ->
  sound P (fun op => [AText None (disp_BinaryOp op)]) (operator table).
Proof.
  intros Ht. unfold operator. apply alts_map_sound. intros e He. eapply map_sound; [apply tag_const_sound|].
  intros a. cbv beta. do 2 f_equal. apply (binop_display_ok table Ht e He).
Qed.
Lemma modifier_sound P : sound P (fun m => [AText None (disp_AddressModifier m)]) modifier_p.
Proof.
  unfold modifier_p. apply alts_map_sound. intros e He. eapply map_sound; [apply char_const_sound|].
  intros a. cbv beta. do 2 f_equal. apply (modifier_display_ok e He).
Qed.

Lemma kw_table_ok (table : list (text * text)) : forallb (fun k => ci_eqb (fst k) (snd k)) table = true ->
  forall P, sound P (fun kw : keyword => [AKw None (fst kw) (snd kw)]) (mnemonic_of table).
Proof.
  intros H P. unfold mnemonic_of. apply alts_map_sound. intros e He. apply keyword_sound.
  rewrite forallb_forall in H. apply H. assumption.
Qed.

(* ---------------------------------------------------------------- expression factors *)
Ltac at_eq2 := intros; destruct_pairs; repeat match goal with o : option _ |- _ => destruct o end;
               at_norm; try reflexivity.

Lemma wr_char_const_sound P w c : sound P (fun l => a_triv (triv l) ++ [AText (sp_of l) [c]]) (wr w (char_p c)).
Proof. apply (wr_span_sound P (fun _ => [c]) w (char_p c) (fun sp _ => AText sp [c])); auto. apply char_const_sound. Qed.
Lemma value_text_sound {V} P (txt : V -> text) (v : V) : txt v = [] -> sound P (fun x => [AText None (txt x)]) (value_p v).
Proof.
  intros Hv st i st' res E. unfold value_p in E. inversion E; subst. split; [apply sle_refl|]. split; [|split].
  - intros _. unfold exact. cbn. rewrite Hv. cbn. split; [reflexivity|]. split; [exact I|]. lia.
  - repeat constructor.
  - intros _ Hf. discriminate.
Qed.
Lemma digits_sound P w (q : parser text) : terminal (fun s => s) q -> sound P a_text (wr w (recognize (many1 q))).
Proof. intros Hq. apply wr_text_sound. eapply recognize_sound. apply many1_sound. apply (terminal_sound (fun s => s)). exact Hq. Qed.

Lemma number_sound P : sound P a_lfactor number.
Proof.
  unfold number. apply wr_sound. eapply map_sound with (sa := fun x => a_disp disp_NumberType (fst x) ++ a_text (snd x)); [|reflexivity].
  apply alts_sound. repeat apply Forall_cons; [..|apply Forall_nil].
  - apply pair_sound; [|apply digits_sound, take_while1_terminal].
    eapply map_sound; [apply wr_char_const_sound|]. intros l. reflexivity.
  - apply pair_sound; [|apply digits_sound, take_while1_terminal].
    eapply map_sound; [apply wr_char_const_sound|]. intros l. reflexivity.
  - apply pair_sound; [|apply digits_sound, take_while1_terminal].
    apply (wr_textf_sound anyP disp_NumberType). apply value_text_sound. reflexivity.
  - apply pair_sound; [|apply wr_text_sound, terminal_sound, tag_no_case_terminal].
    apply (wr_textf_sound anyP disp_NumberType). apply value_text_sound. reflexivity.
  - apply pair_sound; [|apply wr_text_sound, terminal_sound, tag_no_case_terminal].
    apply (wr_textf_sound anyP disp_NumberType). apply value_text_sound. reflexivity.
Qed.

Lemma identifier_value_sound P : sound P a_lfactor identifier_value.
Proof.
  unfold identifier_value. apply wr_sound.
  eapply map_sound with (sa := fun x => a_opt (a_disp disp_AddressModifier) (fst x) ++ a_path (snd x)); [|reflexivity].
  apply pair_sound.
  - apply opt_sound. apply (wr_textf_sound anyP disp_AddressModifier). apply modifier_sound.
  - apply wr_path_sound. vm_compute. discriminate.
Qed.
Lemma current_pc_sound P : sound P a_lfactor current_pc.
Proof. unfold current_pc. apply wr_sound. eapply map_sound; [apply wr_char_sound|reflexivity]. Qed.
Lemma interpolated_string_factor_sound P : sound P a_lfactor interpolated_string_factor.
Proof. unfold interpolated_string_factor. apply wr_sound. eapply map_sound; [apply interpolated_string_sound|reflexivity]. Qed.

(* ---------------------------------------------------------------- argument lists *)
(* the pieces of the tail of an argument list after its current item: the item's comma, then the remaining items *)
Definition tail_atoms {T} (f : T -> list atom) (tail : arg_items T) : list atom :=
  match tail with
  | (_, oc) :: more => a_opt a_char oc ++ a_args f more
  | [] => []
  end.
Lemma a_args_cons {T} (f : T -> list atom) (x : located T * option (located N)) l :
  a_args f (x :: l) = a_loc f (fst x) ++ a_opt a_char (snd x) ++ a_args f l.
Proof. unfold a_args. cbn [map concat]. rewrite <- app_assoc. reflexivity. Qed.

Lemma arg_list_loop_spec {T} (f : T -> list atom) (item : parser T) : sound notriv f item ->
  forall fuel acc cur st i st' res, arg_list_loop fuel item acc cur st i = (st', res) ->
    sle st st' /\
    match res with
    | Ok v r => exists oc more, v = acc ++ (cur, oc) :: more /\
        (rem i = exact (tail_atoms f ((cur, oc) :: more)) ++ rem r /\ tiling (off i) (pieces (tail_atoms f ((cur, oc) :: more))) (off r)) /\
        Forall atom_ok (tail_atoms f ((cur, oc) :: more)) /\
        (inv st -> lossy (tail_atoms f ((cur, oc) :: more)) = true -> errors st' <> [])
    | _ => True
    end.
Proof.
  intros Hi fuel. induction fuel as [|g IH]; intros acc cur st i st' res E; cbn [arg_list_loop] in E.
  - inversion E; subst. split; [apply sle_refl|exact I].
  - change (slot W_arg_list 2) with W_ws in E.
    destruct (wr (slot W_arg_list 1) (char_p 44) st i) as [st1 [comma r| |x]] eqn:Ec;
      destruct (wr_char_sound anyP _ _ _ _ _ _ Ec) as [Hs1 Hr1].
    + destruct (wr W_ws item st1 r) as [st2 [next r2| |y]] eqn:En;
        destruct (wr_sound_after anyP f W_ws item Hi _ _ _ _ En) as [Hs2 Hr2].
      * destruct (IH _ _ _ _ _ _ E) as [Hs3 Hr3]. split; [eapply sle_trans; [exact Hs1|eapply sle_trans; eassumption]|].
        destruct res as [v r3| |]; auto. destruct Hr3 as [oc [more [Hv [[E3 T3] [O3 L3]]]]].
        exists (Some comma), ((next, oc) :: more). split; [rewrite Hv, <- app_assoc; reflexivity|].
        destruct Hr1 as [H1 [O1 L1]]. destruct Hr2 as [H2 [O2 L2]]. destruct (H1 I) as [E1 T1]. destruct (H2 I) as [E2 T2].
        cbn [tail_atoms a_opt] in *. rewrite a_args_cons. cbn [fst snd].
        split; [split|split].
        -- rewrite !exact_app, <- !app_assoc. rewrite E1, E2, E3. rewrite !exact_app, <- !app_assoc. reflexivity.
        -- rewrite !pieces_app. eapply tiling_app; [exact T1|]. eapply tiling_app; [exact T2|]. rewrite <- pieces_app. exact T3.
        -- apply Forall_app. split; [assumption|]. apply Forall_app. split; assumption.
        -- intros Hinv Hl. rewrite !lossy_app in Hl. apply orb_true_iff in Hl. destruct Hl as [Hl|Hl].
           ++ apply (proj2 Hs3), (proj2 Hs2). apply L1; assumption.
           ++ apply orb_true_iff in Hl. destruct Hl as [Hl|Hl].
              ** apply (proj2 Hs3). apply L2; [apply (proj1 Hs1); assumption|assumption].
              ** apply L3; [apply (proj1 Hs2), (proj1 Hs1); assumption|]. rewrite lossy_app. exact Hl.
      * inversion E; subst. split; [eapply sle_trans; eassumption|exact I].
      * inversion E; subst. split; [eapply sle_trans; eassumption|exact I].
    + inversion E; subst. split; [assumption|]. exists None, []. split; [reflexivity|].
      cbn [tail_atoms a_opt]. unfold a_args. cbn. split; [split; reflexivity|]. split; [constructor|]. intros _ H; discriminate.
    + inversion E; subst. split; [assumption|exact I].
Qed.

Lemma arg_list_sound {T} P (f : T -> list atom) (item : parser T) :
  sound notriv f item -> sound P (a_args f) (arg_list item).
Proof.
  intros Hi. apply sound_any. intros st i st' res E. unfold arg_list in E. change (slot W_arg_list 0) with W_ws in E.
  destruct (wr W_ws item st i) as [st1 [first r| |x]] eqn:Ef; destruct (wr_sound_after anyP f W_ws item Hi _ _ _ _ Ef) as [Hs1 Hr1].
  - destruct (arg_list_loop_spec f item Hi _ _ _ _ _ _ _ E) as [Hs2 Hr2]. split; [eapply sle_trans; eassumption|].
    destruct res as [v r2| |]; auto. destruct Hr2 as [oc [more [Hv [[E2 T2] [O2 L2]]]]]. cbn [app] in Hv. subst v.
    destruct Hr1 as [H1 [O1 L1]]. destruct (H1 I) as [E1 T1]. rewrite a_args_cons. cbn [fst snd tail_atoms] in *.
    split; [intros _; split|split].
    + rewrite exact_app, <- app_assoc, <- E2. exact E1.
    + rewrite pieces_app. eapply tiling_app; eassumption.
    + apply Forall_app. split; assumption.
    + intros Hinv Hl. rewrite lossy_app in Hl. apply orb_true_iff in Hl. destruct Hl as [Hl|Hl].
      * apply (proj2 Hs2). apply L1; assumption.
      * apply L2; [apply (proj1 Hs1); assumption|assumption].
  - inversion E; subst. split; [assumption|exact I].
  - inversion E; subst. split; [assumption|exact I].
Qed.
Lemma identifier_arg_list_sound P : sound P (a_args (fun s => [AText None s])) identifier_arg_list.
Proof. apply arg_list_sound. apply identifier_name_sound. Qed.

(* a parser of Located expressions: sound, and without trivia of its own where no trivia starts *)
Definition expr_parser_ok (p : parser (located expr)) : Prop :=
  (forall P, sound P a_lexpr p) /\
  (forall st i st' e r, notriv i -> p st i = (st', Ok e r) -> triv e = None).

Lemma expr_data_sound p : expr_parser_ok p -> sound notriv a_expr (map_p data p).
Proof.
  intros [Hp Ht] st i st' res E. unfold map_p in E. destruct (p st i) as [s1 [e r| |x]] eqn:Ep; inversion E; subst;
    destruct (Hp anyP _ _ _ _ Ep) as [Hs Hr]; split; auto.
  destruct Hr as [H1 [O1 L1]]. unfold a_lexpr, a_loc in *. split; [|split].
  - intros Hn. rewrite (Ht _ _ _ _ _ Hn Ep) in H1. cbn in H1. apply H1. exact I.
  - apply Forall_app in O1. apply O1.
  - intros Hi Hl. apply L1; [assumption|]. rewrite lossy_app, Hl. apply orb_true_r.
Qed.
Lemma expression_arg_list_sound P p : expr_parser_ok p -> sound P a_eargs (expression_arg_list p).
Proof. intros Hp. unfold expression_arg_list, a_eargs. apply arg_list_sound. apply expr_data_sound. assumption. Qed.

(* ---------------------------------------------------------------- expressions *)
Lemma a_eargs_unfold args :
  concat (map (fun a : located expr * option (located N) =>
                 (a_triv (triv (fst a)) ++ a_expr (data (fst a))) ++ a_opt a_char (snd a)) args) = a_eargs args.
Proof. reflexivity. Qed.

Lemma expression_parens_sound P p : expr_parser_ok p -> sound P a_lfactor (expression_parens p).
Proof.
  intros [Hp _]. unfold expression_parens. apply wr_sound. eapply map_sound.
  - apply pair_sound; [apply wr_char_sound|]. apply pair_sound; [apply nested_sound, Hp|apply wr_char_sound].
  - at_eq.
Qed.
Lemma fn_call_parts_sound P p m : expr_parser_ok p ->
  sound P (fun x => a_text (fst x) ++ a_char (fst (snd x)) ++ a_opt a_eargs (fst (snd (snd x))) ++ a_char (snd (snd (snd x))))
        (fn_call_parts p m).
Proof.
  intros Hp. unfold fn_call_parts. eapply sound_ext.
  - apply pair_sound.
    + destruct m; apply wr_text_sound, identifier_name_sound.
    + apply pair_sound; [apply wr_char_sound|]. apply pair_sound; [|apply wr_char_sound].
      apply opt_sound. apply nested_sound. apply expression_arg_list_sound. assumption.
  - intros [name [lp [args rp]]]. reflexivity.
Qed.
Lemma fn_call_impl_sound P p m : expr_parser_ok p -> sound P a_lfactor (fn_call_impl p m).
Proof.
  intros Hp. unfold fn_call_impl. apply wr_sound. eapply map_sound; [apply fn_call_parts_sound; assumption|].
  intros [name [lp [[args|] rp]]]; cbn [fst snd unwrap_or_default a_efactor a_opt]; [|reflexivity].
  rewrite a_eargs_unfold. reflexivity.
Qed.

Lemma expression_factor_inner_sound P p : expr_parser_ok p -> sound P a_lfactor (expression_factor_inner p).
Proof.
  intros Hp. unfold expression_factor_inner. apply alts_map_sound. intros k _. destruct k; cbn [factor_alt].
  - apply number_sound.
  - apply fn_call_impl_sound. assumption.
  - apply identifier_value_sound.
  - apply current_pc_sound.
  - apply expression_parens_sound. assumption.
  - apply interpolated_string_factor_sound.
Qed.

Lemma expression_factor_sound P p : expr_parser_ok p -> sound P a_lexpr (expression_factor p).
Proof.
  intros Hp. unfold expression_factor. apply wr_sound. apply alt_sound.
  - eapply map_sound; [apply expression_factor_inner_sound; assumption|]. reflexivity.
  - eapply map_sound.
    + apply pair_sound; [apply (peek_sound anyP (fun c => [AText None [c]])), terminal_sound, satisfy_terminal|].
      apply pair_sound; [apply opt_sound, wr_char_sound|]. apply pair_sound; [apply opt_sound, wr_char_sound|].
      apply expression_factor_inner_sound. assumption.
    + intros [c [tn [tg f]]]. reflexivity.
Qed.

Lemma fold_expressions_atoms x l :
  a_lexpr (fold_expressions x l) =
  a_lexpr x ++ concat (map (fun y : located binop * located expr => a_disp disp_BinaryOp (fst y) ++ a_lexpr (snd y)) l).
Proof.
  unfold fold_expressions. revert x. induction l as [|[op e] l IH]; intros x; cbn [fold_left map concat].
  - rewrite app_nil_r. reflexivity.
  - rewrite IH. cbn [fst snd]. destruct (span_merge3 x op e) as [lo' hi'].
    unfold a_lexpr, a_loc. cbn [triv data a_triv a_expr app]. rewrite <- ?app_assoc. reflexivity.
Qed.
Lemma fold_expressions_triv x l : triv x = None -> triv (fold_expressions x l) = None.
Proof.
  unfold fold_expressions. revert x. induction l as [|[op e] l IH]; intros x Hx; cbn [fold_left]; [assumption|].
  apply IH. destruct (span_merge3 x op e). reflexivity.
Qed.

Lemma expression_term_sound P p : expr_parser_ok p -> sound P a_lexpr (expression_term p).
Proof.
  intros Hp. unfold expression_term. eapply map_sound.
  - apply pair_sound; [apply expression_factor_sound; assumption|]. apply many0_sound. apply pair_sound.
    + apply (wr_textf_sound anyP disp_BinaryOp). apply operator_sound. left; reflexivity.
    + apply expression_factor_sound. assumption.
  - intros [x l]. cbn [fst snd]. apply fold_expressions_atoms.
Qed.
Lemma expression_body_sound P p : expr_parser_ok p -> sound P a_lexpr (expression_body p).
Proof.
  intros Hp. unfold expression_body. eapply map_sound.
  - apply pair_sound; [apply expression_term_sound; assumption|]. apply many0_sound. apply pair_sound.
    + apply (wr_textf_sound anyP disp_BinaryOp). apply operator_sound. right; reflexivity.
    + apply expression_term_sound. assumption.
  - intros [x l]. cbn [fst snd]. apply fold_expressions_atoms.
Qed.

Lemma expression_body_triv p st i st' e r : notriv i -> expression_body p st i = (st', Ok e r) -> triv e = None.
Proof.
  intros Hn E. unfold expression_body, map_p, pair_p in E.
  destruct (expression_term p st i) as [s1 [x r1| |y]] eqn:Et; try discriminate.
  assert (Hx : triv x = None).
  { unfold expression_term, map_p, pair_p in Et.
    destruct (expression_factor p st i) as [s2 [f r2| |z]] eqn:Ef; try discriminate.
    assert (Hf : triv f = None).
    { unfold expression_factor in Ef. change (slot W_expression_factor 0) with W_ws in Ef.
      eapply (wr_triv_none W_ws); [exact Hn|exact Ef]. }
    destruct (many0 _ s2 r2) as [s3 [l r3| |z]]; inversion Et; subst. apply fold_expressions_triv. assumption. }
  destruct (many0 _ s1 r1) as [s3 [l r3| |z]]; inversion E; subst. apply fold_expressions_triv. assumption.
Qed.

Lemma expression_fuel_ok fuel : expr_parser_ok (expression_fuel fuel).
Proof.
  induction fuel as [|f IH].
  - split.
    + intros P st i st' res E. inversion E; subst. split; [apply sle_refl|exact I].
    + intros st i st' e r _ E. discriminate.
  - split.
    + intros P. cbn [expression_fuel]. apply expression_body_sound. assumption.
    + intros st i st' e r Hn E. cbn [expression_fuel] in E. eapply expression_body_triv; eassumption.
Qed.
Lemma expression_ok : expr_parser_ok expression.
Proof.
  split.
  - intros P st i. unfold expression. apply (proj1 (expression_fuel_ok _)).
  - intros st i st' e r. unfold expression. apply (proj2 (expression_fuel_ok _)).
Qed.
Lemma expression_sound P : sound P a_lexpr expression.
Proof. apply expression_ok. Qed.
Lemma expression_args_sound P : sound P a_eargs expression_args.
Proof. apply expression_arg_list_sound. apply expression_ok. Qed.

(* ---------------------------------------------------------------- operands, instructions *)
Lemma tag_kw_sound P t canon : ci_eq t canon -> sound P (fun o => [AKw None canon o]) (tag_no_case t).
Proof.
  intros Hc st i st' res E. destruct (tag_no_case_terminal _ _ _ _ _ E) as [-> Hr]. split; [apply sle_refl|].
  destruct res as [a r| |]; auto. destruct Hr as [E1 O1]. split; [|split].
  - intros _. unfold exact. cbn. rewrite app_nil_r. split; [assumption|]. split; [exact I|]. lia.
  - repeat constructor. cbn. eapply ci_eq_trans; [|eassumption]. eapply tag_no_case_ci; eassumption.
  - intros _ Hf. discriminate.
Qed.
Lemma wr_tag_kw_sound P w t canon : ci_eqb t canon = true ->
  sound P (fun l => a_triv (triv l) ++ [AKw (sp_of l) canon (data l)]) (wr w (tag_no_case t)).
Proof.
  intros Hc. apply (wr_span_sound P (fun o => o) w (tag_no_case t) (fun sp o => AKw sp canon o)); auto.
  apply tag_kw_sound. apply ci_eqb_ok. assumption.
Qed.

Lemma register_suffix_sound P e : In e register_tags -> sound P a_suffix (register_suffix_p e).
Proof.
  intros He. unfold register_suffix_p. eapply map_sound.
  - apply pair_sound; [apply wr_char_sound|]. apply (wr_tag_kw_sound anyP _ (fst e) (disp_IndexRegister (snd e))).
    assert (H : forallb (fun e => ci_eqb (fst e) (disp_IndexRegister (snd e))) register_tags = true) by reflexivity.
    rewrite forallb_forall in H. apply H. assumption.
  - intros [c r]. reflexivity.
Qed.
Lemma optional_suffix_sound P : sound P (a_opt a_suffix) optional_suffix.
Proof. unfold optional_suffix. apply opt_sound. apply alts_map_sound. intros e He. apply register_suffix_sound. assumption. Qed.

Lemma operand_sound P : sound P a_operand operand.
Proof.
  unfold operand. apply alts_sound. repeat apply Forall_cons; [..|apply Forall_nil].
  - eapply map_sound.
    + apply pair_sound; [apply wr_char_sound|apply expression_sound].
    + intros [c e]. reflexivity.
  - eapply map_sound.
    + apply pair_sound; [apply wr_char_sound|]. apply pair_sound; [apply expression_sound|].
      apply pair_sound; [apply wr_char_sound|apply optional_suffix_sound].
    + intros [c [e [c2 s]]]. reflexivity.
  - eapply map_sound.
    + apply pair_sound; [apply wr_char_sound|]. apply pair_sound; [apply expression_sound|].
      apply pair_sound; [apply optional_suffix_sound|apply wr_char_sound].
    + intros [c [e [s c2]]]. reflexivity.
  - eapply map_sound.
    + apply pair_sound; [apply expression_sound|apply optional_suffix_sound].
    + intros [e s]. unfold a_operand. cbn. reflexivity.
Qed.

Lemma mnemonic_tables_ok :
  forallb (fun k => ci_eqb (fst k) (snd k)) mnemonic_table = true /\
  forallb (fun k => ci_eqb (fst k) (snd k)) implied_mnemonic_table = true.
Proof. split; vm_compute; reflexivity. Qed.

Lemma wr_mnemonic_sound P w table : forallb (fun k => ci_eqb (fst k) (snd k)) table = true ->
  sound P a_kw (wr w (mnemonic_of table)).
Proof.
  intros H. unfold a_kw.
  apply (wr_span_sound P (fun kw : keyword => snd kw) w _ (fun sp kw => AKw sp (fst kw) (snd kw))); auto.
  apply kw_table_ok. assumption.
Qed.

Lemma instruction_sound P : sound P a_token instruction.
Proof.
  unfold instruction. apply alt_sound.
  - eapply map_sound.
    + apply pair_sound; [apply wr_mnemonic_sound, mnemonic_tables_ok|].
      apply (expect_sound anyP a_operand operand MEmpty []); try reflexivity; [apply operand_sound|constructor].
    + intros [m [o|]]; reflexivity.
  - eapply map_sound.
    + apply pair_sound; [apply wr_mnemonic_sound, mnemonic_tables_ok|].
      apply (expect_sound anyP (fun _ : unit => []) (not_p operand) MEmpty []); try reflexivity; [|constructor].
      eapply not_sound; [apply operand_sound|reflexivity].
    + intros [m [u|]]; cbn; rewrite ?app_nil_r; reflexivity.
Qed.

(* ---------------------------------------------------------------- config maps *)
Lemma config_key_sound P : sound P (fun s => [AText None s]) config_key.
Proof.
  unfold config_key. eapply recognize_sound. apply pair_sound.
  - apply alt_sound; apply terminal_sound; [apply take_while1_terminal|apply tag_terminal].
  - apply many0_sound. apply alt_sound; apply terminal_sound; [apply take_while1_terminal|apply tag_terminal].
Qed.

Lemma kvp_value_sound p : (forall P, sound P a_token p) ->
  sound notriv_m a_token (alt p (map_p (fun e => TExpression (data e)) expression)).
Proof.
  intros Hp. apply alt_sound; [apply Hp|].
  eapply sound_weaken with (P := notriv); [|apply notriv_m_notriv].
  pose proof (expr_data_sound expression expression_ok) as H.
  intros st i st' res E. unfold map_p in E. destruct (expression st i) as [s1 [e r| |x]] eqn:Ee.
  - assert (E2 : map_p data expression st i = (s1, Ok (data e) r)) by (unfold map_p; rewrite Ee; reflexivity).
    inversion E; subst. apply (H _ _ _ _ E2).
  - assert (E2 : map_p data expression st i = (s1, Err)) by (unfold map_p; rewrite Ee; reflexivity).
    inversion E; subst. apply (H _ _ _ _ E2).
  - assert (E2 : map_p data expression st i = (s1, Abort x)) by (unfold map_p; rewrite Ee; reflexivity).
    inversion E; subst. apply (H _ _ _ _ E2).
Qed.

Lemma kvp_sound P p : (forall P, sound P a_token p) -> sound P a_token (kvp p).
Proof.
  intros Hp. unfold kvp. change (slot W_kvp 2) with W_mws. eapply map_sound.
  - apply pair_sound; [apply wr_text_sound, config_key_sound|]. apply pair_sound; [apply wr_char_sound|].
    apply (wr_sound_after anyP a_token W_mws). apply kvp_value_sound. assumption.
  - intros [k [e v]]. reflexivity.
Qed.
Lemma config_map_body_sound P p : (forall P, sound P a_token p) -> sound P a_token (config_map_body p).
Proof.
  intros Hp. unfold config_map_body. eapply map_sound.
  - apply pair_sound; [apply wr_char_sound|]. apply pair_sound; [|apply wr_char_sound].
    apply many0_sound with (sa := a_token). apply kvp_sound. assumption.
  - intros [l [inner r]]. reflexivity.
Qed.
Lemma config_map_fuel_sound fuel : forall P, sound P a_token (config_map_fuel fuel).
Proof.
  induction fuel as [|f IH]; intros P.
  - intros st i st' res E. inversion E; subst. split; [apply sle_refl|exact I].
  - cbn [config_map_fuel]. apply config_map_body_sound. assumption.
Qed.
Lemma config_map_sound P : sound P a_token config_map.
Proof. intros st i. unfold config_map. apply config_map_fuel_sound. Qed.

(* ---------------------------------------------------------------- error tokens *)
Lemma error_impl_sound P b : sound P a_token (error_impl b).
Proof.
  assert (Hw : sound P a_text (wr (slot W_error_impl 0)
            (recognize (alt (recognize (pair_p (one_of error_lead) (take_till (error_stop_p b)))) (take_till1 (error_stop_p b)))))).
  { apply wr_text_sound. eapply recognize_sound. apply alt_sound.
    - eapply recognize_sound. apply pair_sound; apply terminal_sound; [apply satisfy_terminal|apply take_while0_terminal].
    - apply terminal_sound, take_while1_terminal. }
  intros st i st' res E. unfold error_impl in E.
  destruct (wr (slot W_error_impl 0) _ st i) as [s1 [l r| |x]] eqn:Ew; destruct (Hw _ _ _ _ Ew) as [Hs Hr];
    inversion E; subst; try (split; [assumption|exact I]).
  split; [eapply sle_trans; [exact Hs|apply report_error_sle]|].
  destruct Hr as [H1 [O1 L1]]. cbn [a_token]. split; [exact H1|]. split; [exact O1|].
  intros Hi Hl. apply (proj2 (report_error_sle _ s1)). apply L1; assumption.
Qed.

(* ---------------------------------------------------------------- statements *)
Definition kw_ok (k : text * text) : Prop := ci_eqb (fst k) (snd k) = true.
Ltac kw_side := vm_compute; reflexivity.

Lemma as_sound P : sound P (a_opt a_import_as) as_.
Proof.
  unfold as_. apply opt_sound. eapply sound_ext.
  - apply pair_sound; [apply wr_kw_sound; kw_side|]. apply wr_path_sound. vm_compute. discriminate.
  - intros [t p]. reflexivity.
Qed.

Section Statements.
  Variable p_stmt : parser token.
  Hypothesis Hstmt : forall P, sound P a_token p_stmt.

  Lemma block_sound P : sound P a_block (block p_stmt).
  Proof.
    unfold block. eapply map_sound_equiv.
    - apply pair_sound; [apply wr_char_sound|]. apply pair_sound.
      + apply nested_sound. apply many0_sound with (sa := a_token). apply alt_sound; [apply Hstmt|apply error_impl_sound].
      + apply (expect_sound anyP a_char _ MClosing [AMissing (mkLoc 0 0 0 None)]); try reflexivity; [apply wr_char_sound| |discriminate].
        repeat constructor.
    - intros [l [inner [r|]]]; cbn [fst snd a_block].
      + apply aequiv_refl.
      + apply aequiv_app; [apply aequiv_refl|]. apply aequiv_app; [apply aequiv_refl|].
        split; [reflexivity|]. split; [intros _; repeat constructor|auto].
  Qed.

  Lemma opt_block_sound P : sound P (fun b => match b with Some b => a_block b | None => [] end) (opt (block p_stmt)).
  Proof. eapply sound_ext; [apply opt_sound, block_sound|]. intros [b|]; reflexivity. Qed.

  Lemma braces_sound P : sound P a_token (braces p_stmt).
  Proof. unfold braces. eapply with_scope_sound; [apply block_sound|]. reflexivity. Qed.

  Lemma label_sound P : sound P a_token (label p_stmt).
  Proof.
    unfold label. eapply map_sound.
    - apply pair_sound; [apply wr_text_sound, identifier_name_sound|]. apply pair_sound; [apply wr_char_sound|apply opt_block_sound].
    - intros [i [c b]]. reflexivity.
  Qed.

  Lemma data_sound P : sound P a_token data_.
  Proof.
    unfold data_. eapply map_sound.
    - apply pair_sound.
      + apply alts_map_sound with (sa := a_tagged disp_DataSize). intros [k e] He. apply wr_tagged_sound.
        apply in_combine_r in He. cbn [snd].
        assert (H : forallb (fun e => ci_eqb (fst e) (disp_DataSize (snd e))) data_tags = true) by reflexivity.
        rewrite forallb_forall in H. cbn. rewrite (H _ He). reflexivity.
      + apply (expect_sound anyP a_eargs _ MExpression [] (expression_args_sound anyP) eq_refl eq_refl (Forall_nil _)). discriminate.
    - intros [sz [v|]]; cbn; rewrite ?app_nil_r; reflexivity.
  Qed.

  Lemma varconst_impl_sound P k : ci_eqb (fst k) (disp_VariableType (snd k)) = true -> sound P a_token (varconst_impl k).
  Proof.
    intros Hk. unfold varconst_impl. eapply map_sound.
    - apply pair_sound; [apply wr_tagged_sound; cbn; rewrite Hk; reflexivity|].
      apply pair_sound; [apply wr_text_sound, identifier_name_sound|]. apply pair_sound; [apply wr_char_sound|apply expression_sound].
    - intros [t [i [e v]]]. reflexivity.
  Qed.

  Lemma pc_definition_sound P : sound P a_token pc_definition.
  Proof.
    unfold pc_definition. eapply map_sound.
    - apply pair_sound; [apply wr_char_sound|]. apply pair_sound; [apply wr_char_sound|apply expression_sound].
    - intros [s [e v]]. reflexivity.
  Qed.

  Lemma config_definition_sound P : sound P a_token config_definition.
  Proof.
    unfold config_definition. eapply map_sound.
    - apply pair_sound; [apply wr_kw_sound; kw_side|]. apply pair_sound; [apply wr_text_sound, identifier_name_sound|].
      apply (expect_sound anyP a_token _ MConfig [] (config_map_sound anyP) eq_refl eq_refl (Forall_nil _)). discriminate.
    - intros [t [i [v|]]]; reflexivity.
  Qed.

  Lemma macro_definition_sound P : sound P a_token (macro_definition p_stmt).
  Proof.
    unfold macro_definition. eapply map_sound.
    - apply pair_sound; [apply wr_kw_sound; kw_side|]. apply pair_sound; [apply wr_text_sound, identifier_name_sound|].
      apply pair_sound; [apply wr_char_sound|]. apply pair_sound; [apply opt_sound, identifier_arg_list_sound|].
      apply pair_sound; [apply wr_char_sound|apply block_sound].
    - intros [t [i [l [[a|] [r b]]]]]; reflexivity.
  Qed.

  Lemma macro_invocation_sound P : sound P a_token macro_invocation.
  Proof.
    unfold macro_invocation. eapply map_sound; [apply fn_call_parts_sound, expression_ok|].
    intros [name [lp [[args|] rp]]]; reflexivity.
  Qed.

  Lemma segment_sound P : sound P a_token (segment p_stmt).
  Proof.
    unfold segment. eapply map_sound.
    - apply pair_sound; [apply wr_kw_sound; kw_side|]. apply pair_sound; [apply expression_sound|apply opt_block_sound].
    - intros [t [e b]]. reflexivity.
  Qed.

  Lemma loop_sound P : sound P a_token (loop_ p_stmt).
  Proof.
    unfold loop_. eapply with_scope_sound.
    - apply pair_sound; [apply wr_kw_sound; kw_side|]. apply pair_sound; [apply expression_sound|apply block_sound].
    - intros [t [e b]] n. reflexivity.
  Qed.

  Lemma if_sound P : sound P a_token (if_ p_stmt).
  Proof.
    unfold if_. eapply map_sound.
    - apply pair_sound; [apply wr_kw_sound; kw_side|]. apply pair_sound; [apply expression_sound|].
      apply pair_sound; [apply block_sound|]. apply opt_sound. apply pair_sound; [apply wr_kw_sound; kw_side|apply block_sound].
    - intros [t [e [b [[t2 b2]|]]]]; reflexivity.
  Qed.

  Lemma align_sound P : sound P a_token align.
  Proof.
    unfold align. eapply map_sound.
    - apply pair_sound; [apply wr_kw_sound; kw_side|apply expression_sound].
    - intros [t e]. reflexivity.
  Qed.

  Lemma specific_arg_sound P : sound P a_specific specific_arg.
  Proof.
    unfold specific_arg. eapply map_sound.
    - apply pair_sound; [apply wr_path_sound; vm_compute; discriminate|apply as_sound].
    - intros [p a]. reflexivity.
  Qed.

  Lemma import_sound P : sound P a_token (import p_stmt).
  Proof.
    unfold import. eapply with_scope_sound.
    - apply pair_sound; [apply wr_kw_sound; kw_side|]. apply pair_sound.
      + apply alt_sound with (sa := a_import_args).
        * eapply map_sound; [apply pair_sound; [apply wr_char_sound|apply as_sound]|]. intros [s a]. reflexivity.
        * eapply map_sound; [apply arg_list_sound, specific_arg_sound|]. reflexivity.
      + apply pair_sound; [apply wr_kw_sound; kw_side|]. apply pair_sound; [apply quoted_string_sound|apply opt_block_sound].
    - intros [t [a [f [s b]]]] n. reflexivity.
  Qed.

  Lemma text_sound P : sound P a_token text_.
  Proof.
    unfold text_. eapply map_sound.
    - apply pair_sound; [apply wr_kw_sound; kw_side|].
      apply alt_sound with (sa := fun x => a_opt (a_tagged disp_TextEncoding) (fst x) ++ a_lexpr (snd x)).
      + eapply map_sound; [apply pair_sound; [apply (wr_tagged_sound anyP _ disp_TextEncoding); reflexivity|apply expression_sound]|].
        intros [e x]. reflexivity.
      + eapply map_sound; [apply expression_sound|]. reflexivity.
    - intros [t [e x]]. reflexivity.
  Qed.

  Lemma file_sound P : sound P a_token file.
  Proof.
    unfold file. eapply map_sound.
    - apply pair_sound; [apply wr_kw_sound; kw_side|apply interpolated_string_sound].
    - intros [t s]. reflexivity.
  Qed.

  Lemma test_sound P : sound P a_token (test p_stmt).
  Proof.
    unfold test. eapply map_sound.
    - apply pair_sound; [apply wr_kw_sound; kw_side|]. apply pair_sound; [apply expression_sound|apply block_sound].
    - intros [t [e b]]. reflexivity.
  Qed.

  Lemma assert_sound P : sound P a_token assert.
  Proof.
    unfold assert. eapply map_sound.
    - apply pair_sound; [apply wr_kw_sound; kw_side|]. apply pair_sound; [apply expression_sound|apply opt_sound, interpolated_string_sound].
    - intros [t [e m]]. reflexivity.
  Qed.

  Lemma trace_sound P : sound P a_token trace.
  Proof.
    unfold trace. eapply map_sound.
    - apply pair_sound; [apply wr_kw_sound; kw_side|]. apply opt_sound.
      apply pair_sound; [apply wr_char_sound|]. apply pair_sound; [apply opt_sound, expression_args_sound|apply wr_char_sound].
    - intros [t [[l [[a|] r]]|]]; cbn; rewrite ?app_nil_r; reflexivity.
  Qed.

  Lemma statement_body_sound P : sound P a_token (statement_body p_stmt).
  Proof.
    unfold statement_body. apply alts_map_sound. intros k _. destruct k; cbn [stmt_parser].
    - apply braces_sound.
    - apply label_sound.
    - apply instruction_sound.
    - apply varconst_impl_sound. reflexivity.
    - apply varconst_impl_sound. reflexivity.
    - apply pc_definition_sound.
    - apply config_definition_sound.
    - apply macro_definition_sound.
    - apply macro_invocation_sound.
    - apply data_sound.
    - apply segment_sound.
    - apply loop_sound.
    - apply if_sound.
    - apply align_sound.
    - apply import_sound.
    - apply text_sound.
    - apply file_sound.
    - apply test_sound.
    - apply assert_sound.
    - apply trace_sound.
  Qed.
End Statements.

Lemma statement_fuel_sound fuel : forall P, sound P a_token (statement_fuel fuel).
Proof.
  induction fuel as [|f IH]; intros P.
  - intros st i st' res E. inversion E; subst. split; [apply sle_refl|exact I].
  - cbn [statement_fuel]. apply statement_body_sound. assumption.
Qed.
Lemma statement_sound P : sound P a_token statement.
Proof. intros st i. unfold statement. apply statement_fuel_sound. Qed.

(* the statement list of source_file, and the text-level facts about eof = mws(rest) *)
Lemma statements_sound P : sound P a_tokens (many0 (alt statement error)).
Proof. apply many0_sound with (sa := a_token). apply alt_sound; [apply statement_sound|apply error_impl_sound]. Qed.
Lemma eof_located_sound P : sound P a_text (wr (slot W_eof 0) rest).
Proof. apply wr_text_sound. apply (terminal_sound (fun s => s)). apply rest_terminal. Qed.

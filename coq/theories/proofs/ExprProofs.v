From Coq Require Import List NArith ZArith Bool Lia.
Import ListNotations.
From Mos Require Import model.I64 Gen.BinOps model.Expr spec.ExprSem.
Open Scope Z_scope.

Lemma chk_in z : in_i64 z = true -> chk z = Val z.
Proof. intros H. unfold chk. rewrite H. reflexivity. Qed.

Lemma cchk_in z : in_i64 z = true -> cchk z = Val z.
Proof. intros H. unfold cchk. rewrite H. reflexivity. Qed.

Lemma b2z_truth b : b2z b = truth b.
Proof. reflexivity. Qed.

Lemma wrap64_id z : in_i64 z = true -> wrap64 z = z.
Proof.
  unfold in_i64, wrap64, i64_min, i64_max, two64. intros H.
  rewrite Z.mod_small by lia. lia.
Qed.

(* ---- operators ---- *)
Lemma apply_i64_sem op a b :
  (match op with
   | Div | Mod => b <> 0 /\ in_i64 (Z.quot a b) = true
   | Shl | Shr => 0 <= b <= 31
   | _ => True
   end) ->
  in_i64 a = true -> in_i64 b = true ->
  in_i64 (sem_binop op a b) = true ->
  apply_i64 op a b = Val (sem_binop op a b).
Proof.
  intros Hd Ha Hb Hr. destruct op; cbn [apply_i64 sem_binop] in *;
    unfold i64_add, i64_sub, i64_mul, i64_xor, i64_checked_add, i64_checked_sub, i64_checked_mul;
    rewrite ?chk_in by assumption; rewrite ?cchk_in by assumption; rewrite ?b2z_truth; try reflexivity.
  - (* Div *) destruct Hd as [Hnz Hq]. assert (E : (b =? 0) = false) by lia. rewrite E. unfold i64_div, i64_checked_div. rewrite ?E.
    cbn [orb]. destruct ((a =? i64_min) && (b =? -1)) eqn:M; [|reflexivity].
    exfalso. apply andb_prop in M as [M1 M2]. apply Z.eqb_eq in M1, M2. subst. vm_compute in Hq. discriminate.
  - (* Mod *) destruct Hd as [Hnz Hq]. assert (E : (b =? 0) = false) by lia. rewrite E. unfold i64_rem, i64_checked_rem. rewrite ?E.
    cbn [orb]. destruct ((a =? i64_min) && (b =? -1)) eqn:M; [|reflexivity].
    exfalso. apply andb_prop in M as [M1 M2]. apply Z.eqb_eq in M1, M2. subst. vm_compute in Hq. discriminate.
  - (* Shl *) unfold i64_shl, i64_checked_shl. assert (E : (0 <=? b) && (b <? 64) = true) by lia. rewrite E.
    rewrite wrap64_id by assumption. reflexivity.
  - (* Shr *) unfold i64_shr, i64_checked_shr. assert (E : (0 <=? b) && (b <? 64) = true) by lia. rewrite E.
    rewrite Z.shiftr_div_pow2 by lia. reflexivity.
Qed.

(* ---- flags: `!-x` is NOT (NEG x) ---- *)
Lemma flag_order_is : flag_order = [FNeg; FNot].
Proof. reflexivity. Qed.

Lemma apply_flags_sem fnot fneg v :
  in_i64 (- v) = true -> apply_flags flag_order fnot fneg v = Val (sem_flags fnot fneg v).
Proof.
  intros H. rewrite flag_order_is. cbn [apply_flags apply_flag]. unfold sem_flags.
  destruct fneg; [unfold i64_neg, i64_checked_neg; rewrite chk_in, cchk_in by assumption; destruct neg_checked|]; destruct fnot; reflexivity.
Qed.

Lemma with_flags_sem fnot fneg v :
  in_i64 (- v) = true ->
  with_flags fnot fneg (EVal (Some (SNum v))) = EVal (Some (SNum (sem_flags fnot fneg v))).
Proof. intros H. unfold with_flags. rewrite apply_flags_sem by assumption. reflexivity. Qed.

Lemma sem_flags_in_i64 fnot fneg v : in_i64 v = true -> in_i64 (- v) = true -> in_i64 (sem_flags fnot fneg v) = true.
Proof.
  intros A B. unfold sem_flags. destruct fneg, fnot; try assumption.
  - destruct (- v =? 0); reflexivity.
  - destruct (v =? 0); reflexivity.
Qed.

(* ---- modifiers ---- *)
Lemma modifier_consts : low_byte_mask = 255 /\ high_byte_shift = 8 /\ high_byte_mask = 255.
Proof. repeat split; reflexivity. Qed.

Lemma modifier_sem m v :
  (match m with
   | Some LowByte => Z.land v low_byte_mask
   | Some HighByte => Z.land (Z.shiftr v high_byte_shift) high_byte_mask
   | None => v
   end) = sem_modifier m v.
Proof.
  destruct modifier_consts as (-> & -> & ->). destruct m as [[|]|]; cbn [sem_modifier]; [| |reflexivity].
  - change 255 with (Z.ones 8). rewrite Z.land_ones by lia. reflexivity.
  - change 255 with (Z.ones 8). rewrite Z.land_ones by lia. rewrite Z.shiftr_div_pow2 by lia. reflexivity.
Qed.

Lemma sem_modifier_in_i64 m v : in_i64 v = true -> in_i64 (sem_modifier m v) = true.
Proof.
  intros H. destruct m as [[|]|]; cbn [sem_modifier]; [| |assumption].
  - pose proof (Z.mod_pos_bound v 256 ltac:(lia)). unfold in_i64, i64_min, i64_max. lia.
  - pose proof (Z.mod_pos_bound (v / 256) 256 ltac:(lia)). unfold in_i64, i64_min, i64_max. lia.
Qed.

(* ---- literals ---- *)
Lemma text_eqb_eq a b : text_eqb a b = true <-> a = b.
Proof.
  revert b; induction a as [|x a IH]; intros [|y b]; cbn; split; intros H; try discriminate; auto.
  - apply andb_prop in H as [H1 H2]. apply N.eqb_eq in H1. apply IH in H2. congruence.
  - inversion H; subst. rewrite N.eqb_refl. apply IH. reflexivity.
Qed.

Lemma digit_value_spec radix c : radix <= 16 -> 0 <= spec_digit c < radix -> digit_value radix c = Some (spec_digit c).
Proof.
  intros Hr H. unfold digit_value, spec_digit in *.
  destruct ((48 <=? Z.of_N c) && (Z.of_N c <=? 57)) eqn:A.
  - assert (E : (Z.of_N c - 48 <? radix) = true) by lia. rewrite E. reflexivity.
  - destruct ((97 <=? Z.of_N c) && (Z.of_N c <=? 102)) eqn:B.
    + assert (B' : (97 <=? Z.of_N c) && (Z.of_N c <=? 122) = true) by lia. rewrite B'.
      assert (E : (Z.of_N c - 97 + 10 <? radix) = true) by lia. rewrite E. f_equal. lia.
    + destruct ((65 <=? Z.of_N c) && (Z.of_N c <=? 70)) eqn:C; [|lia].
      assert (B' : (97 <=? Z.of_N c) && (Z.of_N c <=? 122) = false) by lia. rewrite B'.
      assert (C' : (65 <=? Z.of_N c) && (Z.of_N c <=? 90) = true) by lia. rewrite C'.
      assert (E : (Z.of_N c - 65 + 10 <? radix) = true) by lia. rewrite E. f_equal. lia.
Qed.

Lemma digits_value_spec radix ds : radix <= 16 -> 0 < radix ->
  Forall (fun c => 0 <= spec_digit c < radix) ds ->
  forall acc, digits_value radix acc ds = Some (acc * radix ^ Z.of_nat (length ds) + sem_digits radix ds).
Proof.
  intros Hr Hp. induction 1 as [|c ds Hc Hds IH]; intros acc; cbn [digits_value sem_digits length].
  - f_equal. change (Z.of_nat 0) with 0. lia.
  - rewrite (digit_value_spec radix c Hr Hc). rewrite IH. f_equal.
    rewrite Nat2Z.inj_succ, Z.pow_succ_r by lia. ring.
Qed.

Lemma ascii_lower_digit c v : ascii_lower c = v -> (v = 116 \/ v = 108)%N -> spec_digit c = -1.
Proof.
  unfold ascii_lower, spec_digit. intros E Hv.
  destruct ((65 <=? c)%N && (c <=? 90)%N) eqn:U.
  - assert (c = 84 \/ c = 76)%N as [-> | ->] by lia; reflexivity.
  - assert (c = 116 \/ c = 108)%N as [-> | ->] by lia; reflexivity.
Qed.

(* a string of valid digits is never one of the two keywords, in any letter case *)
Lemma keyword_text_digits radix digits :
  radix <= 16 -> Forall (fun c => 0 <= spec_digit c < radix) digits ->
  text_eqb (keyword_text digits) t_true = false /\ text_eqb (keyword_text digits) t_false = false.
Proof.
  intros Hr Hall. unfold keyword_text. destruct literal_keywords_ignore_case.
  - split.
    + destruct (text_eqb (map ascii_lower digits) t_true) eqn:E; [|reflexivity]. exfalso.
      apply text_eqb_eq in E. destruct digits as [|c ds]; [discriminate|]. cbn [map] in E. injection E as E1 _.
      inversion Hall as [|? ? Hc _]; subst. rewrite (ascii_lower_digit c _ E1) in Hc by (left; reflexivity). lia.
    + destruct (text_eqb (map ascii_lower digits) t_false) eqn:E; [|reflexivity]. exfalso.
      apply text_eqb_eq in E. destruct digits as [|c1 [|c2 [|c ds]]]; try discriminate. cbn [map] in E. injection E as _ _ E1 _.
      inversion Hall as [|? ? _ H2]; subst. inversion H2 as [|? ? _ H3]; subst. inversion H3 as [|? ? Hc _]; subst.
      rewrite (ascii_lower_digit c _ E1) in Hc by (right; reflexivity). lia.
  - split.
    + destruct (text_eqb digits t_true) eqn:E; [|reflexivity]. exfalso. apply text_eqb_eq in E. subst.
      inversion Hall as [|? ? Hc _]; subst. replace (spec_digit _) with (-1) in Hc by reflexivity. lia.
    + destruct (text_eqb digits t_false) eqn:E; [|reflexivity]. exfalso. apply text_eqb_eq in E. subst.
      inversion Hall as [|? ? _ H2]; subst. inversion H2 as [|? ? _ H3]; subst. inversion H3 as [|? ? Hc _]; subst.
      replace (spec_digit _) with (-1) in Hc by reflexivity. lia.
Qed.

Lemma keyword_text_keywords : keyword_text t_true = t_true /\ keyword_text t_false = t_false.
Proof. unfold keyword_text. destruct literal_keywords_ignore_case; split; reflexivity. Qed.

Lemma literal_value radix digits :
  valid_literal radix digits -> in_i64 (spec_lit radix digits) = true ->
  number_value radix digits = Val (spec_lit radix digits).
Proof.
  intros [Hr Hd] Hfit. unfold number_value, spec_lit in *.
  destruct keyword_text_keywords as [KT KF].
  destruct Hd as [-> | [-> | [Hne Hall]]].
  - rewrite KT. reflexivity.
  - rewrite KF. reflexivity.
  - assert (R16 : radix <= 16) by lia.
    destruct (keyword_text_digits radix digits R16 Hall) as [T F]. rewrite T, F.
    assert (T' : text_eqb digits t_true = false).
    { destruct (text_eqb digits t_true) eqn:E; [|reflexivity]. apply text_eqb_eq in E. subst.
      inversion Hall as [|? ? Hc _]; subst. replace (spec_digit _) with (-1) in Hc by reflexivity. lia. }
    assert (F' : text_eqb digits t_false = false).
    { destruct (text_eqb digits t_false) eqn:E; [|reflexivity]. apply text_eqb_eq in E. subst.
      inversion Hall as [|? ? _ H2]; subst. inversion H2 as [|? ? _ H3]; subst. inversion H3 as [|? ? Hc _]; subst.
      replace (spec_digit _) with (-1) in Hc by reflexivity. lia. }
    rewrite T', F' in Hfit. rewrite T', F'.
    destruct digits as [|c ds]; [congruence|].
    rewrite (digits_value_spec radix (c :: ds)) by (try exact Hall; lia).
    rewrite Z.mul_0_l, Z.add_0_l.
    unfold in_i64 in Hfit. apply andb_prop in Hfit as [_ Hmax]. rewrite Hmax. reflexivity.
Qed.

(* ---- the evaluator computes ordinary integer arithmetic on the property's domain ---- *)
Lemma sem_in_i64 num pc e : in_domain num pc e -> in_i64 (sem num pc e) = true.
Proof.
  destruct e; cbn [in_domain sem]; intros H.
  - tauto.
  - destruct H as (_ & A & B). apply sem_flags_in_i64; assumption.
  - destruct H as (A & B). apply sem_flags_in_i64; [apply sem_modifier_in_i64; assumption | assumption].
  - destruct H as (A & B). apply sem_flags_in_i64; assumption.
  - destruct H as (A & B). apply sem_flags_in_i64; [|assumption].
    clear B. revert A. generalize e. fix IH 1. intros e0. destruct e0; cbn [in_domain sem]; intros H.
    + tauto.
    + destruct H as (_ & A & B). apply sem_flags_in_i64; assumption.
    + destruct H as (A & B). apply sem_flags_in_i64; [apply sem_modifier_in_i64; assumption | assumption].
    + destruct H as (A & B). apply sem_flags_in_i64; assumption.
    + destruct H as (A & B). apply sem_flags_in_i64; [apply IH; exact A | assumption].
    + contradiction.
    + contradiction.
  - contradiction.
  - contradiction.
Qed.

Theorem eval_sem num pc en e :
  (forall p, lookup en p = Some (DNum (num p))) -> cur_pc en = Some pc ->
  in_domain num pc e ->
  eval en e = EVal (Some (SNum (sem num pc e))).
Proof.
  intros Hl Hp. induction e as [op l IHl r IHr | radix digits fnot fneg | path m fnot fneg | fnot fneg | inner IH fnot fneg | |];
    cbn [in_domain]; intros Hd.
  - destruct Hd as (Dl & Dr & Dop & Dres). cbn [eval]. rewrite (IHl Dl), (IHr Dr).
    rewrite apply_i64_sem; [reflexivity | exact Dop | apply sem_in_i64; exact Dl | apply sem_in_i64; exact Dr | exact Dres].
  - destruct Hd as (Hv & Hfit & Hneg). cbn [eval sem]. rewrite (literal_value radix digits Hv Hfit).
    apply with_flags_sem; exact Hneg.
  - destruct Hd as (Hfit & Hneg). cbn [eval sem]. rewrite Hl. rewrite modifier_sem. apply with_flags_sem; exact Hneg.
  - destruct Hd as (Hfit & Hneg). cbn [eval sem]. rewrite Hp. apply with_flags_sem; exact Hneg.
  - destruct Hd as (Di & Hneg). cbn [eval sem]. rewrite (IH Di). apply with_flags_sem; exact Hneg.
  - contradiction.
  - contradiction.
Qed.

(* ---- data: low 8/16/32 bits little endian ---- *)
Lemma pow256 i : 256 ^ Z.of_nat i = 2 ^ (8 * Z.of_nat i).
Proof. change 256 with (2 ^ 8). rewrite <- Z.pow_mul_r by lia. reflexivity. Qed.

Theorem emit_data_le k v : (k <= 4)%nat ->
  emit_data k v = spec_le_bytes k (v mod 2 ^ (8 * Z.of_nat k)).
Proof.
  intros Hk. unfold emit_data, le_bytes, spec_le_bytes. rewrite pow256.
  apply map_ext. intros i. rewrite pow256. reflexivity.
Qed.

Lemma nth_map_seq {A} (f : nat -> A) k i d : (i < k)%nat -> nth i (map f (seq 0 k)) d = f i.
Proof.
  intros H. rewrite (nth_indep _ d (f 0%nat)) by (rewrite map_length, seq_length; lia).
  rewrite map_nth, seq_nth by lia. reflexivity.
Qed.

(* each emitted byte is the corresponding byte of v itself (truncation keeps the low bytes) *)
Theorem emit_data_bytes k v i : (i < k)%nat ->
  nth i (emit_data k v) 0%N = Z.to_N ((v / 2 ^ (8 * Z.of_nat i)) mod 256).
Proof.
  intros Hi. unfold emit_data, le_bytes. rewrite nth_map_seq by exact Hi.  f_equal.
  rewrite !pow256.
  replace (8 * Z.of_nat k) with (8 * Z.of_nat i + (8 + 8 * Z.of_nat (k - i - 1))) by lia.
  rewrite Z.pow_add_r by lia.
  set (A := 2 ^ (8 * Z.of_nat i)). set (B := 2 ^ (8 + 8 * Z.of_nat (k - i - 1))).
  assert (HA : 0 < A) by (apply Z.pow_pos_nonneg; lia).
  assert (HB : 0 < B) by (apply Z.pow_pos_nonneg; lia).
  rewrite Z.rem_mul_r by lia.
  rewrite Z.mul_comm, Z.div_add by lia.
  rewrite (Z.div_small (v mod A) A) by (apply Z.mod_pos_bound; lia). rewrite Z.add_0_l.
  assert (HBm : B = 256 * 2 ^ (8 * Z.of_nat (k - i - 1))).
  { unfold B. rewrite Z.pow_add_r by lia. reflexivity. }
  rewrite HBm. rewrite Z.rem_mul_r by (try lia; apply Z.pow_nonzero; lia).
  rewrite Z.mul_comm, Z.mod_add by lia. apply Z.mod_mod. lia.
Qed.

(* ---- refuted / documented corners (witnesses by computation) ---- *)
Definition empty_env : env := mkEnv (fun _ => None) (Some 4096).
Example not_neg_zero : eval empty_env (ENum 10 [48%N] true true) = EVal (Some (SNum 1)).
Proof. vm_compute. reflexivity. Qed.
Example trunc_div : eval empty_env (EBin Div (ENum 10 [55%N] false true) (ENum 10 [50%N] false false)) = EVal (Some (SNum (-3))).
Proof. vm_compute. reflexivity. Qed.
Example div_by_zero_is_zero : eval empty_env (EBin Div (ENum 10 [55%N] false false) (ENum 10 [48%N] false false)) = EVal (Some (SNum 0)).
Proof. vm_compute. reflexivity. Qed.

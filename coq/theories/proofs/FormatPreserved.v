(* Invariants of the chunk list that every step of the token layer preserves. *)
From Coq Require Import List NArith Bool Arith Lia.
Import ListNotations.
From Mos Require Import model.Utf model.Format Gen.FmtRules model.FormatTokens spec.FormatSpec proofs.FormatProofs proofs.FormatTokensProofs.
Open Scope nat_scope.

Section Preserved.
  (* a property of the formatter state ... *)
  Variable P : fstate -> Prop.
  Definition pres (f : fstate -> fstate) : Prop := forall st, P st -> P (f st).

  (* ... that the primitive steps preserve *)
  Hypothesis Hpush : forall ty s, pres (push_type ty s).
  Hypothesis Hspc : pres spc_if_next.
  Hypothesis Hclr : pres clear_spc_if_next.
  Hypothesis Hind : forall k, pres (indent_by k).
  Hypothesis Hded : forall k, pres (dedent_by k).
  Hypothesis Hpop : pres pop_newlines.
  (* the leading trivia of a token list, collected separately and spliced in (with or without its leading newlines) *)
  Hypothesis Hlead : forall (tr : option (list trivia)) (trim : bool) (st : fstate), P st ->
    P (let sub := fmt_otrivia tr (mkF [] (f_spc st) (f_indent st)) in
       let lead := rev (f_chunks sub) in
       let lead := if trim then drop_nl_chunks lead else lead in
       mkF (rev lead ++ f_chunks st) (f_spc sub) (f_indent sub)).

  Lemma pres_id : pres (fun st => st). Proof. intros st H; exact H. Qed.
  Lemma pres_comp : forall f g, pres g -> pres f -> pres (fun st => f (g st)).
  Proof. intros f g Hg Hf st H. apply Hf, Hg, H. Qed.
  Lemma pres_ext : forall f g, (forall st, f st = g st) -> pres g -> pres f.
  Proof. intros f g E Hg st H. rewrite E. apply Hg, H. Qed.
  Lemma pres_if : forall (b : bool) f g, pres f -> pres g -> pres (fun st => if b then f st else g st).
  Proof. intros [|] f g Hf Hg; assumption. Qed.
  Lemma pres_fold : forall {A} (f : A -> fstate -> fstate) l, (forall a, In a l -> pres (f a)) ->
    pres (fun st => fold_left (fun s a => f a s) l st).
  Proof.
    intros A f l. induction l as [|a r IH]; intros H st Hst; [exact Hst|]. cbn [fold_left].
    apply IH; [intros; apply H; right; assumption | apply H; [left; reflexivity | exact Hst]].
  Qed.
  Lemma pres_opt : forall {A} (f : A -> fstate -> fstate) x, (forall a, x = Some a -> pres (f a)) -> pres (fmt_opt f x).
  Proof. intros A f [a|] H; [apply H; reflexivity | apply pres_id]. Qed.

  Lemma pres_push : forall s, pres (push s). Proof. intros; apply Hpush. Qed.

  Lemma pres_trivium : forall t, pres (fmt_trivium t).
  Proof. intros [s| |s|s]; cbn [fmt_trivium]; [apply pres_id | apply pres_push | apply Hpush | apply Hpush]. Qed.
  Lemma pres_trivia : forall ts, pres (fmt_trivia ts).
  Proof. intros ts. unfold fmt_trivia. apply (pres_fold fmt_trivium). intros; apply pres_trivium. Qed.
  Lemma pres_otrivia : forall ot, pres (fmt_otrivia ot).
  Proof. intros [ts|]; [apply pres_trivia | apply pres_id]. Qed.
  Lemma pres_loc : forall l, pres (fmt_loc l).
  Proof. intros l. unfold fmt_loc. apply pres_comp; [apply pres_otrivia | apply pres_push]. Qed.
  Lemma pres_opt_loc : forall x, pres (fmt_opt fmt_loc x).
  Proof. intros; apply pres_opt; intros; apply pres_loc. Qed.

  Ltac pres_step :=
    lazymatch goal with
    | |- pres (fun st => st) => apply pres_id
    | |- pres (push _) => apply pres_push
    | |- pres (push_type _ _) => apply Hpush
    | |- pres spc_if_next => apply Hspc
    | |- pres clear_spc_if_next => apply Hclr
    | |- pres (indent_by _) => apply Hind
    | |- pres (dedent_by _) => apply Hded
    | |- pres pop_newlines => apply Hpop
    | |- pres (fmt_loc _) => apply pres_loc
    | |- pres (fmt_otrivia _) => apply pres_otrivia
    | |- pres (fmt_opt fmt_loc _) => apply pres_opt_loc
    | |- pres (fun st => ?f (@?g st)) =>
        lazymatch g with
        | (fun st => st) => change (pres f)
        | _ => apply (pres_comp f g)
        end
    end.

  Lemma pres_istring : forall s, pres (fmt_istring s).
  Proof.
    intros s. unfold fmt_istring.
    apply (pres_comp (push [QUOTE]) (fun st => fold_left (fun a i => fmt_istring_item i a) (is_items s) (fmt_loc (is_lquote s) st))); [|apply pres_push].
    apply (pres_comp (fun st => fold_left (fun a i => fmt_istring_item i a) (is_items s) st) (fmt_loc (is_lquote s))); [apply pres_loc|].
    apply (pres_fold fmt_istring_item). intros i _. destruct i as [l|l].
    - apply pres_push.
    - cbn [fmt_istring_item]. apply (pres_comp (push [RBRACE])); [|apply pres_push].
      apply (pres_comp (if emits_interpolation_trivia then fmt_loc l else push (l_data l))); [apply pres_push|].
      destruct emits_interpolation_trivia; [apply pres_loc | apply pres_push].
  Qed.

  Lemma pres_expression : forall e, pres (format_expression e)
  with pres_factor : forall f, pres (format_expression_factor f).
  Proof.
    - intros e. destruct e as [lhs op rhs | tn tg f]; cbn [format_expression].
      + pose proof (pres_expression (l_data lhs)) as Hl. pose proof (pres_expression (l_data rhs)) as Hr.
        repeat pres_step; assumption.
      + pose proof (pres_factor (l_data f)) as Hf. repeat pres_step; assumption.
    - intros f. destruct f as [star | lp inner rp | name lp args rp | path modifier | ty value | s]; cbn [format_expression_factor].
      + apply pres_loc.
      + pose proof (pres_expression (l_data inner)) as Hi. repeat pres_step; assumption.
      + assert (Hargs : forall ec, In ec args -> pres (format_expression (l_data (fst ec)))).
        { clear - pres_expression. induction args as [|a r IH]; intros ec Hin; [destruct Hin|].
          destruct Hin as [<-|Hin]; [apply pres_expression | apply IH; assumption]. }
        apply (pres_comp (fmt_loc rp)); [|apply pres_loc].
        apply (pres_comp clear_spc_if_next); [|apply Hclr].
        apply (pres_comp (fun st => fold_left (fun a (ec : located expr * option ltext) =>
                             spc_if_next (fmt_opt fmt_loc (snd ec)
                               (format_expression (l_data (fst ec)) (fmt_otrivia (l_trivia (fst ec)) a)))) args st)
                         (fun st => fmt_loc lp (fmt_loc name st))); [repeat pres_step|].
        apply (pres_fold (fun (ec : located expr * option ltext) a => spc_if_next (fmt_opt fmt_loc (snd ec)
                               (format_expression (l_data (fst ec)) (fmt_otrivia (l_trivia (fst ec)) a))))).
        intros ec Hin. specialize (Hargs ec Hin). repeat pres_step; assumption.
      + repeat pres_step.
      + repeat pres_step.
      + apply pres_istring.
  Qed.

  Lemma pres_lexpr : forall e, pres (fmt_lexpr e).
  Proof. intros e. unfold fmt_lexpr. apply pres_comp; [apply pres_otrivia | apply pres_expression]. Qed.

  Lemma pres_arg_exprs : forall args, pres (fmt_arg_exprs args).
  Proof.
    intros args. unfold fmt_arg_exprs. apply (pres_comp clear_spc_if_next); [|apply Hclr].
    apply (pres_fold (fun (ec : located expr * option ltext) a => spc_if_next (fmt_opt fmt_loc (snd ec) (fmt_lexpr (fst ec) a)))).
    intros ec _. apply (pres_comp spc_if_next); [|apply Hspc].
    apply (pres_comp (fmt_opt fmt_loc (snd ec))); [apply pres_lexpr | apply pres_opt_loc].
  Qed.

  Lemma pres_arg_ids : forall args, pres (fmt_arg_ids args).
  Proof.
    intros args. unfold fmt_arg_ids. apply (pres_comp clear_spc_if_next); [|apply Hclr].
    apply (pres_fold (fun (ic : ltext * option ltext) a => spc_if_next (fmt_opt fmt_loc (snd ic) (fmt_loc (fst ic) a)))).
    intros ic _. apply (pres_comp spc_if_next); [|apply Hspc].
    apply (pres_comp (fmt_opt fmt_loc (snd ic))); [apply pres_loc | apply pres_opt_loc].
  Qed.

  Lemma pres_import_as : forall a, pres (fmt_import_as a).
  Proof. intros a. unfold fmt_import_as. repeat pres_step. Qed.

  Lemma pres_opt_import_as : forall x, pres (fmt_opt fmt_import_as x).
  Proof. intros; apply pres_opt; intros; apply pres_import_as. Qed.

  Lemma pres_arg_specific : forall args, pres (fmt_arg_specific args).
  Proof.
    intros args. unfold fmt_arg_specific. apply (pres_comp clear_spc_if_next); [|apply Hclr].
    apply (pres_fold (fun (pc : located specific_import_arg * option ltext) a =>
      let p := l_data (fst pc) in
      let a := if emits_import_arg_trivia then fmt_otrivia (l_trivia (fst pc)) a else a in
      spc_if_next (fmt_opt fmt_loc (snd pc) (fmt_opt fmt_import_as (sa_as p) (spc_if_next (fmt_loc (sa_path p) a)))))).
    intros pc _. cbv zeta.
    apply (pres_comp spc_if_next); [|apply Hspc].
    apply (pres_comp (fmt_opt fmt_loc (snd pc))); [|apply pres_opt_loc].
    apply (pres_comp (fmt_opt fmt_import_as (sa_as (l_data (fst pc))))); [|apply pres_opt_import_as].
    apply (pres_comp spc_if_next); [|apply Hspc].
    apply (pres_comp (fmt_loc (sa_path (l_data (fst pc))))); [|apply pres_loc].
    apply (pres_if emits_import_arg_trivia); [apply pres_otrivia | apply pres_id].
  Qed.

  Lemma pres_suffix : forall o sfx, pres (fmt_suffix o sfx).
  Proof.
    intros o [[comma register]|]; [|apply pres_id].
    eapply pres_ext with (g := fun st => clear_spc_if_next (fmt_loc (mkLoc (l_trivia register) (casing_format (o_register_casing o) (l_data register)))
                                                         (spc_if_next (fmt_loc comma st)))); [reflexivity|].
    repeat pres_step.
  Qed.

  Lemma pres_operand : forall o op, pres (fmt_operand o op).
  Proof.
    intros o op. unfold fmt_operand.
    assert (H0 : pres (fun st => fmt_lexpr (op_expr op) (fmt_opt fmt_loc (op_lchar op) st))).
    { apply (pres_comp (fmt_lexpr (op_expr op))); [apply pres_opt_loc | apply pres_lexpr]. }
    destruct (op_mode op).
    - apply (pres_comp (fmt_suffix o (op_suffix op))); [exact H0 | apply pres_suffix].
    - apply (pres_comp (fmt_suffix o (op_suffix op))); [exact H0 | apply pres_suffix].
    - apply (pres_comp (fmt_suffix o (op_suffix op))); [exact H0 | apply pres_suffix].
    - apply (pres_comp (fmt_opt fmt_loc (op_rchar op))); [|apply pres_opt_loc].
      apply (pres_comp (fmt_suffix o (op_suffix op))); [exact H0 | apply pres_suffix].
    - apply (pres_comp (fmt_suffix o (op_suffix op))); [|apply pres_suffix].
      apply (pres_comp (fmt_opt fmt_loc (op_rchar op))); [exact H0 | apply pres_opt_loc].
  Qed.

  Lemma pres_newline_before : forall prev t, pres (newline_before prev t).
  Proof.
    intros prev t st H. unfold newline_before. destruct prev as [p|]; [|exact H].
    destruct (kind_of t); try exact H;
      repeat match goal with |- context [if ?c then _ else _] => destruct c end; try exact H; repeat apply pres_push; exact H.
  Qed.

  Lemma pres_loop : forall ft veof ts prev, (forall t, In t ts -> pres (ft t)) -> pres (format_tokens_loop ft veof prev ts).
  Proof.
    intros ft veof ts. induction ts as [|t rest IH]; intros prev Hft st H.
    - cbn [format_tokens_loop]. destruct veof as [tr|]; [apply pres_newline_before|]; exact H.
    - cbn [format_tokens_loop]. apply IH; [intros; apply Hft; right; assumption|].
      assert (H1 : P (ft t (newline_before prev t st))) by (apply Hft; [left; reflexivity | apply pres_newline_before; exact H]).
      destruct rest as [|n rest']; [destruct veof as [tr|]|]; try apply pres_otrivia; exact H1.
  Qed.

  Lemma pres_tokens_with : forall ft veof ts trim, (forall t, In t ts -> pres (ft t)) -> pres (format_tokens_with ft veof ts trim).
  Proof.
    intros ft veof ts trim Hft st H. unfold format_tokens_with.
    apply pres_loop; [exact Hft|]. apply Hlead. exact H.
  Qed.

  Lemma pres_lbrace_trivia : forall ot, pres (fmt_lbrace_trivia ot).
  Proof.
    intros [ts|]; cbn [fmt_lbrace_trivia]; [|apply pres_id].
    apply (pres_fold fmt_lbrace_trivium). intros t _. destruct t as [s| |s|s]; cbn [fmt_lbrace_trivium].
    - apply pres_id.
    - apply pres_id.
    - apply Hpush.
    - eapply pres_ext with (g := fun st => push [NL] (push_type (Some Comment) s st)); [reflexivity|]. repeat pres_step.
  Qed.

  Lemma pres_open_block : forall o lp, pres (open_block o lp).
  Proof.
    intros o lp st H. unfold open_block.
    destruct (o_braces o); [|destruct (emits_lbrace_trivia && last_is_nl st)]; repeat apply pres_push; exact H.
  Qed.

  Lemma pres_block_of_tokens : forall o lt lp inner rp, (forall t, In t inner -> pres (format_token o t)) ->
    pres (format_block o lt (mkBlock lp inner rp)).
  Proof.
    intros o lt lp inner rp Hft. cbn [format_block]. cbv zeta.
    apply (pres_comp (push (l_data rp))); [|apply pres_push].
    apply (pres_comp (push [NL])); [|apply pres_push].
    apply (pres_comp pop_newlines); [|apply Hpop].
    apply (pres_comp (dedent_by (o_indent o))); [|apply Hded].
    apply (pres_comp (format_tokens_with (format_token o) (Some (l_trivia rp)) inner true)); [|apply pres_tokens_with; exact Hft].
    apply (pres_comp (indent_by (o_indent o))); [|apply Hind].
    apply (pres_comp (open_block o lp)); [|apply pres_open_block].
    apply (pres_if (lt && emits_lbrace_trivia)); [apply pres_lbrace_trivia | apply pres_id].
  Qed.

  Ltac pres_leaf :=
    lazymatch goal with
    | |- pres (fmt_lexpr _) => apply pres_lexpr
    | |- pres (fmt_arg_exprs _) => apply pres_arg_exprs
    | |- pres (fmt_arg_ids _) => apply pres_arg_ids
    | |- pres (fmt_istring _) => apply pres_istring
    | |- pres (fmt_opt fmt_istring _) => apply pres_opt; intros; apply pres_istring
    | |- pres (fmt_opt (fmt_operand _) _) => apply pres_opt; intros; apply pres_operand
    | |- pres (fmt_arg_specific _) => apply pres_arg_specific
    | |- pres (fmt_opt fmt_import_as _) => apply pres_opt_import_as
    | |- pres (format_expression _) => apply pres_expression
    | _ => pres_step
    end.

  Ltac pblock IH o b :=
    let lp := fresh "lp" in let inner := fresh "inner" in let rp := fresh "rp" in
    let a := fresh "a" in let r := fresh "r" in let IHr := fresh "IHr" in let t' := fresh "t'" in let Hin := fresh "Hin" in
    destruct b as [lp inner rp]; apply pres_block_of_tokens;
    clear - IH; induction inner as [|a r IHr]; intros t' Hin; [destruct Hin|];
    destruct Hin as [<-|Hin]; [apply IH | apply IHr; assumption].

  Lemma pres_token : forall o t, pres (format_token o t).
  Proof.
    fix IH 2. intros o t.
    destruct t; cbn [format_token].
    - repeat pres_leaf.
    - repeat pres_leaf.
    - pblock IH o b.
    - pblock IH o b.
    - pose proof (IH o (l_data value)) as Hv. repeat pres_leaf; exact Hv.
    - repeat pres_leaf.
    - destruct value as [v|]; [pose proof (IH o v) as Hv; repeat pres_leaf; exact Hv | repeat pres_leaf].
    - apply pres_id.
    - apply pres_push.
    - apply pres_expression.
    - repeat pres_leaf.
    - assert (Hif : pres (format_block o true if_)) by (pblock IH o if_).
      destruct tag_else as [te|]; [|repeat pres_leaf; exact Hif].
      destruct (o_braces o).
      + destruct else_ as [eb|]; [assert (He : pres (format_block o true eb)) by (pblock IH o eb)|]; repeat pres_leaf; assumption.
      + assert (H1 : pres (fun st => fmt_loc te ((fun s => if trivia_has_newline (l_trivia te) then s else push [NL] s)
                  (format_block o true if_ (push [SP] (fmt_lexpr value (push [SP] (push (l_data tag_if) st)))))))).
        { apply (pres_comp (fmt_loc te)); [|apply pres_loc].
          apply (pres_comp (fun s => if trivia_has_newline (l_trivia te) then s else push [NL] s)); [repeat pres_leaf; exact Hif|].
          apply (pres_if (trivia_has_newline (l_trivia te))); [apply pres_id | apply pres_push]. }
        destruct else_ as [eb|]; [|exact H1].
        assert (He : pres (format_block o true eb)) by (pblock IH o eb).
        apply (pres_comp (format_block o true eb)); [exact H1 | exact He].
    - destruct args as [c as_ | sargs]; (destruct b as [bb|]; [assert (Hb : pres (format_block o true bb)) by (pblock IH o bb)|]);
        repeat pres_leaf; try assumption.
    - repeat pres_leaf.
    - destruct b as [bb|]; [assert (Hb : pres (format_block o true bb)) by (pblock IH o bb); repeat pres_leaf; assumption | apply Hpush].
    - assert (Hb : pres (format_block o true b)) by (pblock IH o b). repeat pres_leaf; assumption.
    - assert (Hb : pres (format_block o true b)) by (pblock IH o b). repeat pres_leaf; assumption.
    - repeat pres_leaf.
    - repeat pres_leaf.
    - destruct b as [bb|]; [assert (Hb : pres (format_block o true bb)) by (pblock IH o bb)|]; repeat pres_leaf; try assumption.
    - assert (Hb : pres (format_block o true b)) by (pblock IH o b). repeat pres_leaf; assumption.
    - repeat pres_leaf.
    - repeat pres_leaf.
    - repeat pres_leaf.
  Qed.

  (* the whole file *)
  Lemma pres_format : forall o ts, P f_init -> P (format_tokens_with (format_token o) None ts false f_init).
  Proof. intros o ts H. apply pres_tokens_with; [intros; apply pres_token | exact H]. Qed.
End Preserved.

(* ---------------------------------------------------------------- every chunk of the formatter is non-empty *)
Definition ne_state (st : fstate) : Prop := Forall (fun c => c_str c <> []) (f_chunks st).

Lemma drop_nl_forall : forall (Q : chunk -> Prop) l, Forall Q l -> Forall Q (drop_nl_chunks l).
Proof.
  intros Q l H. induction H as [|c r Hc Hr IH]; [constructor|]. cbn [drop_nl_chunks].
  destruct (is_nl_chunk c); [exact IH | constructor; assumption].
Qed.

Lemma ne_push_type : forall ty s, pres ne_state (push_type ty s).
Proof.
  intros ty s st H. unfold push_type. destruct s as [|c r]; [exact H|].
  unfold ne_state. cbn [f_chunks]. constructor; [|exact H]. cbn [c_str]. destruct (f_spc st); discriminate.
Qed.

Lemma nonempty_format_chunks : forall o ts, nonempty_chunks (format_chunks o ts).
Proof.
  intros o ts. unfold nonempty_chunks, format_chunks. apply Forall_rev.
  apply (pres_format ne_state ne_push_type).
  - intros st H; exact H.
  - intros st H; exact H.
  - intros k st H; exact H.
  - intros k st H; exact H.
  - intros st H. unfold pop_newlines, ne_state. cbn [f_chunks]. apply drop_nl_forall. exact H.
  - intros tr trim st H. cbv zeta. unfold ne_state. cbn [f_chunks]. apply Forall_app. split; [|exact H].
    apply Forall_rev.
    assert (Hsub : ne_state (fmt_otrivia tr (mkF [] (f_spc st) (f_indent st)))).
    { apply (pres_otrivia ne_state ne_push_type). constructor. }
    destruct trim; [apply drop_nl_forall|]; apply Forall_rev; exact Hsub.
  - constructor.
Qed.

(* C12, the whole formatter on the model: the output text consists of exactly the non-whitespace characters of its chunks *)
Theorem format_accounts : forall o ts, nows (format o ts) = nows (chunks_text (format_chunks o ts)).
Proof. intros o ts. unfold format. apply join_preserves. apply nonempty_format_chunks. Qed.

(* ---------------------------------------------------------------- no comment is lost: subsequences *)
Lemma subseq_refl : forall {A} (l : list A), subseq l l.
Proof. induction l; constructor; assumption. Qed.
Lemma subseq_app : forall {A} (a a' b b' : list A), subseq a a' -> subseq b b' -> subseq (a ++ b) (a' ++ b').
Proof. intros A a a' b b' H1 H2. induction H1; cbn [app]; [exact H2 | constructor; assumption | constructor; assumption]. Qed.
Lemma subseq_skip_app : forall {A} (x a b : list A), subseq a b -> subseq a (x ++ b).
Proof. intros A x a b H. induction x; cbn [app]; [exact H | constructor; assumption]. Qed.
Lemma subseq_filter : forall {A} (f : A -> bool) a b, subseq a b -> subseq (filter f a) (filter f b).
Proof.
  intros A f a b H. induction H; cbn [filter]; [constructor | destruct (f x); [constructor|]; assumption | destruct (f x); [constructor|]; assumption].
Qed.

Lemma comment_chunks_subseq : forall cs, subseq (concat (chunk_comments cs)) (chunks_text cs).
Proof.
  induction cs as [|c r IH]; [constructor|]. unfold chunk_comments, chunks_text in *. cbn [filter map concat].
  destruct (is_comment_chunk c); cbn [map concat].
  - apply subseq_app; [apply subseq_refl | exact IH].
  - apply subseq_skip_app. exact IH.
Qed.

(* C12, the whole formatter on the model: the characters of all comments of the file, in source order, are a subsequence
   of the output text (non-whitespace characters): no comment is lost or reordered *)
Theorem no_comment_lost : forall o ts, wf_tokens ts = true ->
  subseq (nows (concat (all_comments ts))) (nows (format o ts)).
Proof.
  intros o ts Hwf. rewrite <- (comments_in_order o ts Hwf), format_accounts.
  apply subseq_filter. apply comment_chunks_subseq.
Qed.

(* the freshly started server of the property text, as an instance of depends_only_on_current_buffers *)
From Coq Require Import List NArith Arith Bool Lia.
From Mos Require Import model.Lsp spec.LspSpec proofs.LspStrProofs proofs.LspBookProofs.
Import ListNotations.

Section Fresh.
  Variable w : world.
  Hypothesis ok : world_ok w.
  Notation eqb := (w_path_eqb w).
  Notation fb := (final_buffers (w_path w) (w_request w) eqb).
  Notation apev := (apply_event (w_path w) (w_request w) eqb).
  Notation fresh := (fresh_history (w_path w) (w_request w)).

  Lemma lookup_app : forall (a b : list (w_path w * text)) p,
    lookup eqb p (a ++ b) = match lookup eqb p a with Some t => Some t | None => lookup eqb p b end.
  Proof.
    induction a as [|[k v] a IH]; intros b p; simpl; auto. destruct (eqb p k); auto.
  Qed.

  Lemma fold_fresh : forall l b p,
    fold_left apev (fresh l) b p = match lookup eqb p (rev l) with Some t => Some t | None => b p end.
  Proof.
    induction l as [|[k v] l IH]; intros b p; simpl; auto.
    rewrite IH. rewrite lookup_app. destruct (lookup eqb p (rev l)); auto.
    simpl. destruct (eqb p k); auto.
  Qed.

  (* the buffers a fresh server ends up with: the given documents (the last one wins if a path is given twice) *)
  Lemma final_buffers_fresh : forall l p, fb (fresh l) p = lookup eqb p (rev l).
  Proof. intros. unfold final_buffers. rewrite fold_fresh. destruct (lookup eqb p (rev l)); auto. Qed.

  Lemma notified_fresh : forall l, l <> [] -> notified _ _ (fresh l) = true.
  Proof. destruct l as [|[k v] l]; [congruence|]. intros _. reflexivity. Qed.

  (* server-after-history = freshly started server given only the final buffer contents *)
  Theorem history_equals_fresh : forall h bufs o o',
    run_w w h = Ok o -> run_w w (fresh bufs) = Ok o' ->
    (forall p, fb h p = lookup eqb p (rev bufs)) -> bufs <> [] -> notified _ _ h = true ->
    (forall p, shown_for eqb o p = shown_for eqb o' p) /\
    (forall e o1 o1', is_request _ _ e = true -> run_w w (h ++ [e]) = Ok o1 -> run_w w (fresh bufs ++ [e]) = Ok o1' ->
       hd None (log o1) = hd None (log o1')).
  Proof.
    intros h bufs o o' E E' SB NE N.
    destruct (w_depends_only_on_buffers w ok h (fresh bufs) o o' E E') as [D R].
    { intro p. rewrite SB, final_buffers_fresh. reflexivity. }
    split; auto. apply D; auto. apply notified_fresh; auto.
  Qed.
End Fresh.

(* DapProofs.v -- proofs about the debug-adapter protocol model (model/Dap.v) against spec/DapSpec.v. *)
From Coq Require Import List ZArith Bool Lia.
Import ListNotations.
From Mos Require Import model.Dap Gen.DapShape spec.DapSpec.
Open Scope Z_scope.

Section DapProofs.
  Variable cpu : Type.
  Variable pc : cpu -> Z.
  Variable step : cpu -> cpu.
  Variable fin : cpu -> bool.
  Variable step_over : cpu -> cpu.
  Variable step_out : cpu -> cpu.
  Variable reset_lcp : bool.

  Notation st := (st cpu).
  Notation step_act := (step_act cpu pc step fin step_over step_out reset_lcp).
  Notation run := (run cpu pc step fin step_over step_out reset_lcp).
  Notation Inv := (Inv cpu pc).
  Notation init := (@init cpu).

  Ltac break_in H :=
    repeat match type of H with
           | context [match ?x with _ => _ end] => destruct x eqn:?; simpl in H; try discriminate H
           end.

  Ltac inv_some :=
    repeat match goal with
           | H : Some _ = Some _ |- _ => inversion H; subst; clear H
           end.

  (* ------------------------------------------------------------------ the repaired protocol *)

  (* inductive invariant of the StateHeld protocol *)
  Definition G (s : st) : Prop :=
    ((ml s = MRead \/ ml s = MChecked) -> rs s = Running) /\
    (forall p, rs s = Stopped p -> in_step cpu s = false -> p = pc (cp s)) /\
    (forall r q, sl s <> SPausePublish r q).

  Lemma G_init : forall c, G (init c).
  Proof.
    intro c. unfold G, init; simpl. repeat split; intros; try discriminate.
    destruct H; discriminate.
  Qed.

  Lemma entry_not_step : forall r, match entry r with
                                    | SPauseRead (RStep _) | SPausePublish _ _ => False
                                    | _ => True
                                    end.
  Proof. destruct r; simpl; auto. Qed.

  Ltac fin_tac :=
    simpl; repeat split; intros; auto; try discriminate;
    try (match goal with H : _ \/ _ |- _ => destruct H; discriminate end);
    try (match goal with H : Stopped _ = Stopped _ |- _ => inversion H; subst; auto end).

  Lemma G_step : forall a s s' o, G s -> step_act StateHeld a s = Some (s', o) -> G s'.
  Proof.
    intros a s s' o [G1 [G2 G3]] H.
    destruct s as [rs0 cp0 bps0 conn0 chan0 ml0 lcp0 sl0].
    unfold G, in_step in *; simpl in *.
    destruct a; simpl in H.
    - (* M_read_state *) break_in H; inv_some; fin_tac.
    - (* M_check_bp *)
      break_in H; inv_some. unfold do_check_bp; simpl.
      assert (rs0 = Running) by (apply G1; auto). subst.
      destruct (opt_eqb lcp0 (pc cp0)); simpl; [fin_tac|].
      destruct (hit bps0 (pc cp0)); fin_tac.
    - (* M_execute *)
      break_in H; inv_some. unfold do_execute; simpl.
      assert (rs0 = Running) by (apply G1; auto). subst.
      destruct (fin cp0); fin_tac.
    - (* S_req *) break_in H; inv_some; fin_tac. destruct r; simpl; discriminate.
    - (* S_start *) break_in H; inv_some; fin_tac.
    - (* S_resume *) break_in H; inv_some; fin_tac.
    - (* S_set_bps *) break_in H; inv_some; fin_tac.
    - break_in H; inv_some; fin_tac.
    - break_in H; inv_some; fin_tac.
    - break_in H; inv_some; fin_tac.
    - break_in H; inv_some; fin_tac.
    - break_in H; inv_some; fin_tac.
    - (* S_step_exec *) break_in H; inv_some; fin_tac.
    - (* S_pause_read_pc *)
      break_in H; inv_some; fin_tac.
      unfold state_locked in *; simpl in *. destruct H; subst; discriminate.
    - (* S_pause_publish *)
      break_in H; inv_some. exfalso. eapply G3; eauto.
    - (* S_event *) break_in H; inv_some; fin_tac.
    - (* P_poll *) break_in H; inv_some; fin_tac.
  Qed.

  Lemma G_run : forall tr s s', G s -> run StateHeld tr s = Some s' -> G s'.
  Proof.
    induction tr; simpl; intros s s' HG H.
    - inversion H; subst; auto.
    - destruct (step_act StateHeld a s) as [[s1 o]|] eqn:E; try discriminate.
      eapply IHtr; [eapply G_step; eauto | eauto].
  Qed.

  Lemma G_Inv : forall s, G s -> Inv s.
  Proof.
    intros s [G1 [G2 G3]] Hq p Hp. split.
    - unfold machine_cannot_execute. destruct (ml s) eqn:E; auto.
      + assert (rs s = Running) by (apply G1; auto). congruence.
      + assert (rs s = Running) by (apply G1; auto). congruence.
    - apply G2; auto.
  Qed.

  Theorem inv_stateheld : forall c0 tr s, run StateHeld tr (init c0) = Some s -> Inv s.
  Proof. intros. apply G_Inv. eapply G_run; [apply G_init | eauto]. Qed.

  Theorem stacktrace_is_cpu_pc : forall c0 tr s s' p,
    run StateHeld tr (init c0) = Some s ->
    step_act StateHeld S_stack s = Some (s', [OStack (Stopped p)]) ->
    p = pc (cp s) /\ machine_cannot_execute cpu s.
  Proof.
    intros c0 tr s s' p Hrun H.
    pose proof (inv_stateheld _ _ _ Hrun) as HI.
    simpl in H. destruct (sl s) eqn:E; try discriminate.
    break_in H. inversion H; subst.
    assert (in_step cpu s = false) by (unfold in_step; rewrite E; reflexivity).
    destruct (HI H0 p) as [A B]; auto.
  Qed.

  (* while stopped, nothing but a run-control request changes the CPU or the published state *)
  Lemma halted_step : forall a s s' o p,
    G s -> rs s = Stopped p -> observing cpu s = true -> run_control a = false ->
    step_act StateHeld a s = Some (s', o) ->
    cp s' = cp s /\ rs s' = Stopped p /\ observing cpu s' = true.
  Proof.
    intros a s s' o p [G1 [G2 G3]] Hrs Hobs Hrc H.
    destruct s as [rs0 cp0 bps0 conn0 chan0 ml0 lcp0 sl0].
    unfold observing in *; simpl in *. subst rs0.
    destruct a; simpl in H; simpl in Hrc; break_in H; inv_some; simpl; auto; try discriminate;
      try (assert (Stopped p = Running) by (apply G1; auto); discriminate).
    destruct r; simpl in *; auto; discriminate.
  Qed.

  Theorem halted_stable : forall tr s s' p,
    G s -> rs s = Stopped p -> observing cpu s = true ->
    forallb (fun a => negb (run_control a)) tr = true ->
    run StateHeld tr s = Some s' ->
    cp s' = cp s /\ rs s' = Stopped p /\ observing cpu s' = true.
  Proof.
    induction tr; simpl; intros s s' p HG Hrs Hobs Hall H.
    - inversion H; subst; auto.
    - apply andb_prop in Hall. destruct Hall as [Ha Hall].
      destruct (step_act StateHeld a s) as [[s1 o]|] eqn:E; try discriminate.
      destruct (halted_step a s s1 o p HG Hrs Hobs) as [A [B C]]; auto.
      { destruct (run_control a); auto; discriminate. }
      destruct (IHtr s1 s' p) as [A' [B' C']]; auto.
      { eapply G_step; eauto. }
      rewrite A' , A. auto.
  Qed.

  Theorem halted_stable_reachable : forall c0 tr0 tr s s' p,
    run StateHeld tr0 (init c0) = Some s -> rs s = Stopped p -> observing cpu s = true ->
    forallb (fun a => negb (run_control a)) tr = true ->
    run StateHeld tr s = Some s' ->
    cp s' = cp s /\ rs s' = Stopped p /\ p = pc (cp s').
  Proof.
    intros. assert (HG : G s) by (eapply G_run; [apply G_init | eauto]).
    destruct (halted_stable tr s s' p HG H0 H1 H2 H3) as [A [B C]].
    repeat split; auto. rewrite A.
    destruct HG as [_ [G2 _]]. apply G2; auto.
    unfold observing, in_step in *. destruct (sl s); try discriminate; auto.
  Qed.

  (* ------------------------------------------------------------------ the pinned (Legacy) protocol *)

  Definition race_schedule : list action :=
    [S_req RConfigDone; S_start; M_read_state; M_check_bp; S_req RPause; S_pause_read_pc; S_pause_publish; M_execute].

  Theorem pause_race_refuted : forall c0, fin c0 = false -> pc (step c0) <> pc c0 ->
    exists s, run Legacy race_schedule (init c0) = Some s /\
              sl s = SIdle /\ rs s = Stopped (pc c0) /\ cp s = step c0 /\ ~ Inv s.
  Proof.
    intros c0 Hf Hne. unfold race_schedule. simpl. unfold do_check_bp, do_execute; simpl. rewrite Hf; simpl.
    eexists; split; [reflexivity|]. simpl. repeat split; auto.
    intro HI. unfold DapSpec.Inv, in_step in HI; simpl in HI.
    destruct (HI eq_refl (pc c0) eq_refl) as [_ E]. auto.
  Qed.

  (* the same schedule without its last action: Stopped is published, the session is idle, and the machine thread
     is past its state check -- it will execute one more instruction *)
  Theorem pause_race_machine_still_executes : forall c0,
    exists s, run Legacy (removelast race_schedule) (init c0) = Some s /\
              sl s = SIdle /\ rs s = Stopped (pc c0) /\ ml s = MChecked /\ ~ machine_cannot_execute cpu s.
  Proof.
    intros c0. simpl. unfold do_check_bp; simpl.
    eexists; split; [reflexivity|]. simpl. repeat split; auto.
    intros [A|A]; discriminate.
  Qed.

  Definition budget (s : st) : nat := match ml s with MRead | MChecked => 1%nat | _ => 0%nat end.

  Lemma overrun_step : forall a s s' o,
    rs s <> Running -> is_resume a = false -> step_act Legacy a s = Some (s', o) ->
    rs s' <> Running /\ ((if is_exec a then 1 else 0) + budget s' <= budget s)%nat.
  Proof.
    intros a s s' o Hrs Hres H.
    destruct s as [rs0 cp0 bps0 conn0 chan0 ml0 lcp0 sl0]. unfold budget; simpl in *.
    destruct a; simpl in H; simpl in Hres; try discriminate; break_in H; inv_some; simpl; try (split; [auto; discriminate | lia]);
      try (exfalso; apply Hrs; reflexivity).
    - unfold do_check_bp; simpl. destruct (opt_eqb lcp0 (pc cp0)); simpl; [split; [auto|lia]|].
      destruct (hit bps0 (pc cp0)); simpl; split; auto; try discriminate; lia.
    - unfold do_execute; simpl. destruct (fin cp0); simpl; split; auto; lia.
  Qed.

  Lemma overrun_run : forall tr s s',
    rs s <> Running -> forallb (fun a => negb (is_resume a)) tr = true -> run Legacy tr s = Some s' ->
    rs s' <> Running /\ (count_exec tr + budget s' <= budget s)%nat.
  Proof.
    induction tr; simpl; intros s s' Hrs Hall H.
    - inversion H; subst. split; auto.
    - apply andb_prop in Hall. destruct Hall as [Ha Hall].
      destruct (step_act Legacy a s) as [[s1 o]|] eqn:E; try discriminate.
      destruct (overrun_step a s s1 o Hrs) as [A B]; auto.
      { destruct (is_resume a); auto; discriminate. }
      destruct (IHtr s1 s' A Hall H) as [A' B'].
      split; auto. unfold count_exec in *. simpl. destruct (is_exec a); simpl in *; lia.
  Qed.

  Theorem pause_overrun_le_1 : forall tr s s',
    rs s <> Running -> forallb (fun a => negb (is_resume a)) tr = true -> run Legacy tr s = Some s' ->
    (count_exec tr <= 1)%nat.
  Proof.
    intros tr s s' Hrs Hall H. destruct (overrun_run tr s s' Hrs Hall H) as [_ B].
    unfold budget in B. destruct (ml s); lia.
  Qed.

  Corollary pause_overrun_after_publish : forall s0 s1 o tr s2,
    step_act Legacy S_pause_publish s0 = Some (s1, o) ->
    forallb (fun a => negb (is_resume a)) tr = true -> run Legacy tr s1 = Some s2 ->
    (count_exec tr <= 1)%nat.
  Proof.
    intros s0 s1 o tr s2 H Hall Hrun. eapply pause_overrun_le_1; eauto.
    simpl in H. destruct (sl s0); try discriminate. inversion H; subst; simpl. discriminate.
  Qed.

  (* ------------------------------------------------------------------ breakpoints (repaired protocol) *)
  Notation bp_ok := (bp_ok cpu pc step fin step_over step_out reset_lcp).
  Notation disciplined := (disciplined cpu pc step fin step_over step_out reset_lcp).
  Notation no_self_loop := (no_self_loop cpu pc step fin).
  Notation in_step := (in_step cpu).

  Definition K (s : st) (seen : bool) : Prop :=
    G s /\
    (ml s = MChecked -> hit (bps s) (pc (cp s)) = true -> seen = true) /\
    (ml s <> MChecked -> lcp s = Some (pc (cp s)) -> in_step s = false -> hit (bps s) (pc (cp s)) = true -> seen = true) /\
    (forall p, rs s = Stopped p -> in_step s = false -> seen = true) /\
    ((in_step s = true \/ exists k, sl s = SStepExec k) -> exists p, rs s = Stopped p) /\
    (ml s = MChecked -> lcp s = Some (pc (cp s))) /\
    ((exists b, sl s = SSetBps b) -> rs s <> Running) /\
    (rs s = Launching -> lcp s = None).

  Lemma K_init : forall c, K (init c) false.
  Proof.
    intro c. unfold K. split; [apply G_init|]. unfold init, in_step; simpl.
    repeat split; intros; try discriminate; auto;
      try (destruct H as [H|[k H]]; discriminate); try (destruct H as [b H]; discriminate).
  Qed.

  Lemma opt_eqb_true : forall o p, opt_eqb o p = true -> o = Some p.
  Proof. intros [q|] p H; simpl in H; try discriminate. apply Z.eqb_eq in H. subst; auto. Qed.

  Lemma opt_eqb_some : forall p, opt_eqb (Some p) p = true.
  Proof. intros; simpl; apply Z.eqb_refl. Qed.

  Definition step_ok (a : action) (s : st) : Prop :=
    match a with
    | S_req (RStep _) => exists p, rs s = Stopped p
    | S_req (RSetBps _) => rs s <> Running
    | _ => True
    end.

  Definition violated (a : action) (s : st) (seen : bool) : bool :=
    match a with
    | M_execute => negb (fin (cp s)) && hit (bps s) (pc (cp s)) && negb seen
    | _ => false
    end.

  Definition seen_next (a : action) (s s' : st) (seen : bool) : bool :=
    if changes_cpu cpu fin a s then false
    else if publishes_here cpu pc StateHeld a s s' then true else seen.

  Lemma stopped_false : forall (r : rstate) (x : Z),
    match r with Stopped q => (q =? x) && false | _ => false end = false.
  Proof. destruct r; simpl; intros; auto using Bool.andb_false_r. Qed.

  Lemma K_step : forall a s s' o seen,
    (reset_lcp = false -> no_self_loop) -> K s seen -> step_ok a s -> step_act StateHeld a s = Some (s', o) ->
    violated a s seen = false /\ K s' (seen_next a s s' seen).
  Proof.
    intros a s s' o seen NSL HK Hok H.
    destruct HK as [HG [K1 [K2 [K3 [K4 [K5 [K6 K7]]]]]]].
    pose proof (G_step a s s' o HG H) as HG'.
    destruct HG as [G1 [G2 G3]].
    destruct s as [rs0 cp0 bps0 conn0 chan0 ml0 lcp0 sl0].
    unfold K, violated, seen_next, changes_cpu, publishes_here, in_step in *; simpl in *.
    Ltac kcase K1 K2 K3 K4 K6 :=
      repeat split; intros; auto; try discriminate; try congruence;
      try (match goal with H : _ \/ _ |- _ => destruct H as [H|[? H]]; try discriminate; try congruence end);
      try (match goal with H : exists _, _ |- _ => destruct H as [? H]; try discriminate; try congruence end);
      try solve [apply K1; auto | apply K2; auto; discriminate | eapply K3; eauto | apply K4; auto | eapply K6; eauto | eauto].
    destruct a; simpl in H; simpl in Hok.
    - (* M_read_state *)
      break_in H; inv_some; simpl; rewrite ?stopped_false, ?Bool.andb_false_r; (split; [reflexivity|]); (split; [exact HG'|]); kcase K1 K2 K3 K4 K6.
    - (* M_check_bp *)
      break_in H; inv_some.
      assert (RR : rs0 = Running) by (apply G1; auto). subst rs0.
      assert (NS : match sl0 with SPauseRead (RStep _) | SPausePublish (RStep _) _ => true | _ => false end = false).
      { destruct (match sl0 with SPauseRead (RStep _) | SPausePublish (RStep _) _ => true | _ => false end) eqn:E; auto.
        destruct K4 as [p Hp]; auto. discriminate. }
      unfold do_check_bp in *; simpl in *.
      destruct (opt_eqb lcp0 (pc cp0)) eqn:E; simpl in *.
      + apply opt_eqb_true in E. (split; [reflexivity|]); (split; [exact HG'|]); kcase K1 K2 K3 K4 K6.
      + destruct (hit bps0 (pc cp0)) eqn:Eh; simpl in *; rewrite ?Z.eqb_refl; simpl;
          (split; [reflexivity|]); (split; [exact HG'|]); kcase K1 K2 K3 K4 K6.
    - (* M_execute *)
      break_in H; inv_some.
      assert (RR : rs0 = Running) by (apply G1; auto). subst rs0.
      unfold do_execute in *; simpl in *.
      destruct (fin cp0) eqn:Ef; simpl in *.
      + (split; [reflexivity|]); (split; [exact HG'|]); kcase K1 K2 K3 K4 K6.
      + split.
        { destruct (hit bps0 (pc cp0)) eqn:Eh; simpl; auto. rewrite K1; auto. }
        (split; [exact HG'|]); kcase K1 K2 K3 K4 K6.
        destruct reset_lcp; [discriminate|].
        exfalso. apply (proj1 (Z.eqb_neq _ _) (NSL eq_refl cp0 Ef)). rewrite K5 in *; auto. congruence.
    - (* S_req *) 
      break_in H; inv_some; destruct r; simpl in *; rewrite ?stopped_false, ?Bool.andb_false_r; (split; [reflexivity|]); (split; [exact HG'|]); kcase K1 K2 K3 K4 K6.
    - break_in H; inv_some; simpl; rewrite ?stopped_false, ?Bool.andb_false_r; (split; [reflexivity|]); (split; [exact HG'|]); kcase K1 K2 K3 K4 K6.
    - break_in H; inv_some; simpl; rewrite ?stopped_false, ?Bool.andb_false_r; (split; [reflexivity|]); (split; [exact HG'|]); kcase K1 K2 K3 K4 K6.
    - (* S_set_bps *)
      break_in H; inv_some; simpl; rewrite ?stopped_false, ?Bool.andb_false_r; (split; [reflexivity|]); (split; [exact HG'|]).
      assert (NR : rs0 <> Running) by (apply K6; eauto).
      kcase K1 K2 K3 K4 K6; try solve [exfalso; apply NR; apply G1; auto];
        (destruct rs0; try congruence; [rewrite K7 in *; auto; discriminate | eapply K3; eauto]).
    - break_in H; inv_some; simpl; rewrite ?stopped_false, ?Bool.andb_false_r; (split; [reflexivity|]); (split; [exact HG'|]); kcase K1 K2 K3 K4 K6.
    - break_in H; inv_some; simpl; rewrite ?stopped_false, ?Bool.andb_false_r; (split; [reflexivity|]); (split; [exact HG'|]); kcase K1 K2 K3 K4 K6.
    - break_in H; inv_some; simpl; rewrite ?stopped_false, ?Bool.andb_false_r; (split; [reflexivity|]); (split; [exact HG'|]); kcase K1 K2 K3 K4 K6.
    - break_in H; inv_some; simpl; rewrite ?stopped_false, ?Bool.andb_false_r; (split; [reflexivity|]); (split; [exact HG'|]); kcase K1 K2 K3 K4 K6.
    - break_in H; inv_some; simpl; rewrite ?stopped_false, ?Bool.andb_false_r; (split; [reflexivity|]); (split; [exact HG'|]); kcase K1 K2 K3 K4 K6.
    - (* S_step_exec *)
      break_in H; inv_some; simpl; (split; [reflexivity|]); (split; [exact HG'|]).
      assert (ST : exists p, rs0 = Stopped p) by (apply K4; right; eauto).
      destruct ST as [p0 ST]. subst rs0.
      kcase K1 K2 K3 K4 K6; try solve [exfalso; assert (Stopped p0 = Running) by (apply G1; auto); discriminate].
    - (* S_pause_read_pc *)
      break_in H; inv_some; simpl; rewrite ?Z.eqb_refl; simpl; (split; [reflexivity|]); (split; [exact HG'|]);
        kcase K1 K2 K3 K4 K6.
    - (* S_pause_publish *)
      break_in H; inv_some. exfalso. eapply G3; eauto.
    - break_in H; inv_some; simpl; rewrite ?stopped_false, ?Bool.andb_false_r; (split; [reflexivity|]); (split; [exact HG'|]); kcase K1 K2 K3 K4 K6.
    - break_in H; inv_some; simpl; rewrite ?stopped_false, ?Bool.andb_false_r; (split; [reflexivity|]); (split; [exact HG'|]); kcase K1 K2 K3 K4 K6.
  Qed.

  Lemma bp_run : forall tr s seen,
    (reset_lcp = false -> no_self_loop) -> K s seen -> disciplined StateHeld tr s = true -> bp_ok StateHeld tr s seen = true.
  Proof.
    induction tr; simpl; intros s seen NSL HK HD; auto.
    destruct (step_act StateHeld a s) as [[s1 o]|] eqn:E; auto.
    assert (Hok : step_ok a s).
    { unfold step_ok. destruct a; auto. destruct r; auto.
      - destruct (rs s); try discriminate. eauto.
      - destruct (rs s); try discriminate; congruence. }
    destruct (K_step a s s1 o seen NSL HK Hok E) as [V HK'].
    assert (HD' : disciplined StateHeld tr s1 = true).
    { destruct a; auto. destruct r; auto; destruct (rs s); auto; discriminate. }
    unfold violated in V. unfold seen_next in HK'.
    apply andb_true_intro. split.
    - destruct a; auto. rewrite V. reflexivity.
    - apply IHtr; auto.
  Qed.

  Theorem bp_no_overrun : forall c0 tr,
    (reset_lcp = false -> no_self_loop) -> disciplined StateHeld tr (init c0) = true -> bp_ok StateHeld tr (init c0) false = true.
  Proof. intros. apply bp_run; auto. apply K_init. Qed.

  (* ------------------------------------------------------------------ breakpoints replaced during a free run *)
  Notation bp_ok_live := (bp_ok_live cpu pc step fin step_over step_out reset_lcp).
  Notation steps_when_stopped := (steps_when_stopped cpu pc step fin step_over step_out reset_lcp).

  Definition KL (s : st) (seen exempt : bool) : Prop :=
    G s /\
    (ml s = MChecked -> hit (bps s) (pc (cp s)) = true -> seen = true \/ exempt = true) /\
    (ml s <> MChecked -> conn s = true -> lcp s = Some (pc (cp s)) -> in_step s = false -> seen = true) /\
    (forall p, rs s = Stopped p -> in_step s = false -> seen = true) /\
    ((in_step s = true \/ exists k, sl s = SStepExec k) -> exists p, rs s = Stopped p) /\
    (ml s = MChecked -> lcp s = Some (pc (cp s))) /\
    ((ml s = MRead \/ ml s = MChecked) -> conn s = true).

  Lemma KL_init : forall c, KL (init c) false false.
  Proof.
    intro c. unfold KL. split; [apply G_init|]. unfold init, in_step; simpl.
    repeat split; intros; try discriminate; auto;
      try (destruct H as [H|[k H]]; discriminate); try (destruct H; discriminate).
  Qed.

  Definition step_ok_live (a : action) (s : st) : Prop :=
    match a with
    | S_req (RStep _) => exists p, rs s = Stopped p
    | _ => True
    end.

  Definition violated_live (a : action) (s : st) (seen exempt : bool) : bool :=
    match a with
    | M_execute => negb (fin (cp s)) && hit (bps s) (pc (cp s)) && negb seen && negb exempt
    | _ => false
    end.

  Definition exempt_next (a : action) (s : st) (exempt : bool) : bool :=
    match a with
    | M_execute => false
    | S_set_bps => exempt || match ml s with MChecked => true | _ => false end
    | _ => exempt
    end.

  Lemma KL_step : forall a s s' o seen exempt,
    (reset_lcp = false -> no_self_loop) -> KL s seen exempt -> step_ok_live a s -> step_act StateHeld a s = Some (s', o) ->
    violated_live a s seen exempt = false /\ KL s' (seen_next a s s' seen) (exempt_next a s exempt).
  Proof.
    intros a s s' o seen exempt NSL HK Hok H.
    destruct HK as [HG [K1 [K2 [K3 [K4 [K5 K9]]]]]].
    pose proof (G_step a s s' o HG H) as HG'.
    destruct HG as [G1 [G2 G3]].
    destruct s as [rs0 cp0 bps0 conn0 chan0 ml0 lcp0 sl0].
    unfold KL, violated_live, exempt_next, seen_next, changes_cpu, publishes_here, in_step in *; simpl in *.
    Ltac lcase K1 K2 K3 K4 K9 :=
      repeat split; intros; auto; try discriminate; try congruence;
      try (match goal with H : _ = _ \/ _ = _ |- _ => destruct H; discriminate end);
      try (match goal with H : _ \/ _ |- _ => destruct H as [H|[? H]]; try discriminate; try congruence end);
      try (match goal with H : exists _, _ |- _ => destruct H as [? H]; try discriminate; try congruence end);
      try solve [apply K1; auto | apply K2; auto; discriminate | eapply K3; eauto | apply K4; auto | apply K9; auto | eauto].
    destruct a; simpl in H; simpl in Hok.
    - (* M_read_state *)
      break_in H; inv_some; simpl; rewrite ?stopped_false, ?Bool.andb_false_r; (split; [reflexivity|]); (split; [exact HG'|]); lcase K1 K2 K3 K4 K9.
      all: try (apply Bool.negb_false_iff; assumption).
    - (* M_check_bp *)
      break_in H; inv_some.
      assert (RR : rs0 = Running) by (apply G1; auto). subst rs0.
      assert (CN : conn0 = true) by (apply K9; auto).
      assert (NS : match sl0 with SPauseRead (RStep _) | SPausePublish (RStep _) _ => true | _ => false end = false).
      { destruct (match sl0 with SPauseRead (RStep _) | SPausePublish (RStep _) _ => true | _ => false end) eqn:E; auto.
        destruct K4 as [p Hp]; auto. discriminate. }
      unfold do_check_bp in *; simpl in *.
      destruct (opt_eqb lcp0 (pc cp0)) eqn:E; simpl in *.
      + apply opt_eqb_true in E. (split; [reflexivity|]); (split; [exact HG'|]); lcase K1 K2 K3 K4 K9.
        left. apply K2; auto; discriminate.
      + destruct (hit bps0 (pc cp0)) eqn:Eh; simpl in *; rewrite ?Z.eqb_refl; simpl;
          (split; [reflexivity|]); (split; [exact HG'|]); lcase K1 K2 K3 K4 K9.
    - (* M_execute *)
      break_in H; inv_some.
      assert (RR : rs0 = Running) by (apply G1; auto). subst rs0.
      unfold do_execute in *; simpl in *.
      destruct (fin cp0) eqn:Ef; simpl in *.
      + (split; [reflexivity|]); (split; [exact HG'|]); lcase K1 K2 K3 K4 K9.
      + split.
        { destruct (hit bps0 (pc cp0)) eqn:Eh; simpl; auto.
          destruct (K1 eq_refl eq_refl) as [A|A]; rewrite A; simpl; auto. destruct seen; auto. }
        (split; [exact HG'|]); lcase K1 K2 K3 K4 K9.
        destruct reset_lcp; [discriminate|].
        exfalso. apply (proj1 (Z.eqb_neq _ _) (NSL eq_refl cp0 Ef)). rewrite K5 in *; auto. congruence.
    - (* S_req *)
      break_in H; inv_some; destruct r; simpl in *; rewrite ?stopped_false, ?Bool.andb_false_r; (split; [reflexivity|]); (split; [exact HG'|]); lcase K1 K2 K3 K4 K9.
    - break_in H; inv_some; simpl; rewrite ?stopped_false, ?Bool.andb_false_r; (split; [reflexivity|]); (split; [exact HG'|]); lcase K1 K2 K3 K4 K9.
    - break_in H; inv_some; simpl; rewrite ?stopped_false, ?Bool.andb_false_r; (split; [reflexivity|]); (split; [exact HG'|]); lcase K1 K2 K3 K4 K9.
    - (* S_set_bps *)
      break_in H; inv_some; simpl; rewrite ?stopped_false, ?Bool.andb_false_r; (split; [reflexivity|]); (split; [exact HG'|]); lcase K1 K2 K3 K4 K9.
      right. subst. apply Bool.orb_true_r.
    - break_in H; inv_some; simpl; rewrite ?stopped_false, ?Bool.andb_false_r; (split; [reflexivity|]); (split; [exact HG'|]); lcase K1 K2 K3 K4 K9.
    - break_in H; inv_some; simpl; rewrite ?stopped_false, ?Bool.andb_false_r; (split; [reflexivity|]); (split; [exact HG'|]); lcase K1 K2 K3 K4 K9.
    - break_in H; inv_some; simpl; rewrite ?stopped_false, ?Bool.andb_false_r; (split; [reflexivity|]); (split; [exact HG'|]); lcase K1 K2 K3 K4 K9.
    - break_in H; inv_some; simpl; rewrite ?stopped_false, ?Bool.andb_false_r; (split; [reflexivity|]); (split; [exact HG'|]); lcase K1 K2 K3 K4 K9.
    - break_in H; inv_some; simpl; rewrite ?stopped_false, ?Bool.andb_false_r; (split; [reflexivity|]); (split; [exact HG'|]); lcase K1 K2 K3 K4 K9.
    - (* S_step_exec *)
      break_in H; inv_some; simpl; (split; [reflexivity|]); (split; [exact HG'|]).
      assert (ST : exists p, rs0 = Stopped p) by (apply K4; right; eauto).
      destruct ST as [p0 ST]. subst rs0.
      lcase K1 K2 K3 K4 K9; try solve [exfalso; assert (Stopped p0 = Running) by (apply G1; auto); discriminate].
    - (* S_pause_read_pc *)
      break_in H; inv_some; simpl; rewrite ?Z.eqb_refl; simpl; (split; [reflexivity|]); (split; [exact HG'|]);
        lcase K1 K2 K3 K4 K9.
    - (* S_pause_publish *)
      break_in H; inv_some. exfalso. eapply G3; eauto.
    - (* S_event *) break_in H; inv_some; simpl; rewrite ?stopped_false, ?Bool.andb_false_r; (split; [reflexivity|]); (split; [exact HG'|]); lcase K1 K2 K3 K4 K9.
    - (* P_poll *) break_in H; inv_some; simpl; rewrite ?stopped_false, ?Bool.andb_false_r; (split; [reflexivity|]); (split; [exact HG'|]); lcase K1 K2 K3 K4 K9.
  Qed.

  Lemma bp_live_run : forall tr s seen exempt,
    (reset_lcp = false -> no_self_loop) -> KL s seen exempt -> steps_when_stopped StateHeld tr s = true ->
    bp_ok_live StateHeld tr s seen exempt = true.
  Proof.
    induction tr; simpl; intros s seen exempt NSL HK HD; auto.
    destruct (step_act StateHeld a s) as [[s1 o]|] eqn:E; auto.
    assert (Hok : step_ok_live a s).
    { unfold step_ok_live. destruct a; auto. destruct r; auto. destruct (rs s); try discriminate. eauto. }
    destruct (KL_step a s s1 o seen exempt NSL HK Hok E) as [V HK'].
    assert (HD' : steps_when_stopped StateHeld tr s1 = true).
    { destruct a; auto. destruct r; auto; destruct (rs s); auto; discriminate. }
    unfold violated_live in V. unfold seen_next, exempt_next in HK'.
    apply andb_true_intro. split.
    - destruct a; auto. rewrite V. reflexivity.
    - apply IHtr; auto.
  Qed.

  Theorem bp_no_overrun_live : forall c0 tr,
    (reset_lcp = false -> no_self_loop) -> steps_when_stopped StateHeld tr (init c0) = true ->
    bp_ok_live StateHeld tr (init c0) false false = true.
  Proof. intros. apply bp_live_run; auto. apply KL_init. Qed.

  (* ------------------------------------------------------------------ the session thread survives every request *)
  Definition no_launch_event (e : mevent) : Prop :=
    match e with RSC Launching _ => False | RSC _ Launching => False | _ => True end.

  Definition needs_running_machine (l : sloc) : bool :=
    match l with SResume | SPauseRead _ | SPausePublish _ _ | SStepExec _ => true | _ => false end.

  Definition NInv (s : st) : Prop :=
    Forall no_launch_event (chan s) /\
    sl s <> SDead /\
    (needs_running_machine (sl s) = true -> rs s <> Launching) /\
    ((ml s = MRead \/ ml s = MChecked) -> rs s <> Launching).

  Lemma NInv_init : forall c, NInv (init c).
  Proof.
    intro c. unfold NInv, init; simpl. repeat split; intros; try discriminate; auto.
    destruct H; discriminate.
  Qed.

  Lemma Forall_app1 : forall (l : list mevent) e, Forall no_launch_event l -> no_launch_event e -> Forall no_launch_event (l ++ [e]).
  Proof. intros. apply Forall_app. split; auto. Qed.

  Lemma no_launch_rsc : forall a b, a <> Launching -> b <> Launching -> no_launch_event (RSC a b).
  Proof. intros [| |p] [| |q] Ha Hb; simpl; auto. Qed.

  Lemma NInv_step : forall p a s s' o, NInv s -> step_act p a s = Some (s', o) -> NInv s'.
  Proof.
    intros p a s s' o [N1 [N2 [N3 N4]]] H.
    destruct s as [rs0 cp0 bps0 conn0 chan0 ml0 lcp0 sl0].
    unfold NInv in *; simpl in *.
    destruct a; simpl in H.
    - (* M_read_state *) break_in H; inv_some; simpl; repeat split; intros; auto; try discriminate;
        try (match goal with H : _ \/ _ |- _ => destruct H; discriminate end).
    - (* M_check_bp *)
      break_in H; inv_some. unfold do_check_bp; simpl.
      assert (R : rs0 <> Launching) by (apply N4; auto).
      destruct (opt_eqb lcp0 (pc cp0)); simpl; [repeat split; intros; auto|].
      destruct (hit bps0 (pc cp0)); simpl; repeat split; intros; auto; try discriminate.
      apply Forall_app1; auto. apply no_launch_rsc; auto; discriminate.
    - (* M_execute *)
      break_in H; inv_some. unfold do_execute; simpl.
      destruct (fin cp0); simpl; repeat split; intros; auto; try discriminate;
        try (match goal with H : _ \/ _ |- _ => destruct H; discriminate end).
      apply Forall_app. split; auto. repeat constructor.
    - (* S_req *)
      break_in H; inv_some; simpl; repeat split; intros; auto; try discriminate.
      + destruct r; simpl in *; discriminate.
      + destruct r; simpl in *; try discriminate; destruct rs0; simpl in *; try discriminate.
    - break_in H; inv_some; simpl; repeat split; intros; auto; try discriminate.
    - (* S_resume *)
      break_in H; inv_some; simpl; repeat split; intros; auto; try discriminate.
      apply Forall_app1; auto. apply no_launch_rsc; auto; discriminate.
    - break_in H; inv_some; simpl; repeat split; intros; auto; try discriminate.
    - break_in H; inv_some; simpl; repeat split; intros; auto; try discriminate.
    - break_in H; inv_some; simpl; repeat split; intros; auto; try discriminate.
    - break_in H; inv_some; simpl; repeat split; intros; auto; try discriminate.
    - break_in H; inv_some; simpl; repeat split; intros; auto; try discriminate.
    - break_in H; inv_some; simpl; repeat split; intros; auto; try discriminate.
    - (* S_step_exec *) break_in H; inv_some; simpl; repeat split; intros; auto; try discriminate.
    - (* S_pause_read_pc *)
      break_in H; inv_some; simpl; repeat split; intros; auto; try discriminate.
      apply Forall_app1; auto. apply no_launch_rsc; auto; discriminate.
    - (* S_pause_publish *)
      break_in H; inv_some; simpl; repeat split; intros; auto; try discriminate.
      apply Forall_app1; auto. apply no_launch_rsc; auto; discriminate.
    - (* S_event *)
      break_in H; inv_some; simpl; inversion N1; subst; repeat split; intros; auto; try discriminate.
      all: exfalso; destruct m as [[| |?] [| |?]| |]; simpl in *; auto; discriminate.
    - break_in H; inv_some; simpl; repeat split; intros; auto; try discriminate.
  Qed.

  Theorem session_never_dies : forall p c0 tr s, run p tr (init c0) = Some s -> sl s <> SDead.
  Proof.
    intros p c0 tr. generalize (NInv_init c0). generalize (init c0).
    induction tr; simpl; intros s0 HN s H.
    - inversion H; subst. apply HN.
    - destruct (step_act p a s0) as [[s1 o]|] eqn:E; try discriminate.
      eapply IHtr; [eapply NInv_step; eauto | eauto].
  Qed.
End DapProofs.

(* a one-instruction loop (`hang: jmp hang`) with a breakpoint on it: after the first stop and `continue`, the loop
   instruction executes again and again without another stop -- last_checked_pc never changes.  CPU: pc constant,
   the state counts executed instructions. *)
Definition self_loop_schedule : list action :=
  [S_req (RSetBps [(7, 8)]); S_set_bps; S_req RConfigDone; S_start;
   M_read_state; M_check_bp; S_event; S_req RContinue; S_resume;
   M_read_state; M_check_bp; M_execute; M_read_state; M_check_bp; M_execute].

Theorem bp_self_loop_refuted :
  exists (cpu : Type) (pc : cpu -> Z) (step : cpu -> cpu) (fin : cpu -> bool) (so sout : cpu -> cpu) (c0 : cpu),
    disciplined cpu pc step fin so sout false StateHeld self_loop_schedule (init c0) = true /\
    run cpu pc step fin so sout false StateHeld self_loop_schedule (init c0) <> None /\
    bp_ok cpu pc step fin so sout false StateHeld self_loop_schedule (init c0) false = false.
Proof.
  exists Z, (fun _ => 7), Z.succ, (fun _ => false), Z.succ, Z.succ, 0.
  vm_compute. repeat split; discriminate.
Qed.

(* the current adapter (protocol and last_checked_pc handling as read off the source): no guard on the program *)
Lemma bp_no_overrun_adapter : forall (cpu : Type) (pc : cpu -> Z) (step : cpu -> cpu) (fin : cpu -> bool)
    (step_over step_out : cpu -> cpu) (c0 : cpu) (tr : list action),
  disciplined cpu pc step fin step_over step_out adapter_reset_lcp adapter_protocol tr (init c0) = true ->
  bp_ok cpu pc step fin step_over step_out adapter_reset_lcp adapter_protocol tr (init c0) false = true.
Proof. intros. apply bp_no_overrun; auto. intro H0. discriminate H0. Qed.

Lemma bp_no_overrun_live_adapter : forall (cpu : Type) (pc : cpu -> Z) (step : cpu -> cpu) (fin : cpu -> bool)
    (step_over step_out : cpu -> cpu) (c0 : cpu) (tr : list action),
  steps_when_stopped cpu pc step fin step_over step_out adapter_reset_lcp adapter_protocol tr (init c0) = true ->
  bp_ok_live cpu pc step fin step_over step_out adapter_reset_lcp adapter_protocol tr (init c0) false false = true.
Proof. intros. apply bp_no_overrun_live; auto. intro H0. discriminate H0. Qed.

Lemma event_table_ok : forall e : mevent, event_of e = gen_event_of e.
Proof. intros [[| |p] [| |q]| |]; reflexivity. Qed.

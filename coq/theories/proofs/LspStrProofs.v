(* Proofs about the string / code-map layer of model/Lsp.v (Parts A-C). *)
From Coq Require Import List NArith Arith Bool Lia.
From Mos Require Import model.Utf model.Lsp.
Import ListNotations.

Lemma width_utf8_pos : forall c, 1 <= width_utf8 c.
Proof. intro c. unfold width_utf8. repeat destruct (_ <? _)%N; lia. Qed.

Lemma byte_len_app : forall a b, byte_len (a ++ b) = byte_len a + byte_len b.
Proof. induction a; simpl; intros; auto. rewrite IHa. lia. Qed.

(* n is a char boundary of s *)
Definition is_char_boundary (s : text) (n : nat) : Prop := exists a b, s = a ++ b /\ byte_len a = n.

Lemma split_at_byte_sound : forall s n a b, split_at_byte n s = Some (a, b) -> s = a ++ b /\ byte_len a = n.
Proof.
  induction s as [|c r IH]; intros n a b H; destruct n; cbn [split_at_byte] in H; try discriminate.
  - inversion H; subst. split; reflexivity.
  - inversion H; subst. split; reflexivity.
  - pose proof (width_utf8_pos c) as Hw.
    destruct (width_utf8 c <=? S n) eqn:E; [|discriminate].
    apply Nat.leb_le in E.
    destruct (split_at_byte (S n - width_utf8 c) r) as [[a' b']|] eqn:E2; cbv beta iota in H; [|discriminate].
    inversion H; subst. apply IH in E2. destruct E2 as [-> Hb]. simpl. split; auto. lia.
Qed.

Lemma split_at_byte_complete : forall a b, split_at_byte (byte_len a) (a ++ b) = Some (a, b).
Proof.
  induction a as [|c a IH]; intro b.
  - destruct b; reflexivity.
  - pose proof (width_utf8_pos c) as Hw.
    cbn [byte_len app]. destruct (width_utf8 c + byte_len a) eqn:E; [lia|].
    cbn [split_at_byte]. rewrite <- E.
    replace (width_utf8 c <=? width_utf8 c + byte_len a) with true by (symmetry; apply Nat.leb_le; lia).
    replace (width_utf8 c + byte_len a - width_utf8 c) with (byte_len a) by lia.
    rewrite IH. reflexivity.
Qed.

Theorem split_at_byte_spec : forall n s a b, split_at_byte n s = Some (a, b) <-> (s = a ++ b /\ byte_len a = n).
Proof.
  split. apply split_at_byte_sound. intros [-> <-]. apply split_at_byte_complete.
Qed.

Lemma split_at_byte_none : forall n s, split_at_byte n s = None <-> ~ is_char_boundary s n.
Proof.
  intros. split.
  - intros H [a [b [-> <-]]]. rewrite split_at_byte_complete in H. discriminate.
  - intro H. destruct (split_at_byte n s) as [[a b]|] eqn:E; auto.
    exfalso. apply H. apply split_at_byte_sound in E. exists a, b. auto.
Qed.

(* &s[..n], &s[n..], split_at(n) panic exactly off the char boundaries (which includes n > len) *)
Theorem str_slice_to_panics_iff : forall s n, str_slice_to s n = Panic <-> ~ is_char_boundary s n.
Proof.
  intros. unfold str_slice_to. rewrite <- split_at_byte_none.
  destruct (split_at_byte n s) as [[a b]|]; split; intro; congruence.
Qed.
Theorem str_slice_from_panics_iff : forall s n, str_slice_from s n = Panic <-> ~ is_char_boundary s n.
Proof.
  intros. unfold str_slice_from. rewrite <- split_at_byte_none.
  destruct (split_at_byte n s) as [[a b]|]; split; intro; congruence.
Qed.
Theorem str_split_at_panics_iff : forall s n, str_split_at s n = Panic <-> ~ is_char_boundary s n.
Proof.
  intros. unfold str_split_at. rewrite <- split_at_byte_none.
  destruct (split_at_byte n s) as [[a b]|]; split; intro; congruence.
Qed.

Lemma boundary_le_len : forall s n, is_char_boundary s n -> n <= byte_len s.
Proof. intros s n [a [b [-> <-]]]. rewrite byte_len_app. lia. Qed.

(* a boundary past the end does not exist: "column past the end of the line" *)
Corollary str_slice_to_past_end : forall s n, byte_len s < n -> str_slice_to s n = Panic.
Proof. intros. apply str_slice_to_panics_iff. intro B. apply boundary_le_len in B. lia. Qed.

(* inside a multi-byte character *)
Corollary str_slice_to_inside_char : forall a c b k, 0 < k < width_utf8 c -> str_slice_to (a ++ c :: b) (byte_len a + k) = Panic.
Proof.
  intros a c b k Hk. apply str_slice_to_panics_iff. intros [x [y [E L]]].
  revert x E L. induction a as [|d a IH]; intros x E L; simpl in *.
  - destruct x as [|e x]; simpl in *; [lia|]. inversion E; subst. pose proof (width_utf8_pos e). lia.
  - destruct x as [|e x]; simpl in *.
    + pose proof (width_utf8_pos d). lia.
    + inversion E; subst. apply (IH x); auto. lia.
Qed.

Lemma str_slice_ok : forall a m b, str_slice (a ++ m ++ b) (byte_len a) (byte_len a + byte_len m) = Ok m.
Proof.
  intros. unfold str_slice.
  replace (byte_len a + byte_len m <? byte_len a) with false by (symmetry; apply Nat.ltb_ge; lia).
  rewrite split_at_byte_complete.
  replace (byte_len a + byte_len m - byte_len a) with (byte_len m) by lia.
  rewrite split_at_byte_complete. reflexivity.
Qed.

(* ---------------------------------------------------------------- lines *)
(* the text split at '\n' (terminator kept at the end of each line), as the line table sees it *)
Fixpoint split_nl (s : text) : list text :=
  match s with
  | [] => [[]]
  | c :: r => match split_nl r with
              | l :: ls => if is_nl c then [c] :: l :: ls else (c :: l) :: ls
              | [] => [[c]]
              end
  end.

Lemma split_nl_nonempty : forall s, split_nl s <> [].
Proof. destruct s; simpl; [discriminate|]. destruct (split_nl s); [discriminate|]. destruct (is_nl n); discriminate. Qed.

Lemma split_nl_concat : forall s, concat (split_nl s) = s.
Proof.
  induction s as [|c r IH]; simpl; auto.
  destruct (split_nl r) as [|l ls] eqn:E.
  - exfalso. eapply split_nl_nonempty; eauto.
  - destruct (is_nl c); simpl in *; rewrite IH; reflexivity.
Qed.

(* offsets of the line starts, computed from the split *)
Fixpoint starts_of (off : nat) (ls : list text) : list nat :=
  match ls with
  | [] => []
  | l :: r => off :: starts_of (off + byte_len l) r
  end.

Lemma is_nl_width : forall c, is_nl c = true -> width_utf8 c = 1.
Proof. intros c H. unfold is_nl in H. apply N.eqb_eq in H. subst. reflexivity. Qed.

Lemma line_starts_split : forall s off,
  off :: line_starts_from off s = starts_of off (split_nl s).
Proof.
  induction s as [|c r IH]; intro off; simpl; auto.
  destruct (split_nl r) as [|l ls] eqn:E.
  - exfalso. eapply split_nl_nonempty; eauto.
  - destruct (is_nl c) eqn:N.
    + simpl. rewrite (is_nl_width _ N). f_equal.
      rewrite IH. simpl. reflexivity.
    + simpl. specialize (IH (off + width_utf8 c)). simpl in IH.
      inversion IH. f_equal. rewrite H0. f_equal. lia.
Qed.

Lemma lines_split : forall s, lines s = starts_of 0 (split_nl s).
Proof. intro. unfold lines. apply line_starts_split. Qed.

Lemma starts_of_length : forall ls off, length (starts_of off ls) = length ls.
Proof. induction ls; simpl; intros; auto. Qed.

Lemma num_lines_split : forall s, num_lines s = length (split_nl s).
Proof. intro. unfold num_lines. rewrite lines_split. apply starts_of_length. Qed.

Fixpoint total_len (ls : list text) : nat := match ls with [] => 0 | l :: r => byte_len l + total_len r end.
Lemma total_len_concat : forall ls, byte_len (concat ls) = total_len ls.
Proof. induction ls; simpl; auto. rewrite byte_len_app. lia. Qed.

Lemma starts_of_nth : forall ls off i d, i < length ls ->
  nth i (starts_of off ls) d = off + total_len (firstn i ls).
Proof.
  induction ls as [|l r IH]; intros off i d H; simpl in *; [lia|].
  destruct i; simpl; [lia|]. rewrite IH by lia. lia.
Qed.

Lemma starts_of_nth_default : forall ls off i d, length ls <= i -> nth i (starts_of off ls) d = d.
Proof. intros. apply nth_overflow. rewrite starts_of_length. auto. Qed.

Lemma firstn_S_nth : forall (A : Type) (l : list A) i d, i < length l -> firstn (S i) l = firstn i l ++ [nth i l d].
Proof.
  induction l; intros i d H; simpl in *; [lia|]. destruct i; simpl; auto. f_equal. apply IHl. lia.
Qed.

Lemma total_len_app : forall a b, total_len (a ++ b) = total_len a + total_len b.
Proof. induction a; simpl; intros; auto. rewrite IHa. lia. Qed.

Lemma concat_split3 : forall (ls : list text) i, i < length ls ->
  concat ls = concat (firstn i ls) ++ nth i ls [] ++ concat (skipn (S i) ls).
Proof.
  induction ls as [|l r IH]; intros i H; simpl in *; [lia|].
  destruct i; simpl; auto. rewrite <- app_assoc. f_equal. apply IH. lia.
Qed.

Lemma skipn_last_one : forall (A : Type) (l : list A) i d, length l = S i -> skipn i l = [nth i l d].
Proof.
  induction l; intros i d H; simpl in *; [lia|]. destruct i; simpl.
  - destruct l; simpl in *; [reflexivity|lia].
  - apply IHl. lia.
Qed.

(* line_span returns exactly the byte range of the i-th line of the split *)
Lemma line_span_split : forall s i, i < num_lines s ->
  line_span s i = Ok (total_len (firstn i (split_nl s)), total_len (firstn i (split_nl s)) + byte_len (nth i (split_nl s) [])).
Proof.
  intros s i H. unfold line_span.
  replace (i <? num_lines s) with true by (symmetry; apply Nat.ltb_lt; auto).
  rewrite num_lines_split in H. rewrite lines_split. f_equal. f_equal.
  - rewrite starts_of_nth by auto. lia.
  - destruct (Nat.lt_ge_cases (i + 1) (length (split_nl s))).
    + rewrite starts_of_nth by auto. replace (i + 1) with (S i) by lia.
      rewrite (firstn_S_nth text (split_nl s) i [] H). rewrite total_len_app. simpl. lia.
    + rewrite starts_of_nth_default by auto.
      rewrite <- (split_nl_concat s) at 1. rewrite total_len_concat.
      rewrite <- (firstn_skipn i (split_nl s)) at 1. rewrite total_len_app. f_equal.
      assert (length (split_nl s) = S i) by lia.
      rewrite (skipn_last_one text (split_nl s) i []) by lia. simpl. lia.
Qed.

Theorem source_line_ok : forall s i, i < num_lines s ->
  source_line s i = Ok (trim_end_nl (nth i (split_nl s) [])).
Proof.
  intros s i H. unfold source_line. rewrite line_span_split by auto. cbn [bind fst snd].
  rewrite num_lines_split in H.
  unfold source_slice.
  assert (E : s = concat (firstn i (split_nl s)) ++ nth i (split_nl s) [] ++ concat (skipn (S i) (split_nl s))).
  { rewrite <- concat_split3 by auto. symmetry. apply split_nl_concat. }
  set (a := concat (firstn i (split_nl s))) in *.
  set (m := nth i (split_nl s) []) in *.
  set (b := concat (skipn (S i) (split_nl s))) in *.
  assert (La : total_len (firstn i (split_nl s)) = byte_len a) by (unfold a; symmetry; apply total_len_concat).
  rewrite La. clearbody a m b. clear La H. rewrite E.
  replace (byte_len (a ++ m ++ b) <? byte_len a + byte_len m) with false.
  2:{ symmetry. apply Nat.ltb_ge. rewrite !byte_len_app. lia. }
  rewrite str_slice_ok. reflexivity.
Qed.

(* source_line panics exactly for a line number past the end of the file *)
Theorem source_line_panics_iff : forall s i, source_line s i = Panic <-> num_lines s <= i.
Proof.
  intros s i. split.
  - intro H. destruct (Nat.lt_ge_cases i (num_lines s)) as [L|L]; auto.
    rewrite source_line_ok in H by auto. discriminate.
  - intro H. unfold source_line, line_span.
    replace (i <? num_lines s) with false by (symmetry; apply Nat.ltb_ge; auto). reflexivity.
Qed.

Lemma num_lines_pos : forall s, 1 <= num_lines s.
Proof. intro. unfold num_lines, lines. simpl. lia. Qed.

(* ---------------------------------------------------------------- handlers: client positions *)
Section HandlerProofs.
  Variable is_alnum_non_ascii : N -> bool.
  Notation prr := (prepare_rename_range is_alnum_non_ascii).
  Notation csc := (completion_scope is_alnum_non_ascii).

  Lemma position_lt : forall p s i, position p s = Some i -> i < length s.
  Proof.
    induction s as [|c r IH]; simpl; intros i H; [discriminate|].
    destruct (p c). inversion H; lia.
    destruct (position p r); simpl in H; [|discriminate]. inversion H. specialize (IH n eq_refl). lia.
  Qed.
  Lemma rposition_lt : forall p s i, rposition p s = Some i -> i < length s.
  Proof.
    induction s as [|c r IH]; simpl; intros i H; [discriminate|].
    destruct (rposition p r).
    - inversion H. specialize (IH n eq_refl). lia.
    - destruct (p c); [|discriminate]. inversion H. lia.
  Qed.

  (* what prepareRename computes, for EVERY line/column a client may send *)
  Theorem prepare_rename_range_spec : forall src line col,
    (line < num_lines src /\ col <= length (trim_end_nl (nth line (split_nl src) [])) ->
       exists s e, prr src line col = Ok (Some (s, e)) /\ s <= col <= e /\ e <= length (trim_end_nl (nth line (split_nl src) []))) /\
    (~ (line < num_lines src /\ col <= length (trim_end_nl (nth line (split_nl src) []))) ->
       prr src line col = Ok None).
  Proof.
    intros src line col. unfold prepare_rename_range. split.
    - intros [HL HC].
      replace (num_lines src <=? line) with false by (symmetry; apply Nat.leb_gt; auto).
      rewrite source_line_ok by auto. cbn [bind].
      set (l := trim_end_nl (nth line (split_nl src) [])) in *.
      replace (length l <? col) with false by (symmetry; apply Nat.ltb_ge; auto).
      unfold vec_slice_to, vec_slice_from.
      replace (length l <? col) with false by (symmetry; apply Nat.ltb_ge; auto). cbn [bind].
      set (start := match rposition _ (firstn col l) with Some p => p + 1 | None => 0 end).
      set (e := match position _ (skipn col l) with Some p => p | None => length (skipn col l) end).
      assert (Hs : start <= col).
      { unfold start. destruct (rposition _ (firstn col l)) eqn:E; [|lia].
        apply rposition_lt in E. rewrite firstn_length in E. lia. }
      assert (He : col + e <= length l).
      { unfold e. destruct (position _ (skipn col l)) eqn:E.
        - apply position_lt in E. rewrite skipn_length in E. lia.
        - rewrite skipn_length. lia. }
      replace ((col + e <? start) || (length l <? col + e)) with false.
      2:{ symmetry. apply orb_false_iff. split; apply Nat.ltb_ge; lia. }
      exists start, (col + e). repeat split; auto; lia.
    - intro H.
      destruct (num_lines src <=? line) eqn:E; auto.
      apply Nat.leb_gt in E. rewrite source_line_ok by auto. cbn [bind].
      replace (length (trim_end_nl (nth line (split_nl src) [])) <? col) with true; auto.
      symmetry. apply Nat.ltb_lt. destruct (Nat.lt_ge_cases (length (trim_end_nl (nth line (split_nl src) []))) col); auto.
      exfalso. apply H. split; auto.
  Qed.

  Theorem prepare_rename_range_total : forall src line col, prr src line col <> Panic.
  Proof.
    intros src line col.
    destruct (prepare_rename_range_spec src line col) as [A B].
    destruct (Nat.lt_ge_cases line (num_lines src)) as [L|L];
      [destruct (Nat.le_gt_cases col (length (trim_end_nl (nth line (split_nl src) [])))) as [C|C]|].
    - destruct (A (conj L C)) as [s [e [-> _]]]. discriminate.
    - rewrite B by lia. discriminate.
    - rewrite B by lia. discriminate.
  Qed.

  Theorem completion_scope_total : forall src line col, csc src line col <> Panic.
  Proof.
    intros src line col. unfold completion_scope.
    destruct (num_lines src <=? line) eqn:E; [discriminate|].
    apply Nat.leb_gt in E. rewrite source_line_ok by auto. cbn [bind].
    set (l := trim_end_nl (nth line (split_nl src) [])).
    destruct ((col <=? length l) && (0 <? col)) eqn:G; [|discriminate].
    apply andb_true_iff in G. destruct G as [G1 G2]. apply Nat.leb_le in G1. apply Nat.ltb_lt in G2.
    replace (length l <? col - 1) with false by (symmetry; apply Nat.ltb_ge; lia).
    destruct (skipn (col - 1) l) as [|c r]; [discriminate|].
    destruct (N.eqb c DOT); [|discriminate].
    destruct (rposition _ (firstn (col - 1) l)) eqn:R.
    - apply rposition_lt in R.
      replace (length (firstn (col - 1) l) <? n + 1) with false by (symmetry; apply Nat.ltb_ge; lia). discriminate.
    - simpl. discriminate.
  Qed.

  (* the scope prefix is a suffix of the text in front of the dot and contains no scope separator *)
  Lemma rposition_none : forall p s, rposition p s = None -> forallb (fun c => negb (p c)) s = true.
  Proof.
    induction s as [|c r IH]; simpl; intro H; auto.
    destruct (rposition p r); [discriminate|]. destruct (p c); [discriminate|]. simpl. auto.
  Qed.
  Lemma rposition_some : forall p s i, rposition p s = Some i -> forallb (fun c => negb (p c)) (skipn (i + 1) s) = true.
  Proof.
    induction s as [|c r IH]; simpl; intros i H; [discriminate|].
    destruct (rposition p r) eqn:E.
    - inversion H; subst. simpl. apply IH. reflexivity.
    - destruct (p c); [|discriminate]. inversion H; subst. simpl. apply rposition_none. auto.
  Qed.
End HandlerProofs.

(* packaged statements for props/C14.v *)
Lemma str_slicing_panics_iff : forall s n,
  (str_slice_to s n = Panic <-> ~ is_char_boundary s n) /\
  (str_slice_from s n = Panic <-> ~ is_char_boundary s n) /\
  (str_split_at s n = Panic <-> ~ is_char_boundary s n).
Proof. intros. repeat split; first [apply str_slice_to_panics_iff | apply str_slice_from_panics_iff | apply str_split_at_panics_iff]. Qed.
Lemma str_slice_past_end_or_inside_char : forall a c b k,
  (byte_len a < k -> str_slice_to a k = Panic) /\
  (0 < k < width_utf8 c -> str_slice_to (a ++ c :: b) (byte_len a + k) = Panic).
Proof. intros. split. apply str_slice_to_past_end. apply str_slice_to_inside_char. Qed.
Lemma source_line_spec : forall src line,
  (source_line src line = Panic <-> num_lines src <= line) /\
  (line < num_lines src -> source_line src line = Ok (trim_end_nl (nth line (split_nl src) []))).
Proof. intros. split. apply source_line_panics_iff. apply source_line_ok. Qed.
Lemma handlers_total : forall alnum src line col,
  prepare_rename_range alnum src line col <> Panic /\ completion_scope alnum src line col <> Panic.
Proof. intros. split. apply prepare_rename_range_total. apply completion_scope_total. Qed.

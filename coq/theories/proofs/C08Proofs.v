(* C08, parser side: trivia at a slot is invisible to the wrapped parser; every keyword is matched in any ASCII
   case; the block-comment scanner consumes exactly a well-nested comment; a bounded statement-level sweep. *)
From Coq Require Import List NArith Bool Arith Lia.
Import ListNotations.
From Mos Require Import model.Utf model.Nom Gen.ParserTables model.Parser model.Display spec.Lossless spec.LayoutEquiv
  proofs.NomProofs proofs.TriviaProofs.
Open Scope N_scope.

(* ---------------------------------------------------------------- decidable skeleton equality *)
Lemma text_eqb_eq a : forall b, text_eqb a b = true -> a = b.
Proof.
  induction a as [|x a IH]; intros [|y b] H; try discriminate; [reflexivity|].
  cbn in H. apply andb_true_iff in H. destruct H as [H1 H2]. apply N.eqb_eq in H1. f_equal; auto.
Qed.
Lemma sx_eqb_eq : forall a b, sx_eqb a b = true -> a = b.
Proof.
  fix IH 1. intros [k t l] [k' t' l'] H. cbn [sx_eqb] in H.
  apply andb_true_iff in H. destruct H as [H H3]. apply andb_true_iff in H. destruct H as [H1 H2].
  apply N.eqb_eq in H1. apply text_eqb_eq in H2. subst. f_equal.
  revert l' H3. induction l as [|x r IHl]; intros [|y r'] H3; try discriminate; [reflexivity|].
  apply andb_true_iff in H3. destruct H3 as [Hx Hr]. f_equal; [apply IH; exact Hx|apply IHl; exact Hr].
Qed.
Lemma sxl_eqb_eq l : forall l', sxl_eqb l l' = true -> l = l'.
Proof.
  induction l as [|x r IH]; intros [|y r'] H; try discriminate; [reflexivity|].
  cbn in H. apply andb_true_iff in H. destruct H as [H1 H2]. f_equal; [apply sx_eqb_eq; assumption|auto].
Qed.

(* ---------------------------------------------------------------- a trivia slot *)
(* whatever trivia the trivia parser tp consumes in front of x, the wrapped parser sees x: if it is blind to
   position and state, the two results agree (values up to R, same remaining text) *)
Lemma with_trivia_slot {A} (R : A -> A -> Prop) (tp : parser ltrivia) (p : parser A) :
  blind R p ->
  forall st st' o o' tr tr' x T T' s1 s1',
    opt tp st (mkIn o (tr ++ x)) = (s1, Ok T (mkIn (o + blen tr) x)) ->
    opt tp st' (mkIn o' (tr' ++ x)) = (s1', Ok T' (mkIn (o' + blen tr') x)) ->
    same_res (fun l l' => R (data l) (data l'))
             (snd (with_trivia tp p st (mkIn o (tr ++ x)))) (snd (with_trivia tp p st' (mkIn o' (tr' ++ x)))).
Proof.
  intros Hb st st' o o' tr tr' x T T' s1 s1' E1 E2. unfold with_trivia. rewrite E1, E2.
  specialize (Hb s1 s1' (o + blen tr) (o' + blen tr') x).
  destruct (p s1 (mkIn (o + blen tr) x)) as [a [v r| |u]], (p s1' (mkIn (o' + blen tr') x)) as [b [v' r'| |u']]; cbn in *; auto.
Qed.
Lemma ws_slot {A} (R : A -> A -> Prop) (p : parser A) :
  blind R p ->
  forall st st' o o' tr tr' x T T' s1 s1',
    opt trivia_p st (mkIn o (tr ++ x)) = (s1, Ok T (mkIn (o + blen tr) x)) ->
    opt trivia_p st' (mkIn o' (tr' ++ x)) = (s1', Ok T' (mkIn (o' + blen tr') x)) ->
    same_res (fun l l' => R (data l) (data l')) (snd (ws p st (mkIn o (tr ++ x)))) (snd (ws p st' (mkIn o' (tr' ++ x)))).
Proof. intros. unfold ws. eapply with_trivia_slot; eassumption. Qed.
Lemma mws_slot {A} (R : A -> A -> Prop) (p : parser A) :
  blind R p ->
  forall st st' o o' tr tr' x T T' s1 s1',
    opt multiline_trivia st (mkIn o (tr ++ x)) = (s1, Ok T (mkIn (o + blen tr) x)) ->
    opt multiline_trivia st' (mkIn o' (tr' ++ x)) = (s1', Ok T' (mkIn (o' + blen tr') x)) ->
    same_res (fun l l' => R (data l) (data l')) (snd (mws p st (mkIn o (tr ++ x)))) (snd (mws p st' (mkIn o' (tr' ++ x)))).
Proof. intros. unfold mws. eapply with_trivia_slot; eassumption. Qed.

(* terminals are blind (examples that the hypothesis of the slot lemmas is satisfiable) *)
Lemma blind_satisfy f : blind eq (satisfy f).
Proof. intros st st' o o' x. unfold satisfy. cbn. destruct x as [|c r]; cbn; auto. destruct (f c); cbn; auto. Qed.
Lemma blind_take_while1 f : blind eq (take_while1_p f).
Proof.
  intros st st' o o' x. unfold take_while1_p. cbn. destruct (take_while f x) as [a b]. destruct a; cbn; auto.
Qed.
Lemma blind_tag_no_case t : blind eq (tag_no_case t).
Proof.
  intros st st' o o' x. unfold tag_no_case. cbn. destruct (take_bytes x (length t)) as [a b| |]; cbn; auto.
  destruct (ci_eqb a t && negb (word_tag t && starts_ident b)); cbn; auto.
Qed.

(* ---------------------------------------------------------------- keyword case *)
Lemma ascii_lower_small c x : x < 128 -> ascii_lower c = ascii_lower x -> c < 128.
Proof.
  unfold ascii_lower. intros Hx H.
  destruct ((65 <=? c) && (c <=? 90)) eqn:Ec; destruct ((65 <=? x) && (x <=? 90)) eqn:Ex;
    repeat match goal with
           | H : _ && _ = true |- _ => apply andb_true_iff in H; destruct H
           | H : (_ <=? _) = true |- _ => apply N.leb_le in H
           end; lia.
Qed.
Lemma width1 c : c < 128 -> width_utf8 c = 1%nat.
Proof. intros H. unfold width_utf8. apply N.ltb_lt in H. rewrite H. reflexivity. Qed.
Lemma ci_eq_ascii a t : ci_eq a t -> forallb (fun x => x <? 128) t = true -> forallb (fun x => x <? 128) a = true.
Proof.
  induction 1 as [|x y a t Hxy Hat IH]; intros Ht; [reflexivity|]. cbn in *. apply andb_true_iff in Ht. destruct Ht as [H1 H2].
  apply andb_true_iff. split; [|auto]. apply N.ltb_lt in H1. apply N.ltb_lt. eapply ascii_lower_small; eassumption.
Qed.
Lemma take_bytes_ascii a : forallb (fun x => x <? 128) a = true -> forall x, take_bytes (a ++ x) (length a) = BExact a x.
Proof.
  induction a as [|c a IH]; intros Ha x; cbn [app length].
  - destruct x; reflexivity.
  - cbn in Ha. apply andb_true_iff in Ha. destruct Ha as [Hc Ha]. apply N.ltb_lt in Hc.
    cbn [take_bytes]. rewrite (width1 c Hc). cbn [Nat.leb]. replace (S (length a) - 1)%nat with (length a) by lia.
    rewrite (IH Ha x). reflexivity.
Qed.
Lemma ci_eq_eqb a t : ci_eq a t -> ci_eqb a t = true.
Proof. induction 1; cbn; [reflexivity|]. rewrite H, N.eqb_refl. assumption. Qed.
Lemma ci_eq_length a t : ci_eq a t -> length a = length t.
Proof. induction 1; cbn; congruence. Qed.

(* an ASCII tag is matched by every spelling that differs from it in ASCII letter case only, with the same result,
   provided the keyword ends at a word boundary (a tag that starts with a letter is not followed by an identifier character) *)
Definition boundary (t x : text) : Prop := word_tag t && starts_ident x = false.
Lemma tag_case t : forallb (fun x => x <? 128) t = true ->
  forall a x st o, ci_eq a t -> boundary t x -> tag_no_case t st (mkIn o (a ++ x)) = (st, Ok a (mkIn (o + blen a) x)).
Proof.
  intros Ht a x st o Hc Hb. unfold tag_no_case. cbn [rem]. rewrite <- (ci_eq_length _ _ Hc).
  rewrite (take_bytes_ascii a (ci_eq_ascii _ _ Hc Ht)). rewrite (ci_eq_eqb _ _ Hc). unfold boundary in Hb. rewrite Hb. reflexivity.
Qed.
(* ... and inside a longer word it is not matched at all *)
Lemma tag_inside_word t : forallb (fun x => x <? 128) t = true ->
  forall a x st o, ci_eq a t -> word_tag t && starts_ident x = true -> tag_no_case t st (mkIn o (a ++ x)) = (st, Err).
Proof.
  intros Ht a x st o Hc Hb. unfold tag_no_case. cbn [rem]. rewrite <- (ci_eq_length _ _ Hc).
  rewrite (take_bytes_ascii a (ci_eq_ascii _ _ Hc Ht)). rewrite (ci_eq_eqb _ _ Hc), Hb. reflexivity.
Qed.
Lemma all_tags_ascii : forallb (fun t => forallb (fun x => x <? 128) t) all_keyword_tags = true.
Proof. vm_compute. reflexivity. Qed.
Lemma keyword_case t : In t all_keyword_tags ->
  forall a x st o, ci_eq a t -> boundary t x -> tag_no_case t st (mkIn o (a ++ x)) = (st, Ok a (mkIn (o + blen a) x)).
Proof.
  intros Hin. apply tag_case. pose proof all_tags_ascii as H. rewrite forallb_forall in H. apply H. assumption.
Qed.
Lemma keyword_word t : In t all_keyword_tags ->
  forall a x st o, ci_eq a t -> word_tag t && starts_ident x = true -> tag_no_case t st (mkIn o (a ++ x)) = (st, Err).
Proof.
  intros Hin. apply tag_inside_word. pose proof all_tags_ascii as H. rewrite forallb_forall in H. apply H. assumption.
Qed.

(* ---------------------------------------------------------------- the block comment scanner *)
Lemma scan_plain c s depth : c <> 47 -> c <> 42 -> s <> [] ->
  c_comment_scan depth (c :: s) = let '(a, b, t) := c_comment_scan depth s in (c :: a, b, t).
Proof.
  intros H1 H2 Hs. destruct s as [|d r]; [congruence|]. cbn [c_comment_scan].
  assert (E1 : (c =? 47) = false) by (apply N.eqb_neq; assumption).
  assert (E2 : (c =? 42) = false) by (apply N.eqb_neq; assumption).
  rewrite E1, E2. cbn. reflexivity.
Qed.

(* a well-nested body followed by the closing delimiter: consumed exactly; scanning continues (depth > 0) or stops *)
Lemma scan_body b : cbody b -> forall depth rest,
  c_comment_scan depth (b ++ 42 :: 47 :: rest) =
  match depth with
  | O => (b ++ [42; 47], rest, true)
  | S k => let '(a, r, t) := c_comment_scan k rest in (b ++ 42 :: 47 :: a, r, t)
  end.
Proof.
  induction 1 as [|c s Hc1 Hc2 Hs IH|b s Hb IHb Hs IHs]; intros depth rest.
  - cbn [app c_comment_scan]. cbn. destruct depth; [reflexivity|]. destruct (c_comment_scan depth rest) as [[a r] t]. reflexivity.
  - cbn [app]. rewrite scan_plain; [|assumption|assumption|destruct s; discriminate].
    rewrite IH. destruct depth; [reflexivity|]. destruct (c_comment_scan depth rest) as [[a r] t]. reflexivity.
  - cbn [app]. rewrite <- app_assoc. cbn [app].
    change (c_comment_scan depth (47 :: 42 :: b ++ 42 :: 47 :: s ++ 42 :: 47 :: rest))
      with (let '(a, r, t) := c_comment_scan (S depth) (b ++ 42 :: 47 :: s ++ 42 :: 47 :: rest) in (47 :: 42 :: a, r, t)).
    rewrite IHb. rewrite IHs. destruct depth.
    + rewrite <- !app_assoc. reflexivity.
    + destruct (c_comment_scan depth rest) as [[a r] t]. rewrite <- !app_assoc. reflexivity.
Qed.

(* c_comment on a well-nested comment: exactly the comment is consumed, whatever follows; no state change *)
Theorem c_comment_nested b rest st o : cbody b ->
  c_comment st (mkIn o (47 :: 42 :: b ++ 42 :: 47 :: rest)) =
  (st, Ok (47 :: 42 :: b ++ [42; 47], true) (mkIn (o + blen (47 :: 42 :: b ++ [42; 47])) rest)).
Proof.
  intros Hb. cbv [c_comment tag t_slash_star is_prefix rem firstn skipn length N.eqb Pos.eqb andb].
  cbn [rem consume]. rewrite (scan_body b Hb 0 rest). reflexivity.
Qed.
